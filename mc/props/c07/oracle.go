// Execution of one case on the real server and the oracles (i)-(vi) of C07.
package main

import (
	"bytes"
	"encoding/binary"
	"fmt"
	"net"
	"regexp"
	"runtime"
	"sort"
	"strings"
	"sync/atomic"

	"github.com/gofiber/fiber/v3"

	"verifmc/core"
	"verifmc/fx"
)

// Allocation budget (oracle iii): bytes allocated while serving one connection must stay below
// budgetA + budgetB*len(request). This is an ORDER-OF-MAGNITUDE oracle: the constants are fixed
// (so the verdict is deterministic) and were calibrated on the unchanged tree: over the whole
// quick enumeration the largest benign case (pools just emptied by a GC cycle, request body
// decoded by every binder, all header maps built) stays below 25% of the budget - the measured
// fraction is written into every evidence file (alloc_budget.max_fraction_used_by_cases_within_budget).
const (
	budgetA = 1 << 20 // 1 MiB per connection
	budgetB = 512     // bytes per request byte
)

func budgetFor(reqLen int) uint64 { return budgetA + budgetB*uint64(reqLen) }

type result struct {
	out   []byte
	pan   *probePanic
	alloc uint64
	resps []Resp
	perr  *ParseErr
}

type worker struct {
	r      *core.Run
	l      *core.Local
	cfgIdx int
	st     *appState
	app    *fiber.App
	rb     *reqBuilder
	qs     []string
	file   string
	f1tag  string // "" = family 1; "f8" while a family-8 shard (configuration combinations) runs the same cases
	f5tag  string // "" = family 5; "f7" while a family-7 shard (HTAB separators) runs the same parsers
	f4     *f4App // non-nil while a family-4 shard runs (the app is then a shape app, not cfgs[cfgIdx])

	caseNo   int64 // number of the case being executed (worker-local, deterministic)
	caseAtom atomic.Int64
	shardPos int
	prog     []byte // shared mapping: [0:8] caseNo, [8:16] shard position, [16] reason
	skip     map[int64]bool
	after    int64
	only     int64
	trace    bool
	cpuCap   float64

	maxFrac   float64 // largest alloc/budget among cases within budget
	maxAlloc  uint64
	maxAllocN int
	maxDesc   string
	samples   map[string][]any    // at most two per family
	seen      map[uint64]struct{} // request bytes already run in the current shard (hashes)
	ms0, ms1  runtime.MemStats
}

func (w *worker) useCfg(i int) {
	if w.app != nil && w.cfgIdx == i && w.f4 == nil {
		return
	}
	w.f4 = nil
	w.cfgIdx = i
	w.st = &appState{qs: w.qs, file: w.file}
	w.app = buildApp(&cfgsEvery[i], w.st)
	// warm-up, not judged: one-time initialisations (encoder caches, decoder tables, pools) are
	// not a per-request cost
	for _, q := range warmRequests {
		serveRecover(w.app, fx.NewWireConn([]byte(q), nil))
	}
}

var warmRequests = []string{
	"GET /all HTTP/1.1\r\nHost: h\r\n\r\n",
	"POST /all HTTP/1.1\r\nHost: h\r\nContent-Type: application/x-www-form-urlencoded\r\nContent-Length: 3\r\n\r\na=b",
	"POST /all HTTP/1.1\r\nHost: h\r\nContent-Type: application/json\r\nContent-Length: 9\r\n\r\n{\"a\":\"b\"}",
	"GET /h/Set?i=1 HTTP/1.1\r\nHost: h\r\n\r\n",
}

func (w *worker) cfg() *cfgT { return &cfgsEvery[w.cfgIdx] }

// sample keeps at most two explored cases per family (and hands them to core's l.Sample).
func (w *worker) sample(fam string, v map[string]any) {
	if w.samples == nil {
		w.samples = map[string][]any{}
	}
	if len(w.samples[fam]) < 2 {
		w.samples[fam] = append(w.samples[fam], v)
		w.l.Sample(v)
	}
}

// firstTime reports whether these request bytes are new in the current shard; repeated byte
// strings (two edits or two letter sets that spell the same request) are run but not counted
// as distinct inputs.
func (w *worker) firstTime(req []byte) bool {
	h := uint64(14695981039346656037)
	for _, c := range req {
		h = (h ^ uint64(c)) * 1099511628211
	}
	if _, dup := w.seen[h]; dup {
		w.l.Add("duplicate_inputs_within_shard", 1)
		return false
	}
	w.seen[h] = struct{}{}
	return true
}

func (w *worker) ctxKind() string {
	if w.f4 != nil {
		if w.f4.cfg.CustomCtx {
			return "custom"
		}
		return "default"
	}
	if w.cfg().Custom {
		return "custom"
	}
	return "default"
}

// serveRecover runs ServeConn; a panic that escapes the server is recovered HERE (fasthttp has
// no recover of its own: in production it would kill the process).
func serveRecover(app *fiber.App, conn net.Conn) (pan *probePanic) {
	defer func() {
		if v := recover(); v != nil {
			pan = &probePanic{Probe: "(server)", Msg: normMsg(v), At: panicSite()}
		}
	}()
	_ = app.Server().ServeConn(conn)
	return nil
}

// begin numbers the case; false = the case is skipped (known crasher / not the selected one).
func (w *worker) begin(desc func() map[string]any) bool {
	w.caseNo++
	n := w.caseNo
	if w.only >= 0 && n != w.only {
		return false
	}
	if w.skip[n] || n <= w.after {
		return false
	}
	w.caseAtom.Store(n)
	if w.prog != nil {
		binary.LittleEndian.PutUint64(w.prog[0:8], uint64(n))
	}
	if w.trace {
		fmt.Printf("CASE %d %s\n", n, core.Key(desc()))
	}
	return true
}

func (w *worker) exec(req []byte) *result {
	w.st.reset()
	conn := fx.NewWireConn(req, nil)
	runtime.ReadMemStats(&w.ms0)
	pan := serveRecover(w.app, conn)
	runtime.ReadMemStats(&w.ms1)
	res := &result{pan: pan, alloc: w.ms1.TotalAlloc - w.ms0.TotalAlloc}
	res.out = conn.Output()
	return res
}

// remeasure repeats the request on a FRESH, warmed application so that the figure does not
// depend on what earlier cases left in pooled contexts.
func (w *worker) remeasure(req []byte) uint64 {
	st := &appState{qs: w.qs, file: w.file}
	var app *fiber.App
	if w.f4 != nil {
		app = buildShapeApp(w.f4, st)
		for _, q := range warmRequests4 {
			serveRecover(app, fx.NewWireConn([]byte(q), nil))
		}
	} else {
		app = buildApp(w.cfg(), st)
		for _, q := range warmRequests {
			serveRecover(app, fx.NewWireConn([]byte(q), nil))
		}
	}
	conn := fx.NewWireConn(req, nil)
	var a, b runtime.MemStats
	runtime.ReadMemStats(&a)
	serveRecover(app, conn)
	runtime.ReadMemStats(&b)
	return b.TotalAlloc - a.TotalAlloc
}

func firstToken(req []byte) string {
	i := 0
	for i < len(req) && (req[i] == '\r' || req[i] == '\n') {
		i++
	}
	j := i
	for j < len(req) && req[j] != ' ' && req[j] != '\r' && req[j] != '\n' {
		j++
	}
	return string(req[i:j])
}

// headerBlockEnds counts the places where a header block can end (LF CRLF / LF LF): an upper
// bound on the number of requests the byte stream contains.
func headerBlockEnds(req []byte) int {
	n := 0
	for i := 0; i+1 < len(req); i++ {
		if req[i] != '\n' {
			continue
		}
		if req[i+1] == '\n' || (req[i+1] == '\r' && i+2 < len(req) && req[i+2] == '\n') {
			n++
		}
	}
	return n
}

// announcesBody: the bytes mention a body framing header anywhere (deliberately coarse).
func announcesBody(req []byte) bool {
	low := bytes.ToLower(req)
	return bytes.Contains(low, []byte("content-length")) || bytes.Contains(low, []byte("transfer-encoding"))
}

func finals(rs []Resp) (n int, first *Resp) {
	for i := range rs {
		if !rs[i].Interim {
			if first == nil {
				first = &rs[i]
			}
			n++
		}
	}
	return
}

func clipReq(b []byte) string {
	if len(b) > 700 {
		return fmt.Sprintf("%q...(%d bytes)", b[:700], len(b))
	}
	return fmt.Sprintf("%q", b)
}

var dateRe = regexp.MustCompile(`Date: [A-Za-z]{3}, [0-9]{2} [A-Za-z]{3} [0-9]{4} [0-9:]{8} GMT`)

// clipOut renders written bytes for a report (the Date value is masked so that replay files are
// identical from run to run).
func clipOut(b []byte) string {
	b = dateRe.ReplaceAll(b, []byte("Date: <date>"))
	if len(b) > 900 {
		return fmt.Sprintf("%q...(%d bytes)", b[:900], len(b))
	}
	return fmt.Sprintf("%q", b)
}

type judgeOpts struct {
	fam          string
	exactlyOne   bool                   // the stream holds exactly one request: exactly one final response is required
	skipParse    bool                   // response syntax is not judged (argument outside the documented domain)
	allocTrigger string                 // names the input class in an allocation signature
	minTrigger   func() string          // optional: narrows the class (called only when the budget is exceeded)
	parseSig     func(*ParseErr) string // family 3: classifies a response-syntax error per helper
	inputCls     string                 // families 4, 5: names the input class (kind of application shape) in panic signatures; the target class is in the case
	noResponseOK bool                   // family 6: the handler closes the connection without answering (Drop): no response is the documented outcome
}

// judgeCommon applies oracles (i) panic, (iii) allocation, (iv) strict parse + response count,
// and the "no unmapped 5xx" part of (vi). It returns the first final response (or nil).
func (w *worker) judgeCommon(req []byte, res *result, desc func() map[string]any, o judgeOpts) *Resp {
	l := w.l
	kind := w.ctxKind()
	// (i) panics
	if res.pan != nil {
		sig := fmt.Sprintf("panic escapes ServeConn at=%s msg=%q ctx=%s", res.pan.At, res.pan.Msg, kind)
		if o.inputCls != "" {
			sig += " input=" + o.inputCls
		}
		l.Violate(sig,
			"a panic escaped the request handler: fasthttp does not recover, the server process would die",
			desc(), map[string]any{"panic": res.pan, "written": clipOut(res.out)}, "no panic")
	}
	for _, p := range w.st.panics {
		sig := fmt.Sprintf("panic in accessor probe=%s at=%s msg=%q ctx=%s", p.Probe, p.At, p.Msg, kind)
		if o.inputCls != "" {
			sig += " input=" + o.inputCls
		}
		l.Violate(sig,
			"a context accessor panicked inside the handler (recovered by the harness probe; unrecovered it kills the server)",
			desc(), p, "no panic")
	}
	// (iii) allocation budget
	bud := budgetFor(len(req))
	if res.alloc > bud {
		again := w.remeasure(req)
		if again < res.alloc {
			res.alloc = again
		}
	}
	if res.alloc > bud {
		if o.minTrigger != nil {
			o.allocTrigger = o.minTrigger()
		}
		l.Violate(fmt.Sprintf("alloc-over-budget trigger=%s", o.allocTrigger),
			"bytes allocated while serving the connection exceed A + B*len(request) (re-measured on a fresh application)",
			desc(), map[string]any{"allocated_bytes": res.alloc, "request_bytes": len(req)}, map[string]any{"budget_bytes": bud, "A": budgetA, "B": budgetB})
	} else {
		if f := float64(res.alloc) / float64(bud); f > w.maxFrac {
			w.maxFrac, w.maxAlloc, w.maxAllocN = f, res.alloc, len(req)
			w.maxDesc = core.Key(desc())
		}
	}
	if res.pan != nil {
		return nil // nothing sensible was written
	}
	// (iv) strict parse
	res.resps, res.perr = ParseStream(res.out, firstToken(req) == "HEAD")
	nf, first := finals(res.resps)
	if res.perr != nil {
		if o.skipParse {
			l.Add("unspecified_skipped", 1)
			return nil
		}
		sig := fmt.Sprintf("malformed-response fam=%s class=%s where=%s header=%s", o.fam, res.perr.Class, res.perr.Where, knownHeader(res.perr.Header))
		if o.parseSig != nil {
			sig = o.parseSig(res.perr)
		}
		l.Violate(sig, "the bytes written by the server are not a well-formed HTTP/1.1 response sequence for a strict client",
			desc(), map[string]any{"error": res.perr.Error(), "written": clipOut(res.out)}, "status line, token ':' value lines without CR/LF/NUL, exact framing, nothing after the body")
		return first
	}
	for i := range res.resps {
		if res.resps[i].BodyDespiteHead {
			l.Add("unspecified_skipped", 1)
			l.Add("head_error_response_with_body_on_close", 1)
		}
	}
	// response count
	ends := headerBlockEnds(req)
	switch {
	case o.exactlyOne && nf != 1:
		l.Violate(fmt.Sprintf("response-count fam=%s got=%s want=1", o.fam, countCls(nf)),
			"one request was sent but the server did not write exactly one final response", desc(), clipOut(res.out), 1)
	case nf > ends+1:
		l.Violate(fmt.Sprintf("response-count fam=%s more-responses-than-requests", o.fam),
			"the server wrote more final responses than the byte stream can hold requests", desc(), map[string]any{"responses": nf, "written": clipOut(res.out)}, map[string]any{"max": ends + 1})
	case nf == 0 && ends > 0 && len(firstToken(req)) > 0 && announcesBody(req):
		// The head announces a body; the bytes after it may be an unfinished body followed by
		// EOF, i.e. a client that went away mid-request: answering nothing is then legitimate
		// (fasthttp treats EOF at a chunk boundary that way). Unspecified.
		l.Add("unspecified_skipped", 1)
		l.Add("no_response_to_request_with_body_framing", 1)
	case nf == 0 && o.noResponseOK:
	case nf == 0 && ends > 0 && len(firstToken(req)) > 0:
		// a complete body-less request head was received and nothing was answered
		l.Violate(fmt.Sprintf("response-count fam=%s no-response", o.fam),
			"a complete request head was sent and the server answered nothing", desc(), clipOut(res.out), ">=1 response")
	}
	// (vi) no unmapped 5xx: 501 (unknown method) and 505 are the only 5xx a request may cause here
	for i := range res.resps {
		st := res.resps[i].Status
		if st >= 500 && st != 501 && st != 505 {
			l.Violate(fmt.Sprintf("unexpected-5xx fam=%s status=%d errhandler-code=%d", o.fam, st, w.st.ehCode),
				"the server answered 5xx to client bytes (malformed requests must map to 4xx, unknown methods to 501)", desc(), clipOut(res.out), "4xx or 501")
		}
	}
	if w.st.ehCalls > 0 && (w.st.ehCode < 400 || (w.st.ehCode >= 500 && w.st.ehCode != 501 && w.st.ehCode != 505)) {
		l.Violate(fmt.Sprintf("errhandler-code-not-4xx fam=%s code=%d", o.fam, w.st.ehCode),
			"the error handler was invoked with a non-4xx code for client bytes", desc(), clipOut(res.out), "4xx")
	}
	return first
}

var responseHeaderNames = map[string]bool{"Date": true, "Content-Type": true, "Content-Length": true, "Connection": true, "Set-Cookie": true, "Location": true,
	"Vary": true, "Etag": true, "ETag": true, "Last-Modified": true, "Link": true, "Content-Disposition": true, "X-Test": true, "X-Res": true, "Server": true, "": true}

func knownHeader(h string) string {
	if responseHeaderNames[h] {
		return h
	}
	return "(other)"
}

// f3ParseClass turns a response-syntax error of a helper response into one of two stable
// classes (two, because a repair may neutralise CR/LF and still let NUL through, as fasthttp's
// own Set/Add do):
//
//	CR/LF-not-neutralised  the helper's line was ended by the argument's CR/LF (a malformed or
//	                       attacker-chosen line follows, or the header block ends early), or a
//	                       bare CR / bare LF sits inside the value
//	NUL-not-neutralised    a raw NUL byte sits inside the helper's header value
func f3ParseClass(sp *helperSpec, e *ParseErr) string {
	if e.Class == "NUL-in-header-value" && !strings.HasPrefix(e.Where, "after-response") {
		for _, n := range append(append([]string{}, baseHeaderNames...), sp.Extra...) {
			if n == e.Header {
				return "NUL-not-neutralised header=" + e.Header
			}
		}
	}
	return "CR/LF-not-neutralised"
}

func countCls(n int) string {
	switch {
	case n == 0:
		return "0"
	case n == 2:
		return "2"
	case n > 2:
		return "many"
	}
	return "1"
}

// ---------------------------------------------------------------------------
// family 1

func (w *worker) runF1(line reqLine, h hset) {
	tag, famName := "f1", "f1-grammar"
	if w.f1tag != "" {
		tag, famName = w.f1tag, "f8-config-combinations"
	}
	desc := func() map[string]any {
		return map[string]any{"family": famName, "config": w.cfg().Name, "method": line.M.M, "target": clipStr(line.T.T, 80), "version": line.V.V, "letters": h.ids(), "request": clipReq(w.rb.build(line, h))}
	}
	if !w.begin(desc) {
		return
	}
	l := w.l
	req := w.rb.build(line, h)
	res := w.exec(req)
	l.Add("evaluations", 1)
	l.Add(tag+"_cases", 1)
	if w.firstTime(req) && (len(h) > 0 || !line.T.Valid || !line.V.OK || !line.M.Token || line.M.M == "FOO" || line.M.M == "get") {
		l.Add("nontrivial", 1)
	}
	simple := true
	var malID string
	hostile := !line.T.Valid || !line.V.OK
	for _, x := range h {
		if x.Payload != nil || x.HasBody || x.Enc != nil || x.Framing != "" {
			simple = false
		}
		if x.Malformed && malID == "" {
			malID = x.Slot + ":" + x.ID
		}
		if x.Hostile || x.Malformed {
			hostile = true
		}
	}
	if !line.M.Token {
		malID = "empty-method"
	}
	trig := tag + ":" + strings.Join(h.ids(), "+")
	inputCls := ""
	if tag == "f8" {
		inputCls = "f8 config=" + w.cfg().Name // a crash that needs the combination names it
	}
	first := w.judgeCommon(req, res, desc, judgeOpts{fam: tag, exactlyOne: simple && !hostile && line.M.Token, allocTrigger: trig, inputCls: inputCls,
		minTrigger: func() string {
			// name the single letter that is enough to exceed the budget, if there is one
			rb := newReqBuilder()
			for _, x := range h {
				one := rb.build(line, hset{x})
				if w.remeasure(one) > budgetFor(len(one)) {
					return tag + ":" + x.Slot + ":" + x.ID
				}
			}
			return trig
		}})
	st := 0
	if first != nil {
		st = first.Status
	}
	l.Outcome(fmt.Sprintf("%s st=%d eh=%d ran=%d n=%d range=%s fresh=%v flash=%d", tag, st, w.st.ehCode, w.st.ran, len(res.resps), w.st.rangeCls, w.st.fresh, min(w.st.flashN, 3)))
	if w.caseNo%100003 == 0 {
		w.sample(tag, map[string]any{"case": desc(), "status": st, "handler_ran": w.st.ran, "alloc_bytes": res.alloc})
	}
	if w.st.rangeCls == "OUTSIDE" {
		l.Violate("range-outside-size", "Range(1000) returned a range outside [0,1000): slicing the 1000-byte entity with it panics in the handler", desc(), nil, "0 <= Start <= End <= 999")
	}
	if res.pan != nil {
		w.app = nil // rebuild after an escaped panic
		w.useCfg(w.cfgIdx)
		return
	}
	if first == nil {
		return
	}
	// (vi) status rules on the definite classes only
	inSet := w.cfg().hasMethod(line.M.M)
	small := w.cfg().Small && (st == 413 || st == 431)
	switch {
	case malID != "":
		ok := (st >= 400 && st <= 499) || (st == 501 && line.M.Token && !inSet)
		if !ok {
			l.Violate(fmt.Sprintf("malformed-request-not-4xx why=%s status=%d", malID, st),
				"a definitely malformed request was not answered with a 4xx", desc(), clipOut(res.out), "4xx")
		}
		l.Add("malformed_judged", 1)
	case !hostile && !small:
		if !inSet && st != 501 {
			l.Violate(fmt.Sprintf("unknown-method-not-501 method=%s status=%d ctx=%s", line.M.M, st, w.ctxKind()),
				"a well-formed request with a method outside the configured set was not answered 501", desc(), clipOut(res.out), 501)
		}
		if inSet && st == 501 {
			l.Violate(fmt.Sprintf("configured-method-got-501 method=%s", line.M.M),
				"a method of the configured set was answered 501", desc(), clipOut(res.out), "not 501")
		}
		l.Add("method_rule_judged", 1)
		if inSet && line.T.Routed {
			if w.st.ran > 0 && st == 200 {
				l.Add("clean_request_reached_handler", 1)
			} else {
				l.Add("clean_request_not_200", 1)
			}
		}
	default:
		l.Add("unspecified_skipped", 1)
	}
}

func clipStr(s string, n int) string {
	if len(s) > n {
		return s[:n] + fmt.Sprintf("...(%d bytes)", len(s))
	}
	return s
}

// ---------------------------------------------------------------------------
// family 2

func (w *worker) runF2(seedIdx int, buf *[]byte, es ...edit) {
	seed := seeds[seedIdx]
	desc := func() map[string]any {
		var names []string
		for _, e := range es {
			names = append(names, e.String())
		}
		return map[string]any{"family": "f2-edits", "config": w.cfg().Name, "seed": seedIdx, "edits": names, "request": clipReq(applyEdits(nil, seed, es...))}
	}
	if !w.begin(desc) {
		return
	}
	l := w.l
	*buf = applyEdits(*buf, seed, es...)
	req := *buf
	res := w.exec(req)
	l.Add("evaluations", 1)
	l.Add("f2_cases", 1)
	if w.firstTime(req) && len(es) > 0 {
		l.Add("nontrivial", 1)
	}
	first := w.judgeCommon(req, res, desc, judgeOpts{fam: "f2", exactlyOne: len(es) == 0, allocTrigger: fmt.Sprintf("f2:seed%d", seedIdx)})
	st := 0
	if first != nil {
		st = first.Status
	}
	l.Outcome(fmt.Sprintf("f2 st=%d eh=%d ran=%d n=%d range=%s", st, w.st.ehCode, w.st.ran, len(res.resps), w.st.rangeCls))
	if w.caseNo%100003 == 0 {
		w.sample("f2", map[string]any{"case": desc(), "status": st, "handler_ran": w.st.ran, "alloc_bytes": res.alloc})
	}
	if w.st.rangeCls == "OUTSIDE" {
		l.Violate("range-outside-size", "Range(1000) returned a range outside [0,1000): slicing the 1000-byte entity with it panics in the handler", desc(), nil, "0 <= Start <= End <= 999")
	}
	if len(es) == 0 && (st != 200 || w.st.ran == 0) && !(w.cfg().Small && (st == 413 || st == 431)) && len(w.st.panics) == 0 {
		// anti-vacuity: every seed must be a request the server serves
		core.Fatal("seed %d is not served with 200 by config %s (status %d): %s", seedIdx, w.cfg().Name, st, clipOut(res.out))
	}
	if res.pan != nil {
		w.app = nil
		w.useCfg(w.cfgIdx)
	}
}

// ---------------------------------------------------------------------------
// family 3

func (w *worker) runF3(hi int, qi int) {
	sp := &helpers[hi]
	q := w.qs[qi]
	req := []byte(fmt.Sprintf("GET /h/%s?i=%d HTTP/1.1\r\nHost: example.com\r\n\r\n", sp.Name, qi))
	desc := func() map[string]any {
		return map[string]any{"family": "f3-helpers", "config": w.cfg().Name, "helper": sp.Name, "q": fmt.Sprintf("%q", q), "request": clipReq(req)}
	}
	if !w.begin(desc) {
		return
	}
	l := w.l
	res := w.exec(req)
	l.Add("evaluations", 1)
	l.Add("f3_cases", 1)
	if strings.Trim(q, "a") != "" {
		l.Add("nontrivial", 1)
	}
	outside := sp.NameLike && hasCtl(q)
	first := w.judgeCommon(req, res, desc, judgeOpts{fam: "f3", exactlyOne: !outside, skipParse: outside, allocTrigger: "f3:" + sp.Name,
		parseSig: func(e *ParseErr) string { return fmt.Sprintf("f3 helper=%s %s", sp.Name, f3ParseClass(sp, e)) }})
	cls := "ok"
	defer func() { l.Outcome(fmt.Sprintf("f3 helper=%s %s", sp.Name, cls)) }()
	if qi%397 == 0 && hi%5 == 0 {
		w.sample("f3", map[string]any{"case": desc(), "written": clipOut(res.out)})
	}
	if res.pan != nil {
		cls = "panic"
		w.app = nil
		w.useCfg(w.cfgIdx)
		return
	}
	if res.perr != nil {
		cls = f3ParseClass(sp, res.perr)
		return
	}
	if outside {
		cls = "outside-domain"
		l.Add("unspecified_skipped", 1)
		return
	}
	if first == nil {
		cls = "no-response"
		return
	}
	if w.st.ran == 0 {
		core.Fatal("family 3 request did not reach the helper route: %s", clipOut(res.out))
	}
	// (v) header names are a subset of the expected set, each at most once; body as expected
	allowed := map[string]bool{}
	for _, n := range baseHeaderNames {
		allowed[n] = true
	}
	for _, n := range sp.Extra {
		allowed[n] = true
	}
	seen := map[string]int{}
	var bad []string
	for _, h := range first.Headers {
		seen[h.Name]++
		if !allowed[h.Name] {
			bad = append(bad, h.Name)
		}
	}
	sort.Strings(bad)
	if len(bad) > 0 {
		cls = "CR/LF-not-neutralised"
		l.Violate(fmt.Sprintf("f3 helper=%s CR/LF-not-neutralised", sp.Name),
			"the string passed to the response helper added a header line to the response", desc(), map[string]any{"unexpected_header_names": bad, "written": clipOut(res.out)}, map[string]any{"allowed_names": append(append([]string{}, baseHeaderNames...), sp.Extra...)})
		return
	}
	for n, c := range seen {
		if c > 1 {
			cls = "header-duplicated"
			l.Violate(fmt.Sprintf("f3 helper=%s header-duplicated name=%s", sp.Name, n),
				"the string passed to the response helper produced a second header line with an expected name", desc(), clipOut(res.out), "each header once")
			return
		}
	}
	if first.Status != sp.Status {
		cls = fmt.Sprintf("status-%d", first.Status)
		l.Violate(fmt.Sprintf("f3 helper=%s unexpected-status=%d", sp.Name, first.Status),
			"the helper route answered with an unexpected status", desc(), clipOut(res.out), sp.Status)
		return
	}
	if want := sp.Body(q); string(first.Body) != want {
		cls = "body-altered"
		l.Violate(fmt.Sprintf("f3 helper=%s body-altered", sp.Name),
			"the body is not the body the handler sent (the helper argument started the body early or cut it)", desc(), clipOut(res.out), fmt.Sprintf("%q", want))
		return
	}
}

// ---------------------------------------------------------------------------
// family 4: application shapes x degenerate targets

// useShape builds the application of one (configuration, shape set) pair.
func (w *worker) useShape(a *f4App) {
	w.f4 = a
	w.cfgIdx = -1
	w.st = &appState{qs: w.qs, file: w.file}
	w.app = buildShapeApp(a, w.st)
	for _, q := range warmRequests4 {
		serveRecover(w.app, fx.NewWireConn([]byte(q), nil))
	}
}

// runF4Shard: every target x every method on one shape application.
func (w *worker) runF4Shard(a *f4App, quick bool) {
	w.useShape(a)
	// anti-vacuity: the plain witness target runs a handler of each shape (all-defaults configuration)
	if !a.cfg.Strict && !a.cfg.CaseS && !a.cfg.Unescape && !a.cfg.CustomCtx && !a.cfg.CustomM && len(a.shape) == 1 && w.only < 0 {
		if wt := shapes[a.shape[0]].Witness; wt != "" {
			w.st.reset()
			conn := fx.NewWireConn(f4Request("GET", wt), nil)
			pan := serveRecover(w.app, conn)
			if pan != nil {
				w.useShape(a) // judged below: the witness is one of the targets
			} else if w.st.mwRan+w.st.epRan == 0 {
				core.Fatal("family 4: shape %s does not run any of its handlers for its witness target %q: %s", shapes[a.shape[0]].Name, wt, clipOut(conn.Output()))
			}
		}
	}
	for ti := range targets4 {
		for _, m := range methods4(quick) {
			w.runF4(a, m, &targets4[ti])
		}
	}
	w.f4 = nil
	w.app = nil
}

func (w *worker) runF4(a *f4App, method string, t *target4) {
	desc := func() map[string]any { return f4Desc(a, method, t) }
	if !w.begin(desc) {
		return
	}
	l := w.l
	req := f4Request(method, t.T)
	res := w.exec(req)
	l.Add("evaluations", 1)
	l.Add("f4_cases", 1)
	if w.firstTime(req) && !t.Plain {
		l.Add("nontrivial", 1)
	}
	// CONNECT: the target is an authority, a tunnel request; responses to it are not judged for count
	one := t.Valid && method != "CONNECT"
	first := w.judgeCommon(req, res, desc, judgeOpts{fam: "f4", exactlyOne: one, allocTrigger: "f4:shape-kind=" + a.shapeKind() + " target=" + t.Class,
		inputCls: "f4 shape-kind=" + a.shapeKind()})
	st := 0
	if first != nil {
		st = first.Status
	}
	l.Outcome(fmt.Sprintf("f4 st=%d eh=%d mw=%d ep=%d n=%d", st, w.st.ehCode, min(w.st.mwRan, 3), min(w.st.epRan, 2), len(res.resps)))
	if w.st.mwRan+w.st.epRan > 0 && !t.Plain {
		l.Add("f4_degenerate_target_reached_handler", 1)
	}
	if w.caseNo%50021 == 0 {
		w.sample("f4", map[string]any{"case": desc(), "status": st, "middleware_ran": w.st.mwRan, "endpoint_ran": w.st.epRan, "alloc_bytes": res.alloc})
	}
	if res.pan != nil {
		w.useShape(a) // rebuild after an escaped panic
		return
	}
	if first == nil {
		return
	}
	// (vi) the method rule, on well-formed targets only
	if t.Valid {
		inSet := a.cfg.hasMethod(method)
		if !inSet && st != 501 {
			l.Violate(fmt.Sprintf("unknown-method-not-501 method=%s status=%d ctx=%s", method, st, w.ctxKind()),
				"a well-formed request with a method outside the configured set was not answered 501", desc(), clipOut(res.out), 501)
		}
		if inSet && st == 501 {
			l.Violate(fmt.Sprintf("configured-method-got-501 method=%s", method),
				"a method of the configured set was answered 501", desc(), clipOut(res.out), "not 501")
		}
		l.Add("method_rule_judged", 1)
	} else {
		l.Add("unspecified_skipped", 1)
	}
}

// ---------------------------------------------------------------------------
// family 5: request-header parsers x repetition grammars

func (w *worker) runF5Shard(u *unit5) {
	p := &parsers5[u.P]
	reached := 0
	var buf []byte
	enumSeqs5(p, func(seq []int, sep string) {
		buf = build5(buf, u, seq, sep)
		if w.runF5(u, seq, sep, buf) {
			reached++
		}
	})
	if reached == 0 && w.only < 0 && len(w.skip) == 0 && w.after == 0 && !w.cfg().Small { // smallbuf: BodyLimit 64 legitimately refuses the larger bodies
		core.Fatal("family 5: no value of parser %s reached the /all handler (config %s)", p.Name, w.cfg().Name)
	}
}

// runF7Shard: the same unit with HTAB separators (sequences of 2, and of 3 when long).
func (w *worker) runF7Shard(u *unit5, long bool) {
	p := &parsers5[u.P]
	maxLen := 2
	if long {
		maxLen = 3
	}
	var buf []byte
	w.f5tag = "f7"
	enumTabSeqs5(p, maxLen, func(seq []int, sep string) {
		buf = build5(buf, u, seq, sep)
		w.runF5(u, seq, sep, buf)
	})
	w.f5tag = ""
}

func (w *worker) runF5(u *unit5, seq []int, sep string, req []byte) bool {
	p := &parsers5[u.P]
	tag, famName := "f5", "f5-repetition"
	if w.f5tag != "" {
		tag, famName = w.f5tag, "f7-tabs"
	}
	desc := func() map[string]any {
		var el []string
		for _, i := range seq {
			el = append(el, p.Elems[i])
		}
		return map[string]any{"family": famName, "config": w.cfg().Name, "parser": p.Name, "prefix": u.Prefix, "elements": el, "separator": sepName(sep),
			"companions": u.Comp, "body_encoded": u.Encoded, "request": clipReq(req)}
	}
	if !w.begin(desc) {
		return false
	}
	l := w.l
	res := w.exec(req)
	l.Add("evaluations", 1)
	l.Add(tag+"_cases", 1)
	if w.firstTime(req) && len(seq) > 0 {
		l.Add("nontrivial", 1)
	}
	hasBody := p.Post || p.Where == "body"
	first := w.judgeCommon(req, res, desc, judgeOpts{fam: tag, exactlyOne: !hasBody, allocTrigger: tag + ":" + p.Name, inputCls: tag + " parser=" + p.Name})
	st := 0
	if first != nil {
		st = first.Status
	}
	l.Outcome(fmt.Sprintf("%s st=%d eh=%d ran=%d n=%d range=%s fresh=%v flash=%d body=%s", tag, st, w.st.ehCode, w.st.ran, len(res.resps), w.st.rangeCls, w.st.fresh, min(w.st.flashN, 3), w.st.bodyCls))
	if w.caseNo%50021 == 0 {
		w.sample(tag, map[string]any{"case": desc(), "status": st, "handler_ran": w.st.ran, "alloc_bytes": res.alloc})
	}
	if w.st.rangeCls == "OUTSIDE" {
		l.Violate("range-outside-size", "Range(1000) returned a range outside [0,1000): slicing the 1000-byte entity with it panics in the handler", desc(), nil, "0 <= Start <= End <= 999")
	}
	ran := w.st.ran > 0
	if res.pan != nil {
		w.app = nil
		w.useCfg(w.cfgIdx)
	}
	return ran
}
