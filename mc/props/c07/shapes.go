// Family 4: APPLICATION SHAPES x DEGENERATE REQUEST TARGETS.
//
// The three byte-level families drive ONE application (four endpoint routes, no middleware), so
// the router branches taken for middleware routes (Use on "/", on a prefix, with parameters),
// groups, mounted sub-applications and the parameter matchers of optional / greedy / constrained
// segments never see the boundary targets of the grammar (and the endpoint routes see only the
// eleven targets of family 1). This family is the product
//
//	route-registration shapes x routing configurations x degenerate targets x methods
//
// A shape is one way an application registers routes that selects a different branch of
// Route.match / routeParser.getMatch / the 3-byte route buckets / the mount tables. A routing
// configuration is one valuation of {StrictRouting, CaseSensitive, UnescapePath} x {default
// context, custom context, custom RequestMethods}. The targets are the boundary request targets:
// empty after normalisation (slash runs, dot segments, encoded slashes, encoded NUL), asterisk,
// absolute and authority form, no leading slash, "?" and "#" only, paths of 0..4 bytes (the
// router's 3-byte bucket key), and every route base followed by every delimiter character of the
// route grammar, by slash runs, by encoded slashes and by dot segments. EVERY shape sees EVERY
// target in EVERY configuration (a product, not a sample); all shapes draw their paths from one
// vocabulary (/api, /api/v1, /api/7, /a, /ab, /abc ...) so that each target is a boundary case for
// many shapes at once. Oracles: the common ones (no panic, process alive, allocation budget, strict
// response parse, response count, no unmapped 5xx) plus the 501 rule on well-formed targets.
package main

import (
	"errors"
	"fmt"
	"sort"
	"strings"

	"github.com/gofiber/fiber/v3"
)

// ---------------------------------------------------------------------------
// routing configurations

type cfg4T struct {
	Name      string
	Strict    bool
	CaseS     bool
	Unescape  bool
	CustomCtx bool
	CustomM   bool
}

func (c *cfg4T) methods() []string {
	if c.CustomM {
		return customMethods()
	}
	return defaultMethods()
}

func (c *cfg4T) hasMethod(m string) bool {
	for _, x := range c.methods() {
		if x == m {
			return true
		}
	}
	return false
}

func (c *cfg4T) conf() fiber.Config {
	fc := fiber.Config{StrictRouting: c.Strict, CaseSensitive: c.CaseS, UnescapePath: c.Unescape}
	if c.CustomM {
		fc.RequestMethods = customMethods()
	}
	return fc
}

// cfg4s: {StrictRouting} x {CaseSensitive} x {UnescapePath} x {default ctx, custom ctx, custom
// method list, both}; in the quick tier "both" runs on the all-off and the all-on routing valuation only.
func cfg4s(quick bool) []cfg4T {
	var out []cfg4T
	onoff := func(b bool, s string) string {
		if b {
			return "+" + s
		}
		return "-" + s
	}
	for _, k := range []struct {
		n      string
		cc, cm bool
	}{{"defaultctx", false, false}, {"customctx", true, false}, {"methods", false, true}, {"customctx+methods", true, true}} {
		for bits := 0; bits < 8; bits++ {
			if quick && k.cc && k.cm && bits != 0 && bits != 7 {
				continue // quick tier: the pair custom ctx + custom method list on the all-off and all-on routing valuations only
			}
			c := cfg4T{Strict: bits&1 != 0, CaseS: bits&2 != 0, Unescape: bits&4 != 0, CustomCtx: k.cc, CustomM: k.cm}
			c.Name = k.n + " " + onoff(c.Strict, "strict") + onoff(c.CaseS, "case") + onoff(c.Unescape, "unescape")
			out = append(out, c)
		}
	}
	return out
}

// ---------------------------------------------------------------------------
// shapes

// shapeH are the handlers a shape registers.
type shapeH struct {
	mw      fiber.Handler // probes the routing accessors, then Next()
	ep      fiber.Handler // probes the routing accessors, then answers 200
	nf      fiber.Handler // trailing catch-all: answers 404 itself
	rewrite fiber.Handler // strips the /api prefix from the path (never to the empty string), then Next()
	sub     func() *fiber.App
}

type shapeT struct {
	Name string
	Kind string // coarse class used in signatures: which matcher branch the shape selects
	// Witness: a plain target that must run at least one of the shape's handlers with GET in the
	// all-defaults configuration (anti-vacuity: the shape really is what its name says).
	Witness string
	Reg     func(app *fiber.App, h *shapeH)
}

// evenLen is a custom constraint: parameters of even length.
type evenLen struct{}

func (evenLen) Name() string                           { return "evenLen" }
func (evenLen) Execute(param string, _ ...string) bool { return len(param)%2 == 0 }

func regAll(app *fiber.App, h fiber.Handler, paths ...string) {
	for _, p := range paths {
		app.Get(p, h)
	}
}

var shapes = []shapeT{
	{Name: "no-routes", Kind: "no-routes", Reg: func(*fiber.App, *shapeH) {}},

	// --- middleware on the root: Route.match branch `r.use && r.root`
	{Name: "use-nopath", Kind: "use-root", Witness: "/api/v1", Reg: func(app *fiber.App, h *shapeH) { app.Use(h.mw) }},
	{Name: "use-slash", Kind: "use-root", Witness: "/api/v1", Reg: func(app *fiber.App, h *shapeH) { app.Use("/", h.mw) }},
	{Name: "use-nopath+endpoints+notfound", Kind: "use-root", Witness: "/api/v1", Reg: func(app *fiber.App, h *shapeH) {
		app.Use(h.mw)
		regAll(app, h.ep, "/", "/api/v1", "/api/:id")
		app.Use(h.nf)
	}},
	// --- middleware on a constant prefix: branch `r.use && detectionPath[:plen] == r.path`
	{Name: "use-prefix", Kind: "use-prefix", Witness: "/api/v1", Reg: func(app *fiber.App, h *shapeH) {
		app.Use("/api", h.mw)
		app.Get("/api/v1", h.ep)
	}},
	{Name: "use-prefix-trailing-slash", Kind: "use-prefix", Witness: "/api/v1", Reg: func(app *fiber.App, h *shapeH) { app.Use("/api/", h.mw) }},
	{Name: "use-short-prefixes", Kind: "use-prefix", Witness: "/ab", Reg: func(app *fiber.App, h *shapeH) {
		app.Use("/a", h.mw)
		app.Use("/ab", h.mw)
		app.Use("/abc", h.mw)
	}},
	{Name: "use-prefix-list", Kind: "use-prefix", Witness: "/api/v1", Reg: func(app *fiber.App, h *shapeH) { app.Use([]string{"/api", "/ab", "/"}, h.mw) }},
	// --- middleware with parameters: getMatch with partialCheck
	{Name: "use-param", Kind: "use-param", Witness: "/api/v1", Reg: func(app *fiber.App, h *shapeH) { app.Use("/:tenant", h.mw) }},
	{Name: "use-param-deep", Kind: "use-param", Witness: "/api/7", Reg: func(app *fiber.App, h *shapeH) {
		app.Use("/api/:id", h.mw)
		app.Use("/api/:id/*", h.mw)
	}},
	{Name: "use-optional-param", Kind: "use-param", Witness: "/api/v1", Reg: func(app *fiber.App, h *shapeH) {
		app.Use("/:t?", h.mw)
		app.Use("/api/:id?", h.mw)
	}},
	{Name: "use-wildcard", Kind: "use-wildcard", Witness: "/api/v1", Reg: func(app *fiber.App, h *shapeH) {
		app.Use("/*", h.mw)
		app.Use("*", h.mw)
		app.Use("/api/+", h.mw)
	}},
	// --- groups with middleware
	{Name: "group-mw", Kind: "group", Witness: "/api/v1", Reg: func(app *fiber.App, h *shapeH) {
		g := app.Group("/api", h.mw)
		g.Get("/v1", h.ep)
		g.Get("/", h.ep)
		g.Get("/:id", h.ep)
	}},
	{Name: "group-root-mw", Kind: "group-root", Witness: "/api/v1", Reg: func(app *fiber.App, h *shapeH) {
		g := app.Group("/", h.mw)
		g.Get("/api/v1", h.ep)
		g2 := app.Group("", h.mw)
		g2.Get("/ab", h.ep)
	}},
	{Name: "group-nested", Kind: "group", Witness: "/api/v1/x", Reg: func(app *fiber.App, h *shapeH) {
		g := app.Group("/api", h.mw)
		v := g.Group("/v1", h.mw)
		v.Get("/x", h.ep)
		v.Get("/", h.ep)
		v.Get("/:x?", h.ep)
	}},
	{Name: "group-param", Kind: "group", Witness: "/api/v1", Reg: func(app *fiber.App, h *shapeH) {
		g := app.Group("/:tenant", h.mw)
		g.Get("/v1", h.ep)
		g.Get("/", h.ep)
	}},
	// --- mounted sub-applications
	{Name: "mount-prefix", Kind: "mount", Witness: "/api/v1", Reg: func(app *fiber.App, h *shapeH) {
		sub := h.sub()
		sub.Use(h.mw)
		sub.Get("/v1", h.ep)
		sub.Get("/", h.ep)
		app.Use("/api", sub)
	}},
	{Name: "mount-root", Kind: "mount-root", Witness: "/api/v1", Reg: func(app *fiber.App, h *shapeH) {
		sub := h.sub()
		sub.Use(h.mw)
		sub.Get("/api/v1", h.ep)
		app.Use("/", sub)
	}},
	{Name: "mount-nopath", Kind: "mount-root", Witness: "/api/v1", Reg: func(app *fiber.App, h *shapeH) {
		sub := h.sub()
		sub.Use("/api", h.mw)
		sub.Get("/api/v1", h.ep)
		app.Use(sub)
	}},
	{Name: "mount-nested", Kind: "mount", Witness: "/api/v1/x", Reg: func(app *fiber.App, h *shapeH) {
		inner := h.sub()
		inner.Use(h.mw)
		inner.Get("/x", h.ep)
		inner.Get("/", h.ep)
		sub := h.sub()
		sub.Use("/v1", inner)
		sub.Get("/", h.ep)
		app.Use("/api", sub)
	}},
	{Name: "mount-param", Kind: "mount", Witness: "/api/v1", Reg: func(app *fiber.App, h *shapeH) {
		sub := h.sub()
		sub.Use(h.mw)
		sub.Get("/v1", h.ep)
		app.Use("/:tenant", sub)
	}},
	{Name: "mount-in-group", Kind: "mount", Witness: "/api/v1/x", Reg: func(app *fiber.App, h *shapeH) {
		sub := h.sub()
		sub.Get("/x", h.ep)
		sub.Get("/", h.ep)
		g := app.Group("/api", h.mw)
		g.Use("/v1", sub)
	}},
	// --- endpoints
	{Name: "ep-root", Kind: "endpoint-const", Witness: "/", Reg: func(app *fiber.App, h *shapeH) {
		app.Get("/", h.ep)
		app.All("/", h.ep)
	}},
	{Name: "ep-const", Kind: "endpoint-const", Witness: "/api/v1", Reg: func(app *fiber.App, h *shapeH) {
		regAll(app, h.ep, "/api", "/api/v1", "/api/v1/", "/a", "/ab", "/abc", "/API/V1")
		app.Add([]string{"GET", "POST"}, "/api/7", h.ep)
	}},
	{Name: "ep-param", Kind: "endpoint-param", Witness: "/api/7", Reg: func(app *fiber.App, h *shapeH) {
		regAll(app, h.ep, "/api/:id", "/:a", "/:a/:b/:c")
		app.Post("/:a/:b", h.ep)
	}},
	{Name: "ep-optional", Kind: "endpoint-optional", Witness: "/api/7", Reg: func(app *fiber.App, h *shapeH) {
		regAll(app, h.ep, "/api/:id?", "/:a?", "/api/v1/:x?/:y?", "/ab/:o?/")
	}},
	{Name: "ep-wildcard", Kind: "endpoint-wildcard", Witness: "/api/v1", Reg: func(app *fiber.App, h *shapeH) {
		regAll(app, h.ep, "/api/*", "/ab*", "/*")
		app.Post("*", h.ep)
	}},
	{Name: "ep-greedy-plus", Kind: "endpoint-greedy", Witness: "/api/v1", Reg: func(app *fiber.App, h *shapeH) {
		regAll(app, h.ep, "/api/+", "/ab+", "/+")
	}},
	{Name: "ep-multi-wildcard", Kind: "endpoint-wildcard", Witness: "/api/v1/x", Reg: func(app *fiber.App, h *shapeH) {
		regAll(app, h.ep, "/api/*/x", "/api/*/v1/*", "/*v1*", "/a/+/+")
	}},
	{Name: "ep-constraints", Kind: "endpoint-constraint", Witness: "/api/7", Reg: func(app *fiber.App, h *shapeH) {
		regAll(app, h.ep, "/api/:id<int>", "/api/:id<min(1);maxLen(3)>/x", "/api/:w<alpha>?", "/api/v1/:n<range(1,9)>?",
			"/a/:d<regex(^[0-9a-z]+$)>", "/ab/:g<guid>", "/ab/:t<datetime(2006-01-02)>", "/abc/:b<bool>", "/abc/:f<float>/:l<len(2)>?", "/:s<minLen(2);betweenLen(1,4)>")
	}},
	{Name: "ep-delimiters", Kind: "endpoint-delimiter", Witness: "/api/7-8", Reg: func(app *fiber.App, h *shapeH) {
		regAll(app, h.ep, "/api/:a-:b", "/api/:a.:b", "/api/v1/:from-:to?", "/api/v1.:ext?", "/:x-", "/ab-:y?")
	}},
	{Name: "ep-escaped", Kind: "endpoint-escaped", Witness: "/api/v1:x", Reg: func(app *fiber.App, h *shapeH) {
		regAll(app, h.ep, "/api/v1\\:x", "/api/:id\\:verb", "/a\\*", "/ab\\+/:p?")
	}},
	// --- parameters directly after each other (one-character parameters: routeSegment.Length)
	{Name: "ep-adjacent-params", Kind: "endpoint-adjacent", Witness: "/api/v1", Reg: func(app *fiber.App, h *shapeH) {
		regAll(app, h.ep, "/api/:a:b", "/api/:a:b:c?/x", "/:x:y", "/ab:p:q?", "/a/:m:n/*")
	}},
	// --- the remaining constraint kinds, two constraints on one parameter, a custom constraint
	{Name: "ep-constraints-2", Kind: "endpoint-constraint", Witness: "/api/7", Reg: func(app *fiber.App, h *shapeH) {
		app.RegisterCustomConstraint(evenLen{})
		regAll(app, h.ep, "/api/:n<max(8)>", "/api/v1/:s<len(1)>", "/a/:m<maxLen(1)>", "/ab/:r<regex(^a[0-9]?$)>?", "/abc/:q<min(2);max(40)>?/:z<len(2)>?",
			"/api/:e<evenLen>/x", "/:k<betweenLen(4,5)>", "/api/:u<unknown>/y")
	}},
	{Name: "route-chain", Kind: "route-chain", Witness: "/api/v1", Reg: func(app *fiber.App, h *shapeH) {
		app.Route("/api").Get(h.ep).Post(h.ep).Route("/v1").All(h.mw).Get(h.ep)
		app.Route("/").All(h.mw)
	}},
	// --- a middleware that rewrites the path (Path(override)) before the routes below it are matched
	{Name: "rewrite-strip-prefix", Kind: "rewrite", Witness: "/api/v1", Reg: func(app *fiber.App, h *shapeH) {
		app.Use("/api", h.rewrite)
		app.Use(h.mw)
		regAll(app, h.ep, "/v1", "/:id?")
	}},
}

// ---------------------------------------------------------------------------
// targets

type target4 struct {
	T     string
	Class string
	// Valid: origin-form ("/" ...) or absolute-form target without syntax errors: the method rule
	// (501 outside the configured set, never 501 inside) and "exactly one response" are judged.
	Valid bool
	// Plain: an ordinary target (a route base as registered): the benign baseline, not counted
	// as non-trivial.
	Plain bool
}

var bases4 = []string{"/api", "/api/v1", "/api/v1/x", "/api/7", "/api/7-8", "/api/a.b", "/api/v1:x", "/a", "/ab", "/abc", "/API/V1"}

// suffixes appended to every base: slash runs, every delimiter / special character of the route
// grammar (path.go: / - . : \ * + ? < > ( ) ; ,), encoded slashes / dots / NUL, dot segments, queries.
var suffixes4 = []struct {
	S     string
	Class string
	Valid bool
}{
	{"", "route-base", true},
	{"/", "base+slashes", true}, {"//", "base+slashes", true}, {"///", "base+slashes", true},
	{"-", "base+delimiter", true}, {".", "base+delimiter", true}, {":", "base+delimiter", true}, {"+", "base+delimiter", true},
	{"*", "base+delimiter", true}, {"(", "base+delimiter", true}, {")", "base+delimiter", true}, {";", "base+delimiter", true},
	{",", "base+delimiter", true}, {"<", "base+delimiter", false}, {">", "base+delimiter", false}, {"\\", "base+delimiter", false},
	{"/-", "base+delimiter", true}, {"/.", "base+dot-segment", true}, {"/..", "base+dot-segment", true}, {"/../..", "base+dot-segment", true},
	{"%2F", "base+encoded", true}, {"/%2f%2F", "base+encoded", true}, {"%00", "base+encoded", true}, {"/%2e%2e", "base+encoded", true},
	{"%", "base+encoded", false}, {"%2", "base+encoded", false},
	{"?", "base+query", true}, {"?a=b", "base+query", true}, {"/?a=b", "base+query", true}, {"//?a=b", "base+query", true},
	{"#", "base+fragment", false},
}

var fixedTargets4 = []target4{
	// only slashes (empty after trailing-slash trimming)
	{"/", "root", true, true},
	{"//", "slashes-only", true, false}, {"///", "slashes-only", true, false}, {"////", "slashes-only", true, false},
	{"/?", "root+query", true, false}, {"/?a=b", "root+query", true, false},
	{"//?a=b", "slashes-only+query", true, false}, {"///?", "slashes-only+query", true, false}, {"//#f", "slashes-only+fragment", false, false},
	// dot segments
	{"/.", "dot-segments", true, false}, {"/..", "dot-segments", true, false}, {"/./", "dot-segments", true, false}, {"/../", "dot-segments", true, false},
	{"/../..", "dot-segments", true, false}, {"/./.", "dot-segments", true, false}, {"/...", "dot-segments", true, false}, {"/.//", "dot-segments", true, false},
	// percent-encoded separators, dots and NUL (decoded when UnescapePath is on)
	{"/%2F", "encoded", true, false}, {"/%2f%2f", "encoded", true, false}, {"/%2F/", "encoded", true, false}, {"//%2f", "encoded", true, false},
	{"/%00", "encoded", true, false}, {"/%2e", "encoded", true, false}, {"/%2E%2e/", "encoded", true, false}, {"/%252F", "encoded", true, false},
	{"/%3F", "encoded", true, false}, {"/%23", "encoded", true, false}, {"/%20", "encoded", true, false}, {"/%ff", "encoded", true, false},
	{"/%", "bad-encoding", false, false}, {"/%2", "bad-encoding", false, false}, {"/%zz", "bad-encoding", false, false}, {"%2F", "no-leading-slash", false, false},
	// asterisk form
	{"*", "asterisk", false, false}, {"**", "asterisk", false, false}, {"*?a=b", "asterisk", false, false}, {"/*", "asterisk", true, false},
	// absolute form
	{"http://h", "absolute-form", true, false}, {"http://h/", "absolute-form", true, false}, {"http://h//", "absolute-form", true, false},
	{"http://h///?a=b", "absolute-form", true, false}, {"http://h/api/v1", "absolute-form", true, false}, {"http://h/api//", "absolute-form", true, false},
	{"http://h/%2F", "absolute-form", true, false}, {"http://h/..", "absolute-form", true, false},
	{"http://h?a=b", "absolute-form-odd", false, false}, {"http://", "absolute-form-odd", false, false}, {"http:", "absolute-form-odd", false, false},
	{"http:///", "absolute-form-odd", false, false}, {"https://h:443//", "absolute-form-odd", false, false}, {"//h/api", "scheme-relative", false, false},
	{"//h", "scheme-relative", false, false},
	// authority form (CONNECT)
	{"h:80", "authority-form", false, false}, {"example.com:443", "authority-form", false, false}, {"[::1]:80", "authority-form", false, false}, {":", "authority-form", false, false},
	// no leading slash, query / fragment only, empty
	{"api", "no-leading-slash", false, false}, {"a", "no-leading-slash", false, false}, {"api/v1/", "no-leading-slash", false, false}, {".", "no-leading-slash", false, false},
	{"..", "no-leading-slash", false, false}, {"\\", "no-leading-slash", false, false},
	{"?", "query-only", false, false}, {"?a=b", "query-only", false, false}, {"??", "query-only", false, false},
	{"#", "fragment-only", false, false}, {"#f", "fragment-only", false, false}, {"/#", "fragment-only", false, false},
	{"", "empty-target", false, false},
	// paths of 1..4 bytes (below, at and above the 3-byte bucket key), with and without trailing slashes
	{"/x", "short-path", true, false}, {"/xy", "short-path", true, false}, {"/xyz", "short-path", true, false}, {"/a/", "short-path", true, false},
	{"/a//", "short-path", true, false}, {"/-", "short-path", true, false}, {"/:", "short-path", true, false}, {"/+", "short-path", true, false},
	{"/a-", "short-path", true, false}, {"/a/b", "short-path", true, false}, {"/A", "short-path", true, false}, {"/Ab/", "short-path", true, false},
	{"/a/b/c", "short-path", true, false}, {"/a/x/y", "short-path", true, false},
	// values for the parameter constraints (one accepted and one refused per constraint kind), numbers
	// at and beyond the integer range, parameter values one character long and long
	{"/api/7/x", "constraint-value", true, false}, {"/api/1234/x", "constraint-value", true, false}, {"/api/0/x", "constraint-value", true, false},
	{"/api/9", "constraint-value", true, false}, {"/api/-7", "constraint-value", true, false}, {"/api/99999999999999999999", "constraint-value", true, false},
	{"/api/9223372036854775807/x", "constraint-value", true, false}, {"/api/v1/5", "constraint-value", true, false}, {"/api/v1/0", "constraint-value", true, false},
	{"/api/v1/10", "constraint-value", true, false}, {"/api/ab/x", "constraint-value", true, false}, {"/api/abc/x", "constraint-value", true, false}, {"/api/ab/y", "constraint-value", true, false},
	{"/a/x9", "constraint-value", true, false}, {"/a/x_", "constraint-value", true, false}, {"/a/m", "constraint-value", true, false},
	{"/ab/00000000-0000-0000-0000-000000000000", "constraint-value", true, false}, {"/ab/2006-01-02", "constraint-value", true, false}, {"/ab/2006-13-45", "constraint-value", true, false},
	{"/ab/a1", "constraint-value", true, false}, {"/ab/b1", "constraint-value", true, false},
	{"/abc/true", "constraint-value", true, false}, {"/abc/1.5", "constraint-value", true, false}, {"/abc/1.5/ab", "constraint-value", true, false}, {"/abc/1.5/abc", "constraint-value", true, false},
	{"/abc/1e400/ab", "constraint-value", true, false}, {"/abc/30/zz", "constraint-value", true, false}, {"/abc/41", "constraint-value", true, false},
	{"/abcd", "constraint-value", true, false}, {"/abcdef", "constraint-value", true, false}, {"/api/v/x", "constraint-value", true, false}, {"/abx/", "constraint-value", true, false},
	{"/a/xy/z/w", "constraint-value", true, false}, {"/" + strings.Repeat("k", 300), "constraint-value", true, false},
	// multi-byte and invalid UTF-8 in the path, raw (not a valid request target: only crash-freedom and response
	// syntax are judged) and percent-encoded; U+212A and U+0130 get SHORTER under case mapping (3 -> 1, 2 -> 1 bytes), U+023A gets LONGER (2 -> 3 bytes)
	{"/api/\xc3\x84", "multibyte-raw", false, false}, {"/api/\xe2\x84\xaa", "multibyte-raw", false, false}, {"/\xc4\xb0", "multibyte-raw", false, false},
	{"/api/\xff", "multibyte-raw", false, false}, {"/\xe2\x84\xaapi/v1", "multibyte-raw", false, false}, {"/API/\xc4\xb0/X", "multibyte-raw", false, false},
	{"/ab\xf0\x9f\x98\x80", "multibyte-raw", false, false}, {"/api/v1/\xc3", "multibyte-raw", false, false},
	{"/\xc8\xba", "multibyte-raw", false, false}, {"/api/\xc8\xba", "multibyte-raw", false, false}, {"/api/\xc8\xba/x", "multibyte-raw", false, false},
	{"/%C8%BA", "multibyte-encoded", true, false}, {"/api/%C8%BA", "multibyte-encoded", true, false}, {"/api/%C8%BA/x", "multibyte-encoded", true, false},
	{"/api/%C3%84", "multibyte-encoded", true, false}, {"/api/%E2%84%AA/x", "multibyte-encoded", true, false}, {"/%C4%B0", "multibyte-encoded", true, false},
	{"/%E2%84%AApi/v1", "multibyte-encoded", true, false}, {"/API/%C4%B0/X", "multibyte-encoded", true, false}, {"/ab%F0%9F%98%80", "multibyte-encoded", true, false},
}

var targets4 = buildTargets4()

func buildTargets4() []target4 {
	out := append([]target4(nil), fixedTargets4...)
	seen := map[string]bool{}
	for _, t := range out {
		seen[t.T] = true
	}
	for _, b := range bases4 {
		for _, s := range suffixes4 {
			t := target4{T: b + s.S, Class: s.Class, Valid: s.Valid, Plain: s.S == ""}
			if !seen[t.T] {
				seen[t.T] = true
				out = append(out, t)
			}
		}
	}
	return out
}

func methods4(quick bool) []string {
	if quick {
		return []string{"GET", "POST", "HEAD", "CONNECT", "FOO"}
	}
	return []string{"GET", "POST", "HEAD", "CONNECT", "FOO", "OPTIONS", "TRACE", "PURGE", "DELETE"}
}

// ---------------------------------------------------------------------------
// application

type f4App struct {
	cfg   cfg4T
	shape []int // indices into shapes (one in the quick tier, one or two in the thorough tier)
}

func (a *f4App) shapeName() string {
	var n []string
	for _, i := range a.shape {
		n = append(n, shapes[i].Name)
	}
	return strings.Join(n, "+")
}

func (a *f4App) shapeKind() string {
	var n []string
	for _, i := range a.shape {
		n = append(n, shapes[i].Kind)
	}
	sort.Strings(n)
	if len(n) == 2 && n[0] == n[1] {
		n = n[:1]
	}
	return strings.Join(n, "+")
}

// routeProbe calls the accessors whose result depends on the request target and on the matched route.
func routeProbe(c fiber.Ctx, st *appState) {
	p := st.probe
	p("f4:Path", func() { use(c.Path(), c.OriginalURL(), c.Method(), c.Route().Path, c.Route().Method) })
	p("f4:Params", func() {
		for _, n := range c.Route().Params {
			use(c.Params(n))
		}
		use(c.Params("id"), c.Params("*"), c.Params("+"), c.Params("*2"), fiber.Params[int](c, "id"))
		m := map[string]string{}
		use(c.Bind().URI(m))
	})
	p("f4:Host", func() { use(c.Host(), c.Hostname(), c.BaseURL(), c.Scheme(), c.Port(), c.Subdomains()) })
	p("f4:Query", func() { use(c.Queries(), c.Query("a")) })
}

func buildShapeApp(a *f4App, st *appState) *fiber.App {
	eh := func(ctx fiber.Ctx, err error) error {
		st.ehCalls++
		code := 500
		var fe *fiber.Error
		if errors.As(err, &fe) {
			code = fe.Code
		}
		st.ehCode = code
		st.probe("errhandler:Method", func() { use(ctx.Method()) })
		st.probe("errhandler:Path", func() { use(ctx.Path(), ctx.OriginalURL()) })
		st.probe("errhandler:Route", func() { use(ctx.Route().Path) })
		return fiber.DefaultErrorHandler(ctx, err)
	}
	newApp := func() *fiber.App {
		conf := a.cfg.conf()
		conf.ErrorHandler = eh
		return fiber.New(conf)
	}
	app := newApp()
	if a.cfg.CustomCtx {
		app.NewCtxFunc(func(x *fiber.App) fiber.CustomCtx {
			return &myCtx{DefaultCtx: *fiber.NewDefaultCtx(x)}
		})
	}
	h := &shapeH{
		mw: func(c fiber.Ctx) error {
			st.ran++
			st.mwRan++
			routeProbe(c, st)
			return c.Next()
		},
		ep: func(c fiber.Ctx) error {
			st.ran++
			st.epRan++
			routeProbe(c, st)
			return c.SendString("EP-OK")
		},
		nf: func(c fiber.Ctx) error {
			st.ran++
			return c.Status(fiber.StatusNotFound).SendString("NF")
		},
		rewrite: func(c fiber.Ctx) error {
			st.ran++
			rest := strings.TrimPrefix(c.Path(), "/api")
			if rest == "" || rest[0] != '/' {
				rest = "/" + rest
			}
			st.probe("f4:PathOverride", func() { use(c.Path(rest)) })
			return c.Next()
		},
		sub: newApp,
	}
	for _, i := range a.shape {
		shapes[i].Reg(app, h)
	}
	app.Handler()
	return app
}

var warmRequests4 = []string{
	"GET /api/v1 HTTP/1.1\r\nHost: h\r\n\r\n",
	"GET /nowhere/at/all HTTP/1.1\r\nHost: h\r\n\r\n",
	"POST /api/7 HTTP/1.1\r\nHost: h\r\n\r\n",
}

// f4Shards lists (configuration, shape set) pairs: every single shape in both tiers, every
// unordered pair of shapes of different kinds in the thorough tier (registration order = list order).
func f4ShapeSets(quick bool) [][]int {
	var out [][]int
	for i := range shapes {
		out = append(out, []int{i})
	}
	if !quick {
		for i := range shapes {
			for j := i + 1; j < len(shapes); j++ {
				if shapes[i].Kind != shapes[j].Kind && shapes[i].Kind != "no-routes" {
					out = append(out, []int{i, j})
				}
			}
		}
	}
	return out
}

func f4Request(method, target string) []byte {
	return []byte(method + " " + target + " HTTP/1.1\r\nHost: example.com\r\n\r\n")
}

func f4Desc(a *f4App, method string, t *target4) map[string]any {
	return map[string]any{"family": "f4-shapes", "config": a.cfg.Name, "shape": a.shapeName(), "shape_kind": a.shapeKind(),
		"method": method, "target": t.T, "target_class": t.Class, "request": clipReq(f4Request(method, t.T))}
}

func f4Rule(quick bool) string {
	nk := map[string]bool{}
	for _, s := range shapes {
		nk[s.Kind] = true
	}
	return fmt.Sprintf("F4 = application shapes x degenerate targets, a full product: %d shape sets (%d route-registration shapes of %d kinds: root/prefix/parameter/wildcard Use, groups, mounted sub-apps, constant/parameter/optional/wildcard/greedy/constrained (every built-in constraint kind, a custom and an unknown one)/delimiter/escaped/adjacent-parameter endpoints, route chains, a path-rewriting middleware%s) "+
		"x %d routing configurations ({StrictRouting} x {CaseSensitive} x {UnescapePath} x {default ctx, custom ctx, custom RequestMethods, %s}) "+
		"x %d targets (slash-only, dot segments, encoded slash/dot/NUL, asterisk, absolute/authority form, no leading slash, query/fragment only, empty, 1-4 byte paths, an accepted and a refused value for every constraint kind, numbers beyond the integer range, multi-byte / invalid UTF-8 raw and percent-encoded, and %d route bases x %d suffixes: slash runs, every delimiter of the route grammar, encoded bytes, dot segments, queries) "+
		"x %d methods; every handler probes Path/Route/Params/Bind.URI/Host/Query. ",
		len(f4ShapeSets(quick)), len(shapes), len(nk), map[bool]string{true: "", false: "; plus every pair of shapes of different kinds, the pairs on the eight configurations with the default context and method list"}[quick],
		len(cfg4s(quick)), map[bool]string{true: "both on the all-off and all-on valuation", false: "both"}[quick], len(targets4), len(bases4), len(suffixes4), len(methods4(quick)))
}
