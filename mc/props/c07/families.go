// The three exhaustive input families of C07 (plus the small "balloon" family that runs under
// ulimit): alphabets, request assembly and enumeration order. Everything here is deterministic.
package main

import (
	"bytes"
	"fmt"
	"sort"
	"strconv"
	"strings"

	"github.com/valyala/fasthttp"
)

// ---------------------------------------------------------------------------
// family 1: grammar product

type methodL struct {
	M     string
	Token bool // a syntactically valid method token
}

var methodsL = []methodL{
	{"GET", true}, {"POST", true}, {"HEAD", true}, {"OPTIONS", true}, {"PURGE", true}, {"TRACE", true},
	{"FOO", true}, {"get", true}, {"", false},
}

type targetL struct {
	T      string
	Valid  bool // origin-form or absolute-form without syntax errors
	Routed bool // reaches the /all handler when method and version are fine
}

var longPath = "/" + strings.Repeat("abcdefghi/", 30) // 301 bytes

var targetsL = []targetL{
	{"/", true, false},
	{"/all", true, true},
	{"/all/../x", true, false},
	{"/%", false, false},
	{"/%zz", false, false},
	{"*", false, false},
	{"http://h/all", true, true},
	{longPath, true, false},
	{"//", true, false},
	{"/all?x=1&x=2&=&%", true, true},
	{"/p/a%2Fb/c%20d?id=7&x=9", true, true},
}

type versionL struct {
	V  string
	OK bool
}

var versionsL = []versionL{{"HTTP/1.1", true}, {"HTTP/1.0", true}, {"HTTP/2.0", false}, {"JUNK", false}}

type reqLine struct {
	M methodL
	T targetL
	V versionL
}

func allLines() []reqLine {
	var out []reqLine
	for _, m := range methodsL {
		for _, t := range targetsL {
			for _, v := range versionsL {
				out = append(out, reqLine{m, t, v})
			}
		}
	}
	return out
}

// handlerLines: the request lines that reach the /all handler in at least one configuration
// (used for the 3-header product of the thorough tier).
func handlerLines() []reqLine {
	var out []reqLine
	for _, m := range []methodL{{"GET", true}, {"POST", true}, {"HEAD", true}, {"PURGE", true}, {"FOO", true}} {
		for _, t := range targetsL {
			if !t.Routed {
				continue
			}
			for _, v := range versionsL[:2] {
				out = append(out, reqLine{m, t, v})
			}
		}
	}
	return out
}

// letter is one value of one header slot.
type letter struct {
	Slot  string
	ID    string
	Lines []string // raw header lines (no CRLF)
	// body / framing contributions
	Payload   []byte              // Content-Type letters: the entity
	HasBody   bool                // letter wants a body even with an empty payload
	Enc       func([]byte) []byte // Content-Encoding letters
	Framing   string              // Framing letters
	HostSlot  bool                // replaces the default Host line
	Malformed bool                // the request is definitely malformed: a 4xx is required
	Hostile   bool                // syntax-level hostile: status expectations are switched off
}

type slotT struct {
	Name    string
	Letters []letter
}

func hl(slot, id string, lines ...string) letter { return letter{Slot: slot, ID: id, Lines: lines} }

func gz(b []byte) []byte  { return fasthttp.AppendGzipBytes(nil, b) }
func br(b []byte) []byte  { return fasthttp.AppendBrotliBytes(nil, b) }
func dfl(b []byte) []byte { return fasthttp.AppendDeflateBytes(nil, b) }
func zs(b []byte) []byte  { return fasthttp.AppendZstdBytes(nil, b) }

func corrupt(b []byte) []byte {
	c := append([]byte(nil), b...)
	if len(c) > 12 {
		c[len(c)/2] ^= 0x5a
		c[len(c)/2+1] ^= 0xa5
	}
	return c
}
func truncate(b []byte) []byte { return append([]byte(nil), b[:len(b)/2]...) }

// flash cookie payloads (raw msgpack, as fiber itself writes them)
func msgpStr(s string) string {
	if len(s) < 32 {
		return string([]byte{0xa0 | byte(len(s))}) + s
	}
	return string([]byte{0xd9, byte(len(s))}) + s
}

// flashMsg encodes one redirectionMsg without control bytes (level 33, not 0) so that it can travel
// in a request header.
func flashMsg(k, v string, old bool) string {
	o := "\xc2"
	if old {
		o = "\xc3"
	}
	return "\x84" + msgpStr("key") + msgpStr(k) + msgpStr("value") + msgpStr(v) + msgpStr("level") + "\x21" + msgpStr("isOldInput") + o
}

var jsonDeep = strings.Repeat("[", 200) + strings.Repeat("]", 200)
var xmlDeep = strings.Repeat("<a>", 100) + strings.Repeat("</a>", 100)

const mpGood = "--X\r\nContent-Disposition: form-data; name=\"a\"\r\n\r\nb\r\n--X\r\nContent-Disposition: form-data; name=\"file\"; filename=\"f.txt\"\r\nContent-Type: text/plain\r\n\r\nFILE\r\n--X--\r\n"

var slots = []slotT{
	{"Range", []letter{
		hl("Range", "first500", "Range: bytes=0-499"),
		hl("Range", "suffix1", "Range: bytes=-1"),
		hl("Range", "open", "Range: bytes=500-"),
		hl("Range", "multi", "Range: bytes=0-0,-1, 5-7"),
		hl("Range", "hugeopen", "Range: bytes=9999999999999999999-"),
		hl("Range", "hugesuffix", "Range: bytes=-9999999999999999999"),
		hl("Range", "suffixgtsize", "Range: bytes=-5000"),
		hl("Range", "eq", "Range: ="),
		hl("Range", "a=b=c", "Range: a=b=c"),
		hl("Range", "commas", "Range: bytes=,,"),
		hl("Range", "reversed", "Range: bytes=5-2"),
		hl("Range", "dash", "Range: bytes=-"),
		hl("Range", "alpha", "Range: bytes=a-b"),
		hl("Range", "empty", "Range:"),
		hl("Range", "beyond", "Range: bytes=1000-2000"),
		hl("Range", "maxint", "Range: bytes=9223372036854775807-9223372036854775807"),
	}},
	{"Accept", []letter{
		hl("Accept", "html", "Accept: text/html"),
		hl("Accept", "q0", "Accept: */*;q=0"),
		hl("Accept", "mixed", "Accept: text/*;q=0.5, application/json"),
		hl("Accept", "q1.5", "Accept: application/json;q=1.5"),
		hl("Accept", "qempty", "Accept: text/html;q="),
		hl("Accept", "onlyq", "Accept: ;q=1"),
		hl("Accept", "commas", "Accept: ,,,"),
		hl("Accept", "badquote", `Accept: text/html;level="1\"`),
		hl("Accept", "quotedcomma", `Accept: a/b;c="d,e";q=0.1, text/html;level=1`),
		hl("Accept", "ext", "Accept: text/html; q=0.5; ext"),
		hl("Accept", "dquote", `Accept: "`),
		hl("Accept", "xml", "Accept: application/xml;q=0.9, text/plain;q=0.8"),
	}},
	{"AcceptX", []letter{
		hl("AcceptX", "cs-q0", "Accept-Charset: utf-8;q=0, *"),
		hl("AcceptX", "cs-comma", "Accept-Charset: ,"),
		hl("AcceptX", "enc", "Accept-Encoding: gzip, br;q=0"),
		hl("AcceptX", "enc-qempty", "Accept-Encoding: ;q="),
		hl("AcceptX", "enc-star0", "Accept-Encoding: *;q=0"),
		hl("AcceptX", "lang", "Accept-Language: en-US, en;q=0.5"),
		hl("AcceptX", "lang-star", "Accept-Language: *"),
		hl("AcceptX", "lang-qabc", "Accept-Language: en;q=abc, fr;q=0.00001"),
	}},
	{"Cookie", []letter{
		hl("Cookie", "simple", "Cookie: a=b"),
		hl("Cookie", "dup", "Cookie: a=b; c=d; a=e; name=n; x=12; tags=t1,t2"),
		hl("Cookie", "eq", "Cookie: ="),
		hl("Cookie", "semis", "Cookie: ;;;"),
		hl("Cookie", "openquote", `Cookie: a="b`),
		hl("Cookie", "flash-empty", "Cookie: fiber_flash="),
		hl("Cookie", "flash-1msg", "Cookie: fiber_flash=\x91"+flashMsg("k", "v", false)),
		hl("Cookie", "flash-2msg", "Cookie: a=b; fiber_flash=\x92"+flashMsg("k", "v", false)+flashMsg("o", "w", true)),
		hl("Cookie", "flash-trunc", "Cookie: fiber_flash=\x91\x84\xa3key\xa1k\xa5val"),
		hl("Cookie", "flash-n0", "Cookie: fiber_flash=\x90"),
		hl("Cookie", "flash-fix15-nocontent", "Cookie: fiber_flash=\x9f"),
		hl("Cookie", "flash-map", "Cookie: fiber_flash=\x81\xa1k\xa1v"),
		hl("Cookie", "flash-unknownfield-nested", "Cookie: fiber_flash=\x91\x81\xa1z"+strings.Repeat("\x91", 120)+"\xc0"),
		hl("Cookie", "flash-str32-huge", "Cookie: fiber_flash=\x91\x81\xa3key\xdb\x7e\x7e\x7e\x7e"),
		{Slot: "Cookie", ID: "flash-nul", Lines: []string{"Cookie: fiber_flash=\x91\x84\xa3key\xa1k\xa5value\xa1v\xa5level\x00\xaaisOldInput\xc2"}, Malformed: true},
	}},
	{"ContentEncoding", []letter{
		{Slot: "ContentEncoding", ID: "gzip", Lines: []string{"Content-Encoding: gzip"}, Enc: gz},
		{Slot: "ContentEncoding", ID: "gzip-corrupt", Lines: []string{"Content-Encoding: gzip"}, Enc: func(b []byte) []byte { return corrupt(gz(b)) }},
		{Slot: "ContentEncoding", ID: "gzip-trunc", Lines: []string{"Content-Encoding: gzip"}, Enc: func(b []byte) []byte { return truncate(gz(b)) }},
		{Slot: "ContentEncoding", ID: "gzip,br", Lines: []string{"Content-Encoding: gzip, br"}, Enc: func(b []byte) []byte { return br(gz(b)) }},
		{Slot: "ContentEncoding", ID: "br,gzip-fiber-order", Lines: []string{"Content-Encoding: br, gzip"}, Enc: func(b []byte) []byte { return br(gz(b)) }},
		{Slot: "ContentEncoding", ID: "x", Lines: []string{"Content-Encoding: x"}, Enc: func(b []byte) []byte { return b }},
		{Slot: "ContentEncoding", ID: "gzip4", Lines: []string{"Content-Encoding: gzip, gzip,gzip ,  gzip"}, Enc: func(b []byte) []byte { return gz(gz(gz(gz(b)))) }},
		{Slot: "ContentEncoding", ID: "deflate", Lines: []string{"Content-Encoding: deflate"}, Enc: dfl},
		{Slot: "ContentEncoding", ID: "zstd-corrupt", Lines: []string{"Content-Encoding: zstd"}, Enc: func(b []byte) []byte { return corrupt(zs(b)) }},
		{Slot: "ContentEncoding", ID: "br-trunc", Lines: []string{"Content-Encoding: br"}, Enc: func(b []byte) []byte { return truncate(br(b)) }},
		{Slot: "ContentEncoding", ID: "commas", Lines: []string{"Content-Encoding: ,,gzip,,"}, Enc: gz},
	}},
	{"XFwd", []letter{
		hl("XFwd", "for1", "X-Forwarded-For: 1.2.3.4"),
		hl("XFwd", "for-mixed", "X-Forwarded-For: 1.2.3.4, ::1,,garbage, "),
		hl("XFwd", "for-comma", "X-Forwarded-For: ,"),
		hl("XFwd", "for-many", "X-Forwarded-For: "+strings.Repeat(",", 200)),
		hl("XFwd", "host-deep", "X-Forwarded-Host: a.b.c.d.e"),
		hl("XFwd", "host-comma", "X-Forwarded-Host: ,x"),
		hl("XFwd", "host-dots", "X-Forwarded-Host: ...."),
		hl("XFwd", "proto", "X-Forwarded-Proto: https", "X-Forwarded-Ssl: on"),
		hl("XFwd", "proto-comma", "X-Forwarded-Proto: ,", "X-Url-Scheme: \x80"),
	}},
	{"Host", []letter{
		{Slot: "Host", ID: "absent", HostSlot: true, Hostile: true},
		{Slot: "Host", ID: "empty", HostSlot: true, Lines: []string{"Host:"}},
		{Slot: "Host", ID: "sub", HostSlot: true, Lines: []string{"Host: a.b.example.com"}},
		{Slot: "Host", ID: "port", HostSlot: true, Lines: []string{"Host: example.com:8080"}},
		{Slot: "Host", ID: "ipv6", HostSlot: true, Lines: []string{"Host: [::1]:80"}},
		{Slot: "Host", ID: "dots", HostSlot: true, Lines: []string{"Host: a..b."}},
		{Slot: "Host", ID: "dot", HostSlot: true, Lines: []string{"Host: ."}},
		{Slot: "Host", ID: "twice", HostSlot: true, Lines: []string{"Host: a.example.com", "Host: b.example.com"}, Hostile: true},
	}},
	{"Framing", []letter{
		{Slot: "Framing", ID: "cl-exact", Framing: "cl-exact"},
		{Slot: "Framing", ID: "cl-short", Framing: "cl-short", Hostile: true},
		{Slot: "Framing", ID: "cl-long", Framing: "cl-long", Hostile: true},
		{Slot: "Framing", ID: "cl-abc", Framing: "cl-abc", Malformed: true},
		{Slot: "Framing", ID: "cl-neg", Framing: "cl-neg", Malformed: true},
		{Slot: "Framing", ID: "cl-huge", Framing: "cl-huge", Hostile: true},
		{Slot: "Framing", ID: "cl-conflict", Framing: "cl-conflict", Malformed: true},
		{Slot: "Framing", ID: "te-chunked", Framing: "te-chunked"},
		{Slot: "Framing", ID: "te-chunked-bad", Framing: "te-chunked-bad", Hostile: true},
		{Slot: "Framing", ID: "cl+te", Framing: "cl+te", Hostile: true},
		{Slot: "Framing", ID: "te-gzip", Framing: "te-gzip", Hostile: true},
	}},
	{"ContentType", []letter{
		{Slot: "ContentType", ID: "form", Lines: []string{"Content-Type: application/x-www-form-urlencoded"}, Payload: []byte("a=1&b=2&a=3&=&%zz&name=n&x=5&tags=t1&tags=t2")},
		{Slot: "ContentType", ID: "json", Lines: []string{"Content-Type: application/json"}, Payload: []byte(`{"name":"x","tags":["a","b"],"x":1,"a":"b"}`)},
		{Slot: "ContentType", ID: "json-trunc", Lines: []string{"Content-Type: application/json; charset=utf-8"}, Payload: []byte(`{"name":`)},
		{Slot: "ContentType", ID: "json-deep", Lines: []string{"Content-Type: application/json"}, Payload: []byte(jsonDeep)},
		{Slot: "ContentType", ID: "json-vendor", Lines: []string{"Content-Type: application/vnd.api+json"}, Payload: []byte(`{"x":"notint"}`)},
		{Slot: "ContentType", ID: "xml", Lines: []string{"Content-Type: application/xml"}, Payload: []byte(`<bindT><name>n</name><x>3</x><tags>t</tags></bindT>`)},
		{Slot: "ContentType", ID: "xml-bad", Lines: []string{"Content-Type: text/xml"}, Payload: []byte(`<bindT><name>n</nam`)},
		{Slot: "ContentType", ID: "xml-deep", Lines: []string{"Content-Type: application/xml"}, Payload: []byte(xmlDeep)},
		{Slot: "ContentType", ID: "cbor", Lines: []string{"Content-Type: application/cbor"}, Payload: []byte("\xa2\x64name\x61n\x61x\x03")},
		{Slot: "ContentType", ID: "cbor-bad", Lines: []string{"Content-Type: application/cbor"}, Payload: []byte("\xbf\x9f\x9f\x9f\x5f\xff")},
		{Slot: "ContentType", ID: "multipart", Lines: []string{"Content-Type: multipart/form-data; boundary=X"}, Payload: []byte(mpGood)},
		{Slot: "ContentType", ID: "multipart-otherboundary", Lines: []string{"Content-Type: multipart/form-data; boundary=Y"}, Payload: []byte(mpGood), Hostile: true},
		{Slot: "ContentType", ID: "multipart-noboundary", Lines: []string{"Content-Type: multipart/form-data"}, Payload: []byte(mpGood), Hostile: true},
		{Slot: "ContentType", ID: "multipart-emptyboundary", Lines: []string{`Content-Type: multipart/form-data; boundary=""`}, Payload: []byte(mpGood), Hostile: true},
		{Slot: "ContentType", ID: "semicolon", Lines: []string{"Content-Type: ;"}, Payload: []byte("a=1")},
		{Slot: "ContentType", ID: "empty", Lines: []string{"Content-Type:"}, HasBody: true},
	}},
	{"Cond", []letter{
		hl("Cond", "inm", `If-None-Match: "abc"`),
		hl("Cond", "inm-star", "If-None-Match: *"),
		hl("Cond", "inm-weak-list", `If-None-Match: W/"abc", "x`),
		hl("Cond", "inm-commas", `If-None-Match: ,,,"`),
		hl("Cond", "ims", "If-Modified-Since: Mon, 02 Jan 2006 15:04:05 GMT"),
		hl("Cond", "ims-garbage", "If-Modified-Since: garbage"),
		hl("Cond", "inm+ims", `If-None-Match: W/"abc"`, "If-Modified-Since: Tue, 03 Jan 2006 15:04:05 GMT"),
		hl("Cond", "inm+nocache", `If-None-Match: "abc"`, "Cache-Control: max-age=0,no-cache"),
	}},
	{"Conn", []letter{
		hl("Conn", "close", "Connection: close"),
		hl("Conn", "keepalive", "Connection: keep-alive"),
		{Slot: "Conn", ID: "expect100", Lines: []string{"Expect: 100-continue"}, HasBody: true},
		hl("Conn", "upgrade", "Connection: Upgrade", "Upgrade: websocket"),
	}},
	{"Misc", []letter{
		hl("Misc", "xhr", "X-Requested-With: XMLHttpRequest"),
		hl("Misc", "xhr-obs", "X-Requested-With: xmlhttprequest\x80"),
		{Slot: "Misc", ID: "line-without-colon", Lines: []string{"garbage-line"}, Malformed: true},
		{Slot: "Misc", ID: "space-before-colon", Lines: []string{"X-A : b"}, Hostile: true},
		{Slot: "Misc", ID: "obs-fold", Lines: []string{"X-A: b", " folded"}, Hostile: true},
		{Slot: "Misc", ID: "nul-in-value", Lines: []string{"X-A: b\x00c"}, Malformed: true},
		{Slot: "Misc", ID: "referer", Lines: []string{"Referer: http://h/back?a=b", "User-Agent: c07"}},
	}},
}

var defaultPayload = []byte("hello=world&a=1")

// hset is one header set: indices (slot, letter) in slot order.
type hset []*letter

func (h hset) ids() []string {
	var out []string
	for _, l := range h {
		out = append(out, l.Slot+":"+l.ID)
	}
	return out
}

// enumSets calls f for every header set with exactly k letters from distinct slots whose first
// slot index is in [firstLo, firstHi).
func enumSets(k int, firstLo, firstHi int, f func(h hset)) {
	cur := make(hset, 0, k)
	var rec func(start int)
	rec = func(start int) {
		if len(cur) == k {
			f(cur)
			return
		}
		lo, hi := start, len(slots)
		if len(cur) == 0 {
			if firstLo > lo {
				lo = firstLo
			}
			hi = firstHi
		}
		for s := lo; s < hi; s++ {
			for li := range slots[s].Letters {
				cur = append(cur, &slots[s].Letters[li])
				rec(s + 1)
				cur = cur[:len(cur)-1]
			}
		}
	}
	rec(0)
}

// encCache memoises encoded bodies per (payload letter, encoding letter).
type encKey struct{ p, e *letter }

type reqBuilder struct {
	buf   bytes.Buffer
	cache map[encKey][]byte
}

func newReqBuilder() *reqBuilder { return &reqBuilder{cache: map[encKey][]byte{}} }

// build assembles the request bytes. The entity is the payload of the Content-Type letter (or a
// default form payload when only an encoding/framing letter asks for a body), transformed by
// the Content-Encoding letter, framed according to the Framing letter (default: an exact
// Content-Length when there is a body).
func (rb *reqBuilder) build(line reqLine, h hset) []byte {
	b := &rb.buf
	b.Reset()
	b.WriteString(line.M.M)
	b.WriteByte(' ')
	b.WriteString(line.T.T)
	b.WriteByte(' ')
	b.WriteString(line.V.V)
	b.WriteString("\r\n")
	var pl, el, fl *letter
	hostGiven := false
	wantBody := false
	for _, l := range h {
		if l.HostSlot {
			hostGiven = true
		}
		if l.Payload != nil || l.HasBody {
			if l.Payload != nil {
				pl = l
			}
			wantBody = true
		}
		if l.Enc != nil {
			el = l
			wantBody = true
		}
		if l.Framing != "" {
			fl = l
			wantBody = true
		}
	}
	if !hostGiven {
		b.WriteString("Host: example.com\r\n")
	}
	for _, l := range h {
		for _, ln := range l.Lines {
			b.WriteString(ln)
			b.WriteString("\r\n")
		}
	}
	var body []byte
	if wantBody {
		payload := defaultPayload
		if pl != nil {
			payload = pl.Payload
		}
		body = payload
		if el != nil {
			k := encKey{pl, el}
			enc, ok := rb.cache[k]
			if !ok {
				enc = el.Enc(payload)
				rb.cache[k] = enc
			}
			body = enc
		}
	}
	mode := ""
	if fl != nil {
		mode = fl.Framing
	} else if len(body) > 0 {
		mode = "cl-exact"
	}
	n := len(body)
	cl := func(v string) { b.WriteString("Content-Length: " + v + "\r\n") }
	chunked := false
	switch mode {
	case "cl-exact":
		cl(strconv.Itoa(n))
	case "cl-short":
		if n > 0 {
			cl(strconv.Itoa(n - 1))
		} else {
			cl("0")
		}
	case "cl-long":
		cl(strconv.Itoa(n + 5))
	case "cl-abc":
		cl("abc")
	case "cl-neg":
		cl("-1")
	case "cl-huge":
		cl("99999999999999999999")
	case "cl-conflict":
		cl(strconv.Itoa(n))
		cl(strconv.Itoa(n + 1))
	case "te-chunked":
		b.WriteString("Transfer-Encoding: chunked\r\n")
		chunked = true
	case "te-chunked-bad":
		b.WriteString("Transfer-Encoding: chunked\r\n")
	case "cl+te":
		cl(strconv.Itoa(n))
		b.WriteString("Transfer-Encoding: chunked\r\n")
		chunked = true
	case "te-gzip":
		b.WriteString("Transfer-Encoding: gzip\r\n")
	}
	b.WriteString("\r\n")
	switch {
	case chunked:
		if n > 0 {
			half := n / 2
			if half > 0 {
				fmt.Fprintf(b, "%x\r\n", half)
				b.Write(body[:half])
				b.WriteString("\r\n")
			}
			fmt.Fprintf(b, "%X;ext=1\r\n", n-half)
			b.Write(body[half:])
			b.WriteString("\r\n")
		}
		b.WriteString("0\r\n\r\n")
	case mode == "te-chunked-bad":
		b.WriteString("zz\r\n")
		b.Write(body)
		b.WriteString("\r\n0\r\n\r\n")
	default:
		b.Write(body)
	}
	return b.Bytes()
}

// ---------------------------------------------------------------------------
// family 2: edit neighbourhoods

var editBytes = []byte{0x00, '\r', '\n', ' ', ':', ';', ',', '"', '%', 0x80, 0xff}

func withCL(head string, body string) string {
	return head + "Content-Length: " + strconv.Itoa(len(body)) + "\r\n\r\n" + body
}

// seeds: short well-formed requests, shortest first (the first pairSeeds ones get the pair neighbourhood).
var seeds = buildSeeds()

func buildSeeds() []string {
	s := []string{
		"GET /all?x=1 HTTP/1.1\r\nHost: a.b.c\r\nRange: bytes=0-5,-2\r\n\r\n",
		"GET /all HTTP/1.1\r\nHost: a.b\r\nAccept: text/html;q=0.8, */*\r\n\r\n",
		"POST /all HTTP/1.1\r\nHost: h\r\nTransfer-Encoding: chunked\r\n\r\n3\r\nabc\r\n0\r\n\r\n",
		withCL("POST /all HTTP/1.1\r\nHost: h\r\nContent-Type: application/json\r\n", `{"a":"b"}`),
		"GET /p/a%2Fb/c%20d?id=7 HTTP/1.1\r\nHost: h\r\nAccept-Language: en-US, fr;q=0.5\r\n\r\n",
		"GET /all HTTP/1.1\r\nHost: h\r\nX-Forwarded-For: 1.2.3.4, ::1\r\nX-Forwarded-Host: a.b.c.d\r\n\r\n",
		"GET /all HTTP/1.1\r\nHost: h\r\nIf-None-Match: \"abc\", W/\"x\"\r\nCache-Control: max-age=0\r\n\r\n",
		withCL("POST /all HTTP/1.1\r\nHost: h\r\nContent-Type: application/x-www-form-urlencoded\r\n", "a=b&c=d"),
		"GET /all HTTP/1.1\r\nHost: h\r\nCookie: a=b; fiber_flash=\x91" + flashMsg("k", "v", false) + "\r\n\r\n",
		withCL("POST /all HTTP/1.1\r\nHost: h\r\nContent-Encoding: gzip\r\n", string(gz([]byte("a=b")))),
		withCL("POST /all HTTP/1.1\r\nHost: h\r\nContent-Type: multipart/form-data; boundary=X\r\n", "--X\r\nContent-Disposition: form-data; name=\"a\"\r\n\r\nb\r\n--X--\r\n"),
		"HEAD /all HTTP/1.0\r\nHost: h\r\nConnection: keep-alive\r\nExpect: 100-continue\r\n\r\n",
	}
	sort.SliceStable(s, func(i, j int) bool { return len(s[i]) < len(s[j]) })
	return s
}

// edit kinds: 0 delete, 1 replace, 2 insert-before. An edit applies to a position of the ORIGINAL seed.
type edit struct {
	Pos  int
	Kind int
	B    byte
}

func (e edit) String() string {
	switch e.Kind {
	case 0:
		return fmt.Sprintf("del@%d", e.Pos)
	case 1:
		return fmt.Sprintf("rep@%d=%#02x", e.Pos, e.B)
	}
	return fmt.Sprintf("ins@%d=%#02x", e.Pos, e.B)
}

// editsAt lists the edits anchored at position pos of seed (pos == len(seed) allows insertion at the end).
func editsAt(seed string, pos int) []edit {
	var out []edit
	if pos < len(seed) {
		out = append(out, edit{pos, 0, 0})
		for _, b := range editBytes {
			if seed[pos] != b {
				out = append(out, edit{pos, 1, b})
			}
		}
	}
	for _, b := range editBytes {
		out = append(out, edit{pos, 2, b})
	}
	return out
}

// applyEdits applies edits sorted by position (inserts at a position come before a
// delete/replace of the byte at the same position).
func applyEdits(dst []byte, seed string, es ...edit) []byte {
	dst = dst[:0]
	ei := 0
	for pos := 0; pos <= len(seed); pos++ {
		consumed := false
		for ei < len(es) && es[ei].Pos == pos {
			e := es[ei]
			ei++
			switch e.Kind {
			case 2:
				dst = append(dst, e.B)
			case 1:
				dst = append(dst, e.B)
				consumed = true
			case 0:
				consumed = true
			}
		}
		if pos < len(seed) && !consumed {
			dst = append(dst, seed[pos])
		}
	}
	return dst
}

// pairOK: second edit must come at a later position, or at the same position when the first is
// an insertion (insert+insert gives two adjacent new bytes, insert+replace/delete touches the
// byte after the insertion). Two non-insert edits of the same byte are not a pair.
func pairOK(a, b edit) bool {
	if b.Pos > a.Pos {
		return true
	}
	return b.Pos == a.Pos && a.Kind == 2
}

// ---------------------------------------------------------------------------
// family 3: attacker strings

var symbols = []string{"a", "\r", "\n", "\r\n", "\x00", `"`, ";", ",", ":", " ", "é"}

func attackStrings() []string {
	out := []string{""}
	var rec func(prefix string, depth int)
	rec = func(prefix string, depth int) {
		if depth == 0 {
			return
		}
		for _, s := range symbols {
			out = append(out, prefix+s)
			rec(prefix+s, depth-1)
		}
	}
	rec("", 3)
	out = append(out, "a\r\nX-Injected: 1", "a\r\n\r\nBODY", "a\nX-Injected: 1", "a\rX-Injected: 1")
	return out
}

func hasCtl(q string) bool { return strings.ContainsAny(q, "\r\n\x00") }

// ---------------------------------------------------------------------------
// balloon family (runs in a child under `ulimit -v`): inputs suspected of huge allocations

type balloonCase struct {
	ID    string
	Req   []byte
	Class string
}

func flashHeaderCookie(hdr string) []byte {
	return []byte("GET /all HTTP/1.1\r\nHost: h\r\nCookie: fiber_flash=" + hdr + "\r\n\r\n")
}

func gzBomb(layers int, size int) []byte {
	b := make([]byte, size)
	for i := 0; i < layers; i++ {
		b = gz(b)
	}
	return b
}

func balloonCases(quick bool) []balloonCase {
	var out []balloonCase
	add := func(id, class string, req []byte) { out = append(out, balloonCase{id, req, class}) }
	// msgpack array headers announcing n elements, spelled with bytes a request header may carry
	for _, c := range []struct{ id, hdr string }{
		// (fasthttp refuses CTL bytes in header values, so only lengths spelled with bytes
		// 0x21..0x7e / 0x80..0xff reach fiber; the two CTL spellings are kept as controls)
		{"fixarray15", "\x9f"},
		{"array16-n=0x0121-ctl", "\xdc\x01\x21"},
		{"array16-n=0x2121", "\xdc\x21\x21"},
		{"array16-n=0x8080", "\xdc\x80\x80"},
		{"array16-n=0xffff", "\xdc\xff\xff"},
		{"array32-n=0x00010000-nul", "\xdd\x00\x01\x00\x00"},
		{"array32-n=0x21212121", "\xdd\x21\x21\x21\x21"},
		{"array32-n=0xffffffff", "\xdd\xff\xff\xff\xff"},
		{"array16-n=0xffff+1msg", "\xdc\xff\xff" + flashMsg("k", "v", false)},
	} {
		add("flash:"+c.id, "flash-cookie-array-header", flashHeaderCookie(c.hdr))
	}
	// decompression: one and two layers of gzip over zero bytes
	for _, c := range []struct {
		id     string
		layers int
		size   int
		ce     string
	}{
		{"gzip1-1MiB", 1, 1 << 20, "gzip"},
		{"gzip2-4MiB", 2, 4 << 20, "gzip, gzip"},
		{"gzip2-16MiB", 2, 16 << 20, "gzip, gzip"},
		{"gzip3-64MiB", 3, 64 << 20, "gzip, gzip, gzip"},
	} {
		if quick && c.size > 4<<20 {
			continue // the large ones cost seconds each: thorough tier only
		}
		body := gzBomb(c.layers, c.size)
		req := "POST /all HTTP/1.1\r\nHost: h\r\nContent-Encoding: " + c.ce + "\r\nContent-Length: " + strconv.Itoa(len(body)) + "\r\n\r\n" + string(body)
		add("zip:"+c.id, "gzip-layers="+strconv.Itoa(c.layers), []byte(req))
	}
	// many ranges / many commas: proportional inputs used as controls
	add("ctl:ranges", "control", []byte("GET /all HTTP/1.1\r\nHost: h\r\nRange: bytes="+strings.Repeat("0-0,", 500)+"1-1\r\n\r\n"))
	add("ctl:plain", "control", []byte("GET /all HTTP/1.1\r\nHost: h\r\n\r\n"))
	return out
}
