// Family 5: REQUEST-HEADER PARSERS reached through ctx helpers x REPETITION GRAMMARS.
//
// Family 1 gives every header slot a menu of hand-picked hostile values; no value there holds the
// same directive twice, a look-alike of a directive next to the directive, or the same header on
// two lines. Hand-written scanners (find the token, check its neighbours, resume the scan) go wrong
// exactly there. This family gives every parser that a ctx helper runs over a request header, the
// query string or a form body a small token grammar CLOSED UNDER REPETITION AND LOOK-ALIKES:
//
//	elements   the directive/token itself, a look-alike with a prefix (xno-cache), with a suffix
//	           (no-cachex), the quoted-argument / quoted form (no-cache="a"), the empty element, the
//	           other-case spelling, and one or two ordinary neighbours
//	values     EVERY sequence of 0, 1, 2 and 3 elements (so each token occurs 0-3 times, in every
//	           order with every other element) x EVERY separator of the parser's list (with and
//	           without spaces, and "the same header again on a second line")
//	           x every value prefix (bytes=, BYTES=, xbytes= ...) x every companion header set
//
// sent to /all, whose handler calls every read accessor and binder (Fresh/Stale after setting
// ETag/Last-Modified, Range, Accepts*, Is, IP/IPs, Host/Hostname/Port/Subdomains, Scheme/Protocol,
// Cookies, Queries/Query, Get*/GetReqHeaders, XHR, MultipartForm/FormValue, Body, Bind.*), in the
// six configurations plus two with a ProxyHeader (so that IP()/IPs() parse X-Forwarded-For).
// Oracles: the common ones - liveness first (a parser that rescans forever burns the CPU cap: the
// worker is killed, the case is confirmed alone in a fresh process), panic, allocation, strict
// response parse, response count, no unmapped 5xx.
package main

import (
	"fmt"
	"strconv"
	"strings"

	"github.com/gofiber/fiber/v3"
)

// cfgsAll = the six configurations of the property + the configurations only family 5 uses.
var cfgsAll = append(append([]cfgT(nil), cfgs...),
	cfgT{Name: "proxyheader", Methods: defaultMethods(), Mk: func() fiber.Config { return fiber.Config{ProxyHeader: "X-Forwarded-For"} }},
	cfgT{Name: "proxyheader+validation+trust", Methods: defaultMethods(), Mk: func() fiber.Config {
		return fiber.Config{ProxyHeader: "X-Forwarded-For", EnableIPValidation: true, TrustProxy: true, TrustProxyConfig: fiber.TrustProxyConfig{Loopback: true}}
	}},
)

const sepNewLine = "\n" // separator "the same header again on the next line"

type parser5 struct {
	Name   string // helper(s) reached / header parsed
	Header string // header carrying the value; "" with Where query/body
	Where  string // "header" | "query" | "body"
	// Prefixes: value prefixes (a unit such as bytes=, a media type before its parameters); nil = {""}
	Prefixes []string
	Elems    []string
	Seps     []string
	// Comps: companion header line sets; every value runs with every set; nil = one empty set
	Comps [][]string
	Post  bool   // POST with a body
	CType string // Content-Type of the body (Where != "header" or Post)
	Body  string
	// EncodeBody: the body is the payload run through the recognised content codings of the value
	// (second body variant next to the plain payload)
	EncodeBody bool
}

const imsOld = "If-Modified-Since: Mon, 02 Jan 2006 15:04:05 GMT"

var stdSeps = []string{",", ", ", " ,  ", sepNewLine}

var parsers5 = []parser5{
	{Name: "Fresh/Cache-Control", Header: "Cache-Control", Where: "header",
		Elems: []string{"no-cache", "xno-cache", "no-cachex", `no-cache="set-cookie"`, "", "NO-CACHE", "max-age=0", "no-store"}, Seps: stdSeps,
		Comps: [][]string{nil, {`If-None-Match: "abc"`}, {imsOld}, {`If-None-Match: W/"abc"`, imsOld}, {`If-None-Match: "other"`}}},
	{Name: "Fresh/If-None-Match", Header: "If-None-Match", Where: "header",
		Elems: []string{`"abc"`, `W/"abc"`, `"x"`, "*", "abc", `"abc`, "", `w/"ABC"`}, Seps: stdSeps,
		Comps: [][]string{nil, {imsOld, "Cache-Control: max-age=0"}, {"If-Modified-Since: garbage"}}},
	{Name: "Range", Header: "Range", Where: "header", Prefixes: []string{"bytes=", "BYTES=", "xbytes="},
		Elems: []string{"0-0", "-1", "5-", "5-2", "a-b", "-", "", "bytes=2-3"}, Seps: stdSeps},
	{Name: "Accepts/Accept", Header: "Accept", Where: "header",
		Elems: []string{"text/html", "*/*;q=0", "text/*;q=0.5", "xtext/html", "text/htmlx", `text/html;level="1,2"`, "", "TEXT/HTML"}, Seps: stdSeps},
	{Name: "Accepts/Accept-params", Header: "Accept", Where: "header", Prefixes: []string{"text/html;", "application/json, text/plain;"},
		Elems: []string{"q=0.5", "q=", "xq=1", "qx=1", `q="1"`, "", "Q=0", "level=1"}, Seps: []string{";", "; ", " ;  ", ","}},
	{Name: "AcceptsCharsets", Header: "Accept-Charset", Where: "header",
		Elems: []string{"utf-8", "iso-8859-1;q=0", "xutf-8", "utf-8x", `"utf-8"`, "", "UTF-8", "*"}, Seps: stdSeps},
	{Name: "AcceptsEncodings", Header: "Accept-Encoding", Where: "header",
		Elems: []string{"gzip", "br;q=0", "xgzip", "gzipx", `"gzip"`, "", "GZIP", "*;q=0"}, Seps: stdSeps},
	{Name: "AcceptsLanguages", Header: "Accept-Language", Where: "header",
		Elems: []string{"en", "en-US", "fr;q=0", "xen", "enx", `"en"`, "", "EN-us"}, Seps: stdSeps},
	{Name: "Is+Bind/Content-Type", Header: "Content-Type", Where: "header", Post: true, Body: `{"name":"n","x":1}`,
		Elems: []string{"application/json", "json", "xapplication/json", "application/jsonx", `application/json;charset="utf-8"`, "", "APPLICATION/JSON", "application/xml"},
		Seps:  []string{",", "; ", ";", sepNewLine}},
	{Name: "MultipartForm/boundary", Header: "Content-Type", Where: "header", Post: true, Body: mpGood, Prefixes: []string{"multipart/form-data; ", "multipart/form-data"},
		Elems: []string{"boundary=X", `boundary="X"`, "xboundary=X", "boundaryx=X", "", "BOUNDARY=X", "boundary=", "charset=utf-8"},
		Seps:  []string{"; ", ";", ",", " ;  "}},
	{Name: "IP+IPs/X-Forwarded-For", Header: "X-Forwarded-For", Where: "header",
		Elems: []string{"1.2.3.4", "::1", "1.2.3.4x", "x1.2.3.4", `"1.2.3.4"`, "", "999.1.1.1", "[::1]:80"}, Seps: stdSeps},
	{Name: "Hostname+Subdomains+Port/Host", Header: "Host", Where: "header",
		Elems: []string{"a", "example", "com", "", "A", "xn--a", "80", "[::1]"}, Seps: []string{".", ",", ":", sepNewLine}},
	{Name: "Hostname+Subdomains/X-Forwarded-Host", Header: "X-Forwarded-Host", Where: "header",
		Elems: []string{"a", "example", "com", "", "A", "xn--a", "80", "[::1]"}, Seps: []string{".", ", ", ":", sepNewLine}},
	{Name: "Cookies+Bind.Cookie", Header: "Cookie", Where: "header",
		Elems: []string{"a=b", "a=", "=b", "a", "xa=b", `a="b"`, "", "A=B"}, Seps: []string{"; ", ";", ",", sepNewLine}},
	{Name: "Flash/Cookie", Header: "Cookie", Where: "header",
		Elems: []string{"fiber_flash=\x90", "fiber_flash=\x91" + flashMsg("k", "v", false), "xfiber_flash=\x90", "fiber_flashx=\x90", "fiber_flash=\"\x90\"", "", "FIBER_FLASH=\x90", "a=b"},
		Seps:  []string{"; ", ";", ",", sepNewLine}},
	{Name: "Queries+Query", Where: "query",
		Elems: []string{"x=1", "x=", "=1", "x", "xx=1", "x=%zz", "", "X=2"}, Seps: []string{"&", ";", "&&", "&amp;"}},
	{Name: "Bind.Query", Where: "query",
		Elems: []string{"name=n", "tags=a", "tags=b,c", "x=notint", "x=5", "tags", "", "TAGS=d"}, Seps: []string{"&", ",", "&&", ";"}},
	{Name: "FormValue+Bind.Form/body", Where: "body", CType: "application/x-www-form-urlencoded",
		Elems: []string{"name=n", "tags=a", "tags=b,c", "x=notint", "a=5", "a", "", "A=d"}, Seps: []string{"&", ",", "&&", ";"}},
	{Name: "XHR", Header: "X-Requested-With", Where: "header",
		Elems: []string{"XMLHttpRequest", "xmlhttprequest", "xXMLHttpRequest", "XMLHttpRequestx", `"XMLHttpRequest"`, "", "XMLHTTPREQUEST", "x"}, Seps: stdSeps},
	{Name: "Scheme/X-Forwarded-Proto", Header: "X-Forwarded-Proto", Where: "header", Elems: schemeElems, Seps: stdSeps},
	{Name: "Scheme/X-Forwarded-Protocol", Header: "X-Forwarded-Protocol", Where: "header", Elems: schemeElems, Seps: stdSeps},
	{Name: "Scheme/X-Forwarded-Ssl", Header: "X-Forwarded-Ssl", Where: "header", Elems: schemeElems, Seps: stdSeps},
	{Name: "Scheme/X-Url-Scheme", Header: "X-Url-Scheme", Where: "header", Elems: schemeElems, Seps: stdSeps},
	{Name: "Body/Content-Encoding", Header: "Content-Encoding", Where: "header", Post: true, CType: "application/x-www-form-urlencoded", Body: "a=1&name=n", EncodeBody: true,
		Elems: []string{"gzip", "deflate", "br", "identity", "xgzip", "gzipx", "", "GZIP"}, Seps: stdSeps},
}

var schemeElems = []string{"https", "http", "xhttps", "httpsx", `"https"`, "", "HTTPS", "on"}

// unit5 is one shard of family 5: a parser with one prefix, one companion set and one body variant.
type unit5 struct {
	P       int
	Prefix  string
	Comp    []string
	Encoded bool
}

func units5() []unit5 {
	var out []unit5
	for pi := range parsers5 {
		p := &parsers5[pi]
		pre := p.Prefixes
		if pre == nil {
			pre = []string{""}
		}
		comps := p.Comps
		if comps == nil {
			comps = [][]string{nil}
		}
		for _, x := range pre {
			for _, c := range comps {
				out = append(out, unit5{P: pi, Prefix: x, Comp: c})
				if p.EncodeBody {
					out = append(out, unit5{P: pi, Prefix: x, Comp: c, Encoded: true})
				}
			}
		}
	}
	return out
}

// enumSeqs5 calls f for every sequence of 0..3 elements and every separator (the sequences of
// length 0 and 1 hold no separator and are produced once).
func enumSeqs5(p *parser5, f func(seq []int, sep string)) {
	f(nil, "")
	n := len(p.Elems)
	for a := 0; a < n; a++ {
		f([]int{a}, "")
	}
	for _, sep := range p.Seps {
		for a := 0; a < n; a++ {
			for b := 0; b < n; b++ {
				f([]int{a, b}, sep)
			}
		}
		for a := 0; a < n; a++ {
			for b := 0; b < n; b++ {
				for c := 0; c < n; c++ {
					f([]int{a, b, c}, sep)
				}
			}
		}
	}
}

// tabSeps5: the separators of the parser with HTAB as the optional whitespace (RFC 9110: OWS = *( SP / HTAB )):
// every separator that holds spaces with each space turned into a tab, and the first separator
// character followed by a tab and surrounded by tabs.
func tabSeps5(p *parser5) []string {
	var out []string
	add := func(s string) {
		for _, x := range out {
			if x == s {
				return
			}
		}
		out = append(out, s)
	}
	for _, s := range p.Seps {
		if s != sepNewLine && strings.Contains(s, " ") {
			add(strings.ReplaceAll(s, " ", "\t"))
		}
	}
	c := p.Seps[0][:1]
	add(c + "\t")
	add("\t" + c + "\t")
	return out
}

// enumTabSeqs5 calls f for every sequence of 2 (maxLen 2) or 2-3 (maxLen 3) elements and every tab separator.
func enumTabSeqs5(p *parser5, maxLen int, f func(seq []int, sep string)) {
	n := len(p.Elems)
	for _, sep := range tabSeps5(p) {
		for a := 0; a < n; a++ {
			for b := 0; b < n; b++ {
				f([]int{a, b}, sep)
				if maxLen < 3 {
					continue
				}
				for c := 0; c < n; c++ {
					f([]int{a, b, c}, sep)
				}
			}
		}
	}
}

// f7Long: the configuration (index into cfgsAll) on which family 7 also runs the sequences of 3 elements.
const f7Long = 0

func f7Rule() string {
	n2, n3 := 0, 0
	for _, u := range units5() {
		p := &parsers5[u.P]
		k := len(p.Elems)
		n2 += len(tabSeps5(p)) * k * k
		n3 += len(tabSeps5(p)) * k * k * k
	}
	return fmt.Sprintf("F7 = the grammars of F5 with HTAB as optional whitespace: every separator of a parser that holds spaces with the spaces turned into tabs, and its first separator character followed by / surrounded by a tab; "+
		"every sequence of 2 elements x every such separator x every unit = %d values x the %d configurations of F5, plus every sequence of 3 elements (%d values) on the default configuration. ", n2, len(cfgsAll), n3)
}

func seqCount5(p *parser5) int {
	n := len(p.Elems)
	return 1 + n + len(p.Seps)*(n*n+n*n*n)
}

// codings applies the recognised content codings of the sequence to the payload, first listed
// coding applied first (RFC 9110: codings are listed in the order they were applied).
func encodeBySeq(p *parser5, seq []int, payload []byte) []byte {
	b := payload
	for _, i := range seq {
		switch strings.ToLower(p.Elems[i]) {
		case "gzip":
			b = gz(b)
		case "deflate":
			b = dfl(b)
		case "br":
			b = br(b)
		}
	}
	return b
}

// build5 assembles the request of one case.
func build5(buf []byte, u *unit5, seq []int, sep string) []byte {
	p := &parsers5[u.P]
	b := buf[:0]
	// the value, or the header lines when the separator is "same header again"
	var lines []string
	val := u.Prefix
	if sep == sepNewLine {
		if len(seq) == 0 {
			lines = []string{u.Prefix}
		}
		for k, i := range seq {
			if k == 0 {
				lines = append(lines, u.Prefix+p.Elems[i])
			} else {
				lines = append(lines, p.Elems[i])
			}
		}
	} else {
		for k, i := range seq {
			if k > 0 {
				val += sep
			}
			val += p.Elems[i]
		}
		lines = []string{val}
	}
	method, target := "GET", "/all"
	if p.Post || p.Where == "body" {
		method = "POST"
	}
	if p.Where == "query" {
		target = "/all?" + val
	}
	b = append(b, method...)
	b = append(b, ' ')
	b = append(b, target...)
	b = append(b, " HTTP/1.1\r\n"...)
	if p.Header != "Host" {
		b = append(b, "Host: example.com\r\n"...)
	}
	for _, c := range u.Comp {
		b = append(b, c...)
		b = append(b, "\r\n"...)
	}
	if p.Where == "header" && !(len(seq) == 0 && u.Prefix == "") { // zero elements, no prefix: the header is absent
		for _, ln := range lines {
			b = append(b, p.Header...)
			b = append(b, ": "...)
			b = append(b, ln...)
			b = append(b, "\r\n"...)
		}
	}
	if method == "POST" {
		body := []byte(p.Body)
		if p.Where == "body" {
			body = []byte(val)
		}
		if u.Encoded {
			body = encodeBySeq(p, seq, body)
		}
		if p.CType != "" {
			b = append(b, "Content-Type: "+p.CType+"\r\n"...)
		}
		b = append(b, "Content-Length: "+strconv.Itoa(len(body))+"\r\n\r\n"...)
		b = append(b, body...)
	} else {
		b = append(b, "\r\n"...)
	}
	return b
}

func sepName(s string) string {
	if s == sepNewLine {
		return "(header repeated on a new line)"
	}
	return fmt.Sprintf("%q", s)
}

func f5Rule() string {
	total := 0
	for _, u := range units5() {
		total += seqCount5(&parsers5[u.P])
	}
	var names []string
	for _, p := range parsers5 {
		names = append(names, p.Name)
	}
	return fmt.Sprintf("F5 = request-header parsers x repetition grammars: %d parsers reached through ctx helpers (%s), each with 8 elements (the token, prefix and suffix look-alikes, quoted form, empty element, other case, neighbours) and 4 separators (with/without spaces, the header repeated on a new line): "+
		"every sequence of 0-3 elements x every separator x every value prefix x every companion header set = %d values in %d units, x %d configurations (the six + ProxyHeader without and with IP validation/TrustProxy), all sent to the handler that calls every accessor and binder. ",
		len(parsers5), strings.Join(names, ", "), total, len(units5()), len(cfgsAll))
}
