// Family 8: CONFIGURATION COMBINATIONS and REDUNDANT SPELLINGS.
//
// Families 1-3 and 5 run each option of the property (custom context, custom RequestMethods,
// Immutable, UnescapePath, small BodyLimit/ReadBufferSize) ALONE; family 4 combines the custom
// context with a custom method list in the thorough tier only. Code that consults two options at once
// (the custom-context request handler looking a method up in a custom method list, the unknown-method
// guard under small buffers ...) or that tells "configured" from "defaulted" fields is only decided by
// applications that set two options, or that set an option to a value equal to / a permutation of
// the default. This family is
//
//	every PAIR of the five options + all five together
//	+ redundant spellings: RequestMethods = the default list written out, = the default list
//	  reversed (alone and with the custom context); method lists of another LENGTH than the default
//	  one: {GET, HEAD} and default + PURGE + LINK (each alone and with the custom context);
//	  BodyLimit alone; ReadBufferSize alone
//
// x every HTTP/1.1 request line x every set of <= 1 header letters of family 1
// (same oracles as family 1, the 501 rule judged against the configured set).
// Family 4 gets the custom context + custom method list pair in the quick tier too (shapes.go).
package main

import (
	"fmt"
	"strings"

	"github.com/gofiber/fiber/v3"
)

type comboFlags struct{ C, M, I, U, S bool }

func (f comboFlags) name() string {
	var n []string
	for _, x := range []struct {
		on bool
		s  string
	}{{f.C, "customctx"}, {f.M, "methods"}, {f.I, "immutable"}, {f.U, "unescape"}, {f.S, "smallbuf"}} {
		if x.on {
			n = append(n, x.s)
		}
	}
	return strings.Join(n, "+")
}

func comboCfg(name string, f comboFlags, methods []string, bodyLimit, readBuf int) cfgT {
	ref := defaultMethods()
	if f.M && methods == nil {
		methods = customMethods()
	}
	if methods != nil {
		ref = append([]string(nil), methods...)
	}
	if f.S {
		bodyLimit, readBuf = 64, 256
	}
	return cfgT{Name: name, Custom: f.C, Methods: ref, Small: bodyLimit > 0 || readBuf > 0, Unescape: f.U, Mk: func() fiber.Config {
		c := fiber.Config{Immutable: f.I, UnescapePath: f.U, BodyLimit: bodyLimit, ReadBufferSize: readBuf}
		if methods != nil {
			c.RequestMethods = append([]string(nil), methods...)
		}
		return c
	}}
}

func reversedDefaultMethods() []string {
	d := defaultMethods()
	for i, j := 0, len(d)-1; i < j; i, j = i+1, j-1 {
		d[i], d[j] = d[j], d[i]
	}
	return d
}

func buildCombos() []cfgT {
	var out []cfgT
	bit := func(m, i int) bool { return m&(1<<i) != 0 }
	for m := 0; m < 32; m++ {
		n := 0
		for i := 0; i < 5; i++ {
			if bit(m, i) {
				n++
			}
		}
		if n != 2 && n != 5 {
			continue
		}
		f := comboFlags{bit(m, 0), bit(m, 1), bit(m, 2), bit(m, 3), bit(m, 4)}
		out = append(out, comboCfg(f.name(), f, nil, 0, 0))
	}
	out = append(out,
		comboCfg("methods=default-written-out", comboFlags{}, defaultMethods(), 0, 0),
		comboCfg("methods=default-reversed", comboFlags{}, reversedDefaultMethods(), 0, 0),
		comboCfg("customctx+methods=default-reversed", comboFlags{C: true}, reversedDefaultMethods(), 0, 0),
		comboCfg("methods=get-head-only", comboFlags{}, []string{fiber.MethodGet, fiber.MethodHead}, 0, 0),
		comboCfg("customctx+methods=get-head-only", comboFlags{C: true}, []string{fiber.MethodGet, fiber.MethodHead}, 0, 0),
		comboCfg("methods=default+PURGE+LINK", comboFlags{}, append(defaultMethods(), "PURGE", "LINK"), 0, 0),
		comboCfg("customctx+methods=default+PURGE+LINK", comboFlags{C: true}, append(defaultMethods(), "PURGE", "LINK"), 0, 0),
		comboCfg("bodylimit-only", comboFlags{}, nil, 64, 0),
		comboCfg("readbuffer-only", comboFlags{}, nil, 0, 256),
	)
	return out
}

var cfgsCombo = buildCombos()

// cfgsEvery is the index space of worker.useCfg: the six configurations, the two of family 5, the
// combinations of family 8.
var cfgsEvery = append(append([]cfgT(nil), cfgsAll...), cfgsCombo...)

// servedLines: the HTTP/1.1 request lines of family 1.
func servedLines() []reqLine {
	var out []reqLine
	for _, l := range allLines() {
		if l.V.V == "HTTP/1.1" {
			out = append(out, l)
		}
	}
	return out
}

func f8Rule() string {
	var names []string
	for _, c := range cfgsCombo {
		names = append(names, c.Name)
	}
	return fmt.Sprintf("F8 = configuration combinations and redundant spellings: %d configurations (%s) x %d request lines (HTTP/1.1) x every set of <=1 header letters, judged like F1. ",
		len(cfgsCombo), strings.Join(names, ", "), len(servedLines()))
}
