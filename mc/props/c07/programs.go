// Family 6: RESPONSE-HELPER CALL PROGRAMS.
//
// Family 3 calls each response helper ONCE, with its simplest argument list, and hands the attacker
// string to the handler out of band. A handler of a real application calls helpers with their
// optional arguments, several times on one response, chained on one Redirect object, and with
// values it has just read from the request. This family is the product
//
//	call programs x attacker strings x configurations
//
// where a program is one of
//
//	variants     the same helper through its other entry points and optional arguments
//	             (Redirect().Route with Params / Queries, Status(), With(key, value, level),
//	             Links with 1, 3 and 4 arguments, Append with several values, Cookie with every
//	             field set / SessionOnly / a SameSite string, Attachment with a directory part,
//	             Type with an unknown extension, ClearCookie, CBOR content type)
//	sequences    two or three helper calls on one response or one object (With twice with the same
//	             and with different keys, With then Route, Set then Append, Append twice, Set twice,
//	             Location then Redirect, two cookies, the same cookie twice)
//	reflections  the string travels IN THE REQUEST (percent-encoded query value, form field, path
//	             parameter, Referer header) and the handler passes what the accessor returns
//	             (Query, FormValue, Params, Redirect().WithInput(), Redirect().Back()) to the helper
//	body writers Write + WriteString + Writef, Send, SendStream with and without a size,
//	             SendStreamWriter, AutoFormat; End() (flush + close) and Drop() (close, no answer)
//
// Oracles: those of family 3 (strict parse, header names a subset of the program's expected set,
// each at most as often as the program sets it, expected status, body exactly what the handler
// sent) plus the common ones. A NUL byte in the Set-Cookie line of a program that writes the flash
// cookie, or that passes the string as Cookie.Value, is the call site of the two known findings of
// family 3 and keeps their signature.
package main

import (
	"bufio"
	"fmt"
	"net"
	"runtime"
	"sort"
	"strconv"
	"strings"
	"time"

	"github.com/gofiber/fiber/v3"

	"verifmc/core"
	"verifmc/fx"
)

type programSpec struct {
	helperSpec
	// MaxCount: how often a header name may occur (default 1)
	MaxCount map[string]int
	// NulSink: the family-3 helper whose known NUL finding covers a NUL byte in this program's
	// Set-Cookie line ("" = none)
	NulSink string
	// Wire: how the string reaches the handler: "" = out of band (index), "query", "form", "param", "referer"
	Wire string
	// ReqHeaders: extra request header lines
	ReqHeaders []string
	// NoResponse: the documented outcome is a closed connection without a response (Drop)
	NoResponse bool
	// Closing: the handler closes the connection itself: the case runs on a connection that, like a
	// socket, refuses writes after Close
	Closing bool
	// BodyFree: the body is not judged (encoders whose output the harness does not re-derive)
	BodyFree bool
}

func ps(name string, status int, extra ...string) programSpec {
	return programSpec{helperSpec: helperSpec{Name: name, Extra: extra, Status: status, Body: constBody}}
}

func (p programSpec) with(f func(*programSpec)) programSpec { f(&p); return p }

func tripled(q string) string { return q + q + q }
func same(q string) string    { return q }

var cookieExpiry = time.Date(2030, 1, 2, 3, 4, 5, 0, time.UTC)

const flashLevel = 33 // a level that is a printable byte in the MessagePack encoding (level 0 is a NUL byte)

var programs = []programSpec{
	// --- redirects: other entry points, optional arguments, chains on one Redirect object
	ps("RouteParam", 302, "Location"),
	ps("RouteQueryValue", 302, "Location"),
	ps("RouteQueryKey", 302, "Location"),
	ps("RouteTwoQueries", 302, "Location"),
	ps("RouteUnknownName", 302, "Location").with(func(p *programSpec) { p.NameLike = true }),
	ps("StatusTo", 301, "Location"),
	ps("StatusBack", 303, "Location"),
	ps("LocationThenTo", 302, "Location"),
	ps("WithLevel", 302, "Location", "Set-Cookie").with(func(p *programSpec) { p.NulSink = "RedirectWith" }),
	ps("WithOverride", 302, "Location", "Set-Cookie").with(func(p *programSpec) { p.NulSink = "RedirectWith" }),
	ps("WithTwoKeys", 302, "Location", "Set-Cookie").with(func(p *programSpec) { p.NulSink = "RedirectWith" }),
	ps("WithThenRoute", 302, "Location", "Set-Cookie").with(func(p *programSpec) { p.NulSink = "RedirectWith" }),
	ps("WithDefaultLevelBack", 302, "Location", "Set-Cookie").with(func(p *programSpec) { p.NulSink = "RedirectWith" }),
	ps("WithInputQuery", 302, "Location", "Set-Cookie").with(func(p *programSpec) { p.NulSink = "RedirectWith"; p.Wire = "query" }),
	ps("WithInputForm", 302, "Location", "Set-Cookie").with(func(p *programSpec) { p.NulSink = "RedirectWith"; p.Wire = "form" }),
	ps("WithAndInput", 302, "Location", "Set-Cookie").with(func(p *programSpec) { p.NulSink = "RedirectWith"; p.Wire = "query" }),
	ps("BackReferer", 302, "Location").with(func(p *programSpec) { p.Wire = "referer" }),
	// --- links, append, set
	ps("Links4Third", 200, "Link"),
	ps("Links4Fourth", 200, "Link"),
	ps("Links1", 200, "Link"),
	ps("Links3", 200, "Link"),
	ps("AppendSecondOfTwo", 200, "X-Test"),
	ps("AppendFirstOfTwo", 200, "X-Test"),
	ps("AppendTwice", 200, "X-Test"),
	ps("SetThenAppend", 200, "X-Test"),
	ps("SetTwice", 200, "X-Test"),
	ps("VaryTwo", 200, "Vary").with(func(p *programSpec) { p.NameLike = true }),
	// --- cookies
	ps("CookieFull", 200, "Set-Cookie").with(func(p *programSpec) { p.NulSink = "CookieValue" }),
	ps("CookieTwo", 200, "Set-Cookie").with(func(p *programSpec) { p.MaxCount = map[string]int{"Set-Cookie": 2} }),
	ps("CookieSameName", 200, "Set-Cookie").with(func(p *programSpec) { p.MaxCount = map[string]int{"Set-Cookie": 2} }),
	ps("CookieSameSite", 200, "Set-Cookie"),
	ps("CookieSessionOnly", 200, "Set-Cookie"),
	ps("ClearCookieNamed", 200, "Set-Cookie").with(func(p *programSpec) { p.NameLike = true; p.MaxCount = map[string]int{"Set-Cookie": 2} }),
	// --- attachment, type
	ps("AttachmentDir", 200, "Content-Disposition"),
	ps("AttachmentThenTypeCharset", 200, "Content-Disposition"),
	ps("TypeUnknownExt", 200),
	ps("CBORctype", 200).with(func(p *programSpec) { p.NameLike = true; p.BodyFree = true }),
	// --- reflections: the string travels in the request
	ps("ReflectQueryToSet", 200, "X-Test").with(func(p *programSpec) { p.Wire = "query" }),
	ps("ReflectQueryToLocation", 302, "Location").with(func(p *programSpec) { p.Wire = "query" }),
	ps("ReflectQueryToJSONP", 200, "X-Content-Type-Options").with(func(p *programSpec) {
		p.Wire = "query"
		p.Body = func(q string) string { return q + `({"k":"v"});` }
	}),
	ps("ReflectFormToCookiePath", 200, "Set-Cookie").with(func(p *programSpec) { p.Wire = "form" }),
	ps("ReflectFormToLinks", 200, "Link").with(func(p *programSpec) { p.Wire = "form" }),
	ps("ReflectParamToAttachment", 200, "Content-Disposition").with(func(p *programSpec) { p.Wire = "param" }),
	ps("ReflectParamToTypeCharset", 200).with(func(p *programSpec) { p.Wire = "param" }),
	// --- body writers
	ps("WriteAPIs", 200).with(func(p *programSpec) { p.Body = tripled }),
	ps("SendBytes", 200).with(func(p *programSpec) { p.Body = same }),
	ps("SendStreamSized", 200).with(func(p *programSpec) { p.Body = same }),
	ps("SendStreamUnsized", 200, "Transfer-Encoding").with(func(p *programSpec) { p.Body = same }),
	ps("SendStreamWriter", 200, "Transfer-Encoding").with(func(p *programSpec) { p.Body = tripled }),
	ps("AutoFormatText", 200).with(func(p *programSpec) { p.Body = same; p.ReqHeaders = []string{"Accept: text/plain"} }),
	ps("AutoFormatHTML", 200).with(func(p *programSpec) {
		p.Body = func(q string) string { return "<p>" + q + "</p>" }
		p.ReqHeaders = []string{"Accept: text/html"}
	}),
	ps("EndAfterSet", 200, "X-Test").with(func(p *programSpec) { p.Closing = true }),
	ps("DropAfterSet", 0, "X-Test").with(func(p *programSpec) { p.Closing = true; p.NoResponse = true }),
}

func programIndex(name string) int {
	for i := range programs {
		if programs[i].Name == name {
			return i
		}
	}
	return -1
}

// programHandler runs one call program; q is the attacker string (by index, or read from the request).
func programHandler(c fiber.Ctx, st *appState) error {
	st.ran++
	i, err := strconv.Atoi(c.Params("i"))
	if err != nil || i < 0 || i >= len(st.qs) {
		return c.Status(400).SendString("bad index")
	}
	q := st.qs[i]
	name := c.Params("prog")
	st.helper = name
	named := func(params fiber.Map, queries map[string]string) error {
		return c.Redirect().Route("named", fiber.RedirectConfig{Params: params, Queries: queries})
	}
	switch name {
	case "RouteParam":
		if err := named(fiber.Map{"x": q}, nil); err != nil {
			return err
		}
	case "RouteQueryValue":
		if err := named(fiber.Map{"x": "1"}, map[string]string{"k": q}); err != nil {
			return err
		}
	case "RouteQueryKey":
		if err := named(fiber.Map{"x": "1"}, map[string]string{q: "v"}); err != nil {
			return err
		}
	case "RouteTwoQueries":
		if err := named(fiber.Map{"x": q}, map[string]string{"a": q, "b": q}); err != nil {
			return err
		}
	case "RouteUnknownName":
		if err := c.Redirect().Route(q); err != nil {
			return err
		}
	case "StatusTo":
		if err := c.Redirect().Status(fiber.StatusMovedPermanently).To(q); err != nil {
			return err
		}
	case "StatusBack":
		if err := c.Redirect().Status(fiber.StatusSeeOther).Back(q); err != nil {
			return err
		}
	case "LocationThenTo":
		c.Location(q)
		if err := c.Redirect().To(q); err != nil {
			return err
		}
	case "WithLevel":
		if err := c.Redirect().With(q, q, flashLevel).To("/next"); err != nil {
			return err
		}
	case "WithOverride":
		if err := c.Redirect().With("k", "first", flashLevel).With("k", q, flashLevel).To("/next"); err != nil {
			return err
		}
	case "WithTwoKeys":
		if err := c.Redirect().With("a", q, flashLevel).With("b", q, flashLevel).To("/next"); err != nil {
			return err
		}
	case "WithThenRoute":
		if err := c.Redirect().With("k", q, flashLevel).Route("named", fiber.RedirectConfig{Params: fiber.Map{"x": q}}); err != nil {
			return err
		}
	case "WithDefaultLevelBack":
		if err := c.Redirect().With("k", q).Back("/fallback"); err != nil {
			return err
		}
	case "WithInputQuery", "WithInputForm":
		if err := c.Redirect().WithInput().To("/next"); err != nil {
			return err
		}
	case "WithAndInput":
		if err := c.Redirect().With("k", "v", flashLevel).WithInput().To("/next"); err != nil {
			return err
		}
	case "BackReferer":
		if err := c.Redirect().Back("/fallback"); err != nil {
			return err
		}
	case "Links4Third":
		c.Links("http://h/p?page=1", "prev", q, "next")
	case "Links4Fourth":
		c.Links("http://h/p?page=1", "prev", "http://h/p?page=3", q)
	case "Links1":
		c.Links(q)
	case "Links3":
		c.Links(q, "next", q)
	case "AppendSecondOfTwo":
		c.Append("X-Test", "first", q)
	case "AppendFirstOfTwo":
		c.Append("X-Test", q, "last")
	case "AppendTwice":
		c.Append("X-Test", q)
		c.Append("X-Test", "last")
	case "SetThenAppend":
		c.Set("X-Test", "first")
		c.Append("X-Test", q)
	case "SetTwice":
		c.Set("X-Test", q)
		c.Set("X-Test", "clean")
	case "VaryTwo":
		c.Vary("Origin", q)
	case "CookieFull":
		c.Cookie(&fiber.Cookie{Name: "n", Value: q, Path: q, Domain: q, Expires: cookieExpiry, MaxAge: 60, Secure: true, HTTPOnly: true, SameSite: "Strict", Partitioned: true})
	case "CookieTwo":
		c.Cookie(&fiber.Cookie{Name: "n1", Value: "v", Path: q})
		c.Cookie(&fiber.Cookie{Name: "n2", Value: "v", Domain: q, SameSite: "None"})
	case "CookieSameName":
		c.Cookie(&fiber.Cookie{Name: "n", Value: "v", Path: q})
		c.Cookie(&fiber.Cookie{Name: "n", Value: "w", Domain: q})
	case "CookieSameSite":
		c.Cookie(&fiber.Cookie{Name: "n", Value: "v", SameSite: q})
	case "CookieSessionOnly":
		c.Cookie(&fiber.Cookie{Name: "n", Value: "v", Path: q, Domain: q, SessionOnly: true, MaxAge: 60, Expires: cookieExpiry, SameSite: "disabled"})
	case "ClearCookieNamed":
		c.ClearCookie("sid", q)
	case "AttachmentDir":
		c.Attachment("reports/" + q + ".txt")
	case "AttachmentThenTypeCharset":
		c.Attachment()
		c.Type("txt", q)
	case "TypeUnknownExt":
		c.Type("unknownext", q)
	case "CBORctype":
		return c.CBOR(map[string]string{"k": "v"}, q)
	case "ReflectQueryToSet":
		c.Set("X-Test", c.Query("v"))
	case "ReflectQueryToLocation":
		if err := c.Redirect().To(c.Query("v")); err != nil {
			return err
		}
	case "ReflectQueryToJSONP":
		return c.JSONP(map[string]string{"k": "v"}, c.Query("v"))
	case "ReflectFormToCookiePath":
		c.Cookie(&fiber.Cookie{Name: "n", Value: "v", Path: c.FormValue("v")})
	case "ReflectFormToLinks":
		c.Links(c.FormValue("v"), "next")
	case "ReflectParamToAttachment":
		c.Attachment(c.Params("v"))
		c.Type("txt")
	case "ReflectParamToTypeCharset":
		c.Type("html", c.Params("v"))
	case "WriteAPIs":
		if _, err := c.Write([]byte(q)); err != nil {
			return err
		}
		if _, err := c.WriteString(q); err != nil {
			return err
		}
		_, err := c.Writef("%s", q)
		return err
	case "SendBytes":
		return c.Send([]byte(q))
	case "SendStreamSized":
		return c.SendStream(strings.NewReader(q), len(q))
	case "SendStreamUnsized":
		return c.SendStream(strings.NewReader(q))
	case "SendStreamWriter":
		return c.SendStreamWriter(func(w *bufio.Writer) {
			_, _ = w.WriteString(q)
			_ = w.Flush()
			_, _ = w.WriteString(q + q)
		})
	case "AutoFormatText", "AutoFormatHTML":
		return c.AutoFormat(q)
	case "EndAfterSet":
		c.Set("X-Test", q)
		if err := c.SendString(okBody); err != nil {
			return err
		}
		return c.End()
	case "DropAfterSet":
		c.Set("X-Test", q)
		return c.Drop()
	default:
		return c.Status(400).SendString("bad program")
	}
	return c.SendString(okBody)
}

// pctAll percent-encodes every byte.
func pctAll(q string) string {
	const hexd = "0123456789ABCDEF"
	b := make([]byte, 0, 3*len(q))
	for i := 0; i < len(q); i++ {
		b = append(b, '%', hexd[q[i]>>4], hexd[q[i]&15])
	}
	return string(b)
}

// programRequest builds the request of one case; ok=false when the string cannot travel that way
// (a Referer header line cannot carry CR, LF or NUL).
func programRequest(sp *programSpec, qi int, q string) (req []byte, ok bool) {
	method, target, body := "GET", fmt.Sprintf("/g/%s/%d", sp.Name, qi), ""
	var lines []string
	switch sp.Wire {
	case "query":
		target += "?v=" + pctAll(q)
	case "form":
		method, body = "POST", "v="+pctAll(q)
		lines = append(lines, "Content-Type: application/x-www-form-urlencoded")
	case "param":
		target += "/" + pctAll(q)
	case "referer":
		if hasCtl(q) || q == "" || strings.Trim(q, " ") != q {
			return nil, false
		}
		lines = append(lines, "Referer: "+q)
	}
	lines = append(lines, sp.ReqHeaders...)
	var b strings.Builder
	b.WriteString(method + " " + target + " HTTP/1.1\r\nHost: example.com\r\n")
	for _, l := range lines {
		b.WriteString(l + "\r\n")
	}
	if method == "POST" {
		b.WriteString("Content-Length: " + strconv.Itoa(len(body)) + "\r\n")
	}
	b.WriteString("\r\n" + body)
	return []byte(b.String()), true
}

// socketConn behaves like a socket after Close: writes fail (the in-memory conn of fx keeps collecting them).
type socketConn struct {
	*fx.WireConn
	closed bool
}

func (c *socketConn) Close() error { c.closed = true; return c.WireConn.Close() }
func (c *socketConn) Write(p []byte) (int, error) {
	if c.closed {
		return 0, net.ErrClosed
	}
	return c.WireConn.Write(p)
}

func (w *worker) execOn(req []byte, closing bool) *result {
	if !closing {
		return w.exec(req)
	}
	w.st.reset()
	conn := &socketConn{WireConn: fx.NewWireConn(req, nil)}
	runtime.ReadMemStats(&w.ms0)
	pan := serveRecover(w.app, conn)
	runtime.ReadMemStats(&w.ms1)
	return &result{pan: pan, alloc: w.ms1.TotalAlloc - w.ms0.TotalAlloc, out: conn.Output()}
}

// reflected: the param channel delivers the decoded string only when the application unescapes paths
func (w *worker) expectedArg(sp *programSpec, q string) string {
	if sp.Wire == "param" && !w.cfg().Unescape {
		return pctAll(q)
	}
	return q
}

func (w *worker) runF6(pi int, qi int) {
	sp := &programs[pi]
	q := w.qs[qi]
	req, ok := programRequest(sp, qi, q)
	if !ok {
		return
	}
	desc := func() map[string]any {
		return map[string]any{"family": "f6-programs", "config": w.cfg().Name, "program": sp.Name, "q": fmt.Sprintf("%q", q), "travels": map[bool]string{true: "out of band", false: sp.Wire}[sp.Wire == ""], "request": clipReq(req)}
	}
	if !w.begin(desc) {
		return
	}
	l := w.l
	res := w.execOn(req, sp.Closing)
	l.Add("evaluations", 1)
	l.Add("f6_cases", 1)
	if strings.Trim(q, "a") != "" {
		l.Add("nontrivial", 1)
	}
	arg := w.expectedArg(sp, q)
	outside := sp.NameLike && hasCtl(arg)
	first := w.judgeCommon(req, res, desc, judgeOpts{fam: "f6", exactlyOne: !outside && !sp.NoResponse, skipParse: outside, noResponseOK: sp.NoResponse, allocTrigger: "f6:" + sp.Name,
		inputCls: "f6 program=" + sp.Name,
		parseSig: func(e *ParseErr) string {
			cls := f3ParseClass(&sp.helperSpec, e)
			if sp.NulSink != "" && cls == "NUL-not-neutralised header=Set-Cookie" {
				// the call site of the known findings of family 3 (raw MessagePack in the flash cookie; Cookie.Value)
				return fmt.Sprintf("f3 helper=%s %s", sp.NulSink, cls)
			}
			return fmt.Sprintf("f6 program=%s %s", sp.Name, cls)
		}})
	cls := "ok"
	defer func() { l.Outcome(fmt.Sprintf("f6 program=%s %s", sp.Name, cls)) }()
	if qi%397 == 0 && pi%7 == 0 {
		w.sample("f6", map[string]any{"case": desc(), "written": clipOut(res.out)})
	}
	if res.pan != nil {
		cls = "panic"
		w.app = nil
		w.useCfg(w.cfgIdx)
		return
	}
	if res.perr != nil {
		cls = f3ParseClass(&sp.helperSpec, res.perr)
		return
	}
	if w.st.ran == 0 {
		if w.cfg().Small {
			cls = "refused-small-buffers"
			return
		}
		core.Fatal("family 6 request did not reach the program route: %s -> %s", clipReq(req), clipOut(res.out))
	}
	l.Add("f6_program_ran", 1)
	if sp.NoResponse {
		if nf, _ := finals(res.resps); nf != 0 || len(res.out) != 0 {
			cls = "answered-after-drop"
			l.Violate(fmt.Sprintf("f6 program=%s bytes-written-after-drop", sp.Name), "the handler dropped the connection but bytes were written to it", desc(), clipOut(res.out), "nothing")
		} else {
			cls = "dropped"
		}
		return
	}
	if outside {
		cls = "outside-domain"
		l.Add("unspecified_skipped", 1)
		return
	}
	if first == nil {
		cls = "no-response"
		return
	}
	allowed := map[string]bool{}
	for _, n := range baseHeaderNames {
		allowed[n] = true
	}
	for _, n := range sp.Extra {
		allowed[n] = true
	}
	seen := map[string]int{}
	var bad []string
	for _, h := range first.Headers {
		seen[h.Name]++
		if !allowed[h.Name] {
			bad = append(bad, h.Name)
		}
	}
	sort.Strings(bad)
	if len(bad) > 0 {
		cls = "CR/LF-not-neutralised"
		l.Violate(fmt.Sprintf("f6 program=%s CR/LF-not-neutralised", sp.Name),
			"the string passed to the response helpers added a header line to the response", desc(), map[string]any{"unexpected_header_names": bad, "written": clipOut(res.out)}, map[string]any{"allowed_names": append(append([]string{}, baseHeaderNames...), sp.Extra...)})
		return
	}
	names := make([]string, 0, len(seen))
	for n := range seen {
		names = append(names, n)
	}
	sort.Strings(names)
	for _, n := range names {
		maxc := 1
		if m, ok := sp.MaxCount[n]; ok {
			maxc = m
		}
		if seen[n] > maxc {
			cls = "header-duplicated"
			l.Violate(fmt.Sprintf("f6 program=%s header-duplicated name=%s", sp.Name, n),
				"the string passed to the response helpers produced one more header line with an expected name", desc(), clipOut(res.out), fmt.Sprintf("at most %d", maxc))
			return
		}
	}
	if first.Status != sp.Status {
		cls = fmt.Sprintf("status-%d", first.Status)
		l.Violate(fmt.Sprintf("f6 program=%s unexpected-status=%d", sp.Name, first.Status),
			"the program route answered with an unexpected status", desc(), clipOut(res.out), sp.Status)
		return
	}
	if !sp.BodyFree {
		if want := sp.Body(arg); string(first.Body) != want {
			cls = "body-altered"
			l.Violate(fmt.Sprintf("f6 program=%s body-altered", sp.Name),
				"the body is not the body the handler sent (a helper argument started the body early or cut it)", desc(), clipOut(res.out), fmt.Sprintf("%q", want))
			return
		}
	}
}

func f6Rule() string {
	var names []string
	for _, p := range programs {
		d := p.Name
		if p.NameLike {
			d += "(name-like)"
		}
		if p.Wire != "" {
			d += "(via " + p.Wire + ")"
		}
		names = append(names, d)
	}
	return fmt.Sprintf("F6 = response-helper call programs: %d programs (%s) x the %d attacker strings of F3 x %d configs: other entry points and optional arguments of the helpers, two or three calls on one response / one Redirect object, "+
		"strings that travel in the request (every byte percent-encoded in a query value, form field or path parameter; a Referer line when the string has no CR/LF/NUL) and come back through Query/FormValue/Params/WithInput/Back, and the body writers incl. End (flush+close) and Drop (close, nothing written) on a connection that refuses writes after Close; judged like F3. ",
		len(programs), strings.Join(names, ", "), len(attackStrings()), len(cfgs))
}
