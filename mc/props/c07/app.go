// Applications under test: the six configurations of the property and the two routes
// (/all = every read accessor and request parser; /h/:helper = response helpers fed with an
// attacker string) behind a pass-through root middleware. The applications of family 4 (route
// registration shapes) are in shapes.go.
package main

import (
	"errors"
	"fmt"
	"os"
	"runtime"
	"strconv"
	"strings"

	"github.com/gofiber/fiber/v3"
)

// ---------------------------------------------------------------------------
// configurations

type cfgT struct {
	Name     string
	Custom   bool     // custom context through app.NewCtxFunc
	Methods  []string // configured method set (reference for the 501 rule)
	Mk       func() fiber.Config
	Unescape bool // UnescapePath is on
	Small    bool // small BodyLimit and/or ReadBufferSize: 413 / 431 are legitimate answers to ordinary requests
}

func defaultMethods() []string { return append([]string(nil), fiber.DefaultMethods...) }

// customMethods: the default set without TRACE plus PURGE.
func customMethods() []string {
	var m []string
	for _, x := range fiber.DefaultMethods {
		if x != "TRACE" {
			m = append(m, x)
		}
	}
	return append(m, "PURGE")
}

var cfgs = []cfgT{
	{Name: "default", Methods: defaultMethods(), Mk: func() fiber.Config { return fiber.Config{} }},
	{Name: "customctx", Custom: true, Methods: defaultMethods(), Mk: func() fiber.Config { return fiber.Config{} }},
	{Name: "methods", Methods: customMethods(), Mk: func() fiber.Config { return fiber.Config{RequestMethods: customMethods()} }},
	{Name: "immutable", Methods: defaultMethods(), Mk: func() fiber.Config { return fiber.Config{Immutable: true} }},
	{Name: "unescape", Unescape: true, Methods: defaultMethods(), Mk: func() fiber.Config { return fiber.Config{UnescapePath: true} }},
	{Name: "smallbuf", Small: true, Methods: defaultMethods(), Mk: func() fiber.Config { return fiber.Config{BodyLimit: 64, ReadBufferSize: 256} }},
}

func (c *cfgT) hasMethod(m string) bool {
	for _, x := range c.Methods {
		if x == m {
			return true
		}
	}
	return false
}

// myCtx is the documented way to build a custom context (docs/api/app.md, NewCtxFunc):
// a struct embedding fiber.DefaultCtx, created from *fiber.NewDefaultCtx(app).
type myCtx struct {
	fiber.DefaultCtx
}

// ---------------------------------------------------------------------------
// per-application observation state (one app is driven by one goroutine only)

type probePanic struct {
	Probe string // accessor group that panicked ("(server)" = outside any handler probe)
	Msg   string // normalised panic message
	At    string // first fiber/fasthttp frame below the runtime frames
}

type appState struct {
	ran     int // handler executions
	mwRan   int // family 4: middleware executions
	epRan   int // family 4: endpoint executions
	ehCalls int // error-handler executions
	ehCode  int // code the error handler answered with (last)
	panics  []probePanic
	// coarse observations of /all for outcome classification
	rangeCls string
	fresh    bool
	flashN   int
	bodyCls  string
	// family 3
	helper string
	qs     []string
	file   string // file served by Download
}

func (s *appState) reset() {
	s.ran, s.ehCalls, s.ehCode = 0, 0, 0
	s.mwRan, s.epRan = 0, 0
	s.panics = s.panics[:0]
	s.rangeCls, s.fresh, s.flashN, s.bodyCls = "", false, 0, ""
}

var digitRun = strings.NewReplacer("0", "N", "1", "N", "2", "N", "3", "N", "4", "N", "5", "N", "6", "N", "7", "N", "8", "N", "9", "N")

// normMsg makes a panic message input-independent (numbers -> N, runs collapsed).
func normMsg(v any) string {
	var s string
	switch x := v.(type) {
	case error:
		s = x.Error()
	default:
		s = fmt.Sprint(v)
	}
	s = digitRun.Replace(s)
	for strings.Contains(s, "NN") {
		s = strings.ReplaceAll(s, "NN", "N")
	}
	if len(s) > 100 {
		s = s[:100]
	}
	return s
}

// panicSite returns the innermost non-runtime frame of the panicking stack (called from a
// deferred function while the panic is in flight) that is not harness code.
func panicSite() string {
	pcs := make([]uintptr, 64)
	n := runtime.Callers(3, pcs)
	frames := runtime.CallersFrames(pcs[:n])
	for {
		f, more := frames.Next()
		fn := f.Function
		if fn != "" && !strings.HasPrefix(fn, "runtime.") && !strings.HasPrefix(fn, "main.") {
			if i := strings.LastIndex(fn, "/"); i >= 0 {
				fn = fn[i+1:]
			}
			return fn
		}
		if !more {
			break
		}
	}
	return "?"
}

// probe runs one accessor group; a panic is recorded and does not hide the other groups.
func (s *appState) probe(name string, f func()) {
	defer func() {
		if v := recover(); v != nil {
			s.panics = append(s.panics, probePanic{Probe: name, Msg: normMsg(v), At: panicSite()})
		}
	}()
	f()
}

// ---------------------------------------------------------------------------
// binder targets

type bindT struct {
	Name string   `json:"name" xml:"name" form:"name" query:"name" header:"name" cookie:"name" uri:"name" cbor:"name" respHeader:"name"`
	A    string   `json:"a" xml:"a" form:"a" query:"a" header:"a" cookie:"a" uri:"id" cbor:"a" respHeader:"a"`
	X    int      `json:"x" xml:"x" form:"x" query:"x" header:"x" cookie:"x" uri:"x" cbor:"x" respHeader:"x"`
	Tags []string `json:"tags" xml:"tags" form:"tags" query:"tags" header:"tags" cookie:"tags" uri:"tags" cbor:"tags" respHeader:"tags"`
	Host string   `header:"host" query:"host"`
}

var sink int // keeps results alive

func use(v ...any) { sink += len(v) }

// buildApp creates the application for one configuration.
func buildApp(c *cfgT, st *appState) *fiber.App {
	conf := c.Mk()
	// The error handler is the default one, wrapped so that the harness sees the mapped code,
	// and calling the accessors an access-logging error handler typically calls.
	conf.ErrorHandler = func(ctx fiber.Ctx, err error) error {
		st.ehCalls++
		code := 500
		var fe *fiber.Error
		if errors.As(err, &fe) {
			code = fe.Code
		}
		st.ehCode = code
		st.probe("errhandler:Method", func() { use(ctx.Method()) })
		st.probe("errhandler:Path", func() { use(ctx.Path(), ctx.OriginalURL()) })
		st.probe("errhandler:IP", func() { use(ctx.IP(), ctx.Get("User-Agent"), ctx.Protocol()) })
		st.probe("errhandler:Route", func() { use(ctx.Route().Path) })
		return fiber.DefaultErrorHandler(ctx, err)
	}
	app := fiber.New(conf)
	if c.Custom {
		app.NewCtxFunc(func(a *fiber.App) fiber.CustomCtx {
			return &myCtx{DefaultCtx: *fiber.NewDefaultCtx(a)}
		})
	}
	all := func(ctx fiber.Ctx) error { return allHandler(ctx, st) }
	// a pass-through global middleware, as nearly every real application has one (logger, recover,
	// cors ...): every request of every family also goes through the router's root-middleware branch
	app.Use(func(ctx fiber.Ctx) error { return ctx.Next() })
	app.All("/all", all)
	app.All("/p/:id/*", all)
	app.Get("/named/:x", func(ctx fiber.Ctx) error { return ctx.SendString("named") }).Name("named")
	app.Get("/h/:helper", func(ctx fiber.Ctx) error { return helperHandler(ctx, st) })
	app.All("/g/:prog/:i/:v?", func(ctx fiber.Ctx) error { return programHandler(ctx, st) }) // family 6 (programs.go)
	app.Handler()                                                                            // startup processing (route tree) before Server() is used directly
	return app
}

// allHandler calls every read accessor and every request parser named in the property.
// Errors returned by parsers are values, not failures: they are ignored.
func allHandler(c fiber.Ctx, st *appState) error {
	st.ran++
	p := st.probe
	p("Accepts", func() {
		use(c.Accepts("html", "json", "text/plain", "png", "application/*"), c.Accepts(), c.Accepts("text/html;level=1"))
		use(c.AcceptsCharsets("utf-8", "iso-8859-1"), c.AcceptsEncodings("gzip", "br", "identity"), c.AcceptsLanguages("en", "fr", "en-US"))
	})
	p("Body", func() {
		b := c.Body()
		switch {
		case len(b) == 0:
			st.bodyCls = "empty"
		default:
			st.bodyCls = "some"
		}
		use(b, c.BodyRaw())
	})
	p("Cookies", func() { use(c.Cookies("a"), c.Cookies("fiber_flash"), c.Cookies("missing", "dflt")) })
	p("Form", func() {
		fh, err := c.FormFile("file")
		mf, err2 := c.MultipartForm()
		use(fh, err, mf, err2, c.FormValue("a"), c.FormValue("missing", "d"))
	})
	p("Fresh", func() {
		c.Set("ETag", `"abc"`)
		c.Set("Last-Modified", "Mon, 02 Jan 2006 15:04:05 GMT")
		st.fresh = c.Fresh()
		use(c.Stale())
		c.Set("ETag", `W/"abc"`)
		use(c.Fresh())
	})
	p("Get", func() {
		use(c.Get("Host"), c.Get("X-Missing", "d"), fiber.GetReqHeader[int](c, "Content-Length"), c.GetReqHeaders(), c.GetRespHeaders(), c.GetRespHeader("ETag"))
	})
	p("Host", func() { use(c.Host(), c.Hostname(), c.BaseURL(), c.Port(), c.Scheme(), c.Secure(), c.Protocol()) })
	p("IP", func() { use(c.IP(), c.IPs(), c.IsFromLocal(), c.IsProxyTrusted()) })
	p("Is", func() {
		use(c.Is("json"), c.Is("html"), c.Is(".xml"), c.Is("form"), c.Is("multipart/form-data"), c.Is(""))
	})
	p("Method", func() { use(c.Method(), c.OriginalURL(), c.Path(), c.Route().Path, c.Route().Params) })
	p("Params", func() {
		use(c.Params("id"), c.Params("*"), c.Params("+"), c.Params("missing", "d"), fiber.Params[int](c, "id"), fiber.Params[string](c, "*1"))
	})
	p("Query", func() {
		use(c.Queries(), c.Query("x"), c.Query("missing", "d"), fiber.Query[int](c, "x"), fiber.Query[bool](c, "x"), fiber.Query[float64](c, "id"))
	})
	p("Range", func() {
		r, err := c.Range(1000)
		switch {
		case err == nil:
			st.rangeCls = "ok" + strconv.Itoa(len(r.Ranges))
			for _, rs := range r.Ranges {
				// a handler serves entity[rs.Start : rs.End+1] of its size-byte entity: a range
				// outside [0,size) makes exactly that slice expression panic
				if rs.Start < 0 || rs.End > 999 || rs.Start > rs.End {
					st.rangeCls = "OUTSIDE"
				}
			}
		case errors.Is(err, fiber.ErrRangeMalformed):
			st.rangeCls = "malformed"
		case errors.Is(err, fiber.ErrRangeUnsatisfiable):
			st.rangeCls = "unsat"
		default:
			st.rangeCls = "err"
		}
	})
	p("Subdomains", func() {
		use(c.Subdomains(), c.Subdomains(0), c.Subdomains(1), c.Subdomains(2), c.Subdomains(3))
	})
	p("XHR", func() { use(c.XHR(), c.String(), c.Locals("k"), c.Context(), c.ClientHelloInfo()) })
	p("Flash", func() {
		r := c.Redirect()
		m := r.Messages()
		st.flashN = len(m)
		use(m, r.Message("k"), r.OldInputs(), r.OldInput("k"))
	})
	p("GetRouteURL", func() { u, err := c.GetRouteURL("named", fiber.Map{"x": c.Query("x")}); use(u, err) })
	b := c.Bind()
	p("Bind.Query", func() {
		var s bindT
		m := map[string]string{}
		mm := map[string][]string{}
		use(b.Query(&s), b.Query(m), b.Query(mm))
	})
	p("Bind.Header", func() {
		var s bindT
		m := map[string]string{}
		mm := map[string][]string{}
		use(b.Header(&s), b.Header(m), b.Header(mm))
	})
	p("Bind.RespHeader", func() {
		var s bindT
		mm := map[string][]string{}
		use(b.RespHeader(&s), b.RespHeader(mm))
	})
	p("Bind.Cookie", func() {
		var s bindT
		m := map[string]string{}
		mm := map[string][]string{}
		use(b.Cookie(&s), b.Cookie(m), b.Cookie(mm))
	})
	p("Bind.URI", func() {
		var s bindT
		m := map[string]string{}
		use(b.URI(&s), b.URI(m))
	})
	p("Bind.Form", func() {
		var s bindT
		m := map[string]string{}
		mm := map[string][]string{}
		use(b.Form(&s), b.Form(m), b.Form(mm))
	})
	p("Bind.JSON", func() {
		var s bindT
		var v any
		use(b.JSON(&s), b.JSON(&v))
	})
	p("Bind.XML", func() { var s bindT; use(b.XML(&s)) })
	p("Bind.CBOR", func() {
		var s bindT
		var v any
		use(b.CBOR(&s), b.CBOR(&v))
	})
	p("Bind.Body", func() {
		var s bindT
		m := map[string]string{}
		use(b.Body(&s), b.Body(m))
	})
	p("Redirect.WithInput", func() { use(c.Redirect().WithInput()) })
	p("Format", func() {
		h := func(body string) func(fiber.Ctx) error {
			return func(cc fiber.Ctx) error { return cc.SendString(body) }
		}
		use(c.Format(fiber.ResFmt{MediaType: "text/html", Handler: h("html")}, fiber.ResFmt{MediaType: "application/json", Handler: h("json")}, fiber.ResFmt{MediaType: "default", Handler: h("dflt")}))
		use(c.Format(fiber.ResFmt{MediaType: "text/plain", Handler: h("txt")}))
	})
	p("AutoFormat", func() { use(c.AutoFormat("x"), c.AutoFormat([]byte("y")), c.AutoFormat(3)) })
	// Req()/Res() twins last (see report: with the documented custom context they hit a stale copy)
	p("Req", func() {
		rq := c.Req()
		use(rq.Get("Host"), rq.Body(), rq.Host(), rq.IPs(), rq.Subdomains(), rq.Queries())
		r, err := rq.Range(1000)
		use(r, err)
	})
	p("Res", func() { rs := c.Res(); use(rs.Get("ETag")); rs.Set("X-Res", "1") })
	// deterministic final answer
	c.Response().Header.Del("Location")
	c.Status(fiber.StatusOK).Type("txt")
	return c.SendString("ALL-OK")
}

// ---------------------------------------------------------------------------
// family 3: response helpers

// helperSpec describes one response helper fed with the attacker string q.
//
// Domain decisions (statement: "arguments in their documented domain"):
//   - q is always passed in a VALUE position. A string with CR/LF/NUL is a legal Go string and a
//     legal argument wherever the helper documents "value", "path", "URL", "message", "charset";
//     the statement lists header value, redirect target, cookie field, link, content-type
//     parameter and flash message explicitly.
//   - NameLike positions (cookie NAME, Format media type, Vary field name): these are protocol
//     tokens chosen by the programmer, like a header name. A q containing CR, LF or NUL is
//     outside their documented domain; those cases still run (crash / hang / allocation are
//     judged for every byte string) but header injection and malformed lines are NOT judged
//     (counted as unspecified_skipped).
type helperSpec struct {
	Name     string
	NameLike bool
	Extra    []string // header names the helper may add (beyond the base set)
	Status   int
	Body     func(q string) string
}

const okBody = "BODY-OK"

func constBody(string) string { return okBody }

var helpers = []helperSpec{
	{Name: "Set", Extra: []string{"X-Test"}, Status: 200, Body: constBody},
	{Name: "Append", Extra: []string{"X-Test"}, Status: 200, Body: constBody},
	{Name: "Append2", Extra: []string{"X-Test"}, Status: 200, Body: constBody},
	{Name: "Vary", NameLike: true, Extra: []string{"Vary"}, Status: 200, Body: constBody},
	{Name: "Location", Extra: []string{"Location"}, Status: 200, Body: constBody},
	{Name: "RedirectTo", Extra: []string{"Location"}, Status: 302, Body: constBody},
	{Name: "RedirectWith", Extra: []string{"Location", "Set-Cookie"}, Status: 302, Body: constBody},
	{Name: "RedirectBack", Extra: []string{"Location"}, Status: 302, Body: constBody},
	{Name: "CookieName", NameLike: true, Extra: []string{"Set-Cookie"}, Status: 200, Body: constBody},
	{Name: "CookieValue", Extra: []string{"Set-Cookie"}, Status: 200, Body: constBody},
	{Name: "CookiePath", Extra: []string{"Set-Cookie"}, Status: 200, Body: constBody},
	{Name: "CookieDomain", Extra: []string{"Set-Cookie"}, Status: 200, Body: constBody},
	{Name: "LinksURL", Extra: []string{"Link"}, Status: 200, Body: constBody},
	{Name: "LinksRel", Extra: []string{"Link"}, Status: 200, Body: constBody},
	{Name: "Attachment", Extra: []string{"Content-Disposition"}, Status: 200, Body: constBody},
	{Name: "Download", Extra: []string{"Content-Disposition", "Last-Modified", "Accept-Ranges", "Cache-Control"}, Status: 200, Body: func(string) string { return fileBody }},
	{Name: "TypeCharset", Status: 200, Body: constBody},
	{Name: "JSONP", Extra: []string{"X-Content-Type-Options"}, Status: 200, Body: func(q string) string { return q + `({"k":"v"});` }},
	{Name: "Format", NameLike: true, Extra: []string{"Vary"}, Status: 200, Body: func(string) string { return "FMT" }},
	{Name: "JSONctype", NameLike: true, Status: 200, Body: func(string) string { return `{"k":"v"}` }},
}

const fileBody = "FILE-CONTENT-0123456789\n"

var baseHeaderNames = []string{"Date", "Content-Type", "Content-Length", "Connection"}

func helperIndex(name string) int {
	for i := range helpers {
		if helpers[i].Name == name {
			return i
		}
	}
	return -1
}

func helperHandler(c fiber.Ctx, st *appState) error {
	st.ran++
	i, err := strconv.Atoi(c.Query("i"))
	if err != nil || i < 0 || i >= len(st.qs) {
		return c.Status(400).SendString("bad index")
	}
	q := st.qs[i]
	name := c.Params("helper")
	st.helper = name
	data := map[string]string{"k": "v"}
	switch name {
	case "Set":
		c.Set("X-Test", q)
	case "Append":
		c.Append("X-Test", q)
	case "Append2":
		c.Append("X-Test", "first")
		c.Append("X-Test", q, q+"2")
	case "Vary":
		c.Vary(q)
	case "Location":
		c.Location(q)
	case "RedirectTo":
		if err := c.Redirect().To(q); err != nil {
			return err
		}
	case "RedirectWith":
		if err := c.Redirect().With(q, q).To("/next"); err != nil {
			return err
		}
	case "RedirectBack":
		if err := c.Redirect().Back(q); err != nil {
			return err
		}
	case "CookieName":
		c.Cookie(&fiber.Cookie{Name: q, Value: "v"})
	case "CookieValue":
		c.Cookie(&fiber.Cookie{Name: "n", Value: q})
	case "CookiePath":
		c.Cookie(&fiber.Cookie{Name: "n", Value: "v", Path: q})
	case "CookieDomain":
		c.Cookie(&fiber.Cookie{Name: "n", Value: "v", Domain: q})
	case "LinksURL":
		c.Links(q, "next")
	case "LinksRel":
		c.Links("http://h/p?page=2", q)
	case "Attachment":
		c.Attachment(q)
		c.Type("txt")
	case "Download":
		return c.Download(st.file, q)
	case "TypeCharset":
		c.Type("html", q)
	case "JSONP":
		return c.JSONP(data, q)
	case "Format":
		return c.Format(fiber.ResFmt{MediaType: q, Handler: func(cc fiber.Ctx) error { return cc.SendString("FMT") }})
	case "JSONctype":
		return c.JSON(data, q)
	default:
		return c.Status(400).SendString("bad helper")
	}
	return c.SendString(okBody)
}

// makeDownloadFile creates the file served by the Download helper.
func makeDownloadFile() (string, error) {
	f, err := os.CreateTemp("", "c07-download-*.txt")
	if err != nil {
		return "", err
	}
	if _, err := f.WriteString(fileBody); err != nil {
		return "", err
	}
	return f.Name(), f.Close()
}
