// Strict, independent HTTP/1.1 response parser used as the client-side oracle of C07.
//
// It is written from RFC 9110/9112 only (no fasthttp / net/http code is used) and is
// deliberately STRICT: it accepts exactly what a careful client may rely on.
//
//	status-line   = "HTTP/1.1" SP 3DIGIT SP *( HTAB / SP / VCHAR / obs-text ) CRLF
//	header-line   = 1*tchar ":" OWS *( HTAB / SP / VCHAR / obs-text ) OWS CRLF
//	                (no whitespace before the colon, no obs-fold, no bare CR, no bare LF,
//	                 no NUL or other control byte anywhere in the line)
//	framing       = exactly one of Content-Length (1*DIGIT, duplicates must be identical)
//	                or Transfer-Encoding: chunked (parsed strictly); a response with neither
//	                is accepted only as the last one on the connection and only when it
//	                carries "Connection: close"
//	no body       = 1xx, 204, 304 and every response to HEAD
//	stream        = zero or more interim 1xx responses followed by one final response, per
//	                request; after the last response NOTHING may follow.
package main

import (
	"fmt"
	"strings"
)

// HeaderKV is one parsed header line, in wire order.
type HeaderKV struct{ Name, Value string }

// Resp is one parsed response.
type Resp struct {
	Status  int
	Reason  string
	Headers []HeaderKV
	Body    []byte
	Interim bool // 1xx
	// BodyDespiteHead: the response answers HEAD, is an error (>= 400) with "Connection: close",
	// and is followed by exactly Content-Length bytes. A client that sent HEAD does not read a
	// body and, told to close, discards what follows: the statement is silent on this, the
	// caller counts it as unspecified.
	BodyDespiteHead bool
}

// ParseErr describes why the byte stream is not a well-formed response sequence.
type ParseErr struct {
	Class  string // stable class, used in violation signatures
	Where  string // status-line | header-line | framing | body | stream
	Header string // header name (canonical spelling as received) when the error is inside a header line
	Off    int
	Detail string
}

func (e *ParseErr) Error() string {
	return fmt.Sprintf("%s in %s at offset %d (%s) %s", e.Class, e.Where, e.Off, e.Header, e.Detail)
}

func isTchar(c byte) bool {
	switch {
	case c >= '0' && c <= '9', c >= 'a' && c <= 'z', c >= 'A' && c <= 'Z':
		return true
	}
	return strings.IndexByte("!#$%&'*+-.^_`|~", c) >= 0
}

// isFieldByte: HTAB / SP / VCHAR / obs-text.
func isFieldByte(c byte) bool { return c == '\t' || c == ' ' || (c >= 0x21 && c <= 0x7e) || c >= 0x80 }

func ctlName(c byte) string {
	switch c {
	case 0:
		return "NUL"
	case '\r':
		return "bare-CR"
	case '\n':
		return "bare-LF"
	case 0x7f:
		return "DEL"
	}
	return "CTL"
}

// readLine returns the bytes of the line starting at off (without CRLF) and the offset after
// the CRLF. The line ends at the first LF; strictness about CR placement is applied by the caller
// through the returned flags.
func readLine(b []byte, off int) (line []byte, next int, okCRLF bool, found bool) {
	for i := off; i < len(b); i++ {
		if b[i] == '\n' {
			if i > off && b[i-1] == '\r' {
				return b[off : i-1], i + 1, true, true
			}
			return b[off:i], i + 1, false, true
		}
	}
	return b[off:], len(b), false, false
}

// parseOne parses one response starting at off. head tells whether it answers a HEAD request.
func parseOne(b []byte, off int, head bool) (Resp, int, *ParseErr) {
	var r Resp
	line, next, crlf, found := readLine(b, off)
	if !found {
		return r, off, &ParseErr{Class: "truncated-status-line", Where: "status-line", Off: off, Detail: clip(string(line))}
	}
	if !crlf {
		return r, off, &ParseErr{Class: "bare-LF", Where: "status-line", Off: off, Detail: clip(string(line))}
	}
	// "HTTP/1.1" SP 3DIGIT SP reason
	if len(line) < 13 || string(line[:9]) != "HTTP/1.1 " || line[12] != ' ' {
		return r, off, &ParseErr{Class: "bad-status-line", Where: "status-line", Off: off, Detail: clip(string(line))}
	}
	for _, c := range line[9:12] {
		if c < '0' || c > '9' {
			return r, off, &ParseErr{Class: "bad-status-code", Where: "status-line", Off: off, Detail: clip(string(line))}
		}
	}
	r.Status = int(line[9]-'0')*100 + int(line[10]-'0')*10 + int(line[11]-'0')
	if r.Status < 100 || r.Status > 599 {
		return r, off, &ParseErr{Class: "bad-status-code", Where: "status-line", Off: off, Detail: clip(string(line))}
	}
	for _, c := range line[13:] {
		if !isFieldByte(c) {
			return r, off, &ParseErr{Class: ctlName(c) + "-in-reason", Where: "status-line", Off: off, Detail: clip(string(line))}
		}
	}
	r.Reason = string(line[13:])
	r.Interim = r.Status < 200
	// header lines
	pos := next
	for {
		line, next, crlf, found = readLine(b, pos)
		if !found {
			return r, off, &ParseErr{Class: "truncated-headers", Where: "header-line", Off: pos, Detail: clip(string(line))}
		}
		if !crlf {
			return r, off, &ParseErr{Class: "bare-LF", Where: "header-line", Off: pos, Header: nameOf(line), Detail: clip(string(line))}
		}
		if len(line) == 0 {
			pos = next
			break
		}
		if line[0] == ' ' || line[0] == '\t' {
			return r, off, &ParseErr{Class: "obs-fold", Where: "header-line", Off: pos, Detail: clip(string(line))}
		}
		colon := -1
		for i, c := range line {
			if c == ':' {
				colon = i
				break
			}
			if !isTchar(c) {
				cls := "bad-header-name"
				if c == ' ' || c == '\t' {
					cls = "space-in-header-name"
				} else if !isFieldByte(c) {
					cls = ctlName(c) + "-in-header-name"
				}
				return r, off, &ParseErr{Class: cls, Where: "header-line", Off: pos, Header: nameOf(line), Detail: clip(string(line))}
			}
		}
		if colon == -1 {
			return r, off, &ParseErr{Class: "header-line-without-colon", Where: "header-line", Off: pos, Detail: clip(string(line))}
		}
		if colon == 0 {
			return r, off, &ParseErr{Class: "empty-header-name", Where: "header-line", Off: pos, Detail: clip(string(line))}
		}
		name := string(line[:colon])
		val := line[colon+1:]
		for _, c := range val {
			if !isFieldByte(c) {
				return r, off, &ParseErr{Class: ctlName(c) + "-in-header-value", Where: "header-line", Off: pos, Header: name, Detail: clip(string(line))}
			}
		}
		r.Headers = append(r.Headers, HeaderKV{name, strings.Trim(string(val), " \t")})
		pos = next
	}
	// framing
	var cl = -1
	chunked := false
	hasTE := false
	connClose := false
	for _, h := range r.Headers {
		switch strings.ToLower(h.Name) {
		case "content-length":
			if h.Value == "" || len(h.Value) > 18 {
				return r, off, &ParseErr{Class: "bad-content-length", Where: "framing", Off: off, Header: h.Name, Detail: clip(h.Value)}
			}
			n := 0
			for _, c := range []byte(h.Value) {
				if c < '0' || c > '9' {
					return r, off, &ParseErr{Class: "bad-content-length", Where: "framing", Off: off, Header: h.Name, Detail: clip(h.Value)}
				}
				n = n*10 + int(c-'0')
			}
			if cl != -1 && cl != n {
				return r, off, &ParseErr{Class: "conflicting-content-length", Where: "framing", Off: off, Header: h.Name, Detail: clip(h.Value)}
			}
			cl = n
		case "transfer-encoding":
			hasTE = true
			parts := strings.Split(h.Value, ",")
			last := strings.ToLower(strings.TrimSpace(parts[len(parts)-1]))
			if last != "chunked" {
				return r, off, &ParseErr{Class: "transfer-encoding-not-chunked", Where: "framing", Off: off, Header: h.Name, Detail: clip(h.Value)}
			}
			chunked = true
		case "connection":
			for _, t := range strings.Split(h.Value, ",") {
				if strings.EqualFold(strings.TrimSpace(t), "close") {
					connClose = true
				}
			}
		}
	}
	if hasTE && cl != -1 {
		return r, off, &ParseErr{Class: "content-length-and-transfer-encoding", Where: "framing", Off: off}
	}
	if r.Interim || r.Status == 204 || r.Status == 304 || head {
		if r.Interim && (hasTE || cl != -1) {
			return r, off, &ParseErr{Class: "framing-header-on-1xx", Where: "framing", Off: off}
		}
		if r.Status == 204 && hasTE {
			return r, off, &ParseErr{Class: "transfer-encoding-on-204", Where: "framing", Off: off}
		}
		if head && r.Status >= 400 && connClose && cl > 0 && len(b)-pos == cl {
			r.BodyDespiteHead = true
			r.Body = b[pos:]
			return r, len(b), nil
		}
		return r, pos, nil
	}
	switch {
	case chunked:
		body, np, perr := parseChunked(b, pos)
		if perr != nil {
			return r, off, perr
		}
		r.Body = body
		return r, np, nil
	case cl >= 0:
		if len(b)-pos < cl {
			return r, off, &ParseErr{Class: "body-shorter-than-content-length", Where: "body", Off: pos, Detail: fmt.Sprintf("content-length=%d available=%d", cl, len(b)-pos)}
		}
		r.Body = b[pos : pos+cl]
		return r, pos + cl, nil
	default:
		if !connClose {
			return r, off, &ParseErr{Class: "no-framing-and-no-connection-close", Where: "framing", Off: off}
		}
		r.Body = b[pos:]
		return r, len(b), nil
	}
}

func parseChunked(b []byte, pos int) ([]byte, int, *ParseErr) {
	var body []byte
	for {
		line, next, crlf, found := readLine(b, pos)
		if !found || !crlf {
			return nil, pos, &ParseErr{Class: "bad-chunk-size-line", Where: "body", Off: pos, Detail: clip(string(line))}
		}
		hex := line
		if i := strings.IndexByte(string(line), ';'); i >= 0 {
			hex = line[:i]
		}
		if len(hex) == 0 || len(hex) > 8 {
			return nil, pos, &ParseErr{Class: "bad-chunk-size-line", Where: "body", Off: pos, Detail: clip(string(line))}
		}
		n := 0
		for _, c := range hex {
			switch {
			case c >= '0' && c <= '9':
				n = n*16 + int(c-'0')
			case c >= 'a' && c <= 'f':
				n = n*16 + int(c-'a') + 10
			case c >= 'A' && c <= 'F':
				n = n*16 + int(c-'A') + 10
			default:
				return nil, pos, &ParseErr{Class: "bad-chunk-size-line", Where: "body", Off: pos, Detail: clip(string(line))}
			}
		}
		pos = next
		if n == 0 {
			// trailer section: header lines until empty line
			for {
				line, next, crlf, found = readLine(b, pos)
				if !found || !crlf {
					return nil, pos, &ParseErr{Class: "bad-chunked-trailer", Where: "body", Off: pos, Detail: clip(string(line))}
				}
				pos = next
				if len(line) == 0 {
					return body, pos, nil
				}
				colon := strings.IndexByte(string(line), ':')
				if colon <= 0 {
					return nil, pos, &ParseErr{Class: "bad-chunked-trailer", Where: "body", Off: pos, Detail: clip(string(line))}
				}
				for _, c := range line[:colon] {
					if !isTchar(c) {
						return nil, pos, &ParseErr{Class: "bad-chunked-trailer", Where: "body", Off: pos, Detail: clip(string(line))}
					}
				}
				for _, c := range line[colon+1:] {
					if !isFieldByte(c) {
						return nil, pos, &ParseErr{Class: "bad-chunked-trailer", Where: "body", Off: pos, Detail: clip(string(line))}
					}
				}
			}
		}
		if len(b)-pos < n+2 {
			return nil, pos, &ParseErr{Class: "truncated-chunk", Where: "body", Off: pos}
		}
		body = append(body, b[pos:pos+n]...)
		if b[pos+n] != '\r' || b[pos+n+1] != '\n' {
			return nil, pos, &ParseErr{Class: "chunk-not-terminated-by-CRLF", Where: "body", Off: pos + n}
		}
		pos += n + 2
	}
}

// ParseStream parses everything the server wrote on one connection. firstIsHead tells whether
// the first request on the connection used the HEAD method (later requests of our families
// never do). It returns the responses parsed so far and the first error.
func ParseStream(b []byte, firstIsHead bool) ([]Resp, *ParseErr) {
	var out []Resp
	pos := 0
	finals := 0
	for pos < len(b) {
		r, next, err := parseOne(b, pos, firstIsHead && finals == 0)
		if err != nil {
			if len(out) > 0 {
				// bytes after a complete response that do not form another response
				err.Where = "after-response-" + err.Where
			}
			return out, err
		}
		out = append(out, r)
		if !r.Interim {
			finals++
		}
		pos = next
	}
	if n := len(out); n > 0 && out[n-1].Interim {
		return out, &ParseErr{Class: "interim-response-without-final", Where: "stream", Off: len(b)}
	}
	return out, nil
}

func nameOf(line []byte) string {
	if i := strings.IndexByte(string(line), ':'); i > 0 {
		return string(line[:i])
	}
	return ""
}

func clip(s string) string {
	if len(s) > 160 {
		return fmt.Sprintf("%q...(%d bytes)", s[:160], len(s))
	}
	return fmt.Sprintf("%q", s)
}

// Header returns the values of a header (case-insensitive).
func (r *Resp) Header(name string) []string {
	var out []string
	for _, h := range r.Headers {
		if strings.EqualFold(h.Name, name) {
			out = append(out, h.Value)
		}
	}
	return out
}
