// C07 — no request can crash, wedge or balloon the server; replies are well-formed.
//
// Bounded exhaustive enumeration at WIRE level (app.Server().ServeConn on fx.NewWireConn):
//
//	family 1  grammar product: request lines x header subsets with hostile value menus
//	family 2  single / double edit neighbourhoods of seed requests
//	family 3  response helpers fed with every attacker string of <= 3 symbols
//	family 5  request-header parsers reached through ctx helpers x repetition grammars: every
//	          sequence of 0-3 tokens / look-alikes / quoted forms / empty elements x separators (repetition.go)
//	family 4  application shapes (root/prefix/parameter Use, groups, mounts, parameter kinds ...)
//	          x routing configurations x degenerate request targets x methods (shapes.go)
//	family 6  response-helper call programs (other entry points, optional arguments, several calls on one
//	          response / Redirect object, strings that travel in the request, body writers, End, Drop) (programs.go)
//	family 7  the grammars of family 5 with HTAB as optional whitespace (repetition.go)
//	family 8  configuration combinations, redundant spellings, method lists of other lengths (combos.go)
//	balloon   inputs suspected of huge allocations, each on a fresh app in a child under
//	          `ulimit -v 4000000` (an OOM is a reported violation, not a dead check)
//
// each x {default ctx, custom ctx (NewCtxFunc), custom RequestMethods, Immutable, UnescapePath,
// BodyLimit=64 & ReadBufferSize=256}.
//
// Process structure: the parent starts one worker per CPU through r.SpawnWorkers
// (GOMAXPROCS=1 so that runtime.MemStats.TotalAlloc deltas are exact and cheap). A worker
// recovers panics itself; what it cannot survive (fatal error: out of memory, stack overflow,
// a hang caught by the CPU watchdog) is attributed through a shared progress mapping holding the
// number of the case in flight, confirmed by re-running exactly that case in a fresh child, and
// the rest of the worker's shards is resumed with the culprit skipped.
package main

import (
	"bufio"
	"encoding/binary"
	"encoding/json"
	"flag"
	"fmt"
	"hash/fnv"
	"os"
	"os/exec"
	"path/filepath"
	"runtime"
	"runtime/debug"
	"runtime/pprof"
	"sort"
	"strconv"
	"strings"
	"sync"
	"syscall"
	"time"

	"verifmc/core"
)

const (
	// oracle (ii): CPU seconds (not wall time: independent of machine load) one case may burn
	// before it is called a hang. The dearest legitimate case of the three families costs about a
	// millisecond; the balloon inputs legitimately burn seconds (hundreds of MiB inflated).
	cpuCapSeconds        = 5.0
	cpuCapBalloonSeconds = 20.0
	blockedSeconds       = 120 // a case in flight while the process stays idle this long is blocked
	workerASLimit        = 12 << 30
	// a worker whose process died is resumed (culprit skipped) at most this many times
	maxDeathsPerWorker = 2
)

var (
	flagTrace     = flag.Bool("trace", false, "print every case before running it (internal)")
	flagSkip      = flag.String("skip", "", "comma separated case numbers to skip (internal)")
	flagOnly      = flag.Int64("only", -1, "run only this case number (internal)")
	flagFromShard = flag.Int("fromshard", 0, "resume at this position of the worker's shard list (internal)")
	flagCaseBase  = flag.Int64("casebase", 0, "case number reached before -fromshard (internal)")
	flagBalloon   = flag.Bool("balloon", false, "run the balloon family (internal, child under ulimit)")
	flagAfter     = flag.Int64("after", 0, "skip every case numbered <= this (internal)")
	flagFamilies  = flag.String("families", "", "development aid: run only these families (f1,f2,f3,f4,f5,balloon); the run is then reported as not exhaustive")
)

// ---------------------------------------------------------------------------
// shards

type shard struct {
	Fam string // f1 | f1t | f2s | f2p | f3 | f4 | f5 | f6 | f7 | f8
	Cfg int    // f4: index into cfg4s(tier); f5, f7: index into cfgsAll; f8: index into cfgsEvery
	A   int    // f1: request line; f1t: handler line; f2*: seed; f3: helper; f4: index into f4ShapeSets(tier); f5: index into units5()
	B   int    // f1t: first slot; f2p: first position
}

// pairLine: in the quick tier the 2-letter header sets are not combined with request lines that
// are refused while the request line itself is parsed, before any header is looked at (empty
// method, version JUNK); those lines keep the 0- and 1-letter sets. (HTTP/2.0 is served.)
func pairLine(l reqLine) bool { return l.M.Token && l.V.V != "JUNK" }

// pairCfg: in the quick tier the pair neighbourhood runs on two configurations only.
func pairCfg(quick bool, c int) bool {
	return !quick || cfgs[c].Name == "default" || cfgs[c].Name == "customctx"
}

func pairSeedCount(quick bool) int {
	if quick {
		return 1
	}
	return 4
}

func famOn(f string) bool {
	if *flagFamilies == "" {
		return true
	}
	for _, x := range strings.Split(*flagFamilies, ",") {
		if strings.TrimSpace(x) == f {
			return true
		}
	}
	return false
}

// buildShards lists the work items in a fixed pseudo-random order (a hash of the shard's own
// coordinates): shard cost varies a lot (a refused request line costs 1 us, a served one 40 us)
// and the static i%n assignment of SpawnWorkers would otherwise line costs up with workers.
func buildShards(quick bool) []shard {
	all := buildAllShards(quick)
	key := func(s shard) uint64 {
		h := fnv.New64a()
		fmt.Fprintf(h, "%s/%d/%d/%d", s.Fam, s.Cfg, s.A, s.B)
		return h.Sum64()
	}
	sort.SliceStable(all, func(i, j int) bool { return key(all[i]) < key(all[j]) })
	if *flagFamilies == "" {
		return all
	}
	var out []shard
	for _, s := range all {
		if famOn(s.Fam[:2]) {
			out = append(out, s)
		}
	}
	return out
}

func buildAllShards(quick bool) []shard {
	var out []shard
	nl := len(allLines())
	for li := 0; li < nl; li++ {
		for c := range cfgs {
			out = append(out, shard{"f1", c, li, 0})
		}
	}
	for hi := range helpers {
		for c := range cfgs {
			out = append(out, shard{"f3", c, hi, 0})
		}
	}
	for si := range seeds {
		for c := range cfgs {
			out = append(out, shard{"f2s", c, si, 0})
		}
	}
	for si := 0; si < pairSeedCount(quick); si++ {
		for pos := 0; pos <= len(seeds[si]); pos++ {
			for c := range cfgs {
				if pairCfg(quick, c) {
					out = append(out, shard{"f2p", c, si, pos})
				}
			}
		}
	}
	for ui := range units5() {
		for c := range cfgsAll {
			out = append(out, shard{"f5", c, ui, 0})
		}
	}
	for pi := range programs {
		for c := range cfgs {
			out = append(out, shard{"f6", c, pi, 0})
		}
	}
	for ui := range units5() {
		for c := range cfgsAll {
			out = append(out, shard{"f7", c, ui, 0})
		}
	}
	for li := range servedLines() {
		for c := range cfgsCombo {
			out = append(out, shard{"f8", len(cfgsAll) + c, li, 0})
		}
	}
	c4 := cfg4s(quick)
	for si, set := range f4ShapeSets(quick) {
		for c := range c4 {
			// pairs of shapes (thorough tier): the eight routing configurations with the default context
			if len(set) > 1 && (c4[c].CustomCtx || c4[c].CustomM) {
				continue
			}
			out = append(out, shard{"f4", c, si, 0})
		}
	}
	if !quick {
		nh := len(handlerLines())
		for li := 0; li < nh; li++ {
			for s := 0; s+2 < len(slots); s++ {
				for c := range cfgs {
					out = append(out, shard{"f1t", c, li, s})
				}
			}
		}
	}
	return out
}

func (w *worker) runShard(s shard, quick bool) {
	w.seen = map[uint64]struct{}{}
	if s.Fam == "f4" {
		w.runF4Shard(&f4App{cfg: cfg4s(quick)[s.Cfg], shape: f4ShapeSets(quick)[s.A]}, quick)
		return
	}
	w.useCfg(s.Cfg)
	switch s.Fam {
	case "f1":
		line := allLines()[s.A]
		w.runF1(line, nil)
		enumSets(1, 0, len(slots), func(h hset) { w.runF1(line, h) })
		if !quick || pairLine(line) {
			enumSets(2, 0, len(slots), func(h hset) { w.runF1(line, h) })
		}
	case "f1t":
		line := handlerLines()[s.A]
		enumSets(3, s.B, s.B+1, func(h hset) { w.runF1(line, h) })
	case "f2s":
		var buf []byte
		w.runF2(s.A, &buf)
		for pos := 0; pos <= len(seeds[s.A]); pos++ {
			for _, e := range editsAt(seeds[s.A], pos) {
				w.runF2(s.A, &buf, e)
			}
		}
	case "f2p":
		var buf []byte
		seed := seeds[s.A]
		for _, e1 := range editsAt(seed, s.B) {
			for pos := s.B; pos <= len(seed); pos++ {
				for _, e2 := range editsAt(seed, pos) {
					if pairOK(e1, e2) {
						w.runF2(s.A, &buf, e1, e2)
					}
				}
			}
		}
	case "f3":
		for qi := range w.qs {
			w.runF3(s.A, qi)
		}
	case "f5":
		u := units5()[s.A]
		w.runF5Shard(&u)
	case "f6":
		for qi := range w.qs {
			w.runF6(s.A, qi)
		}
	case "f7":
		u := units5()[s.A]
		w.runF7Shard(&u, s.Cfg == f7Long)
	case "f8":
		line := servedLines()[s.A]
		w.f1tag = "f8"
		w.runF1(line, nil)
		enumSets(1, 0, len(slots), func(h hset) { w.runF1(line, h) })
		w.f1tag = ""
	}
}

// ---------------------------------------------------------------------------
// worker

type checkpoint struct {
	ShardPos int           `json:"shard_pos"` // next position in this worker's shard list
	CaseNo   int64         `json:"case_no"`   // cases numbered so far
	Partial  *core.Partial `json:"partial"`
	MaxFrac  float64       `json:"max_frac"`
	MaxAlloc uint64        `json:"max_alloc"`
	MaxLen   int           `json:"max_len"`
	MaxDesc  string        `json:"max_desc"`
}

// processCPU returns the USER-mode CPU seconds of this process. System time is left out on
// purpose: on a machine under memory or I/O pressure the kernel can burn seconds of system time
// on behalf of a process (direct reclaim, page-cache writeback faults) while no case makes
// progress - that is machine noise, not a loop in the server. A server that loops burns user time.
func processCPU() float64 {
	var ru syscall.Rusage
	if syscall.Getrusage(syscall.RUSAGE_SELF, &ru) != nil {
		return 0
	}
	return float64(ru.Utime.Sec) + float64(ru.Utime.Usec)/1e6
}

// watchdog ends the process (exit 7) when the case in flight burns more than the CPU cap, or
// stays in flight while the process is idle (blocked). The parent attributes and confirms it.
func (w *worker) watchdog() {
	last := int64(-1)
	cpuAt := processCPU()
	wallAt := time.Now()
	for {
		time.Sleep(250 * time.Millisecond)
		cur := w.caseAtom.Load()
		cpu := processCPU()
		if cur != last {
			last, cpuAt, wallAt = cur, cpu, time.Now()
			continue
		}
		reason := byte(0)
		if cpu-cpuAt > w.cpuCap {
			reason = 1
		} else if time.Since(wallAt) > blockedSeconds*time.Second && cpu-cpuAt < 1 {
			reason = 2
		}
		if reason != 0 {
			if w.prog != nil {
				w.prog[16] = reason
			}
			fmt.Fprintf(os.Stderr, "C07-WATCHDOG reason=%d case=%d cpu=%.1fs\n", reason, cur, cpu-cpuAt)
			_ = pprof.Lookup("goroutine").WriteTo(os.Stderr, 2) // where is it stuck?
			os.Exit(7)
		}
	}
}

func mapProgress(path string) []byte {
	f, err := os.OpenFile(path, os.O_RDWR|os.O_CREATE|os.O_TRUNC, 0o644)
	if err != nil {
		return nil
	}
	defer f.Close()
	if f.Truncate(32) != nil {
		return nil
	}
	m, err := syscall.Mmap(int(f.Fd()), 0, 32, syscall.PROT_READ|syscall.PROT_WRITE, syscall.MAP_SHARED)
	if err != nil {
		return nil
	}
	return m
}

func parseSkip(s string) map[int64]bool {
	m := map[int64]bool{}
	for _, p := range strings.Split(s, ",") {
		if v, err := strconv.ParseInt(strings.TrimSpace(p), 10, 64); err == nil {
			m[v] = true
		}
	}
	return m
}

func newWorker(r *core.Run) *worker {
	file, err := makeDownloadFile()
	if err != nil {
		core.Fatal("cannot create the download file: %v", err)
	}
	w := &worker{r: r, l: core.NewLocal(), rb: newReqBuilder(), qs: attackStrings(), file: file, cfgIdx: -1,
		skip: parseSkip(*flagSkip), only: *flagOnly, trace: *flagTrace, cpuCap: cpuCapSeconds}
	if *flagBalloon {
		w.cpuCap = cpuCapBalloonSeconds
	}
	if r.Out != "" {
		w.prog = mapProgress(r.Out + ".prog")
	}
	go w.watchdog()
	return w
}

func (w *worker) writeCheckpoint(pos int) {
	cp := checkpoint{ShardPos: pos, CaseNo: w.caseNo, Partial: w.l.P, MaxFrac: w.maxFrac, MaxAlloc: w.maxAlloc, MaxLen: w.maxAllocN, MaxDesc: w.maxDesc}
	b, err := json.Marshal(cp)
	if err != nil {
		return
	}
	tmp := w.r.Out + ".ckpt.tmp"
	if os.WriteFile(tmp, b, 0o644) == nil {
		_ = os.Rename(tmp, w.r.Out+".ckpt")
	}
}

func allocNote(frac float64, alloc uint64, n int, desc string) string {
	return fmt.Sprintf("ALLOCMAX %.6f %d %d %s", frac, alloc, n, desc)
}

func runWorker(r *core.Run) {
	// a runaway allocation must kill this worker (and be attributed), not the machine
	_ = syscall.Setrlimit(syscall.RLIMIT_AS, &syscall.Rlimit{Cur: workerASLimit, Max: workerASLimit})
	debug.SetMaxStack(256 << 20)
	w := newWorker(r)
	defer os.Remove(w.file)
	all := buildShards(r.Quick())
	var mine []shard
	for i, s := range all {
		if r.Shard(i) {
			mine = append(mine, s)
		}
	}
	w.caseNo = *flagCaseBase
	lastCkpt := time.Now()
	for pos := *flagFromShard; pos < len(mine); pos++ {
		if r.Expired() {
			r.Cap("wall-clock budget reached before all shards were run")
			break
		}
		w.shardPos = pos
		if w.prog != nil {
			binary.LittleEndian.PutUint64(w.prog[8:16], uint64(pos))
		}
		w.runShard(mine[pos], r.Quick())
		if w.only < 0 && time.Since(lastCkpt) > 2*time.Second { // checkpoint pacing only; no oracle depends on it
			w.writeCheckpoint(pos + 1)
			lastCkpt = time.Now()
		}
	}
	os.Remove(w.file)
	w.finish(r)
}

// finish hands the worker's results to the parent. Samples also travel as notes so that the
// parent can choose a deterministic, family-balanced subset (merge order of partials varies).
func (w *worker) finish(r *core.Run) {
	fams := make([]string, 0, len(w.samples))
	for f := range w.samples {
		fams = append(fams, f)
	}
	sort.Strings(fams)
	for _, f := range fams {
		for _, s := range w.samples[f] {
			r.P.Notes = append(r.P.Notes, "SAMPLE "+core.Key(s))
		}
	}
	for _, v := range w.l.P.Violations {
		r.P.Notes = append(r.P.Notes, "VIOL "+core.Key(v))
	}
	r.Merge(w.l.P)
	r.P.Notes = append(r.P.Notes, allocNote(w.maxFrac, w.maxAlloc, w.maxAllocN, w.maxDesc))
	r.Finish(core.Evidence{}) // worker: writes the partial and exits
}

// runBalloon: every case on a fresh application, traced, in a child under ulimit.
func runBalloon(r *core.Run) {
	w := newWorker(r)
	w.trace = true
	defer os.Remove(w.file)
	cases := balloonCases(r.Quick())
	w.after = *flagAfter
	for ci := range cfgs {
		for i := range cases {
			bc := &cases[i]
			w.app = nil
			w.useCfg(ci)
			desc := func() map[string]any {
				return map[string]any{"family": "balloon", "config": w.cfg().Name, "id": bc.ID, "class": bc.Class, "request": clipReq(bc.Req)}
			}
			if !w.begin(desc) {
				continue
			}
			// warm the pools so that the figure is the marginal cost of this request
			warm := []byte("GET /all HTTP/1.1\r\nHost: h\r\n\r\n")
			w.exec(warm)
			res := w.exec(bc.Req)
			w.l.Add("evaluations", 1)
			w.l.Add("balloon_cases", 1)
			w.l.Add("nontrivial", 1)
			first := w.judgeCommon(bc.Req, res, desc, judgeOpts{fam: "balloon", allocTrigger: bc.Class})
			st := 0
			if first != nil {
				st = first.Status
			}
			over := res.alloc > budgetFor(len(bc.Req))
			w.l.Outcome(fmt.Sprintf("balloon class=%s st=%d over-budget=%v", bc.Class, st, over))
			if ci == 0 && (bc.ID == "flash:array16-n=0xffff" || bc.ID == "zip:gzip2-4MiB") {
				w.sample("balloon", map[string]any{"case": desc(), "status": st, "alloc_bytes": res.alloc, "budget_bytes": budgetFor(len(bc.Req))})
			}
			runtime.GC()
			if w.only < 0 {
				w.writeCheckpoint(0)
			}
		}
	}
	os.Remove(w.file)
	w.finish(r)
}

// ---------------------------------------------------------------------------
// parent: children, crash attribution, evidence

type childResult struct {
	partial  *core.Partial
	exitCode int
	lastCase string // last "CASE n {...}" line (trace mode)
	stderr   string // tail
	err      error
}

type tailBuf struct{ b []byte }

func (t *tailBuf) Write(p []byte) (int, error) {
	t.b = append(t.b, p...)
	if len(t.b) > 16384 {
		t.b = t.b[len(t.b)-8192:]
	}
	return len(p), nil
}

// runChild runs this binary as a worker. ulimitKB > 0 wraps it in `bash -c "ulimit -v N; exec ..."`.
func runChild(r *core.Run, out string, ulimitKB int, env []string, args ...string) childResult {
	_ = os.Remove(out)
	base := []string{"-tier", r.Tier, "-out", out}
	base = append(base, args...)
	var cmd *exec.Cmd
	if ulimitKB > 0 {
		sh := fmt.Sprintf(`ulimit -v %d; exec "$0" "$@"`, ulimitKB)
		cmd = exec.Command("bash", append([]string{"-c", sh, os.Args[0]}, base...)...)
	} else {
		cmd = exec.Command(os.Args[0], base...)
	}
	cmd.Env = append(os.Environ(), env...)
	var tb tailBuf
	cmd.Stderr = &tb
	stdout, _ := cmd.StdoutPipe()
	var cr childResult
	if err := cmd.Start(); err != nil {
		cr.err = err
		cr.exitCode = -1
		return cr
	}
	sc := bufio.NewScanner(stdout)
	sc.Buffer(make([]byte, 1<<20), 1<<24)
	for sc.Scan() {
		if t := sc.Text(); strings.HasPrefix(t, "CASE ") {
			cr.lastCase = t
		}
	}
	err := cmd.Wait()
	cr.stderr = string(tb.b)
	if err != nil {
		cr.err = err
		cr.exitCode = -1
		if ee, ok := err.(*exec.ExitError); ok {
			cr.exitCode = ee.ExitCode()
		}
	}
	if b, rerr := os.ReadFile(out); rerr == nil {
		var p core.Partial
		if json.Unmarshal(b, &p) == nil {
			if p.Counters == nil {
				p.Counters = map[string]int64{}
			}
			cr.partial = &p
		}
		_ = os.Remove(out)
	}
	return cr
}

func classifyDeath(cr childResult, reason byte) string {
	e := cr.stderr
	switch {
	case reason == 1 || strings.Contains(e, "C07-WATCHDOG reason=1"):
		return "hang-cpu-cap"
	case reason == 2 || strings.Contains(e, "C07-WATCHDOG reason=2"):
		return "blocked"
	case strings.Contains(e, "out of memory") || strings.Contains(e, "cannot allocate memory"):
		return "fatal-out-of-memory"
	case strings.Contains(e, "stack overflow") || strings.Contains(e, "goroutine stack exceeds"):
		return "fatal-stack-overflow"
	case strings.Contains(e, "concurrent map"):
		return "fatal-concurrent-map"
	case strings.Contains(e, "fatal error"):
		return "fatal-error"
	case strings.Contains(e, "HARNESS-ERROR"):
		return "harness-error"
	}
	return fmt.Sprintf("died-exit-%d", cr.exitCode)
}

func fatalSite(stderr string) string {
	for _, ln := range strings.Split(stderr, "\n") {
		ln = strings.TrimSpace(ln)
		if strings.HasPrefix(ln, "github.com/gofiber/fiber/v3.") || strings.HasPrefix(ln, "github.com/gofiber/fiber/v3/") {
			if i := strings.Index(ln, "("); i > 0 {
				// keep "pkg.(*T).Method" or "pkg.Func"
				j := strings.LastIndex(ln, "(")
				if j > 0 {
					ln = ln[:j]
				}
			}
			if i := strings.LastIndex(ln, "/"); i >= 0 {
				ln = ln[i+1:]
			}
			return ln
		}
	}
	return "?"
}

func parseCaseLine(s string) (int64, map[string]any) {
	s = strings.TrimPrefix(s, "CASE ")
	i := strings.IndexByte(s, ' ')
	if i < 0 {
		return -1, nil
	}
	n, _ := strconv.ParseInt(s[:i], 10, 64)
	var m map[string]any
	_ = json.Unmarshal([]byte(s[i+1:]), &m)
	return n, m
}

func caseClass(m map[string]any) string {
	if m == nil {
		return "?"
	}
	fam, _ := m["family"].(string)
	switch fam {
	case "balloon":
		return fmt.Sprintf("balloon class=%v", m["class"])
	case "f1-grammar":
		var ids []string
		if ls, ok := m["letters"].([]any); ok {
			for _, x := range ls {
				ids = append(ids, fmt.Sprint(x))
			}
		}
		return "f1 letters=" + strings.Join(ids, "+")
	case "f2-edits":
		return fmt.Sprintf("f2 seed=%v", m["seed"])
	case "f3-helpers":
		return fmt.Sprintf("f3 helper=%v", m["helper"])
	case "f5-repetition":
		return fmt.Sprintf("f5 parser=%v", m["parser"])
	case "f7-tabs":
		return fmt.Sprintf("f7 parser=%v", m["parser"])
	case "f6-programs":
		return fmt.Sprintf("f6 program=%v", m["program"])
	case "f8-config-combinations":
		var ids []string
		if ls, ok := m["letters"].([]any); ok {
			for _, x := range ls {
				ids = append(ids, fmt.Sprint(x))
			}
		}
		return fmt.Sprintf("f8 config=%v letters=%s", m["config"], strings.Join(ids, "+"))
	case "f4-shapes":
		return fmt.Sprintf("f4 shape-kind=%v target=%v", m["shape_kind"], m["target_class"])
	}
	return fam
}

func ctxOf(m map[string]any) string {
	if m != nil && m["family"] == "f4-shapes" {
		if c, _ := m["config"].(string); strings.HasPrefix(c, "customctx") {
			return "custom"
		}
		return "default"
	}
	if c, _ := m["config"].(string); m != nil && strings.HasPrefix(c, "customctx") {
		return "custom"
	}
	return "default"
}

// partPath: where worker i of THIS coordinator writes its partial (core.SpawnWorkers uses the same
// per-process directory), its progress mapping (.prog) and its checkpoints (.ckpt).
func partPath(r *core.Run, i int) string {
	return filepath.Join(r.PartsDir(), fmt.Sprintf("part%d.json", i))
}

func readProgress(path string) (caseNo int64, shardPos int, reason byte, ok bool) {
	b, err := os.ReadFile(path)
	if err != nil || len(b) < 17 {
		return 0, 0, 0, false
	}
	return int64(binary.LittleEndian.Uint64(b[0:8])), int(binary.LittleEndian.Uint64(b[8:16])), b[16], true
}

func readCheckpoint(path string) *checkpoint {
	b, err := os.ReadFile(path)
	if err != nil {
		return nil
	}
	var cp checkpoint
	if json.Unmarshal(b, &cp) != nil || cp.Partial == nil {
		return nil
	}
	if cp.Partial.Counters == nil {
		cp.Partial.Counters = map[string]int64{}
	}
	return &cp
}

// recoverWorker handles a worker that died: attribute, confirm, record, resume.
func recoverWorker(r *core.Run, idx, n int) {
	out := partPath(r, idx)
	env := []string{"GOMAXPROCS=1"}
	var skips []string
	fromShard, caseBase := 0, int64(0)
	transient := 0
	for round := 0; round < maxDeathsPerWorker+1; round++ {
		culprit, _, reason, ok := readProgress(out + ".prog")
		if !ok {
			core.Fatal("worker %d died without a progress record", idx)
		}
		if cp := readCheckpoint(out + ".ckpt"); cp != nil {
			r.Merge(cp.Partial)
			r.Note(allocNote(cp.MaxFrac, cp.MaxAlloc, cp.MaxLen, cp.MaxDesc))
			fromShard, caseBase = cp.ShardPos, cp.CaseNo
			_ = os.Remove(out + ".ckpt")
		}
		common := []string{"-families", *flagFamilies, "-worker", strconv.Itoa(idx), "-nworkers", strconv.Itoa(n), "-fromshard", strconv.Itoa(fromShard), "-casebase", strconv.FormatInt(caseBase, 10)}
		// confirm: exactly that case, traced, in a fresh child
		conf := runChild(r, out+".confirm", 0, env, append(append([]string{}, common...), "-only", strconv.FormatInt(culprit, 10), "-trace")...)
		_ = os.Remove(out + ".confirm.prog")
		_ = os.Remove(out + ".confirm.ckpt")
		if conf.err == nil {
			// Not reproduced: never a violation. Treat it once as machine noise (note in the
			// evidence, the case is NOT skipped when the worker is resumed); twice = exit 2.
			transient++
			if transient > 1 {
				core.Fatal("harness nondeterminism: worker %d died twice (last: case %d, reason %d) in cases that pass when re-run alone", idx, culprit, reason)
			}
			r.Note(fmt.Sprintf("worker %d died in case %d (watchdog reason %d) but the case passes when re-run alone in a fresh process: treated as machine noise, worker resumed with the case included", idx, culprit, reason))
			r.Add("worker_deaths_not_reproduced", 1)
			res := runChild(r, out, 0, env, append(append([]string{}, common...), "-skip", strings.Join(skips, ","))...)
			if res.err == nil && res.partial != nil {
				r.Merge(res.partial)
				_ = os.Remove(out + ".prog")
				_ = os.Remove(out + ".ckpt")
				return
			}
			continue
		}
		kind := classifyDeath(conf, 0)
		if kind == "harness-error" {
			fmt.Fprint(os.Stderr, conf.stderr)
			core.Fatal("worker %d reported a harness error", idx)
		}
		_, desc := parseCaseLine(conf.lastCase)
		r.Violate(fmt.Sprintf("server-process-dies kind=%s at=%s input=%s ctx=%s", kind, fatalSite(conf.stderr), caseClass(desc), ctxOf(desc)),
			"serving this input kills (or wedges) the whole server process; confirmed by re-running the case alone in a fresh process",
			desc, map[string]any{"kind": kind, "stderr_tail": clipStr(conf.stderr, 1500)}, "the process survives and ServeConn returns")
		skips = append(skips, strconv.FormatInt(culprit, 10))
		// resume the rest of this worker's shards without the culprit(s)
		res := runChild(r, out, 0, env, append(append([]string{}, common...), "-skip", strings.Join(skips, ","))...)
		if res.err == nil && res.partial != nil {
			r.Merge(res.partial)
			_ = os.Remove(out + ".prog")
			_ = os.Remove(out + ".ckpt")
			return
		}
		if classifyDeath(res, 0) == "harness-error" {
			fmt.Fprint(os.Stderr, res.stderr)
			core.Fatal("worker %d reported a harness error while resuming", idx)
		}
	}
	r.Cap(fmt.Sprintf("worker %d: more than %d process deaths, its remaining shards were not run", idx, maxDeathsPerWorker))
}

// runBalloonParent drives the balloon child under `ulimit -v 4000000`, resuming after each death.
func runBalloonParent(r *core.Run) {
	out := filepath.Join(r.PartsDir(), "balloon.json")
	_ = os.MkdirAll(filepath.Dir(out), 0o755)
	after := int64(0)
	notRepro := 0
	_ = os.Remove(out + ".ckpt")
	for round := 0; round < 40; round++ {
		args := []string{"-balloon", "-worker", "0", "-nworkers", "1", "-after", strconv.FormatInt(after, 10)}
		// run until the next input that kills the process
		res := runChild(r, out, 4000000, []string{"GOMAXPROCS=1"}, args...)
		_ = os.Remove(out + ".prog")
		if res.err == nil && res.partial != nil {
			r.Merge(res.partial)
			_ = os.Remove(out + ".ckpt")
			return
		}
		if cp := readCheckpoint(out + ".ckpt"); cp != nil {
			// what the dead child had finished before the fatal case
			r.Merge(cp.Partial)
			r.Note(allocNote(cp.MaxFrac, cp.MaxAlloc, cp.MaxLen, cp.MaxDesc))
			_ = os.Remove(out + ".ckpt")
		}
		n, desc := parseCaseLine(res.lastCase)
		kind := classifyDeath(res, 0)
		if n < 0 || kind == "harness-error" {
			fmt.Fprint(os.Stderr, res.stderr)
			core.Fatal("balloon child failed without a case in flight")
		}
		// confirm alone
		conf := runChild(r, out+".confirm", 4000000, []string{"GOMAXPROCS=1"}, "-balloon", "-worker", "0", "-nworkers", "1", "-only", strconv.FormatInt(n, 10))
		_ = os.Remove(out + ".confirm.prog")
		if conf.err == nil {
			// not reproduced alone: never a violation; the verdict of the solitary run counts
			notRepro++
			if notRepro > 2 {
				core.Fatal("harness nondeterminism: %d balloon inputs killed the child but pass when re-run alone", notRepro)
			}
			r.Note(fmt.Sprintf("balloon case %d killed the child (%s) but passes when re-run alone in a fresh process: treated as machine noise", n, kind))
			r.Add("worker_deaths_not_reproduced", 1)
			if conf.partial != nil {
				r.Merge(conf.partial)
			}
			after = n
			continue
		}
		kind = classifyDeath(conf, 0)
		r.Add("evaluations", 1)
		r.Add("balloon_cases", 1)
		r.Add("nontrivial", 1)
		r.Outcome(fmt.Sprintf("balloon class=%v process-died kind=%s", desc["class"], kind))
		r.Violate(fmt.Sprintf("server-process-dies kind=%s at=%s input=%s ctx=%s", kind, fatalSite(conf.stderr), caseClass(desc), ctxOf(desc)),
			"serving this input kills (or wedges) the whole server process under `ulimit -v 4000000`; confirmed by re-running the case alone in a fresh process",
			desc, map[string]any{"kind": kind, "stderr_tail": clipStr(conf.stderr, 1500)}, "the process survives and ServeConn returns")
		after = n
	}
	r.Cap("balloon family: more than 40 process deaths")
}

func orNull(s string) string {
	if s == "" || !json.Valid([]byte(s)) {
		return "null"
	}
	return s
}

func main() {
	r := core.Start("C07")
	if *flagBalloon {
		runBalloon(r)
		return
	}
	if r.IsWorker() {
		runWorker(r)
		return
	}
	n := runtime.NumCPU()
	if n > 32 {
		n = 32
	}
	if n < 2 {
		n = 2
	}
	for i := 0; i < n; i++ {
		_ = os.Remove(partPath(r, i) + ".prog")
		_ = os.Remove(partPath(r, i) + ".ckpt")
	}
	t0 := time.Now()
	var extra []string
	if *flagFamilies != "" {
		extra = []string{"-families", *flagFamilies}
		r.Cap("development run restricted to families " + *flagFamilies)
	}
	crashed := r.SpawnWorkers(n, []string{"GOMAXPROCS=1"}, extra...)
	fmt.Fprintf(os.Stderr, "C07: %d workers done in %.1fs, %d died\n", n, time.Since(t0).Seconds(), len(crashed))
	sort.Strings(crashed)
	var wg sync.WaitGroup
	for _, c := range crashed {
		var idx int
		if _, err := fmt.Sscanf(c, "worker %d:", &idx); err != nil {
			core.Fatal("cannot parse crashed worker record %q", c)
		}
		fmt.Fprintf(os.Stderr, "C07: %s -> attributing\n", c)
		wg.Add(1)
		go func() { defer wg.Done(); recoverWorker(r, idx, n) }()
	}
	wg.Wait()
	for i := 0; i < n; i++ {
		_ = os.Remove(partPath(r, i) + ".prog")
		_ = os.Remove(partPath(r, i) + ".ckpt")
	}
	t1 := time.Now()
	if famOn("balloon") {
		runBalloonParent(r)
	}
	fmt.Fprintf(os.Stderr, "C07: balloon family done in %.1fs\n", time.Since(t1).Seconds())
	if famOn("mapping") {
		runStatusMapping(r)
	}

	// fold the per-worker allocation maxima
	var notes []string
	maxFrac, maxAlloc, maxLen, maxDesc := 0.0, uint64(0), 0, ""
	var sampleJSON []string
	canon := map[string]bool{}
	for _, s := range r.P.Notes {
		var f float64
		var a uint64
		var ln int
		if _, err := fmt.Sscanf(s, "ALLOCMAX %f %d %d", &f, &a, &ln); err == nil {
			if f > maxFrac {
				maxFrac, maxAlloc, maxLen = f, a, ln
				if parts := strings.SplitN(s, " ", 5); len(parts) == 5 {
					maxDesc = parts[4]
				}
			}
			continue
		}
		if strings.HasPrefix(s, "SAMPLE ") {
			sampleJSON = append(sampleJSON, strings.TrimPrefix(s, "SAMPLE "))
			continue
		}
		if strings.HasPrefix(s, "VIOL ") {
			// canonical example per signature: the smallest case (merge order must not matter)
			var v core.Violation
			if json.Unmarshal([]byte(strings.TrimPrefix(s, "VIOL ")), &v) == nil {
				if cur, ok := r.P.Violations[v.Signature]; ok {
					ck, nk := core.Key(cur.Case), core.Key(v.Case)
					if !canon[v.Signature] || len(nk) < len(ck) || (len(nk) == len(ck) && nk < ck) {
						cur.Case, cur.Observed, cur.Expected, cur.What = v.Case, v.Observed, v.Expected, v.What
						canon[v.Signature] = true
					}
				}
			}
			continue
		}
		notes = append(notes, s)
	}
	r.P.Notes = notes
	// deterministic, family-balanced samples: sorted, at most two per family
	sort.Strings(sampleJSON)
	perFam := map[string]int{}
	var samples []any
	for _, js := range sampleJSON {
		var m map[string]any
		if json.Unmarshal([]byte(js), &m) != nil {
			continue
		}
		fam := "?"
		if c, ok := m["case"].(map[string]any); ok {
			fam = fmt.Sprint(c["family"])
		}
		if perFam[fam] < 2 {
			perFam[fam]++
			samples = append(samples, m)
		}
	}
	if *flagFamilies == "" && len(r.P.Caps) == 0 && len(r.P.Violations) == 0 && (r.P.Counters["clean_request_reached_handler"] == 0 || r.P.Counters["f3_cases"] == 0 || r.P.Counters["f2_cases"] == 0 || r.P.Counters["f4_cases"] == 0 || r.P.Counters["f5_cases"] == 0 || r.P.Counters["f6_program_ran"] == 0 || r.P.Counters["f7_cases"] == 0 || r.P.Counters["f8_cases"] == 0 || r.P.Counters["f4_degenerate_target_reached_handler"] == 0) {
		core.Fatal("vacuous run: no clean request reached the /all handler, or a family did not run")
	}
	if os.Getenv("C07_OUTCOMES") != "" { // development aid: the outcome classes and their counts
		var ks []string
		for k := range r.P.Outcomes {
			ks = append(ks, k)
		}
		sort.Strings(ks)
		for _, k := range ks {
			fmt.Fprintf(os.Stderr, "OUTCOME %8d %s\n", r.P.Outcomes[k], k)
		}
	}
	quick := r.Quick()
	maxHdr := 2
	if !quick {
		maxHdr = 3
	}
	nLetters := 0
	for _, s := range slots {
		nLetters += len(s.Letters)
	}
	var cfgNames []string
	for _, c := range cfgs {
		cfgNames = append(cfgNames, c.Name)
	}
	var helperNames []string
	for _, h := range helpers {
		d := h.Name
		if h.NameLike {
			d += "(name-like)"
		}
		helperNames = append(helperNames, d)
	}
	rule := fmt.Sprintf("wire level, one in-memory connection per case, %d configs %v. "+
		"F1 = %d request lines (9 methods x %d targets x 4 versions) x every set of <=2 header letters from %d slots / %d letters (each slot has its own hostile value menu; Content-Type/-Encoding/framing letters also shape the body)%s. "+
		"F2 = %d seeds x every single edit (delete, replace, insert of %d bytes at every offset) and every pair of edits for the %d shortest seed(s)%s. "+
		"%s%s%s%s%s"+
		"F3 = %d helpers x %d attacker strings (all strings of <=3 symbols over {a,CR,LF,CRLF,NUL,\",;,comma,:,SP,e-acute} + 4 classics). "+
		"Balloon = %d inputs (msgpack array headers in fiber_flash, 1-3 layers of gzip over zeros) each on a fresh app in a child under ulimit -v 4000000. "+
		"Non-trivial = differs from the benign baseline (F1: any header letter or hostile request-line letter; F2: any edit; F3: q not in a*; F4: any target other than a plain route base; F5, F7: any value with at least one element; F6: q not in a*; F8: as F1; balloon: all) AND its request bytes were not already produced by another case of the same enumeration shard (hash set per shard; duplicates across shards of the pair neighbourhood are not removed). "+
		"Oracles: no panic (escaped or inside an accessor probe); process survives and ServeConn returns within %.0f CPU-seconds (balloon inputs: %.0f), a death/hang is confirmed by re-running the case alone in a fresh process; MemStats.TotalAlloc delta <= %d + %d*len(request) (re-measured on a fresh app before reporting); reply parses under the strict parser, response count bounded by the header blocks sent (exactly 1 for body-less well-formed requests); "+
		"F3: header names subset of the helper's expected set, each once, expected status and body (helpers marked name-like are not judged for q containing CR/LF/NUL: outside the documented domain of a token position); "+
		"status: definitely malformed requests (empty method, non-numeric/negative/conflicting Content-Length, header line without colon, NUL in a header value) -> 4xx; well-formed request with method outside the configured set -> 501, inside -> not 501; never 5xx other than 501/505; everything else unspecified.",
		len(cfgs), cfgNames, len(allLines()), len(targetsL), len(slots), nLetters,
		map[bool]string{true: " (quick tier: the 2-letter sets are left out for the request lines refused at the request line itself - empty method or version JUNK)",
			false: fmt.Sprintf(" plus every set of 3 letters for the %d request lines that reach a handler", len(handlerLines()))}[quick],
		len(seeds), len(editBytes), pairSeedCount(quick), map[bool]string{true: " (quick tier: pairs on the configs default and customctx only)", false: ""}[quick], f4Rule(quick), f5Rule(), f6Rule(), f7Rule(), f8Rule()+f9Rule(), len(helpers), len(attackStrings()), len(balloonCases(quick)), cpuCapSeconds, cpuCapBalloonSeconds, budgetA, budgetB)
	ev := core.Evidence{
		Level:       "exploration",
		Exhaustive:  true,
		MinOutcomes: 10,
		Coverage: map[string]any{
			"evaluations":         r.P.Counters["evaluations"],
			"distinct_nontrivial": r.P.Counters["nontrivial"],
			"rule":                rule,
			"bounds": map[string]any{"max_header_letters": maxHdr, "request_lines": len(allLines()), "header_slots": len(slots), "header_letters": nLetters,
				"seeds": len(seeds), "pair_seeds": pairSeedCount(quick), "edit_bytes": len(editBytes), "helpers": helperNames, "attack_strings": len(attackStrings()),
				"balloon_inputs": len(balloonCases(quick)), "f5_parsers": len(parsers5), "f5_units": len(units5()), "f5_configs": len(cfgsAll), "f6_programs": len(programs), "f7_tab_separators_per_parser": "2-3", "f8_configs": len(cfgsCombo), "f8_request_lines": len(servedLines()), "f4_shapes": len(shapes), "f4_shape_sets": len(f4ShapeSets(quick)), "f4_routing_configs": len(cfg4s(quick)), "f4_targets": len(targets4), "f4_methods": methods4(quick), "configs": cfgNames, "cpu_cap_seconds": cpuCapSeconds, "cpu_cap_seconds_balloon": cpuCapBalloonSeconds, "workers": n},
			"alloc_budget": map[string]any{"A_bytes": budgetA, "B_bytes_per_request_byte": budgetB,
				"max_fraction_used_by_cases_within_budget": maxFrac, "that_case_alloc_bytes": maxAlloc, "that_case_request_bytes": maxLen, "that_case": json.RawMessage(orNull(maxDesc))},
			"unspecified_skipped": r.P.Counters["unspecified_skipped"],
			"samples":             samples,
		},
		Assumptions: []string{
			"the connection is an in-memory net.Conn that delivers all request bytes at once and then EOF; partial reads / slow clients / timeouts are not explored",
			"inputs outside the three alphabets / edit distance 2 / 3-symbol strings are not claimed (bounded exhaustive, not coverage guided)",
			"allocation is an order-of-magnitude oracle with fixed constants; CPU cap is the only time-based oracle and is confirmed by a re-run in a fresh process",
			"request-level status expectations are asserted only on definite classes; lenient acceptance of dubious syntax by fasthttp is unspecified",
		},
	}
	r.Finish(ev)
}
