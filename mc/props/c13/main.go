// C13 — rate limiter never admits more than its algorithm allows, under any interleaving.
// Harness A: all timed histories up to a depth (sequential, virtual clock).
// Harness B: all interleavings of concurrent requests under the cooperative scheduler.
package main

import (
	"fmt"
	"github.com/gofiber/fiber/v3/verifrt"
	"os"
	"sort"
	"strings"

	"verifmc/core"
)

func alphabet(full bool) []hop {
	ops := []hop{
		{Kind: "req", Key: "a", Status: 200}, {Kind: "req", Key: "a", Status: 500}, {Kind: "req", Key: "b", Status: 200},
		{Kind: "req", Key: "b", Status: 500}, {Kind: "req", Key: "a", Status: 500, Slow: W}, {Kind: "req", Key: "b", Status: 200, Slow: W},
	}
	return append(ops, ticks(full)...)
}

func ticks(full bool) []hop {
	ts := []int{1, W - 1, W, W + 1}
	if full {
		ts = []int{1, W / 2, W - 1, W, W + 1, 2*W + 1}
	}
	var out []hop
	for _, t := range ts {
		out = append(out, hop{Kind: "tick", Tick: t})
	}
	return out
}

func configs() []hcfg {
	var out []hcfg
	for _, a := range []string{"fixed", "sliding"} {
		for _, s := range []string{"memory", "injected"} {
			for _, k := range []string{"none", "failed", "successful"} {
				for _, l := range []string{"static2", "func-a1-b3", "func0"} {
					out = append(out, hcfg{Algo: a, Storage: s, Skip: k, Limit: l})
				}
			}
		}
	}
	return out
}

// family is one enumerated set of histories: every sequence of exactly Depth letters of Alpha
// (the last Own letters are the family's own: a history must use at least one of them) under
// every configuration of Cfgs; with Overlap every such history is run once per choice of one
// request and a number k >= 1 of following operations that happen while its handler runs.
type family struct {
	Name    string
	Depth   int
	Alpha   []hop
	Own     int
	Cfgs    []hcfg
	Overlap bool
	Resolve bool // letters with repetitions / window-relative ticks: expanded per configuration
}

func families(quick bool) []family {
	// one step less than the base family (quick 4, thorough 5); always the short tick set
	const full = false
	d := 4
	if !quick {
		d = 5
	}
	base := alphabet(full)
	withCfg := func(f func(*hcfg)) []hcfg {
		out := configs()
		for i := range out {
			f(&out[i])
		}
		return out
	}
	// handler behaviours and requests exempted by Config.Next, on top of the base letters
	own := []hop{
		{Kind: "req", Key: "a", Status: 500, How: "err"}, {Kind: "req", Key: "b", Status: 500, How: "err"},
		{Kind: "req", Key: "a", Status: 500, How: "plainerr"},
		{Kind: "req", Key: "a", Status: 200, Bypass: true}, {Kind: "req", Key: "b", Status: 500, Bypass: true},
	}
	// the limit travels with the request: one key asks for different limits
	reqlimit := []hop{
		{Kind: "req", Key: "a", Status: 200, Max: 1}, {Kind: "req", Key: "a", Status: 200, Max: 3},
		{Kind: "req", Key: "a", Status: 500, Max: 1}, {Kind: "req", Key: "a", Status: 500, Max: 3},
		{Kind: "req", Key: "b", Status: 200, Max: 2},
	}
	var rl []hcfg
	for _, c := range configs() {
		if c.Limit == "static2" {
			c.Limit = "func-req"
			rl = append(rl, c)
		}
	}
	// configuration fields left at their zero value (documented defaults: Max 5, Expiration 1 minute, key = c.IP())
	// and another window length; five requests in a row as one letter so that the default limit is reached
	dl := []hop{
		{Kind: "req", Key: "a", Status: 200}, {Kind: "req", Key: "a", Status: 200, Times: 4},
		{Kind: "req", Key: "b", Status: 200}, {Kind: "req", Key: "b", Status: 200, Times: 5},
		{Kind: "tick", Tick: 1}, {Kind: "tick", AtW: true, Off: -1}, {Kind: "tick", AtW: true, Off: 0}, {Kind: "tick", AtW: true, Off: 1},
	}
	var dcfg []hcfg
	for _, a := range []string{"fixed", "sliding"} {
		for _, st := range []string{"memory", "injected"} {
			for _, df := range []string{"all", "max", "exp", "keygen", "exp3"} {
				c := hcfg{Algo: a, Storage: st, Skip: "none", Limit: "static2", Dflt: df}
				if df == "all" || df == "max" {
					c.Limit = "default5"
				}
				dcfg = append(dcfg, c)
			}
		}
	}
	// storage flavour: an external storage that keeps the value slice it is given (and hands it out again uncopied),
	// under histories that interleave two keys within one window: one key exhausts its budget (three requests in a
	// row as one letter, passed through or failed so that every skip option has counted ones), the other arrives,
	// the first again - and the reverse; ticks inside the window and to its end. Both algorithms, all skip options.
	kl := []hop{
		{Kind: "req", Key: "a", Status: 200}, {Kind: "req", Key: "a", Status: 500}, {Kind: "req", Key: "a", Status: 200, Times: 3},
		{Kind: "req", Key: "b", Status: 200}, {Kind: "req", Key: "b", Status: 500}, {Kind: "req", Key: "b", Status: 500, Times: 3},
		{Kind: "tick", Tick: 1}, {Kind: "tick", AtW: true, Off: 0},
	}
	var kcfg []hcfg
	for _, c := range configs() {
		if c.Storage == "injected" && c.Limit != "func0" {
			c.Storage = "keeping"
			kcfg = append(kcfg, c)
		}
	}
	return []family{
		{Name: "value-keeping-storage+interleaved-keys", Depth: d + 1, Alpha: kl, Cfgs: kcfg, Resolve: true},
		{Name: "unset-config-fields+window3", Depth: d + 1, Alpha: dl, Cfgs: dcfg, Resolve: true},
		{Name: "handler-kinds+bypass", Depth: d, Alpha: append(append([]hop{}, base...), own...), Own: len(own), Cfgs: withCfg(func(c *hcfg) { c.Next = true })},
		{Name: "per-request-limit", Depth: d + 1, Alpha: append(reqlimit, ticks(full)...), Cfgs: rl},
		{Name: "overlap", Depth: d, Alpha: base, Cfgs: configs(), Overlap: true},
		{Name: "uncopied-key-reused-ctx", Depth: d, Alpha: base, Cfgs: withCfg(func(c *hcfg) { c.Key = "raw" })},
	}
}

func main() {
	verifrt.NoDaemonsOutsideRun = true // the built-in store's janitor only runs inside executions (harness B)
	r := core.Start("C13")
	depth := 5
	alpha := alphabet(false)
	if !r.Quick() {
		depth = 6
		alpha = alphabet(true)
	}
	cfgs := configs()
	if dbg := os.Getenv("C13_DEBUG"); dbg != "" {
		// C13_DEBUG=algo,storage,skip,limit[,family] : enumerate that configuration alone (base family, or the named
		// family restricted to the matching configurations) and print the shortest case per violation class
		f := strings.Split(dbg, ",")
		l := core.NewLocal()
		var ctxs ctxPair
		fam := family{Name: "base", Depth: depth, Alpha: alpha, Cfgs: []hcfg{{Algo: f[0], Storage: f[1], Skip: f[2], Limit: f[3]}}}
		if len(f) > 4 {
			for _, x := range families(r.Quick()) {
				if x.Name == f[4] {
					fam = x
					fam.Cfgs = nil
					for _, c := range x.Cfgs {
						if c.Algo == f[0] && c.Storage == f[1] && c.Skip == f[2] && (c.Limit == f[3] || f[3] == "*") {
							fam.Cfgs = append(fam.Cfgs, c)
						}
					}
				}
			}
		}
		idx := 0
		for d := 1; d <= fam.Depth; d++ {
			fd := fam
			fd.Depth = d
			enumerateFamily(nil, fd, l, &ctxs, &idx)
		}
		seen := map[string]bool{}
		var keys []string
		for k := range l.P.Violations {
			keys = append(keys, k)
		}
		sort.Slice(keys, func(i, j int) bool {
			if len(keys[i]) != len(keys[j]) {
				return len(keys[i]) < len(keys[j])
			}
			return keys[i] < keys[j]
		})
		for _, k := range keys {
			cls := strings.SplitN(k, " ", 2)[0]
			if seen[cls] {
				continue
			}
			seen[cls] = true
			fmt.Println(k, "\n   ", core.Key(l.P.Violations[k].Case), "\n    observed", core.Key(l.P.Violations[k].Observed), "expected", core.Key(l.P.Violations[k].Expected))
		}
		fmt.Println("histories", l.P.Counters["histories"], "violation signatures", len(keys), "downstream_status_differs", l.P.Counters["downstream_status_differs"])
		return
	}
	runSchedules(r, depth, alpha, cfgs)
}

// enumerate all histories of every family whose running index is owned by this worker
func enumerateHistories(r *core.Run, depth int, alpha []hop, cfgs []hcfg) {
	l := core.NewLocal()
	var ctxs ctxPair
	idx := 0
	only := os.Getenv("C13_FAMILY") // diagnostic: run one family alone
	fams := append([]family{{Name: "base", Depth: depth, Alpha: alpha, Cfgs: cfgs}}, families(r.Quick())...)
	for _, f := range fams {
		if only != "" && only != f.Name {
			continue
		}
		if !enumerateFamily(r, f, l, &ctxs, &idx) {
			break
		}
	}
	r.Merge(l.P)
}

func enumerateFamily(r *core.Run, f family, l *core.Local, ctxs *ctxPair, idx *int) bool {
	n := len(f.Alpha)
	depth := f.Depth
	total := 1
	for i := 0; i < depth; i++ {
		total *= n
	}
	ops := make([]hop, depth)
	run := make([]hop, depth)
	for ci, c := range f.Cfgs {
		for h := 0; h < total; h++ {
			*idx++
			if r != nil && !r.Shard(*idx) {
				continue
			}
			x := h
			useful, own := false, f.Own == 0
			for i := 0; i < depth; i++ {
				ops[i] = f.Alpha[x%n]
				if x%n >= n-f.Own {
					own = true
				}
				x /= n
				if ops[i].Kind == "req" {
					useful = true
				}
			}
			if !useful || !own {
				continue
			}
			// a trailing tick adds nothing: such histories are prefixes of others
			if ops[depth-1].Kind == "tick" {
				continue
			}
			before := l.P.Counters["histories"]
			if f.Resolve {
				runHistory(c, resolve(c, ops), l, ctxs)
			} else if !f.Overlap {
				runHistory(c, ops, l, ctxs)
			} else {
				for i := 0; i < depth-1; i++ {
					if ops[i].Kind != "req" {
						continue
					}
					for k := 1; i+k < depth; k++ {
						copy(run, ops)
						run[i].Defer = k
						runHistory(c, run, l, ctxs)
					}
				}
			}
			l.Add("histories:"+f.Name, l.P.Counters["histories"]-before)
		}
		if r != nil && r.Expired() {
			r.Cap(fmt.Sprintf("wall-clock budget reached in harness A family %s at config %d/%d", f.Name, ci, len(f.Cfgs)))
			return false
		}
	}
	return true
}
