// C13 — rate limiter never admits more than its algorithm allows, under any interleaving.
// Harness A: all timed histories up to a depth (sequential, virtual clock).
// Harness B: all interleavings of concurrent requests under the cooperative scheduler.
package main

import (
	"fmt"
	"os"
	"sort"
	"strings"

	"github.com/valyala/fasthttp"

	"verifmc/core"
)

func alphabet(full bool) []hop {
	ops := []hop{
		{Kind: "req", Key: "a", Status: 200}, {Kind: "req", Key: "a", Status: 500}, {Kind: "req", Key: "b", Status: 200},
		{Kind: "req", Key: "b", Status: 500}, {Kind: "req", Key: "a", Status: 500, Slow: W}, {Kind: "req", Key: "b", Status: 200, Slow: W},
	}
	ticks := []int{1, W - 1, W, W + 1}
	if full {
		ticks = []int{1, W / 2, W - 1, W, W + 1, 2*W + 1}
	}
	for _, t := range ticks {
		ops = append(ops, hop{Kind: "tick", Tick: t})
	}
	return ops
}

func configs() []hcfg {
	var out []hcfg
	for _, a := range []string{"fixed", "sliding"} {
		for _, s := range []string{"memory", "injected"} {
			for _, k := range []string{"none", "failed", "successful"} {
				for _, l := range []string{"static2", "func-a1-b3", "func0"} {
					out = append(out, hcfg{a, s, k, l})
				}
			}
		}
	}
	return out
}

func main() {
	r := core.Start("C13")
	depth := 5
	alpha := alphabet(false)
	if !r.Quick() {
		depth = 6
		alpha = alphabet(true)
	}
	cfgs := configs()
	if dbg := os.Getenv("C13_DEBUG"); dbg != "" {
		// C13_DEBUG=algo,storage,skip,limit : enumerate that configuration alone and print the shortest case per violation class
		f := strings.Split(dbg, ",")
		l := core.NewLocal()
		var fctx fasthttp.RequestCtx
		cc := hcfg{f[0], f[1], f[2], f[3]}
		for d := 1; d <= depth; d++ {
			ops := make([]hop, d)
			total := 1
			for i := 0; i < d; i++ {
				total *= len(alpha)
			}
			for h := 0; h < total; h++ {
				x := h
				for i := 0; i < d; i++ {
					ops[i] = alpha[x%len(alpha)]
					x /= len(alpha)
				}
				runHistory(cc, ops, l, &fctx)
			}
		}
		seen := map[string]bool{}
		var keys []string
		for k := range l.P.Violations {
			keys = append(keys, k)
		}
		sort.Slice(keys, func(i, j int) bool { return len(keys[i]) < len(keys[j]) })
		for _, k := range keys {
			cls := strings.SplitN(k, " ", 2)[0]
			if seen[cls] {
				continue
			}
			seen[cls] = true
			fmt.Println(k, "\n   ", core.Key(l.P.Violations[k].Case), "\n    observed", core.Key(l.P.Violations[k].Observed), "expected", core.Key(l.P.Violations[k].Expected))
		}
		return
	}
	runSchedules(r, depth, alpha, cfgs)
}

// enumerate all histories of exactly `depth` ops whose index (in base-|alpha|) is owned by this worker
func enumerateHistories(r *core.Run, depth int, alpha []hop, cfgs []hcfg) {
	l := core.NewLocal()
	var fctx fasthttp.RequestCtx
	n := len(alpha)
	total := 1
	for i := 0; i < depth; i++ {
		total *= n
	}
	ops := make([]hop, depth)
	idx := 0
	for ci, c := range cfgs {
		for h := 0; h < total; h++ {
			idx++
			if !r.Shard(idx) {
				continue
			}
			x := h
			useful := false
			for i := 0; i < depth; i++ {
				ops[i] = alpha[x%n]
				x /= n
				if ops[i].Kind == "req" {
					useful = true
				}
			}
			if !useful {
				continue
			}
			// a trailing tick adds nothing: such histories are prefixes of others
			if ops[depth-1].Kind == "tick" {
				continue
			}
			runHistory(c, ops, l, &fctx)
		}
		if r.Expired() {
			r.Cap(fmt.Sprintf("wall-clock budget reached in harness A at config %d/%d", ci, len(cfgs)))
			break
		}
	}
	r.Merge(l.P)
}
