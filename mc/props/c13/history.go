package main

// Harness A: all timed request histories up to a depth, sequentially, against a two-sided
// reference model (must-admit / must-reject / unspecified).
//
// A history is a list of operations (requests, clock ticks). Besides the plain base family the
// enumerator (main.go) runs families that vary one more dimension each:
//   - handler behaviours: the protected handler answers by returning an error (the status is only
//     written by the application's error handler after the middleware chain unwound),
//   - requests that Config.Next lets bypass the limiter,
//   - a limit that MaxFunc takes from the individual request (same key, different limits),
//   - overlapping requests: the following k operations (ticks and whole requests) happen while the
//     handler of one request is still running, so that its completion (the post-hoc give-back of a
//     skipped request) meets a window that other requests have rolled meanwhile,
//   - a KeyGenerator that returns the header value as fiber hands it out (not copied) while all
//     requests of the history arrive on one reused fasthttp.RequestCtx,
//   - storage flavours: the injected storage copies the value it is given / keeps the slice handed
//     to Set and returns it from Get uncopied (what the map based storages of the ecosystem do,
//     internal/storage/memory among them), under histories that interleave two keys in one window.

import (
	"errors"
	"fmt"
	"net"
	"strconv"
	"strings"
	"time"

	"github.com/gofiber/fiber/v3"
	"github.com/gofiber/fiber/v3/middleware/limiter"
	"github.com/gofiber/utils/v2"
	"github.com/valyala/fasthttp"

	"verifmc/core"
	"verifmc/fx"
)

const W = 10 // window length in seconds
const T0 = 1_900_000_000

type hop struct {
	Kind   string // "req" | "tick"
	Key    string
	Status int // status the client finally sees when the request reaches the handler
	Slow   int // seconds the downstream handler takes (virtual)
	Tick   int
	How    string // "" = c.SendStatus(Status) | "err" = return fiber.NewError(Status) | "plainerr" = return errors.New(..) (error handler answers 500)
	Bypass bool   // Config.Next returns true for this request
	Max    int    // limit MaxFunc returns for THIS request (Limit=func-req)
	Defer  int    // the following Defer operations happen while this request's handler is running
	Times  int    // >1: the request is sent that many times in a row (expanded by resolve)
	AtW    bool   // tick: the length is the configuration's window length + Off (resolved by resolve)
	Off    int
}

func (o hop) String() string {
	if o.Kind == "tick" {
		if o.AtW {
			return fmt.Sprintf("tick+W%+d", o.Off)
		}
		return fmt.Sprintf("tick+%d", o.Tick)
	}
	s := fmt.Sprintf("%s/%d", o.Key, o.Status)
	if o.Times > 1 {
		s += fmt.Sprintf("x%d", o.Times)
	}
	if o.Slow > 0 {
		s += fmt.Sprintf("/slow%d", o.Slow)
	}
	if o.How != "" {
		s += "/" + o.How
	}
	if o.Bypass {
		s += "/bypass"
	}
	if o.Max > 0 {
		s += fmt.Sprintf("@%d", o.Max)
	}
	if o.Defer > 0 {
		s += fmt.Sprintf("[during-handler:next%d]", o.Defer)
	}
	return s
}

type hcfg struct {
	Algo    string // fixed | sliding
	Storage string // memory | injected (copies the values) | keeping (keeps the value slice given to Set, Get returns it uncopied)
	Skip    string // none | failed | successful
	Limit   string // static2 | func-a1-b3 | func0 | func-req
	Key     string `json:",omitempty"` // "" = KeyGenerator copies the header value | raw = returns it as fiber hands it out
	Next    bool   `json:",omitempty"` // Config.Next set (true for requests marked bypass)
	// Dflt names the Config fields left at their zero value: max (Max, MaxFunc -> documented 5), exp (Expiration ->
	// documented 1 minute), keygen (KeyGenerator -> c.IP(), the keys are peer addresses), all (everything; limiter.New()
	// without argument where nothing else is configured); exp3 = Expiration 3 s spelled out. Explicit: the same values spelled out.
	Dflt     string `json:",omitempty"`
	Explicit bool   `json:",omitempty"`
}

func (c hcfg) defaulted(field string) bool {
	return !c.Explicit && (c.Dflt == "all" || c.Dflt == field)
}

// window is the window length in seconds the documentation promises for the configuration.
func (c hcfg) window() int {
	switch c.Dflt {
	case "all", "exp":
		return 60
	case "exp3":
		return 3
	}
	return W
}

// resolve expands repeated requests and window-relative ticks of a history for configuration c.
func resolve(c hcfg, ops []hop) []hop {
	var out []hop
	for _, o := range ops {
		if o.Kind == "tick" && o.AtW {
			o.Tick, o.AtW = c.window()+o.Off, false
		}
		n := 1
		if o.Kind == "req" && o.Times > 1 {
			n, o.Times = o.Times, 0
		}
		for ; n > 0; n-- {
			out = append(out, o)
		}
	}
	return out
}

func (c hcfg) tag() string {
	t := fmt.Sprintf("algo=%s storage=%s skip=%s limit=%s", c.Algo, c.Storage, c.Skip, c.Limit)
	if c.Key != "" {
		t += " keygen=" + c.Key
	}
	if c.Dflt != "" {
		t += " config=" + c.Dflt
		if c.Explicit {
			t += "-spelled-out"
		}
	}
	return t
}

// ttlStorage is an injected fiber.Storage with TTLs on the harness clock. Like the map based
// storages of the ecosystem it keeps the key string it is given; entries are searched by key
// bytes in insertion order, so that its behaviour does not depend on a map hash seed even when a
// caller hands it a key whose bytes change later.
//
// Two flavours: by default it copies the value on Set and on Get (a storage that serialises onto a
// wire); with keep it stores the very slice it is handed and returns it from Get without copying,
// and ignores empty keys/values - the behaviour of gofiber/storage/memory and of its in-repo copy
// internal/storage/memory. fiber.Storage does not oblige an implementation to copy.
type ttlStorage struct {
	ents []ttlEntry
	keep bool
}
type ttlEntry struct {
	key string
	val []byte
	exp uint32
}

func (s *ttlStorage) find(key string) int {
	for i := range s.ents {
		if s.ents[i].key == key {
			return i
		}
	}
	return -1
}

func (s *ttlStorage) Get(key string) ([]byte, error) {
	i := s.find(key)
	if i < 0 || (s.ents[i].exp != 0 && s.ents[i].exp <= utils.Timestamp()) {
		return nil, nil
	}
	if s.keep {
		return s.ents[i].val, nil
	}
	return append([]byte(nil), s.ents[i].val...), nil
}
func (s *ttlStorage) Set(key string, val []byte, ttl time.Duration) error {
	var exp uint32
	if ttl > 0 {
		exp = uint32(ttl.Seconds()) + utils.Timestamp()
	}
	if s.keep && (len(key) == 0 || len(val) == 0) {
		return nil
	}
	e := ttlEntry{key, val, exp}
	if !s.keep {
		e.val = append([]byte(nil), val...)
	}
	if i := s.find(key); i >= 0 {
		s.ents[i] = e
	} else {
		s.ents = append(s.ents, e)
	}
	return nil
}
func (s *ttlStorage) Delete(key string) error {
	if i := s.find(key); i >= 0 {
		s.ents = append(s.ents[:i], s.ents[i+1:]...)
	}
	return nil
}
func (s *ttlStorage) Reset() error { s.ents = nil; return nil }
func (s *ttlStorage) Close() error { return nil }

// window model, kept twice: "all" counts every arrival (pessimistic budget), "adm" counts
// only requests that reached the handler and were not skipped (optimistic budget).
type wstate struct {
	prev, curr int
	exp        int // end of current window (absolute seconds), 0 = none
}

type model struct {
	algo     string
	w        int // window length in seconds
	all, adm map[string]*wstate
}

func (m *model) roll(ws *wstate, ts int) {
	if m.algo == "fixed" {
		if ws.exp == 0 || ts >= ws.exp {
			ws.curr, ws.prev = 0, 0
			ws.exp = ts + m.w
		}
		return
	}
	switch {
	case ws.exp == 0 || ts >= ws.exp+m.w:
		ws.prev, ws.curr, ws.exp = 0, 0, ts+m.w
	case ts >= ws.exp:
		ws.prev, ws.curr = ws.curr, 0
		ws.exp += m.w
	}
}

func (m *model) rate(ws *wstate, ts int) int {
	if m.algo == "fixed" {
		return ws.curr
	}
	weight := float64(ws.exp-ts) / float64(m.w)
	return int(float64(ws.prev)*weight) + ws.curr
}

// uncount removes one hit from the window the request was counted in, identified by that
// window's end. While the request was in flight other arrivals may have rolled the window: the
// hit then sits in the previous window (sliding) or is gone with its window.
func (m *model) uncount(ws *wstate, admExp int) {
	switch {
	case ws.exp == admExp:
		ws.curr--
	case m.algo == "sliding" && ws.exp == admExp+m.w:
		ws.prev--
	}
}

func get(mm map[string]*wstate, k string) *wstate {
	if mm[k] == nil {
		mm[k] = &wstate{}
	}
	return mm[k]
}

type stepObs struct {
	Op        string
	Status    int
	Ran       bool
	Retry     string
	Limit     string
	Remaining string
}

func limitFor(l string, op hop) int {
	switch l {
	case "default5":
		return 5
	case "static2":
		return 2
	case "func0":
		return 0
	case "func-req":
		return op.Max
	}
	if op.Key == "a" {
		return 1
	}
	return 3
}

var peers = map[string]net.Addr{"a": fx.TCP("10.0.0.1", 40001), "b": fx.TCP("10.0.0.2", 40002)}

// ctxPair holds the reused fasthttp contexts of a worker: a for requests of the history proper,
// b for requests that arrive while another one is in flight. nil = a fresh context per request.
type ctxPair struct{ a, b fasthttp.RequestCtx }

type pendingViol struct {
	class, shape, what string
	step               int
	cs, o, x           any
}

type hrun struct {
	c       hcfg
	cfg     limiter.Config
	ops     []hop
	l       *core.Local
	ctxs    *ctxPair
	handler fasthttp.RequestHandler
	m       *model
	trace   []stepObs
	now     int
	ran     []bool
	inner   func()
	hi      int // operations started so far
	w       int // window length of the configuration
	tag     string
	viols   []pendingViol
	collect bool
}

func (r *hrun) setClock() { utils.VerifSetTimestamp(uint32(r.now)) }

// violate reports a violation of class `class` at operation `step`; shape ("" = none) is the
// history-shape qualifier of the signature.
func (r *hrun) violate(class, shape string, step int, what string, cs, o, x any) {
	if r.collect {
		r.viols = append(r.viols, pendingViol{class, shape, what, step, cs, o, x})
		return
	}
	r.l.Violate(sigOf(class, r.tag, shape), what, cs, o, x)
}

func sigOf(class, tag, shape string) string {
	s := class + " " + tag
	if shape != "" {
		s += " " + shape
	}
	return s
}

func seqOf(c fiber.Ctx) int {
	i, _ := strconv.Atoi(c.Get("X-Seq"))
	return i
}

// runHistory runs one history on a fresh app. A history that uses added dimensions and violates
// is run again with one dimension switched off at a time (handlers write their status themselves;
// exempted requests taken out; no overlap; one limit per key; fresh request contexts; a storage that copies), then with all of them off: a
// violation that vanishes gets ONE signature per class and configuration, `... only-with=<dimension>`
// without the history shape; a violation that stays keeps the ordinary signature.
func runHistory(c hcfg, ops []hop, l *core.Local, ctxs *ctxPair) {
	const (
		dErr = iota
		dNext
		dOverlap
		dLimit
		dCtx
		dDflt
		dKeep
		nDims
	)
	names := [nDims]string{"handler-returns-error", "next-exempted-request", "overlapping-requests", "limit-differs-between-requests-of-a-key", "reused-ctx", "config-fields-left-unset", "storage-keeps-value-slice"}
	var has [nDims]bool
	firstMax := map[string]int{}
	for _, o := range ops {
		if o.Kind == "req" && c.Limit == "func-req" {
			if m, ok := firstMax[o.Key]; !ok {
				firstMax[o.Key] = o.Max
			} else if m != o.Max {
				has[dLimit] = true
			}
		}
		has[dErr] = has[dErr] || o.How != ""
		has[dNext] = has[dNext] || (o.Bypass && c.Next)
		has[dOverlap] = has[dOverlap] || o.Defer > 0
	}
	has[dCtx] = c.Key == "raw" && ctxs != nil
	has[dDflt] = c.Dflt != "" && c.Dflt != "exp3" && !c.Explicit
	has[dKeep] = c.Storage == "keeping"
	extra := false
	for _, h := range has {
		extra = extra || h
	}
	if !extra {
		runHistoryOn(c, ops, l, ctxs, false, true)
		return
	}
	r := runHistoryOn(c, ops, l, ctxs, true, true)
	if len(r.viols) == 0 {
		return
	}
	// classes still violated when the dimensions in `off` are switched off
	without := func(off [nDims]bool) map[string]bool {
		var v []hop
		for _, o := range ops {
			if off[dErr] {
				o.How = ""
			}
			if off[dOverlap] {
				o.Defer = 0
			}
			if off[dLimit] && o.Kind == "req" {
				o.Max = firstMax[o.Key] // every request of a key asks for the limit of the key's first request
			}
			if off[dNext] && o.Bypass && c.Next {
				continue // exempted requests must not influence anybody
			}
			v = append(v, o)
		}
		if off[dNext] {
			// an overlap must not reach beyond the shortened history
			for i := range v {
				if i+v[i].Defer >= len(v) {
					v[i].Defer = len(v) - 1 - i
				}
			}
		}
		vc := ctxs
		if off[dCtx] {
			vc = nil
		}
		cc := c
		if off[dDflt] {
			cc.Explicit = true // the documented defaults spelled out
		}
		if off[dKeep] {
			cc.Storage = "injected" // the same storage, copying the values
		}
		out := map[string]bool{}
		for _, x := range runHistoryOn(cc, v, l, vc, true, false).viols {
			out[x.class] = true
		}
		return out
	}
	label := map[string]string{}
	n := 0
	for d := 0; d < nDims; d++ {
		if !has[d] {
			continue
		}
		n++
		var off [nDims]bool
		off[d] = true
		stays := without(off)
		for _, v := range r.viols {
			if !stays[v.class] && label[v.class] == "" {
				label[v.class] = names[d]
			}
		}
	}
	if n > 1 {
		stays := without(has)
		var all []string
		for d := 0; d < nDims; d++ {
			if has[d] {
				all = append(all, names[d])
			}
		}
		for _, v := range r.viols {
			if !stays[v.class] && label[v.class] == "" {
				label[v.class] = strings.Join(all, "+")
			}
		}
	}
	for _, v := range r.viols {
		if lb := label[v.class]; lb != "" {
			// the limit option does not matter for a defect bound to the dimension: not part of the signature
			tag := fmt.Sprintf("algo=%s storage=%s skip=%s", c.Algo, c.Storage, c.Skip)
			if c.Key != "" {
				tag += " keygen=" + c.Key
			}
			if c.Dflt != "" {
				tag += " config=" + c.Dflt
			}
			l.Violate(sigOf(v.class, tag, "only-with="+lb), v.what, v.cs, v.o, v.x)
		} else {
			l.Violate(sigOf(v.class, r.tag, v.shape), v.what, v.cs, v.o, v.x)
		}
	}
}

func runHistoryOn(c hcfg, ops []hop, l *core.Local, ctxs *ctxPair, collect, record bool) *hrun {
	r := &hrun{c: c, ops: ops, l: l, ctxs: ctxs, now: T0, ran: make([]bool, len(ops)), tag: c.tag(), collect: collect}
	if !record {
		r.l = core.NewLocal() // counters and outcomes of the classification re-run are dropped
	}
	r.setClock()
	r.w = c.window()
	var cfg limiter.Config
	if !c.defaulted("exp") {
		cfg.Expiration = time.Duration(r.w) * time.Second
	}
	switch {
	case c.defaulted("keygen"):
		// c.IP(): the requests of key a / b come from two peers
	case c.Dflt == "all" || c.Dflt == "keygen":
		cfg.KeyGenerator = func(c fiber.Ctx) string { return c.IP() }
	case c.Key == "raw":
		// the spelling of the middleware's documentation: the value is only valid during the request
		cfg.KeyGenerator = func(c fiber.Ctx) string { return c.Get("X-Key") }
	default:
		cfg.KeyGenerator = func(c fiber.Ctx) string { return utils.CopyString(c.Get("X-Key")) }
	}
	switch c.Limit {
	case "static2":
		cfg.Max = 2
	case "default5":
		if !c.defaulted("max") {
			cfg.Max = 5
		}
	default:
		cfg.Max = 5 // deliberately different from what MaxFunc returns
		lim := c.Limit
		cfg.MaxFunc = func(c fiber.Ctx) int { return limitFor(lim, r.ops[seqOf(c)]) }
	}
	if c.Algo == "sliding" {
		cfg.LimiterMiddleware = limiter.SlidingWindow{}
	}
	switch c.Storage {
	case "injected":
		cfg.Storage = &ttlStorage{}
	case "keeping":
		cfg.Storage = &ttlStorage{keep: true}
	}
	if c.Next {
		cfg.Next = func(c fiber.Ctx) bool { return r.ops[seqOf(c)].Bypass }
	}
	cfg.SkipFailedRequests = c.Skip == "failed"
	cfg.SkipSuccessfulRequests = c.Skip == "successful"
	r.cfg = cfg
	app := fiber.New()
	if c.defaulted("all") && c.Algo == "fixed" && c.Storage == "memory" && c.Skip == "none" && !c.Next {
		app.Use(limiter.New()) // nothing configured at all
	} else {
		app.Use(limiter.New(cfg))
	}
	app.Get("/", func(c fiber.Ctx) error {
		i := seqOf(c)
		op := r.ops[i]
		r.ran[i] = true
		if op.Slow > 0 {
			r.now += op.Slow
			r.setClock()
		}
		if f := r.inner; f != nil {
			// the following operations happen while this handler is running
			r.inner = nil
			f()
		}
		switch op.How {
		case "err":
			return fiber.NewError(op.Status, "failed")
		case "plainerr":
			return errors.New("failed")
		}
		return c.SendStatus(op.Status)
	})
	r.handler = app.Handler()
	r.m = &model{algo: c.Algo, w: r.w, all: map[string]*wstate{}, adm: map[string]*wstate{}}
	for i := 0; i < len(ops); {
		i = r.step(i, 0)
	}
	r.l.Add("histories", 1)
	if len(ops) > 0 {
		r.l.Sample(fmt.Sprint(c, ops))
	}
	return r
}

// callRecovering serves one request and returns the panic text, if any.
func callRecovering(h *fasthttp.RequestCtx, handler fasthttp.RequestHandler, req *fasthttp.Request, peer net.Addr) (panicked string) {
	defer func() {
		if p := recover(); p != nil {
			panicked = fmt.Sprint(p)
			if len(panicked) > 120 {
				panicked = panicked[:120]
			}
		}
	}()
	fx.CallInto(h, handler, req, peer, false)
	return ""
}

func (r *hrun) ctxFor(level int) *fasthttp.RequestCtx {
	switch {
	case r.ctxs == nil:
		return &fasthttp.RequestCtx{}
	case level == 0:
		return &r.ctxs.a
	}
	return &r.ctxs.b
}

// step executes operation i (and, for a request with Defer>0, the following operations inside
// its handler) and returns the index of the next operation of the enclosing sequence.
func (r *hrun) step(i, level int) int {
	op := r.ops[i]
	if i+1 > r.hi {
		r.hi = i + 1
	}
	if op.Kind == "tick" {
		r.now += op.Tick
		r.setClock()
		r.trace = append(r.trace, stepObs{Op: op.String()})
		return i + 1
	}
	c, l, m := r.c, r.l, r.m
	next := i + 1 + op.Defer
	if next > len(r.ops) {
		next = len(r.ops)
	}
	L := limitFor(c.Limit, op)
	ts := r.now
	bypass := c.Next && op.Bypass
	limited := !bypass && L != 0
	willSkip := (r.cfg.SkipFailedRequests && op.Status >= 400) || (r.cfg.SkipSuccessfulRequests && op.Status < 400)
	var all, adm *wstate
	var mustAdmit, mustReject bool
	var wantRetry, admExp int
	if limited {
		// the arrival is booked before the call: operations inside the handler see it in flight
		all, adm = get(m.all, op.Key), get(m.adm, op.Key)
		m.roll(all, ts)
		m.roll(adm, ts)
		all.curr++
		adm.curr++
		mustAdmit = m.rate(all, ts) <= L
		mustReject = m.rate(adm, ts) > L
		wantRetry = all.exp - ts
		admExp = all.exp
		if willSkip {
			// optimistic budget: a hit that is going to be given back never counts against others;
			// the pessimistic budget keeps it until the request completes
			adm.curr--
		}
	}
	if next > i+1 {
		r.inner = func() {
			for j := i + 1; j < next; {
				j = r.step(j, level+1)
			}
		}
	}
	req := fx.Req("GET", "http://x.test/", "X-Key", op.Key, "X-Seq", strconv.Itoa(i))
	h := r.ctxFor(level)
	var peer net.Addr
	if c.Dflt == "all" || c.Dflt == "keygen" {
		peer = peers[op.Key]
	}
	panicked := callRecovering(h, r.handler, req, peer)
	ran := r.ran[i]
	o := stepObs{Op: op.String(), Status: h.Response.StatusCode(), Ran: ran,
		Retry: string(h.Response.Header.Peek("Retry-After")), Limit: string(h.Response.Header.Peek("X-RateLimit-Limit")),
		Remaining: string(h.Response.Header.Peek("X-RateLimit-Remaining"))}
	r.trace = append(r.trace, o)
	l.Add("transitions", 1)
	if ran && o.Status != op.Status {
		l.Add("downstream_status_differs", 1)
	}
	hi := r.hi
	if panicked != "" {
		var s []string
		for _, x := range r.ops[:hi] {
			s = append(s, x.String())
		}
		r.violate("request-panicked", "", i, "serving the request panicked (fasthttp does not recover: the process dies)",
			map[string]any{"config": c, "ops": s, "trace": append([]stepObs(nil), r.trace...)}, panicked, "the request is served")
		// nothing else is judged for this request; for the model it did not reach the handler
		if limited && !ran && !willSkip {
			adm.curr--
		}
		l.Outcome("request panicked")
		if f := r.inner; f != nil {
			r.inner = nil
			f()
		}
		return next
	}
	cs := func() any {
		var s []string
		for _, x := range r.ops[:hi] {
			s = append(s, x.String())
		}
		return map[string]any{"config": c, "ops": s, "trace": append([]stepObs(nil), r.trace...)}
	}
	switch {
	case bypass:
		if !ran {
			r.violate("bypassed-request-rejected", "", i, "Config.Next returned true for the request but it did not reach the handler", cs(), o, "handler runs")
		}
		l.Outcome("bypass ran=" + strconv.FormatBool(ran))
	case L == 0:
		// unlimited: must pass through untouched
		if !ran {
			r.violate("unlimited-rejected", "", i, "MaxFunc returned 0 (unlimited) but the request was rejected", cs(), o, nil)
		}
		l.Outcome("unlimited ran=" + strconv.FormatBool(ran))
	default:
		skipped := false
		if ran {
			skipped = willSkip
			if skipped {
				// un-count in the window it was admitted to (it may have rolled meanwhile)
				m.uncount(all, admExp)
			}
		} else if !willSkip {
			adm.curr-- // did not reach the handler: not an admitted hit (nothing happened meanwhile)
		}
		class := "admit"
		if !ran {
			class = "reject"
		}
		sh := shape(r.ops[:hi], r.w)
		switch {
		case mustAdmit && !ran:
			r.violate("rejected-with-budget", sh, i, "request rejected although even the pessimistic count (all arrivals) leaves budget", cs(), o, "handler runs")
		case mustReject && ran:
			r.violate("over-admitted", sh, i, "request reached the handler although the hits that reached the handler already exhaust the limit", cs(), o, "429")
		case !mustAdmit && !mustReject:
			l.Add("unspecified_skipped", 1)
			class += "(unspecified)"
		}
		if !ran {
			if o.Status != 429 {
				r.violate("reject-status", "", i, "rejected request without 429", cs(), o, 429)
			}
			want := strconv.Itoa(wantRetry)
			if o.Retry != want {
				r.violate("retry-after", "", i, "Retry-After differs from the time until the window resets", cs(), o, want)
			}
		} else if o.Limit != strconv.Itoa(L) {
			r.violate("limit-header", "", i, "X-RateLimit-Limit is not the limit MaxFunc returned for this request", cs(), o, L)
		}
		flight := ""
		if level > 0 {
			flight = " during-another-request"
		}
		l.Outcome(fmt.Sprintf("%s %s skip=%v%s", c.Algo, class, skipped, flight))
	}
	if f := r.inner; f != nil {
		// the request never reached its handler: the following operations simply come after it
		r.inner = nil
		if next > i+1 {
			f()
		}
	}
	return next
}

// shape summarises an op list for signatures: op kinds only, so that one root cause = one signature family.
func shape(ops []hop, w int) string {
	s := ""
	closeAt := -1
	for i, o := range ops {
		switch {
		case o.Kind == "tick" && o.Tick < w:
			s += "t"
		case o.Kind == "tick":
			s += "T"
		case o.Bypass:
			s += "n"
		case o.How != "":
			s += "e"
		case o.Slow > 0 && o.Status >= 400:
			s += "F"
		case o.Slow > 0:
			s += "S"
		case o.Status >= 400:
			s += "f"
		default:
			s += "r"
		}
		if o.Kind == "req" && o.Defer > 0 {
			s += "("
			closeAt = i + o.Defer
		}
		if i == closeAt {
			s += ")"
			closeAt = -1
		}
	}
	if closeAt >= 0 {
		s += ")"
	}
	// collapse runs so that families of histories with one root cause share a signature
	var out strings.Builder
	for i := 0; i < len(s); i++ {
		if i > 0 && s[i] == s[i-1] && s[i] != '(' && s[i] != ')' {
			continue
		}
		out.WriteByte(s[i])
	}
	return "shape=" + out.String()
}
