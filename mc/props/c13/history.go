package main

// Harness A: all timed request histories up to a depth, sequentially, against a two-sided
// reference model (must-admit / must-reject / unspecified).

import (
	"fmt"
	"strconv"
	"time"

	"github.com/gofiber/fiber/v3"
	"github.com/gofiber/fiber/v3/middleware/limiter"
	"github.com/gofiber/utils/v2"
	"github.com/valyala/fasthttp"

	"verifmc/core"
	"verifmc/fx"
)

const W = 10 // window length in seconds
const T0 = 1_900_000_000

type hop struct {
	Kind   string // "req" | "tick"
	Key    string
	Status int // downstream status
	Slow   int // seconds the downstream handler takes (virtual)
	Tick   int
}

func (o hop) String() string {
	if o.Kind == "tick" {
		return fmt.Sprintf("tick+%d", o.Tick)
	}
	s := fmt.Sprintf("%s/%d", o.Key, o.Status)
	if o.Slow > 0 {
		s += fmt.Sprintf("/slow%d", o.Slow)
	}
	return s
}

type hcfg struct {
	Algo    string // fixed | sliding
	Storage string // memory | injected
	Skip    string // none | failed | successful
	Limit   string // static2 | func-a1-b3 | func0
}

// ttlStorage is an injected fiber.Storage with TTLs on the harness clock.
type ttlStorage struct {
	data map[string]ttlEntry
}
type ttlEntry struct {
	val []byte
	exp uint32
}

func (s *ttlStorage) Get(key string) ([]byte, error) {
	e, ok := s.data[key]
	if !ok || (e.exp != 0 && e.exp <= utils.Timestamp()) {
		return nil, nil
	}
	return append([]byte(nil), e.val...), nil
}
func (s *ttlStorage) Set(key string, val []byte, ttl time.Duration) error {
	var exp uint32
	if ttl > 0 {
		exp = uint32(ttl.Seconds()) + utils.Timestamp()
	}
	s.data[key] = ttlEntry{append([]byte(nil), val...), exp}
	return nil
}
func (s *ttlStorage) Delete(key string) error { delete(s.data, key); return nil }
func (s *ttlStorage) Reset() error            { s.data = map[string]ttlEntry{}; return nil }
func (s *ttlStorage) Close() error            { return nil }

// window model, kept twice: "all" counts every arrival (pessimistic budget), "adm" counts
// only requests that reached the handler and were not skipped (optimistic budget).
type wstate struct {
	prev, curr int
	exp        int // end of current window (absolute seconds), 0 = none
}

type model struct {
	algo     string
	all, adm map[string]*wstate
}

func (m *model) roll(ws *wstate, ts int) {
	if m.algo == "fixed" {
		if ws.exp == 0 || ts >= ws.exp {
			ws.curr, ws.prev = 0, 0
			ws.exp = ts + W
		}
		return
	}
	switch {
	case ws.exp == 0 || ts >= ws.exp+W:
		ws.prev, ws.curr, ws.exp = 0, 0, ts+W
	case ts >= ws.exp:
		ws.prev, ws.curr = ws.curr, 0
		ws.exp += W
	}
}

func (m *model) rate(ws *wstate, ts int) int {
	if m.algo == "fixed" {
		return ws.curr
	}
	weight := float64(ws.exp-ts) / float64(W)
	return int(float64(ws.prev)*weight) + ws.curr
}

func get(mm map[string]*wstate, k string) *wstate {
	if mm[k] == nil {
		mm[k] = &wstate{}
	}
	return mm[k]
}

type stepObs struct {
	Op        string
	Status    int
	Ran       bool
	Retry     string
	Limit     string
	Remaining string
}

func limitFor(l string, key string) int {
	switch l {
	case "static2":
		return 2
	case "func0":
		return 0
	}
	if key == "a" {
		return 1
	}
	return 3
}

func runHistory(c hcfg, ops []hop, l *core.Local, h *fasthttp.RequestCtx) {
	now := T0
	utils.VerifSetTimestamp(uint32(now))
	cfg := limiter.Config{
		Expiration:   W * time.Second,
		KeyGenerator: func(c fiber.Ctx) string { return utils.CopyString(c.Get("X-Key")) },
	}
	switch c.Limit {
	case "static2":
		cfg.Max = 2
	default:
		cfg.Max = 5 // deliberately different from what MaxFunc returns
		lim := c.Limit
		cfg.MaxFunc = func(c fiber.Ctx) int { return limitFor(lim, c.Get("X-Key")) }
	}
	if c.Algo == "sliding" {
		cfg.LimiterMiddleware = limiter.SlidingWindow{}
	}
	if c.Storage == "injected" {
		cfg.Storage = &ttlStorage{data: map[string]ttlEntry{}}
	}
	cfg.SkipFailedRequests = c.Skip == "failed"
	cfg.SkipSuccessfulRequests = c.Skip == "successful"
	app := fiber.New()
	app.Use(limiter.New(cfg))
	ran := false
	app.Get("/", func(c fiber.Ctx) error {
		ran = true
		if s, _ := strconv.Atoi(c.Get("X-Slow")); s > 0 {
			now += s
			utils.VerifSetTimestamp(uint32(now))
		}
		st, _ := strconv.Atoi(c.Get("X-Status"))
		return c.SendStatus(st)
	})
	handler := app.Handler()
	m := &model{algo: c.Algo, all: map[string]*wstate{}, adm: map[string]*wstate{}}
	var trace []stepObs
	for i, op := range ops {
		if op.Kind == "tick" {
			now += op.Tick
			utils.VerifSetTimestamp(uint32(now))
			trace = append(trace, stepObs{Op: op.String()})
			continue
		}
		L := limitFor(c.Limit, op.Key)
		ts := now
		req := fx.Req("GET", "http://x.test/", "X-Key", op.Key, "X-Status", strconv.Itoa(op.Status), "X-Slow", strconv.Itoa(op.Slow))
		ran = false
		fx.CallInto(h, handler, req, nil, false)
		o := stepObs{Op: op.String(), Status: h.Response.StatusCode(), Ran: ran,
			Retry: string(h.Response.Header.Peek("Retry-After")), Limit: string(h.Response.Header.Peek("X-RateLimit-Limit")),
			Remaining: string(h.Response.Header.Peek("X-RateLimit-Remaining"))}
		trace = append(trace, o)
		l.Add("transitions", 1)
		cs := func() any {
			var s []string
			for _, x := range ops[:i+1] {
				s = append(s, x.String())
			}
			return map[string]any{"config": c, "ops": s, "trace": trace}
		}
		tag := fmt.Sprintf("algo=%s storage=%s skip=%s limit=%s", c.Algo, c.Storage, c.Skip, c.Limit)
		if L == 0 {
			// unlimited: must pass through untouched
			if !ran {
				l.Violate("unlimited-rejected "+tag, "MaxFunc returned 0 (unlimited) but the request was rejected", cs(), o, nil)
			}
			l.Outcome("unlimited ran=" + strconv.FormatBool(ran))
			continue
		}
		all, adm := get(m.all, op.Key), get(m.adm, op.Key)
		m.roll(all, ts)
		m.roll(adm, ts)
		all.curr++
		adm.curr++
		mustAdmit := m.rate(all, ts) <= L
		mustReject := m.rate(adm, ts) > L
		admExp := adm.exp
		skipped := false
		if ran {
			skipped = (cfg.SkipFailedRequests && op.Status >= 400) || (cfg.SkipSuccessfulRequests && op.Status < 400)
			if skipped {
				// un-count in the window it was admitted to (it may have rolled meanwhile)
				uncount(m, all, now)
				uncount(m, adm, now)
			}
		} else {
			adm.curr-- // did not reach the handler: not an admitted hit
		}
		_ = admExp
		class := "admit"
		if !ran {
			class = "reject"
		}
		switch {
		case mustAdmit && !ran:
			l.Violate("rejected-with-budget "+tag+" "+shape(ops[:i+1]), "request rejected although even the pessimistic count (all arrivals) leaves budget", cs(), o, "handler runs")
		case mustReject && ran:
			l.Violate("over-admitted "+tag+" "+shape(ops[:i+1]), "request reached the handler although the hits that reached the handler already exhaust the limit", cs(), o, "429")
		case !mustAdmit && !mustReject:
			l.Add("unspecified_skipped", 1)
			class += "(unspecified)"
		}
		if !ran {
			if o.Status != 429 {
				l.Violate("reject-status "+tag, "rejected request without 429", cs(), o, 429)
			}
			want := strconv.Itoa(all.exp - ts)
			if o.Retry != want {
				l.Violate("retry-after "+tag, "Retry-After differs from the time until the window resets", cs(), o, want)
			}
		} else if o.Limit != strconv.Itoa(L) {
			l.Violate("limit-header "+tag, "X-RateLimit-Limit is not the limit MaxFunc returned for this request", cs(), o, L)
		}
		l.Outcome(fmt.Sprintf("%s %s skip=%v", c.Algo, class, skipped))
	}
	l.Add("histories", 1)
	if len(ops) > 0 {
		l.Sample(fmt.Sprint(c, ops))
	}
}

// uncount removes one hit from the window the request was admitted to. In a sequential
// history nothing arrived since the admission, so the model's window state is still the
// admission window (it only rolls on arrivals): decrementing curr is exact even when the
// slow handler moved the clock past the window end.
func uncount(_ *model, ws *wstate, _ int) { ws.curr-- }

// shape summarises an op list for signatures: op kinds only, so that one root cause = one signature family.
func shape(ops []hop) string {
	s := ""
	for _, o := range ops {
		switch {
		case o.Kind == "tick" && o.Tick < W:
			s += "t"
		case o.Kind == "tick":
			s += "T"
		case o.Slow > 0 && o.Status >= 400:
			s += "F"
		case o.Slow > 0:
			s += "S"
		case o.Status >= 400:
			s += "f"
		default:
			s += "r"
		}
	}
	// collapse runs so that families of histories with one root cause share a signature
	out := ""
	for i := 0; i < len(s); i++ {
		if i > 0 && s[i] == s[i-1] {
			continue
		}
		out += string(s[i])
	}
	return "shape=" + out
}
