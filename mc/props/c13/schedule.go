package main

// Harness B: interleavings of concurrent requests under the cooperative scheduler.

import (
	"fmt"
	"sort"
	"strconv"
	"strings"
	"time"

	"github.com/anishathalye/porcupine"
	"github.com/gofiber/fiber/v3"
	"github.com/gofiber/fiber/v3/middleware/limiter"
	"github.com/gofiber/fiber/v3/verifrt"
	"github.com/gofiber/utils/v2"
	"github.com/valyala/fasthttp"

	"verifmc/core"
	"verifmc/fx"
	"verifmc/schedx"
	"verifmc/xplore"
)

type sreq struct {
	ID     string
	Key    string
	Status int
}

type sparams struct {
	Algo    string
	Storage string // memory | injected | keeping (see ttlStorage)
	Skip    string
	Limit   int
	Reqs    []sreq
	Probe   int // sequential requests on key "a" issued after the concurrent phase
	// Lapsed: before the concurrent phase key "a" uses up its budget, then the clock moves past every window and
	// time-to-live: the stored entry of "a" has expired but is still in the store, and the built-in store's janitor
	// (a daemon thread of the execution) is due: it sweeps WHILE the concurrent requests count their hits. Everything
	// after the lapse happens inside one fresh window and is judged as usual.
	Lapsed bool
}

// yielding storage: every call is a scheduling point ("a storage that may yield")
type yStorage struct{ ttlStorage }

func (s *yStorage) Get(key string) ([]byte, error) {
	verifrt.YieldOn("storage.get", s)
	return s.ttlStorage.Get(key)
}
func (s *yStorage) Set(key string, val []byte, ttl time.Duration) error {
	verifrt.YieldOn("storage.set", s)
	return s.ttlStorage.Set(key, val, ttl)
}

type sobs struct {
	ID        string
	Key       string
	Status    int
	Ran       bool
	Remaining string
	Limit     string
	Retry     string
	Call, Ret int
}

func runSched(p sparams) func(e *schedx.Exec) *schedx.Outcome {
	return func(e *schedx.Exec) *schedx.Outcome {
		utils.VerifSetTimestamp(T0)
		n := len(p.Reqs) + p.Probe
		obs := make([]sobs, n)
		ranCount := map[string]int{}
		counted := map[string]int{}
		step := 0
		res := verifrt.Run(e.Chooser(), verifrt.Options{MaxSteps: 5000, StateKey: func() string { return fmt.Sprint(ranCount, counted) }}, func() {
			cfg := limiter.Config{Max: p.Limit, Expiration: W * time.Second, KeyGenerator: func(c fiber.Ctx) string { return utils.CopyString(c.Get("X-Key")) }}
			if p.Algo == "sliding" {
				cfg.LimiterMiddleware = limiter.SlidingWindow{}
			}
			switch p.Storage {
			case "injected":
				cfg.Storage = &yStorage{}
			case "keeping":
				cfg.Storage = &yStorage{ttlStorage{keep: true}}
			}
			cfg.SkipFailedRequests = p.Skip == "failed"
			cfg.SkipSuccessfulRequests = p.Skip == "successful"
			app := fiber.New()
			app.Use(limiter.New(cfg))
			app.Get("/", func(c fiber.Ctx) error {
				k := utils.CopyString(c.Get("X-Key"))
				verifrt.YieldOn("handler.enter", ranCount)
				ranCount[k]++
				st, _ := strconv.Atoi(c.Get("X-Status"))
				skipped := (cfg.SkipFailedRequests && st >= 400) || (cfg.SkipSuccessfulRequests && st < 400)
				if !skipped {
					counted[k]++
				}
				verifrt.YieldOn("handler.work", ranCount)
				return c.SendStatus(st)
			})
			handler := app.Handler()
			do := func(i int, rq sreq) {
				req := fx.Req("GET", "http://x.test/", "X-Key", rq.Key, "X-Status", strconv.Itoa(rq.Status), "X-Id", rq.ID)
				var fctx fasthttp.RequestCtx
				before := ranCount[rq.Key]
				_ = before
				step++
				call := step
				fx.CallInto(&fctx, handler, req, nil, false)
				step++
				o := sobs{ID: rq.ID, Key: rq.Key, Status: fctx.Response.StatusCode(), Call: call, Ret: step,
					Remaining: string(fctx.Response.Header.Peek("X-RateLimit-Remaining")), Limit: string(fctx.Response.Header.Peek("X-RateLimit-Limit")),
					Retry: string(fctx.Response.Header.Peek("Retry-After"))}
				o.Ran = o.Status == rq.Status && o.Status != 429
				obs[i] = o
			}
			if p.Lapsed {
				for k := 0; k < p.Limit; k++ {
					do(0, sreq{ID: "warm", Key: "a", Status: 200})
				}
				obs[0] = sobs{}
				verifrt.Advance((3*W + 1) * time.Second)
				utils.VerifSetTimestamp(T0 + 3*W + 1)
				for k := range ranCount {
					delete(ranCount, k)
				}
				for k := range counted {
					delete(counted, k)
				}
			}
			for i, rq := range p.Reqs {
				i, rq := i, rq
				verifrt.GoNamed(rq.ID, false, func() { do(i, rq) })
			}
			verifrt.Join()
			for k := 0; k < p.Probe; k++ {
				do(len(p.Reqs)+k, sreq{ID: fmt.Sprintf("probe%d", k+1), Key: "a", Status: 200})
			}
		})
		e.Res = res
		out := &schedx.Outcome{Detail: map[string]any{"responses": obs, "handler_runs": ranCount, "counted": counted, "deadlock": res.Deadlock, "blocked": res.Blocked, "panics": res.Panics}}
		viol := func(sig, what string, o, x any) {
			out.Violations = append(out.Violations, schedx.Viol{Sig: sig, What: what, Observed: o, Expected: x})
		}
		if len(res.Panics) > 0 {
			viol("panic "+firstLine(res.Panics[0]), "a request thread panicked", res.Panics, nil)
		}
		if res.Deadlock {
			viol("deadlock", "requests blocked forever", res.Blocked, nil)
		}
		if res.Horizon {
			viol("horizon", "step horizon exceeded", nil, nil)
		}
		if len(res.Panics) == 0 && !res.Deadlock && !res.Horizon {
			arrivals := map[string]int{}
			var keys []string
			for _, rq := range p.Reqs {
				if arrivals[rq.Key] == 0 {
					keys = append(keys, rq.Key)
				}
				arrivals[rq.Key]++
			}
			arrivals["a"] += p.Probe
			for _, k := range keys {
				// everything happens inside one window (the clock does not move)
				if counted[k] > p.Limit {
					viol(fmt.Sprintf("over-admitted counted=%d limit=%d", counted[k], p.Limit), "more counted requests reached the handler than the limit allows in one window", map[string]any{"key": k, "counted": counted[k]}, p.Limit)
				}
				rejected := 0
				for _, o := range obs {
					if o.Key == k && !o.Ran {
						rejected++
					}
				}
				if arrivals[k] <= p.Limit && rejected > 0 {
					viol("rejected-with-budget", "a request was rejected although all arrivals fit the limit", map[string]any{"key": k, "rejected": rejected, "arrivals": arrivals[k]}, 0)
				}
				if p.Skip == "none" {
					// linearizability of the hit counter: admitted requests expose Remaining = Limit - count
					if !linearizable(obs, k, p.Limit) {
						viol("counter-not-linearizable", "the X-RateLimit-Remaining values / rejections are not explained by any sequential order of the requests respecting real-time order", obs, nil)
					}
				}
			}
		}
		var st []string
		for _, o := range obs {
			st = append(st, fmt.Sprintf("%s:%d:%s", o.Key, o.Status, o.Remaining))
		}
		sort.Strings(st)
		out.Class = strings.Join(st, ",")
		out.Interesting = e.X.Spent(xplore.Sched) > 0
		return out
	}
}

// linearizable checks, with porcupine, that the per-key observations are explained by an
// atomic counter: each arrival takes the next count c; it is admitted iff c <= limit and then
// reports Remaining = limit - c.
func linearizable(obs []sobs, key string, limit int) bool {
	var ops []porcupine.Operation
	for i, o := range obs {
		if o.Key != key {
			continue
		}
		ops = append(ops, porcupine.Operation{ClientId: i, Input: limit, Call: int64(o.Call), Output: o, Return: int64(o.Ret)})
	}
	m := porcupine.Model{
		Init: func() interface{} { return 0 },
		Step: func(state, input, output interface{}) (bool, interface{}) {
			c := state.(int) + 1
			o := output.(sobs)
			lim := input.(int)
			if c > lim {
				return !o.Ran, c
			}
			return o.Ran && o.Remaining == strconv.Itoa(lim-c), c
		},
		Equal: func(a, b interface{}) bool { return a.(int) == b.(int) },
	}
	return porcupine.CheckOperations(m, ops)
}

func firstLine(s string) string {
	if i := strings.IndexByte(s, '\n'); i >= 0 {
		s = s[:i]
	}
	if len(s) > 100 {
		s = s[:100]
	}
	return s
}

func runSchedules(r *core.Run, depth int, alpha []hop, cfgs []hcfg) {
	same := func(n int, st int) []sreq {
		var out []sreq
		for i := 0; i < n; i++ {
			out = append(out, sreq{ID: fmt.Sprintf("r%d", i+1), Key: "a", Status: st})
		}
		return out
	}
	var scenarios []schedx.Scenario
	add := func(name string, p sparams, q, d xplore.Bounds, pruneDeep bool) {
		scenarios = append(scenarios, schedx.Scenario{Name: name, Params: p, Bounds: q, Deep: d, PruneDeep: pruneDeep, Run: runSched(p)})
	}
	b2, b3 := xplore.Bounds{0, 2, 0, 0}, xplore.Bounds{0, 3, 0, 0}
	for _, algo := range []string{"fixed", "sliding"} {
		for _, st := range []string{"memory", "injected"} {
			add(fmt.Sprintf("%s-%s-2req-limit1", algo, st), sparams{Algo: algo, Storage: st, Skip: "none", Limit: 1, Reqs: same(2, 200), Probe: 1}, b2, xplore.Bounds{0, 4, 0, 0}, false)
			add(fmt.Sprintf("%s-%s-3req-limit2", algo, st), sparams{Algo: algo, Storage: st, Skip: "none", Limit: 2, Reqs: same(3, 200), Probe: 1}, b2, b3, false)
			add(fmt.Sprintf("%s-%s-2req-limit2-otherkey", algo, st), sparams{Algo: algo, Storage: st, Skip: "none", Limit: 2, Reqs: append(same(2, 200), sreq{ID: "o1", Key: "b", Status: 200}), Probe: 1}, b2, b3, false)
			// a skipped request gives its hit back while another request is admitted (lost update needs limit 2)
			add(fmt.Sprintf("%s-%s-skipfailed-giveback-limit2", algo, st), sparams{Algo: algo, Storage: st, Skip: "failed", Limit: 2,
				Reqs: []sreq{{"f1", "a", 500}, {"r1", "a", 200}}, Probe: 2}, b2, b3, false)
			add(fmt.Sprintf("%s-%s-skipfailed-3req-limit1", algo, st), sparams{Algo: algo, Storage: st, Skip: "failed", Limit: 1,
				Reqs: []sreq{{"f1", "a", 500}, {"r1", "a", 200}, {"r2", "a", 200}}, Probe: 1}, b2, b3, false)
		}
		// the key's entry has expired, the built-in store's janitor sweeps while the first requests of the new window count
		add(fmt.Sprintf("%s-memory-lapsed-janitor-2req-limit2", algo), sparams{Algo: algo, Storage: "memory", Skip: "none", Limit: 2, Reqs: same(2, 200), Probe: 1, Lapsed: true}, b2, b3, false)
		add(fmt.Sprintf("%s-memory-lapsed-janitor-1req-limit1", algo), sparams{Algo: algo, Storage: "memory", Skip: "none", Limit: 1, Reqs: same(1, 200), Probe: 1, Lapsed: true}, b2, b3, false)
		// two keys in one window over a storage that keeps the value slices it is given
		add(fmt.Sprintf("%s-keeping-2req-limit2-otherkey", algo), sparams{Algo: algo, Storage: "keeping", Skip: "none", Limit: 2, Reqs: append(same(2, 200), sreq{ID: "o1", Key: "b", Status: 200}), Probe: 1}, b2, b3, false)
		add(fmt.Sprintf("%s-keeping-skipfailed-giveback-limit2-otherkey", algo), sparams{Algo: algo, Storage: "keeping", Skip: "failed", Limit: 2,
			Reqs: []sreq{{"f1", "a", 500}, {"r1", "a", 200}, {"o1", "b", 200}}, Probe: 2}, b2, b3, false)
	}
	if !r.IsWorker() {
		crashed := r.SpawnWorkers(16, []string{"GOMAXPROCS=2"})
		for _, c := range crashed {
			r.Violate("worker-crashed", "a worker process died (fatal runtime error or kill)", c, nil, nil)
		}
		fams := map[string]any{}
		for _, f := range append([]family{{Name: "base", Depth: depth, Alpha: alpha, Cfgs: cfgs}}, families(r.Quick())...) {
			e := map[string]any{"depth": f.Depth, "alphabet": fmt.Sprint(f.Alpha), "configs": len(f.Cfgs), "histories": r.P.Counters["histories:"+f.Name]}
			if f.Own > 0 {
				e["own_letters_at_least_one_per_history"] = fmt.Sprint(f.Alpha[len(f.Alpha)-f.Own:])
			}
			if f.Overlap {
				e["overlap"] = "one request per run keeps its handler running during the next k>=1 operations (every position, every k)"
			}
			fams[f.Name] = e
		}
		cov := schedx.Coverage(r, scenarios, map[string]any{
			"history_depth":             depth,
			"history_alphabet":          fmt.Sprint(alpha),
			"history_configs":           len(cfgs),
			"history_families":          fams,
			"histories":                 r.P.Counters["histories"],
			"history_transitions":       r.P.Counters["transitions"],
			"unspecified_skipped":       r.P.Counters["unspecified_skipped"],
			"downstream_status_differs": r.P.Counters["downstream_status_differs"],
			"rule":                      "Harness A: every sequence of exactly `history_depth` operations over the alphabet (requests on 2 keys with downstream status 200/500 and optional slow handler that moves the virtual clock past the window; clock ticks) x 36 configurations {fixed,sliding}x{memory,injected storage}x{no skip,SkipFailed,SkipSuccessful}x{Max=2, MaxFunc a->1 b->3 (Max=5), MaxFunc->0}; fresh app per history, oracle after every step against a two-sided window model (must-admit if even counting all arrivals leaves budget, must-reject if the hits that reached the handler exhaust it). Further families (history_families; one operation shorter unless stated), same oracle: unset-config-fields+window3 = Config fields left at their zero value singly and together (Max -> documented 5, Expiration -> 1 minute, KeyGenerator -> c.IP() with two peers, limiter.New() without argument) and a 3 s window, with letters that repeat a request 4-5 times and ticks relative to the window (base depth); handler-kinds+bypass = histories with at least one request whose handler returns an error (fiber.Error / plain error; the status is written by the error handler after the middleware unwound) or that Config.Next exempts; per-request-limit = MaxFunc takes the limit from the request (one key, limits 1 and 3; base depth); overlap = the next k operations (ticks, whole requests) happen while one request's handler runs, its completion (give-back of a skipped hit) meets the window the others rolled; uncopied-key-reused-ctx = KeyGenerator returns c.Get(..) uncopied and all requests arrive on one reused fasthttp.RequestCtx; value-keeping-storage+interleaved-keys = the external storage keeps the value slice (and key string) handed to Set and returns it from Get uncopied, as gofiber/storage/memory and internal/storage/memory do (the `injected` storage copies), under histories of two keys interleaved in one window with letters that send three requests in a row (a key exhausts its budget, the other key arrives, the first again, and the reverse; base depth; both algorithms x all skip options x {Max=2, MaxFunc a->1 b->3}). A violating history of a family is re-run with each added dimension switched off: violations that vanish get one signature per class and configuration (`only-with=<dimension>`). A panic while serving a request is recovered and reported (request-panicked). Harness B (storages: memory, injected = copying, keeping = value slices kept; the latter with requests of a second key in the window): all interleavings of the concurrent scenarios under the cooperative scheduler within the stated preemption bounds; oracle = counted handler runs <= limit, no rejection when arrivals fit, porcupine linearizability of the hit counter, no deadlock/panic.",
		})
		cov["transitions"] = r.P.Counters["points"] + r.P.Counters["transitions"]
		cov["traces_validated_against_impl"] = r.P.Counters["executions"] + r.P.Counters["histories"]
		r.Finish(core.Evidence{Level: "model_checking", Exhaustive: true, Coverage: cov,
			Assumptions: []string{"virtual coarse clock (utils.Timestamp) owned by the harness; memory store gc goroutine removed", "sequential consistency; scheduling points at sync operations, pool operations, injected storage calls and handler seams",
				"whether rejected arrivals count as hits is not fixed by the statement: judged two-sidedly (unspecified_skipped counts the cases in between)"}})
	}
	enumerateHistories(r, depth, alpha, cfgs)
	schedx.RunAll(r, scenarios, 0)
	r.FinishWorker()
}
