package main

import (
	"fmt"
	"sort"
)

// ---------------------------------------------------------------------------
// bounded exhaustive enumeration of program trees
//
// skeleton  = shape of a tree (leaf / container nodes), <= 3 items per level, depth bound,
//             at least one container, containers <= cMax, leaves <= nMax
// labelling = every container gets (kind, prefix), every leaf gets (kind, pattern, behaviour)
// The alphabets used for a skeleton depend only on its (containers, leaves) size class, so that
// the product stays enumerable; small classes use the full alphabets.

type skel struct {
	leaf  bool
	items []*skel
}

type seqRes struct {
	items []*skel
	c, n  int
}

func genSeq(level, depthMax, c, n int) []seqRes {
	results := []seqRes{{}}
	cur := []seqRes{{}}
	for l := 1; l <= 3; l++ {
		var next []seqRes
		for _, s := range cur {
			cl, nl := c-s.c, n-s.n
			if nl >= 1 {
				next = append(next, seqRes{append(append([]*skel(nil), s.items...), &skel{leaf: true}), s.c, s.n + 1})
			}
			if cl >= 1 && level < depthMax {
				for _, ch := range genSeq(level+1, depthMax, cl-1, nl) {
					next = append(next, seqRes{append(append([]*skel(nil), s.items...), &skel{items: ch.items}), s.c + 1 + ch.c, s.n + ch.n})
				}
			}
		}
		results = append(results, next...)
		cur = next
	}
	return results
}

func skeletons(depthMax, cMax, nMax, minTop int) []seqRes {
	var out []seqRes
	for _, s := range genSeq(1, depthMax, cMax, nMax) {
		if s.c >= 1 && len(s.items) >= minTop {
			out = append(out, s)
		}
	}
	// stable order: by (c, n) class, then generation order
	sort.SliceStable(out, func(i, j int) bool {
		if out[i].c != out[j].c {
			return out[i].c < out[j].c
		}
		return out[i].n < out[j].n
	})
	return out
}

func skelText(items []*skel) string {
	s := ""
	for _, it := range items {
		if it.leaf {
			s += "r"
		} else {
			s += "C{" + skelText(it.items) + "}"
		}
	}
	return s
}

// container label: kind 'g' group, 'm' mount, 'x' mount-from-group (group(P1){mount(P2){...}}),
// 'y' mount-in-mount (mount(P1){mount(P2){...}}); registration-forms family: 'G' group created with a
// middleware, 'X' mount-from-group whose group was created with a middleware, 'z' group-in-mount
// (mount(P1){group(P2 +mw){...}}), 'w' group-in-group (group(P1){group(P2 +mw){...}}); shared sub-app
// family: 'd' mount(P1){...} directly followed by again(P2) (the same sub-app object mounted once more),
// 'e' the same with again(P2) after the remaining items of the list
type clabel struct {
	K      byte
	P1, P2 string
}

type leaf struct {
	Kind uint8
	Pat  string
	Next bool
}

// enumeration order of the alphabets: the first s entries form the reduced alphabet of size s
const fullLeaves = 36 // 3 kinds x 6 patterns x 2 behaviours
var prefixOrder = []string{"/api", "/:t", "/", "/api/", "/API", "/a-b"}

var leafOrder = func() []leaf {
	first := []leaf{
		{kGET, "/x", false}, {kUSE, "", true}, {kGET, "/:id", false}, {kALL, "/*", true},
		{kUSE, "/x", true}, {kGET, "", false}, {kGET, "/", true}, {kUSE, "/:id", true},
		{kALL, "/x", false}, {kUSE, "/*", true}, {kALL, "", true}, {kGET, "/*", false},
	}
	seen := map[leaf]bool{}
	out := append([]leaf(nil), first...)
	for _, l := range first {
		seen[l] = true
	}
	for _, k := range []uint8{kGET, kUSE, kALL} {
		for _, p := range []string{"", "/", "/x", "/:id", "/*", "/X"} { // "/X": letter case inside a sub-app's own pattern
			for _, nx := range []bool{false, true} {
				l := leaf{k, p, nx}
				if !seen[l] {
					out = append(out, l)
				}
			}
		}
	}
	return out
}()

// containerAlphabet: mounts and groups over the first nPrefix prefixes, plus nGM mount-from-group
// letters (18 = every group prefix x mount prefix of the reduced prefix set, 3 = three fixed pairs)
func containerAlphabet(order []string, nPrefix, nGM, nMM int) []clabel {
	if order == nil {
		order = prefixOrder
	}
	var out []clabel
	for _, k := range []byte{'m', 'g'} {
		for _, p := range order[:nPrefix] {
			out = append(out, clabel{K: k, P1: p})
		}
	}
	switch nGM {
	case 18:
		for _, gp := range prefixOrder {
			for _, p := range prefixOrder[:3] {
				out = append(out, clabel{'x', gp, p})
			}
		}
	case 3:
		out = append(out, clabel{'x', "/api", "/"}, clabel{'x', "/api", "/:t"}, clabel{'x', "/:t", "/api"})
	}
	// mount-in-mount letters mount(P1){mount(P2){...}} (quick tier: the smallest nested mounts)
	switch nMM {
	case 9:
		for _, p1 := range prefixOrder[:3] {
			for _, p2 := range prefixOrder[:3] {
				out = append(out, clabel{'y', p1, p2})
			}
		}
	case 3:
		out = append(out, clabel{'y', "/", "/"}, clabel{'y', "/api", "/api"}, clabel{'y', "/:t", "/api"})
	}
	return out
}

// policy: alphabets per size class
type policy struct {
	depth, cMax, nMax int
	nPrefix           func(c, n int) int      // 6 = full, 3 = reduced
	nGM               func(c, n int) int      // mount-from-group letters (quick tier only; the thorough tier nests for real)
	nMM               func(c, n int) int      // mount-in-mount letters (quick tier only)
	nLeaf             func(c, n int) int      // fullLeaves = full
	leaves            []leaf                  // leaf letters in enumeration order (nil = leafOrder)
	minTop            int                     // least number of top-level items of a skeleton
	prefixes          []string                // container prefixes in enumeration order (nil = prefixOrder)
	cfgsFor           func(c, n int) []int    // parameterised-prefix family: configurations (indexes into cfgs) per size class
	phasedCfgs        []int                   // late-registration family: configurations (indexes into cfgs) under which the two-phase programs run
	containers        func(c, n int) []clabel // container letters per size class (nil = containerAlphabet of nPrefix/nGM/nMM)
}

func quickPolicy() policy {
	return policy{depth: 2, cMax: 2, nMax: 3,
		nPrefix: func(c, n int) int {
			if c == 1 || n <= 1 {
				return 6
			}
			return 3
		},
		nGM: func(c, n int) int {
			if c == 1 {
				return 18
			}
			return 3
		},
		nMM: func(c, n int) int {
			switch {
			case c == 1 && n <= 1:
				return 9
			case c == 1 || n <= 1:
				return 3
			}
			return 0
		},
		nLeaf: func(c, n int) int {
			switch {
			case c == 1 && n <= 1:
				return fullLeaves
			case c == 1 && n == 2:
				return 15
			case c == 1:
				return 5
			case n == 0:
				return fullLeaves
			case n == 1:
				return 20
			case n == 2:
				return 6
			}
			return 3
		}}
}

func thoroughPolicy() policy {
	return policy{depth: 3, cMax: 3, nMax: 3,
		nGM: func(c, n int) int { return 0 },
		nMM: func(c, n int) int { return 0 },
		nPrefix: func(c, n int) int {
			if c <= 1 || (c == 2 && n <= 2) {
				return 6
			}
			return 3
		},
		nLeaf: func(c, n int) int {
			switch {
			case c == 1 && n <= 2:
				return fullLeaves
			case c == 1:
				return 10
			case c == 2 && n <= 1:
				return fullLeaves
			case c == 2 && n == 2:
				return 8
			case c == 2:
				return 4
			case n <= 1:
				return 12
			case n == 2:
				return 4
			}
			return 2
		}}
}

type classCount struct {
	C, N      int
	Skeletons int
	Trees     int64
	NPrefix   int
	NGM       int
	NMM       int
	NLeaf     int
	CLetters  int // number of container letters when the policy lists them itself
}

// enumerate calls visit(idx, tree) for every tree of the policy, in a fixed order.
// want(idx) tells whether the tree must be materialised (sharding); the count is returned.
func enumerate(p policy, want func(idx int64) bool, visit func(idx int64, t *tree)) (total int64, classes []classCount) {
	sk := skeletons(p.depth, p.cMax, p.nMax, p.minTop)
	lo := leafOrder
	if p.leaves != nil {
		lo = p.leaves
	}
	cc := map[[2]int]*classCount{}
	var idx int64
	for _, s := range sk {
		nl := p.nLeaf(s.c, s.n)
		var ca []clabel
		var np, ngm, nmm int
		if p.containers != nil {
			ca = p.containers(s.c, s.n)
		} else {
			np, ngm, nmm = p.nPrefix(s.c, s.n), p.nGM(s.c, s.n), p.nMM(s.c, s.n)
			ca = containerAlphabet(p.prefixes, np, ngm, nmm)
		}
		if (nl == 0 && s.n > 0) || len(ca) == 0 {
			continue // class not part of this family
		}
		la := lo[:nl]
		k := [2]int{s.c, s.n}
		if cc[k] == nil {
			cc[k] = &classCount{C: s.c, N: s.n, NPrefix: np, NGM: ngm, NMM: nmm, NLeaf: nl}
			if p.containers != nil {
				cc[k].CLetters = len(ca)
			}
		}
		cc[k].Skeletons++
		// odometer: containers (slow) then leaves (fast), both in DFS order
		cd := make([]int, s.c)
		ld := make([]int, s.n)
		for {
			if want == nil || want(idx) {
				ci, li := 0, 0
				visit(idx, &tree{Items: instantiateSkel(s.items, ca, la, cd, ld, &ci, &li)})
			}
			idx++
			cc[k].Trees++
			// increment
			i := s.n - 1
			for ; i >= 0; i-- {
				ld[i]++
				if ld[i] < len(la) {
					break
				}
				ld[i] = 0
			}
			if i >= 0 {
				continue
			}
			j := s.c - 1
			for ; j >= 0; j-- {
				cd[j]++
				if cd[j] < len(ca) {
					break
				}
				cd[j] = 0
			}
			if j < 0 {
				break
			}
		}
	}
	keys := make([][2]int, 0, len(cc))
	for k := range cc {
		keys = append(keys, k)
	}
	sort.Slice(keys, func(i, j int) bool {
		if keys[i][0] != keys[j][0] {
			return keys[i][0] < keys[j][0]
		}
		return keys[i][1] < keys[j][1]
	})
	for _, k := range keys {
		classes = append(classes, *cc[k])
	}
	return idx, classes
}

func instantiateSkel(items []*skel, ca []clabel, la []leaf, cd, ld []int, ci, li *int) []*node {
	out := make([]*node, 0, len(items))
	var atEnd []*node // 'e' letters: the second mount of the sub-app follows the other items of the list
	for _, it := range items {
		if it.leaf {
			l := la[ld[*li]]
			*li++
			out = append(out, &node{T: 'r', Kind: l.Kind, Pat: l.Pat, Next: l.Next})
			continue
		}
		lab := ca[cd[*ci]]
		*ci++
		ch := instantiateSkel(it.items, ca, la, cd, ld, ci, li)
		switch lab.K {
		case 'x':
			out = append(out, &node{T: 'g', Prefix: lab.P1, Items: []*node{{T: 'm', Prefix: lab.P2, Items: ch}}})
		case 'y':
			out = append(out, &node{T: 'm', Prefix: lab.P1, Items: []*node{{T: 'm', Prefix: lab.P2, Items: ch}}})
		case 'G':
			out = append(out, &node{T: 'g', Prefix: lab.P1, MW: true, Items: ch})
		case 'X':
			out = append(out, &node{T: 'g', Prefix: lab.P1, MW: true, Items: []*node{{T: 'm', Prefix: lab.P2, Items: ch}}})
		case 'z':
			out = append(out, &node{T: 'm', Prefix: lab.P1, Items: []*node{{T: 'g', Prefix: lab.P2, MW: true, Items: ch}}})
		case 'w':
			out = append(out, &node{T: 'g', Prefix: lab.P1, Items: []*node{{T: 'g', Prefix: lab.P2, MW: true, Items: ch}}})
		case 'd':
			out = append(out, &node{T: 'm', Prefix: lab.P1, Items: ch}, &node{T: 's', Prefix: lab.P2})
		case 'e':
			out = append(out, &node{T: 'm', Prefix: lab.P1, Items: ch})
			if len(atEnd) == 0 { // an 's' node names the closest preceding mount: one deferred letter per list
				atEnd = append(atEnd, &node{T: 's', Prefix: lab.P2})
			}
		default:
			out = append(out, &node{T: lab.K, Prefix: lab.P1, Items: ch})
		}
	}
	return append(out, atEnd...)
}

func (c classCount) String() string {
	if c.CLetters > 0 {
		return fmt.Sprintf("containers=%d leaves=%d: %d skeletons x labellings (container letters = %d, leaf letters = %d) = %d trees", c.C, c.N, c.Skeletons, c.CLetters, c.NLeaf, c.Trees)
	}
	return fmt.Sprintf("containers=%d leaves=%d: %d skeletons x labellings (container letters = {mount, group} x %d prefixes + %d mount-from-group pairs + %d mount-in-mount pairs, leaf letters = %d) = %d trees", c.C, c.N, c.Skeletons, c.NPrefix, c.NGM, c.NMM, c.NLeaf, c.Trees)
}

// ---------------------------------------------------------------------------
// late-registration family ("program steps after start-up")
//
// Trees with >= 2 top-level items and at least one mount; every split of the top-level sequence
// into a non-empty part registered before start-up and a non-empty part registered afterwards is
// one two-phase program. The leaf letters add a verb other than GET (POST) to GET/USE/ALL, so that
// sub-apps with middleware and non-GET routes and late routes of every kind take part.

const fullLateLeaves = 40 // 4 kinds x 5 patterns x 2 behaviours

var lateLeafOrder = func() []leaf {
	first := []leaf{
		{kPOST, "/*", false}, {kUSE, "", true}, {kGET, "/x", false}, {kPOST, "/x", false},
		{kUSE, "/x", true}, {kALL, "/*", true}, {kGET, "/*", false}, {kPOST, "/:id", false},
		{kUSE, "/*", true}, {kPOST, "", false}, {kALL, "/x", false}, {kGET, "/:id", true},
		{kPOST, "/x", true}, {kUSE, "/", false},
	}
	seen := map[leaf]bool{}
	out := append([]leaf(nil), first...)
	for _, l := range first {
		seen[l] = true
	}
	for _, k := range []uint8{kGET, kPOST, kUSE, kALL} {
		for _, p := range []string{"", "/", "/x", "/:id", "/*"} {
			for _, nx := range []bool{false, true} {
				l := leaf{k, p, nx}
				if !seen[l] {
					out = append(out, l)
				}
			}
		}
	}
	return out
}()

func quickLatePolicy() policy {
	return policy{depth: 2, cMax: 2, nMax: 3, minTop: 2, leaves: lateLeafOrder,
		phasedCfgs: []int{0, len(cfgs) - 1},
		nPrefix: func(c, n int) int {
			if c == 1 && n <= 2 {
				return 6
			}
			return 3
		},
		nGM: func(c, n int) int {
			if c == 1 || n == 0 {
				return 3
			}
			return 0
		},
		nMM: func(c, n int) int {
			if c == 1 || n == 0 {
				return 3
			}
			return 0
		},
		nLeaf: func(c, n int) int {
			switch {
			case c == 1 && n <= 1:
				return fullLateLeaves
			case c == 1 && n == 2:
				return 14
			case c == 1:
				return 6
			case n <= 1:
				return 16
			case n == 2:
				return 5
			}
			return 0
		}}
}

func thoroughLatePolicy() policy {
	all := make([]int, len(cfgs))
	for i := range all {
		all[i] = i
	}
	return policy{depth: 2, cMax: 2, nMax: 3, minTop: 2, leaves: lateLeafOrder,
		phasedCfgs: all,
		nPrefix: func(c, n int) int {
			if c == 1 || n <= 1 {
				return 6
			}
			return 3
		},
		nGM: func(c, n int) int {
			if c == 1 || n <= 2 {
				return 3
			}
			return 0
		},
		nMM: func(c, n int) int {
			if c == 1 || n <= 2 {
				return 3
			}
			return 0
		},
		nLeaf: func(c, n int) int {
			switch {
			case c == 1 && n <= 1:
				return fullLateLeaves
			case c == 1 && n == 2:
				return 30
			case c == 1:
				return 9
			case n <= 1:
				return 24
			case n == 2:
				return 6
			}
			return 3
		}}
}

// ---------------------------------------------------------------------------
// parameterised-prefix family ("prefixes with every parameter kind")
//
// Container prefixes with a named, optional, constrained, wildcard and greedy parameter, several
// of them, a constant after the parameter - on mounts and groups (and, through the full-path and
// the Route()-chain programs, at those levels too), nested two deep (depth 3) - combined with
// routes and middleware whose own patterns have parameters of the same and of other kinds.
// Explored in richMode: requests with distinct values per parameter position, handlers report
// every way of reading parameters.

var richPrefixOrder = []string{"/*", "/+", "/:t", "/f/*/by", "/:t?", "/p/+/q", "/:t<int>", "/:t/:u", "/*/+", "/api"}

const fullRichLeaves = 54 // 3 kinds x 9 patterns x 2 behaviours

var richLeafOrder = func() []leaf {
	first := []leaf{
		{kGET, "/*", false}, {kGET, "/+", false}, {kUSE, "/*", true}, {kGET, "/:id", false},
		{kUSE, "/+", true}, {kGET, "/x", false}, {kGET, "/:id?", false}, {kUSE, "/:id", true},
		{kGET, "/o/*", false}, {kGET, "/:id<int>", false}, {kGET, "/:t", false}, {kUSE, "/", true},
		{kALL, "/*", true}, {kALL, "/+", false}, {kGET, "/", false}, {kUSE, "/o/*", true},
	}
	seen := map[leaf]bool{}
	out := append([]leaf(nil), first...)
	for _, l := range first {
		seen[l] = true
	}
	for _, k := range []uint8{kGET, kUSE, kALL} {
		for _, p := range []string{"/*", "/+", "/:id", "/:id?", "/:id<int>", "/:t", "/o/*", "/x", "/"} {
			for _, nx := range []bool{false, true} {
				l := leaf{k, p, nx}
				if !seen[l] {
					out = append(out, l)
				}
			}
		}
	}
	return out
}()

func allCfgs() []int {
	all := make([]int, len(cfgs))
	for i := range all {
		all[i] = i
	}
	return all
}

func quickRichPolicy() policy {
	two := []int{0, len(cfgs) - 1}
	return policy{depth: 3, cMax: 2, nMax: 2, minTop: 1, leaves: richLeafOrder, prefixes: richPrefixOrder,
		cfgsFor: func(c, n int) []int {
			if c == 1 && n <= 1 {
				return allCfgs()
			}
			return two
		},
		nGM: func(c, n int) int { return 0 },
		nMM: func(c, n int) int { return 0 },
		nPrefix: func(c, n int) int {
			switch {
			case c == 1:
				return 10
			case n <= 1:
				return 6
			}
			return 4
		},
		nLeaf: func(c, n int) int {
			switch {
			case c == 1 && n <= 1:
				return fullRichLeaves
			case c == 1:
				return 10
			case n <= 1:
				return 12
			}
			return 3
		}}
}

func thoroughRichPolicy() policy {
	return policy{depth: 3, cMax: 2, nMax: 2, minTop: 1, leaves: richLeafOrder, prefixes: richPrefixOrder,
		cfgsFor: func(c, n int) []int { return allCfgs() },
		nGM:     func(c, n int) int { return 0 },
		nMM:     func(c, n int) int { return 0 },
		nPrefix: func(c, n int) int {
			if c == 1 || n <= 1 {
				return 10
			}
			return 6
		},
		nLeaf: func(c, n int) int {
			switch {
			case c == 1 && n <= 1:
				return fullRichLeaves
			case c == 1:
				return 16
			case n <= 1:
				return 16
			}
			return 4
		}}
}

// ---------------------------------------------------------------------------
// registration-forms family ("every way of registering")
//
// The families above register every route with Get/Post/Use/All and one handler, and create every
// group without handlers. This family spells the registrations of sub-apps, groups and the root in
// the other documented forms: the verb-specific methods (Head ... Patch), several methods in one Add,
// the multiple-prefix Use([]string{...}, h), several handlers in one registration, a Route()
// obtained from the enclosing group / sub-app, groups created with a middleware
// (router.Group(prefix, mw), also nested in groups and in sub-apps), prefixes and patterns written
// without the leading slash. Explored in formMode: requests of every HTTP method, handlers also
// report Route().Method. (The empty pattern is left to the first family: known finding.)

var formPrefixOrder = []string{"/api", "api", "/:t", "/"}

func formContainers(full bool) []clabel {
	var out []clabel
	np := 2
	if full {
		np = len(formPrefixOrder)
	}
	for _, k := range []byte{'m', 'G', 'g'} {
		for _, p := range formPrefixOrder[:np] {
			out = append(out, clabel{K: k, P1: p})
		}
	}
	// two-level letters: a group with a middleware around / inside a mount, inside a group; spelled without leading slashes
	out = append(out, clabel{'X', "/api", "/v"}, clabel{'z', "/api", "/v"}, clabel{'w', "/api", "/v"})
	if full {
		out = append(out, clabel{'X', "api", "v"}, clabel{'z', "api", "v"}, clabel{'w', "api", "v"},
			clabel{'x', "api", "v"}, clabel{'y', "api", "v"}, clabel{'z', "/:t", "/"}, clabel{'w', "/", "/v"})
	}
	return out
}

var formLeafOrder = func() []leaf {
	first := []leaf{
		{kUSEL, "/x", true}, {kGET2, "/x", false}, {kPATCH, "/x", false}, {kRGET, "/x", false},
		{kADD2, "x", false}, {kRALL, "/x", true}, {kHEAD, "/:id", false}, {kUSE2, "x", true},
		{kGET, "/x", false}, {kUSE, "/", true}, {kUSEL, "x", true}, {kDELETE, "/", false},
	}
	seen := map[leaf]bool{}
	out := append([]leaf(nil), first...)
	for _, l := range first {
		seen[l] = true
	}
	for _, k := range []uint8{kUSEL, kGET2, kUSE2, kADD2, kRGET, kRALL, kHEAD, kPOST, kPUT, kDELETE, kCONNECT, kOPTIONS, kTRACE, kPATCH, kGET, kUSE, kALL} {
		for _, p := range []string{"/x", "x", "/", "/:id"} {
			for _, nx := range []bool{false, true} {
				l := leaf{k, p, nx}
				if !seen[l] {
					out = append(out, l)
				}
			}
		}
	}
	return out
}()

const fullFormLeaves = 136 // 17 kinds x 4 patterns x 2 behaviours

func quickFormPolicy() policy {
	two := []int{0, len(cfgs) - 1}
	return policy{depth: 2, cMax: 2, nMax: 2, minTop: 1, leaves: formLeafOrder,
		cfgsFor: func(c, n int) []int { return two },
		containers: func(c, n int) []clabel {
			switch {
			case c == 1 && n <= 1:
				return formContainers(true)
			case n <= 1:
				return formContainers(false)[:6] // two prefixes x {mount, group+mw, group}
			}
			return formContainers(false)
		},
		nLeaf: func(c, n int) int {
			switch {
			case c == 1 && n <= 1:
				return fullFormLeaves
			case c == 1:
				return 9
			case n <= 1:
				return 16
			}
			return 0
		}}
}

func thoroughFormPolicy() policy {
	return policy{depth: 2, cMax: 2, nMax: 2, minTop: 1, leaves: formLeafOrder,
		cfgsFor: func(c, n int) []int {
			if c == 1 && n <= 1 {
				return allCfgs()
			}
			return []int{0, len(cfgs) - 1}
		},
		containers: func(c, n int) []clabel {
			switch {
			case c == 1:
				return formContainers(true)
			case n <= 1:
				return formContainers(false)
			}
			return formContainers(false)[:6]
		},
		nLeaf: func(c, n int) int {
			switch {
			case c == 1 && n <= 1:
				return fullFormLeaves
			case c == 1:
				return 30
			case n <= 1:
				return 48
			}
			return 6
		}}
}

// ---------------------------------------------------------------------------
// pattern-shape family ("patterns and prefixes of every shape")
//
// Explored in richMode like the parameterised-prefix family, with other letters: prefixes and
// patterns written without the leading slash, of several segments, ending in a slash, with an
// escaped special character ("/a\:b" is the constant "/a:b", "/x\*" the constant "/x*"), with a
// parameter after a constant inside one segment ("/v:id") and with a CUSTOM constraint
// (":id<odd>"; every application of a program registers the constraint with
// RegisterCustomConstraint; requests carry an odd digit, an even digit and a letter).

var shapePrefixOrder = []string{"/api", `/a\:b`, "/:t<odd>", "api", "/v1/api", "/api/v1/"}

var shapeLeafOrder = func() []leaf {
	first := []leaf{
		{kGET, "/:id<odd>", false}, {kGET, `/a\:b`, false}, {kUSE, "/:id<odd>", true}, {kGET, "x", false},
		{kUSE, `/a\:b`, true}, {kGET, "/x/y", false}, {kGET, "/:id<odd>/z", false}, {kGET, "/x/", false},
		{kGET, "/v:id", false}, {kGET, `/x\*`, false}, {kUSE, "/x/", true}, {kGET, "/:id", false},
	}
	seen := map[leaf]bool{}
	out := append([]leaf(nil), first...)
	for _, l := range first {
		seen[l] = true
	}
	for _, k := range []uint8{kGET, kUSE, kALL} {
		for _, p := range []string{"/:id<odd>", `/a\:b`, "x", "/x/y", "/x/", "/:id<odd>/z", "/v:id", `/x\*`, "/:id", "/x"} {
			for _, nx := range []bool{false, true} {
				l := leaf{k, p, nx}
				if !seen[l] {
					out = append(out, l)
				}
			}
		}
	}
	return out
}()

const fullShapeLeaves = 60 // 3 kinds x 10 patterns x 2 behaviours

func quickShapePolicy() policy {
	two := []int{0, len(cfgs) - 1}
	return policy{depth: 3, cMax: 2, nMax: 2, minTop: 1, leaves: shapeLeafOrder, prefixes: shapePrefixOrder,
		cfgsFor: func(c, n int) []int {
			if c == 1 && n <= 1 {
				return allCfgs()
			}
			return two
		},
		nGM: func(c, n int) int { return 0 },
		nMM: func(c, n int) int { return 0 },
		nPrefix: func(c, n int) int {
			switch {
			case c == 1 && n <= 1:
				return 6
			case c == 1:
				return 4
			}
			return 3
		},
		nLeaf: func(c, n int) int {
			switch {
			case c == 1 && n <= 1:
				return fullShapeLeaves
			case c == 1:
				return 8
			case n <= 1:
				return 12
			}
			return 0
		}}
}

func thoroughShapePolicy() policy {
	return policy{depth: 3, cMax: 2, nMax: 2, minTop: 1, leaves: shapeLeafOrder, prefixes: shapePrefixOrder,
		cfgsFor: func(c, n int) []int {
			if c == 1 {
				return allCfgs()
			}
			return []int{0, len(cfgs) - 1}
		},
		nGM: func(c, n int) int { return 0 },
		nMM: func(c, n int) int { return 0 },
		nPrefix: func(c, n int) int {
			if c == 1 || n <= 1 {
				return 6
			}
			return 4
		},
		nLeaf: func(c, n int) int {
			switch {
			case c == 1 && n <= 1:
				return fullShapeLeaves
			case c == 1:
				return 16
			case n <= 1:
				return 24
			}
			return 4
		}}
}

// ---------------------------------------------------------------------------
// shared sub-app family ("one sub-app mounted at several places")
//
// Every mount of the other families creates a sub-app of its own. Here one sub-app OBJECT is
// mounted twice (app.Use(p1, sub); app.Use(p2, sub) - docs/api/app.md MountPath: "one or more path
// patterns on which a sub-app was mounted"), next to each other or with sibling items in between,
// at the top level, inside another sub-app and inside a group, with and without mounts of its own.
// The group spelling registers the sub-app's items once per mount, with the same handlers.

var sharedPrefixOrder = []string{"/api", "/", "/:t"}

// leaf letters: those of the first family without the empty pattern (under a mount it is the known
// StrictRouting finding of the first family, which two mounts of one sub-app only multiply)
var sharedLeafOrder = func() []leaf {
	var out []leaf
	for _, l := range leafOrder {
		if l.Pat != "" {
			out = append(out, l)
		}
	}
	return out
}()

const fullSharedLeaves = 30 // 3 kinds x 5 patterns x 2 behaviours

func sharedContainers(withPlain bool) []clabel {
	var out []clabel
	if withPlain { // trees of two container letters: a reduced set of pairs
		out = append(out, clabel{'d', "/api", "/"}, clabel{'d', "/", "/api"}, clabel{'d', "/api", "/api"}, clabel{'d', "/:t", "/api"}, clabel{'d', "/api", "/:t"},
			clabel{'e', "/api", "/"}, clabel{'e', "/", "/api"})
	} else {
		for _, p1 := range sharedPrefixOrder {
			for _, p2 := range sharedPrefixOrder {
				out = append(out, clabel{'d', p1, p2})
			}
		}
		out = append(out, clabel{'e', "/api", "/"}, clabel{'e', "/", "/api"}, clabel{'e', "/api", "/api"}, clabel{'e', "/:t", "/api"})
	}
	if withPlain {
		for _, k := range []byte{'m', 'g'} {
			for _, p := range sharedPrefixOrder {
				out = append(out, clabel{K: k, P1: p})
			}
		}
	}
	return out
}

func quickSharedPolicy() policy {
	two := []int{0, len(cfgs) - 1}
	return policy{depth: 2, cMax: 2, nMax: 2, minTop: 1, leaves: sharedLeafOrder,
		cfgsFor: func(c, n int) []int {
			if c == 1 && n <= 1 {
				return allCfgs()
			}
			return two
		},
		containers: func(c, n int) []clabel { return sharedContainers(c > 1) },
		nLeaf: func(c, n int) int {
			switch {
			case c == 1 && n <= 1:
				return fullSharedLeaves
			case c == 1:
				return 9
			case n <= 1:
				return 5
			}
			return 0
		}}
}

func thoroughSharedPolicy() policy {
	return policy{depth: 2, cMax: 2, nMax: 3, minTop: 1, leaves: sharedLeafOrder,
		cfgsFor: func(c, n int) []int {
			if c == 1 {
				return allCfgs()
			}
			return []int{0, len(cfgs) - 1}
		},
		containers: func(c, n int) []clabel {
			if c > 1 {
				return append(sharedContainers(false), sharedContainers(true)[7:]...) // every pair + plain mounts and groups
			}
			return sharedContainers(false)
		},
		nLeaf: func(c, n int) int {
			switch {
			case c == 1 && n <= 1:
				return fullSharedLeaves
			case c == 1 && n == 2:
				return 15
			case c == 1:
				return 5
			case n <= 1:
				return 20
			case n == 2:
				return 5
			}
			return 0
		}}
}
