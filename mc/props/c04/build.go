package main

import (
	"fmt"
	"io"
	"net"
	"os"
	"strconv"
	"strings"
	"time"

	"github.com/gofiber/fiber/v3"
	fiberlog "github.com/gofiber/fiber/v3/log"
	"github.com/gofiber/fiber/v3/verifrt"
	"github.com/valyala/fasthttp"
)

func init() { fiberlog.SetOutput(io.Discard) }

// ---------------------------------------------------------------------------
// routing configurations (all apps of a tree share one)

type rcfg struct{ CS, Strict, Unesc bool }

var cfgs = func() []rcfg {
	var out []rcfg
	for i := 0; i < 8; i++ {
		out = append(out, rcfg{i&1 != 0, i&2 != 0, i&4 != 0})
	}
	return out
}()

func (c rcfg) fiber() fiber.Config {
	return fiber.Config{CaseSensitive: c.CS, StrictRouting: c.Strict, UnescapePath: c.Unesc}
}

func (c rcfg) String() string {
	b := func(v bool) string {
		if v {
			return "1"
		}
		return "0"
	}
	return "CaseSensitive=" + b(c.CS) + " StrictRouting=" + b(c.Strict) + " UnescapePath=" + b(c.Unesc)
}

// ---------------------------------------------------------------------------
// programs built from one tree

const (
	progMount        = iota // P : mounts as written (sub-app populated, then mounted)
	progMountLate           // P : mounts as written, sub-app mounted first and populated afterwards (the documented example order)
	progGroup               // P' : every mount(prefix, sub) replaced by group(prefix){sub's items}
	progFlat                // P'': P' with every group prefix folded into the full path, registered on the root app
	progRoute               // P''': P' with every group replaced by a Route(prefix) chain: app.Route(a).Route(b).Route(pattern).Get(h)
	progMountCfg            // P : like P(mounts) but every sub-app is created with the OPPOSITE CaseSensitive/StrictRouting of the parent
	progMountRebuild        // P : like P(mounts) with a redundant app.RebuildTree() (documented, idempotent refresh) after the last registration, before start-up
)

var progNames = [...]string{"P(mounts)", "P(mounts, populated after mounting)", "P'(groups)", "P''(full paths)", "P'''(Route chains)", "P(mounts, sub-apps with another routing config)", "P(mounts, app.RebuildTree() called before start-up)"}

const maxLeaves = 12

// emptyAsRoot is a diagnostic switch, never set by ./check: P' spells a sub-app's own empty
// pattern as "/" (what the sub-app itself normalises it to). Used once to see whether the
// empty-pattern finding hides anything else.
var emptyAsRoot = os.Getenv("C04_EMPTY_AS_ROOT") == "1"

type fakeConn struct{}

var zeroAddr = &net.TCPAddr{IP: net.IPv4zero}

func (fakeConn) Read([]byte) (int, error)         { return 0, io.EOF }
func (fakeConn) Write(p []byte) (int, error)      { return len(p), nil }
func (fakeConn) Close() error                     { return nil }
func (fakeConn) LocalAddr() net.Addr              { return zeroAddr }
func (fakeConn) RemoteAddr() net.Addr             { return zeroAddr }
func (fakeConn) SetDeadline(time.Time) error      { return nil }
func (fakeConn) SetReadDeadline(time.Time) error  { return nil }
func (fakeConn) SetWriteDeadline(time.Time) error { return nil }

// exec is the single-threaded execution engine of one worker process.
type exec struct {
	tr        []byte // handler trace of the current request
	rp        []byte // Route().Path seen by each handler of the current request
	handlers  [maxLeaves][2]fiber.Handler
	fctx      fasthttp.RequestCtx
	conn      fakeConn
	inside    uint32
	sawInside bool
	sawSecond bool                 // parameterised-prefix family: a handler read a non-empty *2 or +2
	sawExtra  bool                 // registration-forms family: the extra first handler of a registration or a group's middleware ran
	rm        []byte               // registration-forms family: Route().Method seen by each handler of the current request
	oddCalls  int64                // pattern-shape family: evaluations of the custom constraint "odd"
	subOf     map[*node]*fiber.App // the sub-app created for every mount node of the program being built ('s' nodes mount it again)

	// map-iteration chooser (verifrt.MapOrder): plan[k] = pick at the k-th choice point
	plan    map[int]int
	pos     int
	arities []int

	built int64
	reqs  int64
}

func newExec() *exec {
	e := &exec{}
	for id := 0; id < maxLeaves; id++ {
		for nx := 0; nx < 2; nx++ {
			e.handlers[id][nx] = e.mkHandler(id, nx == 1)
		}
	}
	e.fctx.Init2(e.conn, nil, false)
	verifrt.SetEnvChooser(func(_ string, n int, _ bool, _ string) int {
		k := e.pos
		e.pos++
		e.arities = append(e.arities, n)
		if v, ok := e.plan[k]; ok && v < n {
			return v
		}
		return 0
	})
	return e
}

var replyBody = func() (out [maxLeaves]string) {
	for i := range out {
		out[i] = "h" + strconv.Itoa(i)
	}
	return
}()

// every handler appends "<id>:<Params(id)>,<Params(t)>,<Params(*)>;" to the trace
func (e *exec) mkHandler(id int, next bool) fiber.Handler {
	return func(c fiber.Ctx) error {
		if richMode {
			e.richTrace(id, c)
			if e.inside&(1<<id) != 0 {
				e.sawInside = true
			}
			if next {
				return c.Next()
			}
			return c.SendString(replyBody[id])
		}
		if formMode {
			e.rm = append(e.rm, c.Route().Method...)
			e.rm = append(e.rm, ';')
			if id >= preOffset {
				e.sawExtra = true
			}
		}
		e.tr = append(e.tr, byte('0'+id), ':')
		e.tr = append(e.tr, c.Params("id")...)
		e.tr = append(e.tr, ',')
		e.tr = append(e.tr, c.Params("t")...)
		e.tr = append(e.tr, ',')
		e.tr = append(e.tr, c.Params("*")...)
		e.tr = append(e.tr, ';')
		e.rp = append(e.rp, c.Route().Path...)
		e.rp = append(e.rp, ';')
		if e.inside&(1<<id) != 0 {
			e.sawInside = true
		}
		if next {
			return c.Next()
		}
		return c.SendString(replyBody[id])
	}
}

// richTrace (parameterised-prefix family) appends every way of reading parameters:
// "<id>:names=<Route().Params joined by '.'>,n.<name>=<Params(name)> for every declared name,
// *1= *2= *3= +1= +2= +3= (positional names), *= += (shorthands), d=<Params of an undeclared name
// with default>, dt=<Params("t", default)>, gi=<fiber.Params[int](c, "id", -1)>;"
func (e *exec) richTrace(id int, c fiber.Ctx) {
	t := append(e.tr, byte('0'+id), ':')
	names := c.Route().Params
	t = append(t, "names="...)
	for i, n := range names {
		if i > 0 {
			t = append(t, '.')
		}
		t = append(t, n...)
	}
	for _, n := range names {
		t = append(t, ",n."...)
		t = append(t, n...)
		t = append(t, '=')
		t = append(t, c.Params(n)...)
	}
	for _, k := range richKeys {
		t = append(t, ',')
		t = append(t, k...)
		t = append(t, '=')
		v := c.Params(k)
		t = append(t, v...)
		if v != "" && (k == "*2" || k == "+2") {
			e.sawSecond = true
		}
	}
	t = append(t, ",d="...)
	t = append(t, c.Params("nosuch", "dflt")...)
	t = append(t, ",dt="...)
	t = append(t, c.Params("t", "dflt")...)
	t = append(t, ",gi="...)
	t = strconv.AppendInt(t, int64(fiber.Params[int](c, "id", -1)), 10)
	t = append(t, ';')
	e.tr = t
	e.rp = append(e.rp, c.Route().Path...)
	e.rp = append(e.rp, ';')
}

var richKeys = []string{"*1", "*2", "*3", "+1", "+2", "+3", "*", "+"}

// addRoute registers leaf n (handler id) on r under pattern pat, in the form its kind names.
// alt is the second prefix of a USE-LIST leaf as r spells it.
func (e *exec) addRoute(r fiber.Router, n *node, pat, alt string, id int) {
	h := e.handlers[id][b2i(n.Next)]
	switch n.Kind {
	case kGET:
		r.Get(pat, h)
	case kUSE:
		r.Use(pat, h)
	case kPOST:
		r.Post(pat, h)
	case kALL:
		r.All(pat, h)
	case kHEAD:
		r.Head(pat, h)
	case kPUT:
		r.Put(pat, h)
	case kDELETE:
		r.Delete(pat, h)
	case kCONNECT:
		r.Connect(pat, h)
	case kOPTIONS:
		r.Options(pat, h)
	case kTRACE:
		r.Trace(pat, h)
	case kPATCH:
		r.Patch(pat, h)
	case kADD2:
		r.Add([]string{"GET", "POST"}, pat, h)
	case kUSEL:
		r.Use([]string{pat, alt}, h)
	case kGET2:
		r.Get(pat, e.handlers[id+preOffset][1], h)
	case kUSE2:
		r.Use(pat, e.handlers[id+preOffset][1], h)
	case kRGET:
		r.Route(pat).Get(h)
	case kRALL:
		r.Route(pat).All(h)
	default:
		panic("leaf kind")
	}
}

// regState numbers the handlers while a program is registered: leaves and groups with a middleware, in DFS order.
type regState struct{ id, mw int }

// oddConstraint is the custom constraint every app of the pattern-shape family registers: ":id<odd>".
type oddConstraint struct{ e *exec }

func (oddConstraint) Name() string { return "odd" }
func (o oddConstraint) Execute(param string, _ ...string) bool {
	o.e.oddCalls++
	return param != "" && (param[len(param)-1]-'0')%2 == 1 && param[len(param)-1] >= '0' && param[len(param)-1] <= '9'
}

// newApp creates one application of a program (root or sub-app).
func (e *exec) newApp(fc fiber.Config) *fiber.App {
	app := fiber.New(fc)
	if richMode {
		app.RegisterCustomConstraint(oddConstraint{e})
	}
	return app
}

// group creates the group of node n on r: router.Group(prefix) or router.Group(prefix, middleware).
func (e *exec) group(r fiber.Router, n *node, st *regState) fiber.Router {
	if n.MW {
		st.mw++
		return r.Group(n.Prefix, e.handlers[mwOffset+st.mw-1][1])
	}
	return r.Group(n.Prefix)
}

// regItems registers items on r the way program prog spells them (mounts as written / as groups).
func (e *exec) regItems(r fiber.Router, items []*node, subRoot bool, prog int, fc fiber.Config, st *regState) {
	for _, n := range items {
		switch {
		case n.T == 'r':
			pat := n.Pat
			if emptyAsRoot && subRoot && prog == progGroup && pat == "" {
				pat = "/" // experiment only (C04_EMPTY_AS_ROOT=1): the other reading of an empty pattern in a sub-app
			}
			e.addRoute(r, n, pat, listAlt, st.id)
			st.id++
		case n.T == 'g':
			e.regItems(e.group(r, n, st), n.Items, false, prog, fc, st)
		case n.T == 's' && prog == progGroup:
			// the group spelling of mounting a sub-app again: its items once more, with the same handlers
			tmp := regState{mw: st.mw}
			if n.ref != nil {
				tmp.id = n.ref.start
			}
			e.regItems(r.Group(n.Prefix), n.refItems(), true, prog, fc, &tmp)
		case n.T == 's':
			sub := e.subOf[n.ref]
			if sub == nil {
				sub = e.newApp(fc)
			}
			r.Use(n.Prefix, sub)
		case prog == progGroup:
			e.regItems(r.Group(n.Prefix), n.Items, true, prog, fc, st)
		case prog == progMountLate:
			sub := e.newApp(fc)
			e.subOf[n] = sub
			r.Use(n.Prefix, sub)
			e.regItems(sub, n.Items, true, prog, fc, st)
		case prog == progMountCfg:
			// the parent's configuration governs mounted routes: the sub-app's own must not matter
			oc := fc
			oc.CaseSensitive, oc.StrictRouting = !fc.CaseSensitive, !fc.StrictRouting
			sub := e.newApp(oc)
			e.subOf[n] = sub
			e.regItems(sub, n.Items, true, prog, fc, st)
			r.Use(n.Prefix, sub)
		default:
			sub := e.newApp(fc)
			e.subOf[n] = sub
			e.regItems(sub, n.Items, true, prog, fc, st)
			r.Use(n.Prefix, sub)
		}
	}
}

// runPhased runs the two-phase program (t.Late > 0) spelled as prog (progMount or progGroup): the
// items before the split are registered, the application is started (app.Handler()) and serves
// every request once; then the remaining top-level items are registered on the running
// application, app.RebuildTree() is called (docs/api/app.md, dynamic route registration) and
// every request is served again: the observations of this second round are recorded.
func (e *exec) runPhased(t *tree, ti *treeInfo, c rcfg, prog int, into *obsSet) {
	into.reset()
	e.plan, e.pos, e.arities = nil, 0, e.arities[:0]
	e.built++
	e.inside = 0
	fail := func(msg string) {
		for range ti.paths {
			for range methods {
				into.add([]byte(msg+"|0||"), nil)
			}
		}
	}
	var app *fiber.App
	var h fasthttp.RequestHandler
	var st regState
	t.link()
	e.resetSubs()
	fc := c.fiber()
	if msg := catch("STARTUP-PANIC ", func() {
		app = e.newApp(fc)
		e.regItems(app, t.Items[:t.split()], false, prog, fc, &st)
		h = app.Handler()
	}); msg != "" {
		fail(msg)
		return
	}
	for _, path := range ti.paths {
		for _, m := range methods {
			e.call(h, m, path)
		}
	}
	if msg := catch("LATE-REGISTRATION-PANIC ", func() {
		e.regItems(app, t.Items[t.split():], false, prog, fc, &st)
		app.RebuildTree()
	}); msg != "" {
		fail(msg)
		return
	}
	e.inside = ti.lateMask(t)
	for _, path := range ti.paths {
		for _, m := range methods {
			e.call(h, m, path)
			into.add(e.tr, e.rp)
		}
	}
}

func (e *exec) resetSubs() {
	if e.subOf == nil {
		e.subOf = map[*node]*fiber.App{}
	}
	for k := range e.subOf {
		delete(e.subOf, k)
	}
}

func catch(prefix string, fn func()) (msg string) {
	defer func() {
		if r := recover(); r != nil {
			msg = prefix + panicText(r)
		}
	}()
	fn()
	return ""
}

// build constructs the program and runs its startup processing; a panic is returned as text.
func (e *exec) build(t *tree, c rcfg, prog int, plan map[int]int) (h fasthttp.RequestHandler, panicked string) {
	e.plan, e.pos, e.arities = plan, 0, e.arities[:0]
	e.built++
	defer func() {
		if r := recover(); r != nil {
			h, panicked = nil, "STARTUP-PANIC "+panicText(r)
		}
	}()
	fc := c.fiber()
	app := e.newApp(fc)
	var st regState
	t.link()
	e.resetSubs()
	id := 0
	switch prog {
	case progMount, progMountLate, progGroup, progMountCfg, progMountRebuild:
		e.regItems(app, t.Items, false, prog, fc, &st)
	case progFlat:
		// every registration spelled with its full path on the root app; a group's middleware is
		// app.Use(full prefix, middleware) at the place where the group is created; a Route()
		// registered from a group is the plain registration of the full path
		var reg func(items []*node, acc string, depth int)
		reg = func(items []*node, acc string, depth int) {
			for _, n := range items {
				if n.T == 'r' {
					p, alt := n.Pat, listAlt
					if depth > 0 {
						p, alt = refJoin(acc, n.Pat), refJoin(acc, listAlt)
					}
					fn := n
					switch n.Kind {
					case kRGET:
						fn = &node{T: 'r', Kind: kGET, Next: n.Next}
					case kRALL:
						fn = &node{T: 'r', Kind: kUSE, Next: n.Next}
					}
					e.addRoute(app, fn, p, alt, id)
					id++
					continue
				}
				nacc := n.Prefix
				if depth > 0 {
					nacc = refJoin(acc, n.Prefix)
				}
				if n.MW && n.T == 'g' {
					st.mw++
					app.Use(nacc, e.handlers[mwOffset+st.mw-1][1])
				}
				if n.T == 's' { // a sub-app mounted again: its items once more, with the same handlers
					if n.ref != nil {
						saved := id
						id = n.ref.start
						reg(n.ref.Items, nacc, depth+1)
						id = saved
					}
					continue
				}
				reg(n.Items, nacc, depth+1)
			}
		}
		reg(t.Items, "", 0)
	case progRoute:
		var reg func(parent fiber.Register, items []*node)
		route := func(parent fiber.Register, p string) fiber.Register {
			if parent == nil {
				return app.Route(p)
			}
			return parent.Route(p)
		}
		reg = func(parent fiber.Register, items []*node) {
			for _, n := range items {
				if n.T == 'r' {
					r := route(parent, n.Pat)
					hd := e.handlers[id][b2i(n.Next)]
					pre := e.handlers[id+preOffset][1]
					id++
					switch n.Kind {
					case kGET, kRGET:
						r.Get(hd)
					case kPOST:
						r.Post(hd)
					case kUSE, kRALL:
						r.All(hd) // Register.All is documented as the middleware (prefix) registration
					case kHEAD:
						r.Head(hd)
					case kPUT:
						r.Put(hd)
					case kDELETE:
						r.Delete(hd)
					case kCONNECT:
						r.Connect(hd)
					case kOPTIONS:
						r.Options(hd)
					case kTRACE:
						r.Trace(hd)
					case kPATCH:
						r.Patch(hd)
					case kADD2:
						r.Add([]string{"GET", "POST"}, hd)
					case kUSEL:
						r.All(hd)
						route(parent, listAlt).All(hd)
					case kGET2:
						r.Get(pre, hd)
					case kUSE2:
						r.All(pre, hd)
					default:
						r.Add(fiber.DefaultMethods, hd)
					}
					continue
				}
				rr := route(parent, n.Prefix)
				if n.MW && n.T == 'g' {
					st.mw++
					rr.All(e.handlers[mwOffset+st.mw-1][1])
				}
				if n.T == 's' {
					if n.ref != nil {
						saved := id
						id = n.ref.start
						reg(rr, n.ref.Items)
						id = saved
					}
					continue
				}
				reg(rr, n.Items)
			}
		}
		reg(nil, t.Items)
	}
	if prog == progMountRebuild {
		app.RebuildTree()
	}
	return app.Handler(), ""
}

func b2i(b bool) int {
	if b {
		return 1
	}
	return 0
}

func panicText(r any) string {
	s := fmt.Sprint(r)
	if i := strings.Index(s, "0x"); i >= 0 {
		s = s[:i]
	}
	if len(s) > 120 {
		s = s[:120]
	}
	return strings.TrimSpace(s)
}

// call runs one request; afterwards e.tr holds the whole observation
// "<trace>|<status>|<Allow>|<body>" and e.rp the Route().Path spellings.
func (e *exec) call(h fasthttp.RequestHandler, method, path string) {
	e.tr = e.tr[:0]
	e.rp = e.rp[:0]
	e.rm = e.rm[:0]
	e.reqs++
	defer func() {
		if r := recover(); r != nil {
			e.tr = append(e.tr[:0], "REQUEST-PANIC "+panicText(r)+"|0||"...)
		}
	}()
	f := &e.fctx
	f.Request.Reset()
	f.Response.Reset()
	f.Request.Header.SetMethod(method)
	f.Request.SetRequestURI(path)
	h(f)
	e.tr = append(e.tr, '|')
	e.tr = strconv.AppendInt(e.tr, int64(f.Response.StatusCode()), 10)
	e.tr = append(e.tr, '|')
	e.tr = append(e.tr, f.Response.Header.Peek("Allow")...)
	e.tr = append(e.tr, '|')
	e.tr = append(e.tr, f.Response.Body()...)
	if formMode {
		e.tr = append(e.tr, " Route().Method="...)
		e.tr = append(e.tr, e.rm...)
	}
}

var twoMethods = []string{"GET", "POST"}
var allMethods = []string{"GET", "HEAD", "POST", "PUT", "DELETE", "CONNECT", "OPTIONS", "TRACE", "PATCH"}

// methods of the requests (every HTTP method in formMode)
var methods = twoMethods

// obsSet stores the observations of one program over the request list.
type obsSet struct {
	buf  []byte
	off  []int
	rbuf []byte
	roff []int
}

func (o *obsSet) reset() {
	o.buf, o.off, o.rbuf, o.roff = o.buf[:0], o.off[:0], o.rbuf[:0], o.roff[:0]
}
func (o *obsSet) add(tr, rp []byte) {
	o.off = append(o.off, len(o.buf))
	o.buf = append(o.buf, tr...)
	o.roff = append(o.roff, len(o.rbuf))
	o.rbuf = append(o.rbuf, rp...)
}
func (o *obsSet) n() int { return len(o.off) }
func (o *obsSet) get(i int) []byte {
	end := len(o.buf)
	if i+1 < len(o.off) {
		end = o.off[i+1]
	}
	return o.buf[o.off[i]:end]
}
func (o *obsSet) getRP(i int) []byte {
	end := len(o.rbuf)
	if i+1 < len(o.roff) {
		end = o.roff[i+1]
	}
	return o.rbuf[o.roff[i]:end]
}

// runAll builds prog and records the observation of every request (paths x methods).
func (e *exec) runAll(t *tree, ti *treeInfo, c rcfg, prog int, plan map[int]int, into *obsSet) {
	into.reset()
	e.inside = ti.inside
	h, p := e.build(t, c, prog, plan)
	for _, path := range ti.paths {
		for _, m := range methods {
			if h == nil {
				into.add([]byte(p+"|0||"), nil)
				continue
			}
			e.call(h, m, path)
			into.add(e.tr, e.rp)
		}
	}
}

func reqAt(ti *treeInfo, i int) (method, path string) {
	return methods[i%len(methods)], ti.paths[i/len(methods)]
}
