package main

import (
	"fmt"
	"io"
	"net"
	"os"
	"strconv"
	"strings"
	"time"

	"github.com/gofiber/fiber/v3"
	fiberlog "github.com/gofiber/fiber/v3/log"
	"github.com/gofiber/fiber/v3/verifrt"
	"github.com/valyala/fasthttp"
)

func init() { fiberlog.SetOutput(io.Discard) }

// ---------------------------------------------------------------------------
// routing configurations (all apps of a tree share one)

type rcfg struct{ CS, Strict, Unesc bool }

var cfgs = func() []rcfg {
	var out []rcfg
	for i := 0; i < 8; i++ {
		out = append(out, rcfg{i&1 != 0, i&2 != 0, i&4 != 0})
	}
	return out
}()

func (c rcfg) fiber() fiber.Config {
	return fiber.Config{CaseSensitive: c.CS, StrictRouting: c.Strict, UnescapePath: c.Unesc}
}

func (c rcfg) String() string {
	b := func(v bool) string {
		if v {
			return "1"
		}
		return "0"
	}
	return "CaseSensitive=" + b(c.CS) + " StrictRouting=" + b(c.Strict) + " UnescapePath=" + b(c.Unesc)
}

// ---------------------------------------------------------------------------
// programs built from one tree

const (
	progMount     = iota // P : mounts as written (sub-app populated, then mounted)
	progMountLate        // P : mounts as written, sub-app mounted first and populated afterwards (the documented example order)
	progGroup            // P' : every mount(prefix, sub) replaced by group(prefix){sub's items}
	progFlat             // P'': P' with every group prefix folded into the full path, registered on the root app
	progRoute            // P''': P' with every group replaced by a Route(prefix) chain: app.Route(a).Route(b).Route(pattern).Get(h)
	progMountCfg         // P : like P(mounts) but every sub-app is created with the OPPOSITE CaseSensitive/StrictRouting of the parent
)

var progNames = [...]string{"P(mounts)", "P(mounts, populated after mounting)", "P'(groups)", "P''(full paths)", "P'''(Route chains)", "P(mounts, sub-apps with another routing config)"}

const maxLeaves = 12

// emptyAsRoot is a diagnostic switch, never set by ./check: P' spells a sub-app's own empty
// pattern as "/" (what the sub-app itself normalises it to). Used once to see whether the
// empty-pattern finding hides anything else.
var emptyAsRoot = os.Getenv("C04_EMPTY_AS_ROOT") == "1"

type fakeConn struct{}

var zeroAddr = &net.TCPAddr{IP: net.IPv4zero}

func (fakeConn) Read([]byte) (int, error)         { return 0, io.EOF }
func (fakeConn) Write(p []byte) (int, error)      { return len(p), nil }
func (fakeConn) Close() error                     { return nil }
func (fakeConn) LocalAddr() net.Addr              { return zeroAddr }
func (fakeConn) RemoteAddr() net.Addr             { return zeroAddr }
func (fakeConn) SetDeadline(time.Time) error      { return nil }
func (fakeConn) SetReadDeadline(time.Time) error  { return nil }
func (fakeConn) SetWriteDeadline(time.Time) error { return nil }

// exec is the single-threaded execution engine of one worker process.
type exec struct {
	tr        []byte // handler trace of the current request
	rp        []byte // Route().Path seen by each handler of the current request
	handlers  [maxLeaves][2]fiber.Handler
	fctx      fasthttp.RequestCtx
	conn      fakeConn
	inside    uint32
	sawInside bool
	sawSecond bool // parameterised-prefix family: a handler read a non-empty *2 or +2

	// map-iteration chooser (verifrt.MapOrder): plan[k] = pick at the k-th choice point
	plan    map[int]int
	pos     int
	arities []int

	built int64
	reqs  int64
}

func newExec() *exec {
	e := &exec{}
	for id := 0; id < maxLeaves; id++ {
		for nx := 0; nx < 2; nx++ {
			e.handlers[id][nx] = e.mkHandler(id, nx == 1)
		}
	}
	e.fctx.Init2(e.conn, nil, false)
	verifrt.SetEnvChooser(func(_ string, n int, _ bool, _ string) int {
		k := e.pos
		e.pos++
		e.arities = append(e.arities, n)
		if v, ok := e.plan[k]; ok && v < n {
			return v
		}
		return 0
	})
	return e
}

var replyBody = func() (out [maxLeaves]string) {
	for i := range out {
		out[i] = "h" + strconv.Itoa(i)
	}
	return
}()

// every handler appends "<id>:<Params(id)>,<Params(t)>,<Params(*)>;" to the trace
func (e *exec) mkHandler(id int, next bool) fiber.Handler {
	return func(c fiber.Ctx) error {
		if richMode {
			e.richTrace(id, c)
			if e.inside&(1<<id) != 0 {
				e.sawInside = true
			}
			if next {
				return c.Next()
			}
			return c.SendString(replyBody[id])
		}
		e.tr = append(e.tr, byte('0'+id), ':')
		e.tr = append(e.tr, c.Params("id")...)
		e.tr = append(e.tr, ',')
		e.tr = append(e.tr, c.Params("t")...)
		e.tr = append(e.tr, ',')
		e.tr = append(e.tr, c.Params("*")...)
		e.tr = append(e.tr, ';')
		e.rp = append(e.rp, c.Route().Path...)
		e.rp = append(e.rp, ';')
		if e.inside&(1<<id) != 0 {
			e.sawInside = true
		}
		if next {
			return c.Next()
		}
		return c.SendString(replyBody[id])
	}
}

// richTrace (parameterised-prefix family) appends every way of reading parameters:
// "<id>:names=<Route().Params joined by '.'>,n.<name>=<Params(name)> for every declared name,
// *1= *2= *3= +1= +2= +3= (positional names), *= += (shorthands), d=<Params of an undeclared name
// with default>, dt=<Params("t", default)>, gi=<fiber.Params[int](c, "id", -1)>;"
func (e *exec) richTrace(id int, c fiber.Ctx) {
	t := append(e.tr, byte('0'+id), ':')
	names := c.Route().Params
	t = append(t, "names="...)
	for i, n := range names {
		if i > 0 {
			t = append(t, '.')
		}
		t = append(t, n...)
	}
	for _, n := range names {
		t = append(t, ",n."...)
		t = append(t, n...)
		t = append(t, '=')
		t = append(t, c.Params(n)...)
	}
	for _, k := range richKeys {
		t = append(t, ',')
		t = append(t, k...)
		t = append(t, '=')
		v := c.Params(k)
		t = append(t, v...)
		if v != "" && (k == "*2" || k == "+2") {
			e.sawSecond = true
		}
	}
	t = append(t, ",d="...)
	t = append(t, c.Params("nosuch", "dflt")...)
	t = append(t, ",dt="...)
	t = append(t, c.Params("t", "dflt")...)
	t = append(t, ",gi="...)
	t = strconv.AppendInt(t, int64(fiber.Params[int](c, "id", -1)), 10)
	t = append(t, ';')
	e.tr = t
	e.rp = append(e.rp, c.Route().Path...)
	e.rp = append(e.rp, ';')
}

var richKeys = []string{"*1", "*2", "*3", "+1", "+2", "+3", "*", "+"}

func addRoute(r fiber.Router, n *node, pat string, h fiber.Handler) {
	switch n.Kind {
	case kGET:
		r.Get(pat, h)
	case kUSE:
		r.Use(pat, h)
	case kPOST:
		r.Post(pat, h)
	default:
		r.All(pat, h)
	}
}

// regItems registers items on r the way program prog spells them (mounts as written / as groups).
func (e *exec) regItems(r fiber.Router, items []*node, subRoot bool, prog int, fc fiber.Config, id *int) {
	for _, n := range items {
		switch {
		case n.T == 'r':
			pat := n.Pat
			if emptyAsRoot && subRoot && prog == progGroup && pat == "" {
				pat = "/" // experiment only (C04_EMPTY_AS_ROOT=1): the other reading of an empty pattern in a sub-app
			}
			addRoute(r, n, pat, e.handlers[*id][b2i(n.Next)])
			*id++
		case n.T == 'g':
			e.regItems(r.Group(n.Prefix), n.Items, false, prog, fc, id)
		case prog == progGroup:
			e.regItems(r.Group(n.Prefix), n.Items, true, prog, fc, id)
		case prog == progMountLate:
			sub := fiber.New(fc)
			r.Use(n.Prefix, sub)
			e.regItems(sub, n.Items, true, prog, fc, id)
		case prog == progMountCfg:
			// the parent's configuration governs mounted routes: the sub-app's own must not matter
			oc := fc
			oc.CaseSensitive, oc.StrictRouting = !fc.CaseSensitive, !fc.StrictRouting
			sub := fiber.New(oc)
			e.regItems(sub, n.Items, true, prog, fc, id)
			r.Use(n.Prefix, sub)
		default:
			sub := fiber.New(fc)
			e.regItems(sub, n.Items, true, prog, fc, id)
			r.Use(n.Prefix, sub)
		}
	}
}

// runPhased runs the two-phase program (t.Late > 0) spelled as prog (progMount or progGroup): the
// items before the split are registered, the application is started (app.Handler()) and serves
// every request once; then the remaining top-level items are registered on the running
// application, app.RebuildTree() is called (docs/api/app.md, dynamic route registration) and
// every request is served again: the observations of this second round are recorded.
func (e *exec) runPhased(t *tree, ti *treeInfo, c rcfg, prog int, into *obsSet) {
	into.reset()
	e.plan, e.pos, e.arities = nil, 0, e.arities[:0]
	e.built++
	e.inside = 0
	fail := func(msg string) {
		for range ti.paths {
			for range methods {
				into.add([]byte(msg+"|0||"), nil)
			}
		}
	}
	var app *fiber.App
	var h fasthttp.RequestHandler
	id := 0
	fc := c.fiber()
	if msg := catch("STARTUP-PANIC ", func() {
		app = fiber.New(fc)
		e.regItems(app, t.Items[:t.split()], false, prog, fc, &id)
		h = app.Handler()
	}); msg != "" {
		fail(msg)
		return
	}
	for _, path := range ti.paths {
		for _, m := range methods {
			e.call(h, m, path)
		}
	}
	if msg := catch("LATE-REGISTRATION-PANIC ", func() {
		e.regItems(app, t.Items[t.split():], false, prog, fc, &id)
		app.RebuildTree()
	}); msg != "" {
		fail(msg)
		return
	}
	e.inside = ti.lateMask(t)
	for _, path := range ti.paths {
		for _, m := range methods {
			e.call(h, m, path)
			into.add(e.tr, e.rp)
		}
	}
}

func catch(prefix string, fn func()) (msg string) {
	defer func() {
		if r := recover(); r != nil {
			msg = prefix + panicText(r)
		}
	}()
	fn()
	return ""
}

// build constructs the program and runs its startup processing; a panic is returned as text.
func (e *exec) build(t *tree, c rcfg, prog int, plan map[int]int) (h fasthttp.RequestHandler, panicked string) {
	e.plan, e.pos, e.arities = plan, 0, e.arities[:0]
	e.built++
	defer func() {
		if r := recover(); r != nil {
			h, panicked = nil, "STARTUP-PANIC "+panicText(r)
		}
	}()
	fc := c.fiber()
	app := fiber.New(fc)
	id := 0
	switch prog {
	case progMount, progMountLate, progGroup, progMountCfg:
		e.regItems(app, t.Items, false, prog, fc, &id)
	case progFlat:
		var reg func(items []*node, acc string, depth int)
		reg = func(items []*node, acc string, depth int) {
			for _, n := range items {
				if n.T == 'r' {
					p := n.Pat
					if depth > 0 {
						p = refJoin(acc, n.Pat)
					}
					addRoute(app, n, p, e.handlers[id][b2i(n.Next)])
					id++
					continue
				}
				nacc := n.Prefix
				if depth > 0 {
					nacc = refJoin(acc, n.Prefix)
				}
				reg(n.Items, nacc, depth+1)
			}
		}
		reg(t.Items, "", 0)
	case progRoute:
		var reg func(parent fiber.Register, items []*node)
		route := func(parent fiber.Register, p string) fiber.Register {
			if parent == nil {
				return app.Route(p)
			}
			return parent.Route(p)
		}
		reg = func(parent fiber.Register, items []*node) {
			for _, n := range items {
				if n.T == 'r' {
					r := route(parent, n.Pat)
					hd := e.handlers[id][b2i(n.Next)]
					id++
					switch n.Kind {
					case kGET:
						r.Get(hd)
					case kPOST:
						r.Post(hd)
					case kUSE:
						r.All(hd) // Register.All is documented as the middleware (prefix) registration
					default:
						r.Add(fiber.DefaultMethods, hd)
					}
					continue
				}
				reg(route(parent, n.Prefix), n.Items)
			}
		}
		reg(nil, t.Items)
	}
	return app.Handler(), ""
}

func b2i(b bool) int {
	if b {
		return 1
	}
	return 0
}

func panicText(r any) string {
	s := fmt.Sprint(r)
	if i := strings.Index(s, "0x"); i >= 0 {
		s = s[:i]
	}
	if len(s) > 120 {
		s = s[:120]
	}
	return strings.TrimSpace(s)
}

// call runs one request; afterwards e.tr holds the whole observation
// "<trace>|<status>|<Allow>|<body>" and e.rp the Route().Path spellings.
func (e *exec) call(h fasthttp.RequestHandler, method, path string) {
	e.tr = e.tr[:0]
	e.rp = e.rp[:0]
	e.reqs++
	defer func() {
		if r := recover(); r != nil {
			e.tr = append(e.tr[:0], "REQUEST-PANIC "+panicText(r)+"|0||"...)
		}
	}()
	f := &e.fctx
	f.Request.Reset()
	f.Response.Reset()
	f.Request.Header.SetMethod(method)
	f.Request.SetRequestURI(path)
	h(f)
	e.tr = append(e.tr, '|')
	e.tr = strconv.AppendInt(e.tr, int64(f.Response.StatusCode()), 10)
	e.tr = append(e.tr, '|')
	e.tr = append(e.tr, f.Response.Header.Peek("Allow")...)
	e.tr = append(e.tr, '|')
	e.tr = append(e.tr, f.Response.Body()...)
}

var methods = []string{"GET", "POST"}

// obsSet stores the observations of one program over the request list.
type obsSet struct {
	buf  []byte
	off  []int
	rbuf []byte
	roff []int
}

func (o *obsSet) reset() {
	o.buf, o.off, o.rbuf, o.roff = o.buf[:0], o.off[:0], o.rbuf[:0], o.roff[:0]
}
func (o *obsSet) add(tr, rp []byte) {
	o.off = append(o.off, len(o.buf))
	o.buf = append(o.buf, tr...)
	o.roff = append(o.roff, len(o.rbuf))
	o.rbuf = append(o.rbuf, rp...)
}
func (o *obsSet) n() int { return len(o.off) }
func (o *obsSet) get(i int) []byte {
	end := len(o.buf)
	if i+1 < len(o.off) {
		end = o.off[i+1]
	}
	return o.buf[o.off[i]:end]
}
func (o *obsSet) getRP(i int) []byte {
	end := len(o.rbuf)
	if i+1 < len(o.roff) {
		end = o.roff[i+1]
	}
	return o.rbuf[o.roff[i]:end]
}

// runAll builds prog and records the observation of every request (paths x methods).
func (e *exec) runAll(t *tree, ti *treeInfo, c rcfg, prog int, plan map[int]int, into *obsSet) {
	into.reset()
	e.inside = ti.inside
	h, p := e.build(t, c, prog, plan)
	for _, path := range ti.paths {
		for _, m := range methods {
			if h == nil {
				into.add([]byte(p+"|0||"), nil)
				continue
			}
			e.call(h, m, path)
			into.add(e.tr, e.rp)
		}
	}
}

func reqAt(ti *treeInfo, i int) (method, path string) {
	return methods[i%len(methods)], ti.paths[i/len(methods)]
}
