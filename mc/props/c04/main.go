// C04 — mounting a sub-app is the same as registering its routes under a group with the mount
// prefix; group / Route() prefixes are the same as spelling the full path.
//
// Differential exploration without a hand-written expectation: every program tree of a bounded
// family is built as P (mounts), P' (mounts replaced by groups), P” (full paths) and P”'
// (Route() chains); every request derived from the tree is sent to all of them under all 8
// routing configurations and the observations (handler trace, Params, status, Allow, body) must
// be equal. The iteration order of the appList maps in mount.go is owned by the harness
// (overlay.spec, verifrt.MapOrder): P is rebuilt under every order that deviates from the
// default in <= 1 (quick) / <= 2 (thorough) picks and must answer identically.
package main

import (
	"bytes"
	"encoding/json"
	"flag"
	"fmt"
	"os"
	"runtime"
	"runtime/debug"
	"runtime/pprof"
	"sort"
	"strings"
	"time"

	"verifmc/core"
)

const nWorkers = 16
const fullShrinkCap = 150

type pendingV struct {
	clause, kind string
	ci           int
	leaf         int
}

type sigInfo struct {
	sig      string
	what     string
	cs       map[string]any
	obs, exp string
}

type worker struct {
	r     *core.Run
	l     *core.Local
	e     *exec
	quick bool

	oG, oP, oL, oF, oR, oD obsSet
	sA, sB, sC             obsSet

	outc [4][4][2]int64

	pending     []pendingV
	seenKinds   map[string]bool
	chainCache  map[string]*sigInfo
	hasMemo     map[string]bool
	bySig       map[string]*sigInfo
	fullShrinks int
	maxPairs    int
	allDev      bool // classification: explore the deviating map orders under every configuration
}

func main() {
	countOnly := flag.Bool("count", false, "print the enumeration sizes and exit")
	only := flag.Int64("only", -1, "evaluate only the tree with this index (debugging), verbose")
	treeFlag := flag.String("show", "", "with -only: also print the observations of every program")
	treeText := flag.String("tree", "", `evaluate the tree given in text form, e.g. [mount("/:t"){GET "/x" reply}], and print every differing request`)
	r := core.Start("C04")
	pol := quickPolicy()
	if !r.Quick() {
		pol = thoroughPolicy()
	}
	if *countOnly {
		total, classes := enumerate(pol, func(int64) bool { return false }, nil)
		for _, c := range classes {
			fmt.Println(c)
		}
		fmt.Println("total trees:", total)
		return
	}
	if *treeText != "" || r.Replay != "" {
		replay(r, *treeText)
		return
	}
	if *only >= 0 {
		debugOne(r, pol, *only, *treeFlag != "")
		return
	}
	if r.IsWorker() {
		if pf := os.Getenv("C04_CPUPROFILE"); pf != "" && r.Worker == 0 {
			f, err := os.Create(pf)
			if err == nil {
				_ = pprof.StartCPUProfile(f)
				defer pprof.StopCPUProfile()
			}
		}
		runWorker(r, pol)
		return
	}
	total, classes := enumerate(pol, func(int64) bool { return false }, nil)
	if crashed := r.SpawnWorkers(nWorkers, []string{"GOMAXPROCS=1"}); len(crashed) > 0 {
		core.Fatal("workers crashed: %v", crashed)
	}
	if r.P.Counters["trees"] != total && len(r.P.Caps) == 0 {
		core.Fatal("enumeration mismatch: workers evaluated %d trees, enumeration has %d", r.P.Counters["trees"], total)
	}
	// anti-vacuity: the mechanisms under test were exercised
	if len(r.P.Caps) == 0 && (r.P.Counters["mount_evaluations_with_inner_handler_run"] == 0 || r.P.Counters["map_order_deviations_run"] == 0 || r.P.Counters["nontrivial"] == 0) {
		core.Fatal("vacuous exploration: no mounted handler ran or no deviating map order was explored: %v", r.P.Counters)
	}
	var classText []string
	for _, c := range classes {
		classText = append(classText, c.String())
	}
	dev := "<= 1 non-default pick, under the all-off and the all-on configuration"
	if !r.Quick() {
		dev = "<= 1 non-default pick under every configuration, <= 2 under the default configuration (at most 40 pairs per tree, nearest choice points first)"
	}
	unspec := r.P.Counters["unspecified_skipped"]
	spell := spellingExamples()
	ev := core.Evidence{
		Level:      "exploration",
		Exhaustive: true,
		Coverage: map[string]any{
			"evaluations":         r.P.Counters["evaluations"],
			"distinct_nontrivial": r.P.Counters["nontrivial"],
			"unspecified_skipped": unspec,
			"unspecified_classes": map[string]any{
				"what":     "Route().Path seen by a handler is spelled differently although trace, Params, status, Allow and body agree (counters 'route-path-spelling <clause> <class>'); not part of the answer to a request, hence not judged",
				"examples": spell,
			},
			"rule": "one evaluation = one (program tree, routing configuration) pair: the tree is built as P (mounts as written; also with the sub-app mounted first and populated afterwards), P' (every mount replaced by a group with the mount prefix at the same position), P'' (every group prefix folded into the full path) and P''' (Route() chains), every request derived from the tree (each full pattern instantiated with v/w, with and without trailing slash, other letter case, %78 for x, below-prefix and glued-suffix paths for middleware, every container prefix with and without slash, '/' and one foreign path) x {GET, POST} is sent to each program and trace+Params+status+Allow+body are compared P~P', P'~P'', P'''~P''; P is also rebuilt under every deviating appList map iteration order (" + dev + ") and compared with the default order. Trees: every skeleton (<= 3 items per level, depth and size bounds below, >= 1 container) x every labelling with the alphabets of its size class; all (tree, configuration) pairs are distinct by construction. An evaluation is non-trivial when, in P', at least one handler registered inside a container ran (the prefix mechanism decided the answer); counted in the loop.",
			"bounds": map[string]any{
				"depth":                fmt.Sprintf("%d (quick tier: depth 2 plus the two-level container letters mount-from-group group(a){mount(b){..}} and mount-in-mount mount(a){mount(b){..}})", pol.depth),
				"max_items_per_level":  3,
				"max_containers":       pol.cMax,
				"max_leaves":           pol.nMax,
				"size_classes":         classText,
				"trees":                total,
				"configs":              len(cfgs),
				"methods":              methods,
				"route_kinds":          kindNames,
				"patterns":             patRank,
				"prefixes":             prefixRank,
				"map_order_deviations": dev,
			},
		},
		Assumptions: []string{
			"handler-level drive (app.Handler() on a reused fasthttp.RequestCtx); fasthttp URI parsing is not re-checked",
			"all apps of a tree share the routing configuration and use default error handlers",
			"reference composition of prefix and path: trailing slashes of the prefix dropped, empty path leaves the prefix unchanged ('/api' + '/v1' = '/api/v1')",
			"Route().Path spelling seen by handlers is compared only when everything else is equal and differences are counted as unspecified (counters route-path-spelling ...), the statement speaks about answers to requests",
			"Register.All (Route(prefix).All) is taken as the middleware registration it is documented to be, i.e. the Route()-chain counterpart of Use",
			"map iteration inside mount.go (mount, Group.mount, appendSubAppLists, processSubAppsRoutes) follows verifrt.MapOrder (keys snapshot before the loop); orders are explored up to the stated number of deviations from the sorted default; generateAppListKeys' range is not owned (its result is sorted and only feeds Render's view lookup)",
			"a violation is attributed to the smallest sub-program that still shows the same kind of difference (greedy minimisation: delete, hoist, mount->group, simpler prefix/leaf); counts are per (tree, configuration, clause, kind of difference)",
		},
		MinOutcomes: 4,
	}
	r.Finish(ev)
}

func newWorker(r *core.Run) *worker {
	w := &worker{r: r, l: core.NewLocal(), e: newExec(), quick: r.Quick(),
		seenKinds: map[string]bool{}, chainCache: map[string]*sigInfo{}, hasMemo: map[string]bool{}, bySig: map[string]*sigInfo{}}
	w.maxPairs = 40
	return w
}

func runWorker(r *core.Run, pol policy) {
	debug.SetGCPercent(100)
	w := newWorker(r)
	limit := 6 * time.Minute
	if !r.Quick() {
		limit = 40 * time.Minute
	}
	deadline := r.Start.Add(limit)
	capped := false
	var n int64
	enumerate(pol, func(idx int64) bool {
		if !r.Shard(int(idx % (1 << 30))) {
			return false
		}
		if capped {
			return false
		}
		n++
		if n%64 == 0 && (time.Now().After(deadline) || r.Expired()) {
			capped = true
			r.Cap("wall-clock limit reached before all trees were explored")
			return false
		}
		return true
	}, func(idx int64, t *tree) {
		w.evalTree(idx, t)
	})
	w.flush()
	r.Merge(w.l.P)
	pprof.StopCPUProfile()
	if pf := os.Getenv("C04_HEAPPROFILE"); pf != "" {
		if f, err := os.Create(pf); err == nil {
			runtime.GC()
			_ = pprof.WriteHeapProfile(f)
			f.Close()
		}
	}
	r.FinishWorker()
}

func (w *worker) flush() {
	st := [4]string{"200", "404", "405", "other"}
	for a := range w.outc {
		for b := range w.outc[a] {
			for c := range w.outc[a][b] {
				if v := w.outc[a][b][c]; v > 0 {
					hs := itoa(b)
					if b == 3 {
						hs = "3+"
					}
					k := fmt.Sprintf("status=%s handlers=%s params=%d", st[a], hs, c)
					w.l.P.Outcomes[k] += v
				}
			}
		}
	}
	w.l.Add("programs_built", w.e.built)
	w.l.Add("requests_run", w.e.reqs)
}

// tally classifies the observable outcome of every request of the reference program P'.
func (w *worker) tally(o *obsSet) {
	for i := 0; i < o.n(); i++ {
		b := o.get(i)
		bar := bytes.IndexByte(b, '|')
		if bar < 0 {
			continue
		}
		tr := b[:bar]
		nh := bytes.Count(tr, []byte{';'})
		if nh > 3 {
			nh = 3
		}
		hp := 0
		if bytes.Count(tr, []byte(":,,;")) < bytes.Count(tr, []byte{';'}) {
			hp = 1 // some handler saw a non-empty parameter
		}
		si := 3
		rest := b[bar+1:]
		switch {
		case bytes.HasPrefix(rest, []byte("200|")):
			si = 0
		case bytes.HasPrefix(rest, []byte("404|")):
			si = 1
		case bytes.HasPrefix(rest, []byte("405|")):
			si = 2
		}
		w.outc[si][nh][hp]++
	}
}

func (w *worker) evalTree(idx int64, t *tree) {
	ti := analyse(t)
	w.l.Add("trees", 1)
	w.pending = w.pending[:0]
	for ci, c := range cfgs {
		w.l.Add("evaluations", 1)
		for k := range w.seenKinds {
			delete(w.seenKinds, k)
		}
		w.e.sawInside = false
		w.e.runAll(t, ti, c, progGroup, nil, &w.oG)
		if w.e.sawInside {
			w.l.Add("nontrivial", 1)
		}
		w.tally(&w.oG)
		if ti.hasMount {
			w.e.sawInside = false
			w.e.runAll(t, ti, c, progMount, nil, &w.oP)
			if w.e.sawInside {
				w.l.Add("mount_evaluations_with_inner_handler_run", 1)
			}
			ar := append([]int(nil), w.e.arities...)
			w.compare(clMount, ci, &w.oP, &w.oG)
			w.e.runAll(t, ti, c, progMountCfg, nil, &w.oD)
			w.compare(clMountCfg, ci, &w.oD, &w.oG)
			w.e.runAll(t, ti, c, progMountLate, nil, &w.oL)
			w.compareLate(ci)
			w.l.Add("mount_evaluations", 1)
			if len(ar) > 0 {
				w.l.Add("mount_evaluations_with_map_choice", 1)
			}
			for _, plan := range w.plans(ar, ci) {
				w.e.runAll(t, ti, c, progMount, plan, &w.oD)
				w.l.Add("map_order_deviations_run", 1)
				w.compare(clMapOrder, ci, &w.oD, &w.oP)
			}
		}
		w.e.runAll(t, ti, c, progFlat, nil, &w.oF)
		w.compare(clFlat, ci, &w.oG, &w.oF)
		w.e.runAll(t, ti, c, progRoute, nil, &w.oR)
		w.compare(clRoute, ci, &w.oR, &w.oF)
	}
	if w.r.Worker <= 0 && idx%40000 == 1600 && len(w.l.P.Samples) < 3 {
		m, p := reqAt(ti, w.oG.n()-1)
		w.l.Sample(map[string]any{"tree": t.String(), "config": cfgs[len(cfgs)-1].String(), "requests": len(ti.paths) * len(methods),
			"paths": ti.paths, "last_request": m + " " + p, "observation_P'": string(w.oG.get(w.oG.n() - 1))})
	}
	for _, p := range w.pending {
		si := w.classify(t, ti, p)
		w.record(si)
	}
}

// plans lists the deviating map orders: every single non-default pick; in the thorough tier,
// under the default configuration, also pairs of picks (bounded per tree).
func (w *worker) plans(ar []int, ci int) []map[int]int {
	var out []map[int]int
	if w.quick && !w.allDev && ci != 0 && ci != len(cfgs)-1 {
		return nil
	}
	for k, n := range ar {
		for a := 1; a < n; a++ {
			out = append(out, map[int]int{k: a})
		}
	}
	if w.quick || ci != 0 {
		return out
	}
	pairs := 0
	for d := 1; d < len(ar); d++ { // nearest choice points first
		for k1 := 0; k1+d < len(ar); k1++ {
			k2 := k1 + d
			for a1 := 1; a1 < ar[k1]; a1++ {
				for a2 := 1; a2 < ar[k2]; a2++ {
					if pairs >= w.maxPairs {
						w.l.Add("map_order_pair_budget_hits", 1)
						return out
					}
					pairs++
					out = append(out, map[int]int{k1: a1, k2: a2})
				}
			}
		}
	}
	return out
}

func (w *worker) compare(clause string, ci int, impl, ref *obsSet) {
	n := impl.n()
	w.l.Add("request_comparisons", int64(n))
	for i := 0; i < n; i++ {
		a, b := impl.get(i), ref.get(i)
		if bytes.Equal(a, b) {
			ra, rb := impl.getRP(i), ref.getRP(i)
			if !bytes.Equal(ra, rb) {
				w.l.Add("unspecified_skipped", 1)
				w.l.Add("route-path-spelling "+clause+" "+spellingClass(string(ra), string(rb)), 1)
			}
			continue
		}
		w.l.Add("mismatching_requests", 1)
		kind, _, leaf := kindOf(parseObs(a), parseObs(b))
		key := clause + "|" + kind
		if w.seenKinds[key] {
			continue
		}
		w.seenKinds[key] = true
		w.pending = append(w.pending, pendingV{clause: clause, kind: kind, ci: ci, leaf: leaf})
	}
}

// compareLate: the program that mounts first and populates afterwards must answer like P'; a
// request is attributed to this clause only when P itself answers it like P' (otherwise the
// mount-vs-group clause already reports the request).
func (w *worker) compareLate(ci int) {
	n := w.oL.n()
	w.l.Add("request_comparisons", int64(n))
	for i := 0; i < n; i++ {
		a := w.oL.get(i)
		if bytes.Equal(a, w.oG.get(i)) || !bytes.Equal(w.oP.get(i), w.oG.get(i)) {
			continue
		}
		w.l.Add("mismatching_requests", 1)
		kind, _, leaf := kindOf(parseObs(a), parseObs(w.oG.get(i)))
		key := clMountLate + "|" + kind
		if w.seenKinds[key] {
			continue
		}
		w.seenKinds[key] = true
		w.pending = append(w.pending, pendingV{clause: clMountLate, kind: kind, ci: ci, leaf: leaf})
	}
}

func (w *worker) record(si *sigInfo) {
	w.l.Violate(si.sig, si.what, si.cs, si.obs, si.exp)
}

// ---------------------------------------------------------------------------
// classification: a violation is attributed to the smallest program that still shows it

type diffHit struct {
	req       string
	impl, ref string
	detail    string
	plan      map[int]int
}

// evalClause runs the two programs of a clause on t and calls fn for every differing request.
func (w *worker) evalClause(t *tree, c rcfg, clause string, fn func(h diffHit, kind string) bool) {
	ti := analyse(t)
	run := func(impl, ref *obsSet, plan map[int]int) bool {
		for i := 0; i < impl.n(); i++ {
			a, b := impl.get(i), ref.get(i)
			if bytes.Equal(a, b) {
				continue
			}
			kind, detail, _ := kindOf(parseObs(a), parseObs(b))
			m, p := reqAt(ti, i)
			if fn(diffHit{req: m + " " + p, impl: string(a), ref: string(b), detail: detail, plan: plan}, kind) {
				return true
			}
		}
		return false
	}
	switch clause {
	case clMount:
		w.e.runAll(t, ti, c, progMount, nil, &w.sA)
		w.e.runAll(t, ti, c, progGroup, nil, &w.sB)
		run(&w.sA, &w.sB, nil)
	case clMountCfg:
		w.e.runAll(t, ti, c, progMountCfg, nil, &w.sA)
		w.e.runAll(t, ti, c, progGroup, nil, &w.sB)
		run(&w.sA, &w.sB, nil)
	case clMountLate:
		w.e.runAll(t, ti, c, progMountLate, nil, &w.sA)
		w.e.runAll(t, ti, c, progGroup, nil, &w.sB)
		w.e.runAll(t, ti, c, progMount, nil, &w.sC)
		for i := 0; i < w.sA.n(); i++ {
			a, b := w.sA.get(i), w.sB.get(i)
			if bytes.Equal(a, b) || !bytes.Equal(w.sC.get(i), b) {
				continue
			}
			kind, detail, _ := kindOf(parseObs(a), parseObs(b))
			m, p := reqAt(ti, i)
			if fn(diffHit{req: m + " " + p, impl: string(a), ref: string(b), detail: detail}, kind) {
				break
			}
		}
	case clFlat:
		w.e.runAll(t, ti, c, progGroup, nil, &w.sA)
		w.e.runAll(t, ti, c, progFlat, nil, &w.sB)
		run(&w.sA, &w.sB, nil)
	case clRoute:
		w.e.runAll(t, ti, c, progRoute, nil, &w.sA)
		w.e.runAll(t, ti, c, progFlat, nil, &w.sB)
		run(&w.sA, &w.sB, nil)
	case clMapOrder:
		w.e.runAll(t, ti, c, progMount, nil, &w.sB)
		ar := append([]int(nil), w.e.arities...)
		ci := 1
		for i, cc := range cfgs {
			if cc == c {
				ci = i
			}
		}
		for _, plan := range w.plans(ar, ci) {
			w.e.runAll(t, ti, c, progMount, plan, &w.sA)
			if run(&w.sA, &w.sB, plan) {
				return
			}
		}
	}
}

func (w *worker) hasKind(t *tree, c rcfg, clause, kind string) bool {
	key := clause + "|" + kind + "|" + c.String() + "|" + t.String()
	if v, ok := w.hasMemo[key]; ok {
		return v
	}
	found := false
	w.evalClause(t, c, clause, func(_ diffHit, k string) bool {
		if k == kind {
			found = true
		}
		return found
	})
	if len(w.hasMemo) < 200000 {
		w.hasMemo[key] = found
	}
	return found
}

// anyKind returns the kind of the first difference the clause shows on t ("" = none).
func (w *worker) anyKind(t *tree, c rcfg, clause string) string {
	kind := ""
	w.evalClause(t, c, clause, func(_ diffHit, k string) bool {
		kind = k
		return true
	})
	return kind
}

func (w *worker) classify(t *tree, ti *treeInfo, p pendingV) *sigInfo {
	c := cfgs[p.ci]
	// 1. small sub-programs: single chains (one leaf with its enclosing containers; the diverging
	//    leaf first), every container chain without leaves, and the tree without its leaves:
	//    the violation is attributed to the first chain that shows the same kind of difference,
	//    else to the first chain that violates the clause at all (its simplest manifestation)
	var chains []*tree
	if p.leaf >= 0 && p.leaf < len(ti.leaves) && len(ti.leaves[p.leaf].chain) > 0 {
		chains = append(chains, chainTree(ti.leaves[p.leaf].chain, ti.leaves[p.leaf].n))
	}
	for i, lf := range ti.leaves {
		if i != p.leaf && len(lf.chain) > 0 {
			chains = append(chains, chainTree(lf.chain, lf.n))
		}
	}
	for _, ch := range ti.containers {
		chains = append(chains, chainTree(ch, nil))
	}
	if len(ti.containers) > 1 && len(ti.leaves) > 0 {
		chains = append(chains, containersOnly(t)) // the container structure alone (startup panics, map orders)
	}
	for _, kind := range []string{p.kind, ""} {
		for _, ct := range chains {
			key := p.clause + "|" + kind + "|" + itoa(p.ci) + "|" + ct.String()
			si, ok := w.chainCache[key]
			if !ok {
				k := kind
				if k == "" {
					k = w.anyKind(ct, c, p.clause)
				}
				if k != "" && w.hasKind(ct, c, p.clause, k) {
					si = w.minimise(ct, c, p.clause, k)
				}
				w.chainCache[key] = si
			}
			if si != nil {
				return si
			}
		}
	}
	// 2. the violation needs several items: minimise the whole tree (bounded number of times)
	if w.fullShrinks >= fullShrinkCap {
		return &sigInfo{sig: p.clause + " " + p.kind + " (needs several sibling items; not minimised after " + itoa(fullShrinkCap) + " minimisations per worker)",
			what: "further violations of this clause and kind that need more than one leaf were not minimised"}
	}
	w.fullShrinks++
	return w.minimise(t, c, p.clause, p.kind)
}

func (w *worker) minimise(t *tree, c rcfg, clause, kind string) *sigInfo {
	cur := t
	for progress := true; progress; {
		progress = false
		for _, cand := range cur.candidates() {
			if w.hasKind(cand, c, clause, kind) {
				cur, progress = cand, true
				break
			}
		}
	}
	mkey := clause + "|" + kind + "|" + cur.String()
	if si, ok := w.bySig[mkey]; ok {
		return si
	}
	var fail []rcfg
	w.allDev = true
	for _, cc := range cfgs {
		if w.hasKind(cur, cc, clause, kind) {
			fail = append(fail, cc)
		}
	}
	w.allDev = false
	if len(fail) == 0 { // cannot happen when executions are deterministic
		core.Fatal("harness nondeterminism: minimal tree %s no longer shows %s %s", cur, clause, kind)
	}
	var hit *diffHit
	w.evalClause(cur, fail[0], clause, func(h diffHit, k string) bool {
		if k == kind {
			hit = &h
			return true
		}
		return false
	})
	parts := []string{clause}
	if clause == clMount || clause == clMountCfg || clause == clMountLate || clause == clMapOrder {
		parts = append(parts, mountClass(cur))
	}
	parts = append(parts, kind)
	if hit.detail != "" {
		parts = append(parts, hit.detail)
	}
	parts = append(parts, "min="+cur.String(), "cfg="+cfgConstraint(fail))
	pair := map[string]string{
		clMount:     progNames[progMount] + " vs " + progNames[progGroup],
		clMountLate: progNames[progMountLate] + " vs " + progNames[progGroup],
		clMountCfg:  progNames[progMountCfg] + " vs " + progNames[progGroup],
		clMapOrder:  progNames[progMount] + " under a deviating appList map order vs the default order",
		clFlat:      progNames[progGroup] + " vs " + progNames[progFlat],
		clRoute:     progNames[progRoute] + " vs " + progNames[progFlat],
	}[clause]
	cs := map[string]any{
		"minimal_tree":    cur.String(),
		"program_P":       strings.Split(strings.TrimSpace(cur.goProgram()), "\n"),
		"config":          fail[0].String(),
		"failing_configs": len(fail),
		"request":         hit.req,
		"compared":        pair,
		"observation":     "<handler id>:<Params(id)>,<Params(t)>,<Params(*)>; ... |status|Allow|body  (observed = first program of 'compared', expected = second; the clause requires them to be equal)",
	}
	if hit.plan != nil {
		var ks []int
		for k := range hit.plan {
			ks = append(ks, k)
		}
		sort.Ints(ks)
		var ps []string
		for _, k := range ks {
			ps = append(ps, fmt.Sprintf("choice#%d=pick%d", k, hit.plan[k]))
		}
		cs["map_order_plan"] = strings.Join(ps, ",")
	}
	si := &sigInfo{sig: strings.Join(parts, " "), what: "request answered differently: " + pair, cs: cs, obs: hit.impl, exp: hit.ref}
	w.bySig[mkey] = si
	return si
}

// replay evaluates one tree (from -tree or from the minimal_tree of a replay file) under every
// configuration and clause and prints every differing request; exit 1 when a clause is violated.
func replay(r *core.Run, text string) {
	if text == "" {
		b, err := os.ReadFile(r.Replay)
		if err != nil {
			core.Fatal("replay: %v", err)
		}
		var v struct {
			Case struct {
				MinimalTree string `json:"minimal_tree"`
			} `json:"case"`
		}
		if err := json.Unmarshal(b, &v); err != nil || v.Case.MinimalTree == "" {
			core.Fatal("replay: no minimal_tree in %s", r.Replay)
		}
		text = v.Case.MinimalTree
	}
	t, err := parseTree(text)
	if err != nil {
		core.Fatal("%v", err)
	}
	w := newWorker(r)
	w.allDev = true
	fmt.Println("tree:", t)
	fmt.Print(t.goProgram())
	bad := 0
	for _, c := range cfgs {
		for _, clause := range []string{clMount, clMountCfg, clMountLate, clMapOrder, clFlat, clRoute} {
			w.evalClause(t, c, clause, func(h diffHit, kind string) bool {
				bad++
				fmt.Printf("%s | %s | %s %s | %s\n    first : %s\n    second: %s\n", c, clause, kind, h.detail, h.req, h.impl, h.ref)
				return false
			})
		}
	}
	if bad > 0 {
		fmt.Printf("VIOLATION reproduced: %d differing (configuration, clause, request) triples\n", bad)
		os.Exit(1)
	}
	fmt.Println("no difference")
	os.Exit(0)
}

// spellingExamples illustrates the unspecified Route().Path spelling classes on two fixed programs.
func spellingExamples() []map[string]string {
	e := newExec()
	var out []map[string]string
	for _, text := range []string{`[mount("/API"){GET "/x" reply}]`, `[mount("/api"){USE "" reply}]`} {
		t, err := parseTree(text)
		if err != nil {
			continue
		}
		ti := analyse(t)
		var a, b obsSet
		e.runAll(t, ti, cfgs[0], progMount, nil, &a)
		e.runAll(t, ti, cfgs[0], progGroup, nil, &b)
		for i := 0; i < a.n(); i++ {
			if bytes.Equal(a.get(i), b.get(i)) && !bytes.Equal(a.getRP(i), b.getRP(i)) {
				m, p := reqAt(ti, i)
				out = append(out, map[string]string{"tree": text, "config": cfgs[0].String(), "request": m + " " + p,
					"Route().Path in P (mount)": string(a.getRP(i)), "Route().Path in P' (group)": string(b.getRP(i)),
					"class": spellingClass(string(a.getRP(i)), string(b.getRP(i)))})
				break
			}
		}
	}
	return out
}

// debugOne evaluates one tree verbosely.
func debugOne(r *core.Run, pol policy, only int64, show bool) {
	w := newWorker(r)
	enumerate(pol, func(idx int64) bool { return idx == only }, func(idx int64, t *tree) {
		fmt.Println("tree", idx, t)
		fmt.Print(t.goProgram())
		ti := analyse(t)
		fmt.Println("paths:", ti.paths)
		if show {
			for _, c := range cfgs {
				for prog := progMount; prog <= progRoute; prog++ {
					var o obsSet
					w.e.runAll(t, ti, c, prog, nil, &o)
					for i := 0; i < o.n(); i++ {
						m, p := reqAt(ti, i)
						fmt.Printf("%s | %-40s | %s %-14s -> %s   [%s]\n", c, progNames[prog], m, p, o.get(i), o.getRP(i))
					}
				}
			}
		}
		w.evalTree(idx, t)
		for s, v := range w.l.P.Violations {
			fmt.Println("VIOLATION", s, v.Count)
		}
		for k, v := range w.l.P.Counters {
			fmt.Println("counter", k, v)
		}
	})
	os.Exit(0)
}
