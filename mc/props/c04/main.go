// C04 — mounting a sub-app is the same as registering its routes under a group with the mount
// prefix; group / Route() prefixes are the same as spelling the full path.
//
// Differential exploration without a hand-written expectation: every program tree of a bounded
// family is built as P (mounts), P' (mounts replaced by groups), P” (full paths) and P”'
// (Route() chains); every request derived from the tree is sent to all of them under all 8
// routing configurations and the observations (handler trace, Params, status, Allow, body) must
// be equal. The iteration order of the appList maps in mount.go is owned by the harness
// (overlay.spec, verifrt.MapOrder): P is rebuilt under every order that deviates from the
// default in <= 1 (quick) / <= 2 (thorough) picks and must answer identically.
//
// Program steps after start-up (late-registration family, enum.go): trees with >= 2 top-level
// items, >= 1 mount and leaf letters that include a verb other than GET are also run as two-phase
// programs, one per split of the top-level sequence: the first part is registered, the application
// is started and serves every request once, then the second part (routes of every kind, groups of
// routes) is registered on the running root app, app.RebuildTree() is called and every
// request is served again. P (mounts) and P' (groups) are built with the same step sequence and
// their second-round observations must be equal (clause late-registration-mount-vs-group).
// Splits whose late part contains a mount are run and classified but NOT judged: mounting a sub-app
// on a running application is specified neither by the statement nor by the docs.
//
// Prefixes with every parameter kind (parameterised-prefix family, enum.go): a third family of
// trees (depth 3) whose mount/group prefixes carry named, optional, <int>-constrained, wildcard
// and greedy parameters (several of them, constants after them) and whose routes have parameters
// of the same and of other kinds runs through all clauses in richMode: every parameter position
// of a request has its own value and every handler reports Route().Params, Params(name) for each
// declared name, the positional names *1.. / +1.., the shorthands * and +, and Params with default.
//
// Every way of registering (registration-forms family, enum.go): a fourth family spells the
// registrations in the documented forms the other families never use - the verb-specific methods,
// several methods in one Add, Use with a list of prefixes, several handlers in one registration,
// Route() obtained from a group or a sub-app, groups created with a middleware (also nested in groups
// and sub-apps), prefixes and patterns without the leading slash - and sends requests of every
// HTTP method (formMode; handlers also report Route().Method).
//
// Patterns and prefixes of every shape (pattern-shape family, enum.go): a fifth family, explored
// like the third one, with escaped special characters, custom constraints (registered on every
// application of a program), several segments, trailing slashes, a parameter glued to a constant
// and spellings without the leading slash, in prefixes and in the routes below them.
package main

import (
	"bytes"
	"encoding/json"
	"flag"
	"fmt"
	"os"
	"runtime"
	"runtime/debug"
	"runtime/pprof"
	"sort"
	"strings"
	"syscall"
	"time"

	"verifmc/core"
)

const nWorkers = 16

// diagnostic switches, never set by ./check: explore one of the added families only
// (C04_ONLY_LATE=1: the late-registration family; C04_ONLY_PARAMS=1: the parameterised-prefix family).
var onlyLate = os.Getenv("C04_ONLY_LATE") == "1"
var onlyParams = os.Getenv("C04_ONLY_PARAMS") == "1"
var onlyForms = os.Getenv("C04_ONLY_FORMS") == "1"   // the registration-forms family
var onlyShapes = os.Getenv("C04_ONLY_SHAPES") == "1" // the pattern-shape family
var onlyShared = os.Getenv("C04_ONLY_SHARED") == "1" // the shared sub-app family
var onlyOne = onlyLate || onlyParams || onlyForms || onlyShapes || onlyShared

// skipFamily tells whether a diagnostic switch excludes the family whose own switch is mine.
func skipFamily(mine bool) bool { return onlyOne && !mine }

const fullShrinkCap = 150

type pendingV struct {
	clause, kind string
	ci           int
	leaf         int
	late         int // late-registration clause: number of top-level items registered after start-up
}

type sigInfo struct {
	sig      string
	what     string
	cs       map[string]any
	obs, exp string
}

type worker struct {
	r     *core.Run
	l     *core.Local
	e     *exec
	quick bool

	oG, oP, oL, oF, oR, oD obsSet
	oQ, oH                 obsSet // two-phase programs: P (mounts) and P' (groups)
	sA, sB, sC, sD         obsSet

	outc [4][4][2]int64

	pending       []pendingV
	seenKinds     map[string]bool
	chainCache    map[string]*sigInfo
	hasMemo       map[string]bool
	bySig         map[string]*sigInfo
	fullShrinks   int
	maxPairs      int
	lateSamples   int
	richSamples   int
	formSamples   int
	sharedSamples int
	shapeSamples  int
	pre           string // counter prefix of the family being explored ("" = first family)
	cfgSel        []int  // configurations evaluated by evalTree (nil = all)
	mixedAt       int    // request index of the last two-phase run at which a spliced and a late handler ran (-1 = none)
	allDev        bool   // classification: explore the deviating map orders under every configuration
}

func main() {
	countOnly := flag.Bool("count", false, "print the enumeration sizes and exit")
	only := flag.Int64("only", -1, "evaluate only the tree with this index (debugging), verbose")
	treeFlag := flag.String("show", "", "with -only: also print the observations of every program")
	treeText := flag.String("tree", "", `evaluate the tree given in text form, e.g. [mount("/:t"){GET "/x" reply}], and print every differing request`)
	r := core.Start("C04")
	pol, lpol, rpol := quickPolicy(), quickLatePolicy(), quickRichPolicy()
	fpol, spol, hpol := quickFormPolicy(), quickShapePolicy(), quickSharedPolicy()
	if !r.Quick() {
		pol, lpol, rpol = thoroughPolicy(), thoroughLatePolicy(), thoroughRichPolicy()
		fpol, spol, hpol = thoroughFormPolicy(), thoroughShapePolicy(), thoroughSharedPolicy()
	}
	if *countOnly {
		total, classes := enumerate(pol, func(int64) bool { return false }, nil)
		for _, c := range classes {
			fmt.Println(c)
		}
		fmt.Println("total trees:", total)
		ltotal, lclasses := enumerate(lpol, func(int64) bool { return false }, nil)
		fmt.Println("late-registration family:")
		for _, c := range lclasses {
			fmt.Println(c)
		}
		fmt.Println("total trees:", ltotal)
		rtotal, rclasses := enumerate(rpol, func(int64) bool { return false }, nil)
		fmt.Println("parameterised-prefix family:")
		for _, c := range rclasses {
			fmt.Println(c, "x", len(rpol.cfgsFor(c.C, c.N)), "configurations")
		}
		fmt.Println("total trees:", rtotal)
		for _, fam := range []struct {
			name string
			pol  policy
		}{{"registration-forms family:", fpol}, {"pattern-shape family:", spol}, {"shared sub-app family:", hpol}} {
			total, classes := enumerate(fam.pol, func(int64) bool { return false }, nil)
			fmt.Println(fam.name)
			ev := 0
			for _, c := range classes {
				fmt.Println(c, "x", len(fam.pol.cfgsFor(c.C, c.N)), "configurations")
				ev += int(c.Trees) * len(fam.pol.cfgsFor(c.C, c.N))
			}
			fmt.Println("total trees:", total, "evaluations:", ev)
		}
		return
	}
	if *treeText != "" || r.Replay != "" {
		replay(r, *treeText)
		return
	}
	if *only >= 0 {
		debugOne(r, pol, *only, *treeFlag != "")
		return
	}
	if r.IsWorker() {
		if pf := os.Getenv("C04_CPUPROFILE"); pf != "" && r.Worker == 0 {
			f, err := os.Create(pf)
			if err == nil {
				_ = pprof.StartCPUProfile(f)
				defer pprof.StopCPUProfile()
			}
		}
		runWorker(r, pol, lpol, rpol, fpol, spol, hpol)
		return
	}
	total, classes := enumerate(pol, func(int64) bool { return false }, nil)
	ltotal, lclasses := enumerate(lpol, func(int64) bool { return false }, nil)
	rtotal, rclasses := enumerate(rpol, func(int64) bool { return false }, nil)
	ftotal, fclasses := enumerate(fpol, func(int64) bool { return false }, nil)
	stotal, sclasses := enumerate(spol, func(int64) bool { return false }, nil)
	htotal, hclasses := enumerate(hpol, func(int64) bool { return false }, nil)
	if crashed := r.SpawnWorkers(nWorkers, []string{"GOMAXPROCS=1"}); len(crashed) > 0 {
		core.Fatal("workers crashed: %v", crashed)
	}
	if r.P.Counters["trees"] != total && len(r.P.Caps) == 0 && !onlyOne {
		core.Fatal("enumeration mismatch: workers evaluated %d trees, enumeration has %d", r.P.Counters["trees"], total)
	}
	if r.P.Counters["late_family_trees"] != ltotal && len(r.P.Caps) == 0 && !skipFamily(onlyLate) {
		core.Fatal("enumeration mismatch: workers evaluated %d trees of the late-registration family, enumeration has %d", r.P.Counters["late_family_trees"], ltotal)
	}
	if r.P.Counters["forms_trees"] != ftotal && len(r.P.Caps) == 0 && !skipFamily(onlyForms) {
		core.Fatal("enumeration mismatch: workers evaluated %d trees of the registration-forms family, enumeration has %d", r.P.Counters["forms_trees"], ftotal)
	}
	if r.P.Counters["shared_trees"] != htotal && len(r.P.Caps) == 0 && !skipFamily(onlyShared) {
		core.Fatal("enumeration mismatch: workers evaluated %d trees of the shared sub-app family, enumeration has %d", r.P.Counters["shared_trees"], htotal)
	}
	if len(r.P.Caps) == 0 && !skipFamily(onlyShared) && (r.P.Counters["shared_nontrivial"] == 0 || r.P.Counters["shared_evaluations_answering_under_both_mounts_of_one_subapp"] == 0) {
		core.Fatal("vacuous exploration: no sub-app of the shared sub-app family answered under both of its mounts: %v", r.P.Counters)
	}
	if r.P.Counters["shape_trees"] != stotal && len(r.P.Caps) == 0 && !skipFamily(onlyShapes) {
		core.Fatal("enumeration mismatch: workers evaluated %d trees of the pattern-shape family, enumeration has %d", r.P.Counters["shape_trees"], stotal)
	}
	if len(r.P.Caps) == 0 && !skipFamily(onlyForms) && (r.P.Counters["forms_nontrivial"] == 0 || r.P.Counters["forms_evaluations_running_an_extra_handler_or_group_middleware"] == 0) {
		core.Fatal("vacuous exploration: no group middleware / extra handler of the registration-forms family ran: %v", r.P.Counters)
	}
	if len(r.P.Caps) == 0 && !skipFamily(onlyShapes) && (r.P.Counters["shape_nontrivial"] == 0 || r.P.Counters["shape_evaluations_consulting_the_custom_constraint"] == 0) {
		core.Fatal("vacuous exploration: the custom constraint of the pattern-shape family was never consulted: %v", r.P.Counters)
	}
	if r.P.Counters["param_trees"] != rtotal && len(r.P.Caps) == 0 && !skipFamily(onlyParams) {
		core.Fatal("enumeration mismatch: workers evaluated %d trees of the parameterised-prefix family, enumeration has %d", r.P.Counters["param_trees"], rtotal)
	}
	if len(r.P.Caps) == 0 && !skipFamily(onlyParams) && (r.P.Counters["param_nontrivial"] == 0 || r.P.Counters["param_evaluations_reading_a_second_wildcard_or_plus_value"] == 0) {
		core.Fatal("vacuous exploration: no handler of the parameterised-prefix family read a second wildcard/plus value: %v", r.P.Counters)
	}
	if len(r.P.Caps) == 0 && !skipFamily(onlyLate) && (r.P.Counters["late_evaluations"] == 0 || r.P.Counters["late_nontrivial"] == 0 || r.P.Counters["late_evaluations_with_spliced_and_late_handler_in_one_request"] == 0) {
		core.Fatal("vacuous exploration: no two-phase program ran a handler registered after start-up: %v", r.P.Counters)
	}
	// anti-vacuity: the mechanisms under test were exercised
	if len(r.P.Caps) == 0 && !onlyOne && (r.P.Counters["mount_evaluations_with_inner_handler_run"] == 0 || r.P.Counters["map_order_deviations_run"] == 0 || r.P.Counters["nontrivial"] == 0) {
		core.Fatal("vacuous exploration: no mounted handler ran or no deviating map order was explored: %v", r.P.Counters)
	}
	var classText, lclassText []string
	for _, c := range classes {
		classText = append(classText, c.String())
	}
	for _, c := range lclasses {
		lclassText = append(lclassText, c.String())
	}
	var rclassText []string
	for _, c := range rclasses {
		rclassText = append(rclassText, fmt.Sprintf("%s x %d configurations", c, len(rpol.cfgsFor(c.C, c.N))))
	}
	var hclassText []string
	for _, c := range hclasses {
		hclassText = append(hclassText, fmt.Sprintf("%s x %d configurations", c, len(hpol.cfgsFor(c.C, c.N))))
	}
	var fclassText, sclassText []string
	for _, c := range fclasses {
		fclassText = append(fclassText, fmt.Sprintf("%s x %d configurations", c, len(fpol.cfgsFor(c.C, c.N))))
	}
	for _, c := range sclasses {
		sclassText = append(sclassText, fmt.Sprintf("%s x %d configurations", c, len(spol.cfgsFor(c.C, c.N))))
	}
	var lcfgText []string
	for _, ci := range lpol.phasedCfgs {
		lcfgText = append(lcfgText, cfgs[ci].String())
	}
	dev := "<= 1 non-default pick, under the all-off and the all-on configuration"
	if !r.Quick() {
		dev = "<= 1 non-default pick under every configuration, <= 2 under the default configuration (at most 40 pairs per tree, nearest choice points first)"
	}
	unspec := r.P.Counters["unspecified_skipped"]
	spell := spellingExamples()
	ev := core.Evidence{
		Level:      "exploration",
		Exhaustive: true,
		Coverage: map[string]any{
			"evaluations":         r.P.Counters["evaluations"] + r.P.Counters["late_evaluations"] + r.P.Counters["param_evaluations"] + r.P.Counters["forms_evaluations"] + r.P.Counters["shape_evaluations"] + r.P.Counters["shared_evaluations"],
			"distinct_nontrivial": r.P.Counters["nontrivial"] + r.P.Counters["late_nontrivial"] + r.P.Counters["param_nontrivial"] + r.P.Counters["forms_nontrivial"] + r.P.Counters["shape_nontrivial"] + r.P.Counters["shared_nontrivial"],
			"unspecified_skipped": unspec,
			"unspecified_classes": map[string]any{
				"what":       "Route().Path seen by a handler is spelled differently although trace, Params, status, Allow and body agree (counters 'route-path-spelling <clause> <class>'); not part of the answer to a request, hence not judged",
				"examples":   spell,
				"late_mount": "two-phase programs whose late part contains a mount (plain, from a group, or nested): neither the statement nor the docs (docs/api/app.md RebuildTree: dynamic registration of routes, 'with caution', development mode) say anything about mounting a sub-app on a running application; such programs are run, classified (outcomes 'unspecified: sub-app mounted after start-up ...', counters late_mount_after_startup_programs_*) and their second-round requests counted in unspecified_skipped, but never judged",
			},
			"rule": "one evaluation = one (program tree, routing configuration) pair: the tree is built as P (mounts as written; also with the sub-app mounted first and populated afterwards), P' (every mount replaced by a group with the mount prefix at the same position), P'' (every group prefix folded into the full path) and P''' (Route() chains), every request derived from the tree (each full pattern instantiated with v/w, with and without trailing slash, other letter case, %78 for x, below-prefix and glued-suffix paths for middleware, every container prefix with and without slash, '/' and one foreign path) x {GET, POST} is sent to each program and trace+Params+status+Allow+body are compared P~P', P'~P'', P'''~P''; P is also rebuilt under every deviating appList map iteration order (" + dev + ") and compared with the default order. Trees: every skeleton (<= 3 items per level, depth and size bounds below, >= 1 container) x every labelling with the alphabets of its size class; all (tree, configuration) pairs are distinct by construction. An evaluation is non-trivial when, in P', at least one handler registered inside a container ran (the prefix mechanism decided the answer); counted in the loop. " +
				"Parameterised-prefix family (prefixes with every parameter kind): a further evaluation = one (tree, configuration) pair of a third family whose container prefixes carry named, optional, <int>-constrained, wildcard and greedy parameters, several of them and constants after them (on mounts and groups, nested up to two deep; the full-path and Route()-chain programs spell the same prefixes at their levels) and whose routes and middleware have parameters of the same and of other kinds; all clauses of the first family are evaluated, with requests that give every parameter position its own value and handlers that report every way of reading parameters (bounds.parameterised_prefix_family); non-trivial as in the first family. " +
				"Registration-forms family (every way of registering): a further evaluation = one (tree, configuration) pair of a fourth family whose routes, middleware and groups are registered in the documented forms the other families never use (bounds.registration_forms_family): all clauses of the first family are evaluated, the full-path program spells a group's middleware as app.Use(full prefix, mw) where the group is created and a Route() obtained from a group as the plain registration of the full path, the Route()-chain program uses the Register methods of the same names; requests of every HTTP method; handlers also report Route().Method; non-trivial as in the first family. " +
				"Pattern-shape family (patterns and prefixes of every shape): a further evaluation = one (tree, configuration) pair of a fifth family explored like the parameterised-prefix family with the letters of bounds.pattern_shape_family (escaped special characters, a custom constraint registered on every application, several segments, trailing slash, parameter glued to a constant, no leading slash); non-trivial as in the first family. " +
				"Shared sub-app family (one sub-app mounted at several places): a further evaluation = one (tree, configuration) pair of a sixth family in which one sub-app object is mounted twice (again(prefix) = the sub-app of the closest preceding sibling mount mounted once more; bounds.shared_subapp_family); the group spelling registers the sub-app's items once per mount with the same handlers; all clauses of the first family; non-trivial as in the first family. " +
				"Late-registration family (program steps after start-up): a further evaluation = one (two-phase program, routing configuration) pair, where a two-phase program is a tree of the late-registration family (>= 2 top-level items, >= 1 mount, leaf letters with the verb POST besides GET/USE/ALL) together with a split of its top-level sequence into a non-empty part registered before start-up and a non-empty part (routes of every kind and groups of routes; splits whose late part contains a mount are unspecified and not judged, see unspecified_classes) registered on the root app after app.Handler() ran the start-up pass and every request was served once; app.RebuildTree() follows and every request is served again; the second-round observations of P (mounts) and P' (groups, same step sequence) must be equal (requests on which the one-phase P and P' already differ are left to the mount-vs-group clause, which is also evaluated on every tree of this family under all configurations). Such an evaluation is non-trivial when, in P', a handler registered after start-up ran in the second round; counted in the loop.",
			"bounds": map[string]any{
				"depth":                fmt.Sprintf("%d (quick tier: depth 2 plus the two-level container letters mount-from-group group(a){mount(b){..}} and mount-in-mount mount(a){mount(b){..}})", pol.depth),
				"max_items_per_level":  3,
				"max_containers":       pol.cMax,
				"max_leaves":           pol.nMax,
				"size_classes":         classText,
				"trees":                total,
				"configs":              len(cfgs),
				"methods":              methods,
				"route_kinds":          kindNames,
				"patterns":             patRank,
				"prefixes":             prefixRank,
				"map_order_deviations": dev,
				"parameterised_prefix_family": map[string]any{
					"size_classes": rclassText,
					"trees":        rtotal,
					"depth":        rpol.depth,
					"prefixes":     richPrefixOrder,
					"leaf_letters": "kinds GET, USE, ALL x patterns '/*', '/+', '/:id', '/:id?', '/:id<int>', '/:t' (same name as the prefix parameter), '/o/*', '/x', '/' x reply/next (the first n of a fixed order per size class)",
					"requests":     "every full pattern and container prefix instantiated with a distinct value per parameter position (a, b, c, ...; digits for <int>): one segment per parameter, two segments per wildcard/plus, optional parameters absent, letters for <int>; plus trailing slash, upper case, below-prefix and glued-suffix paths, '/' and one foreign path; x {GET, POST}",
					"observation":  "per handler: Route().Params, Params(name) for every declared name, Params of *1 *2 *3 +1 +2 +3, the shorthands * and +, Params with default for an undeclared name and for t, fiber.Params[int](c, \"id\", -1); then status, Allow, body",
				},
				"registration_forms_family": map[string]any{
					"size_classes":      fclassText,
					"trees":             ftotal,
					"depth":             "2 plus the two-level letters group(a +mw){mount(b){..}}, mount(a){group(b +mw){..}}, group(a){group(b +mw){..}}, mount-from-group and mount-in-mount spelled without leading slashes",
					"container_letters": "{mount, group created with a middleware (router.Group(prefix, mw)), plain group} x prefixes '/api', 'api' (no leading slash), '/:t', '/' + the two-level letters",
					"leaf_letters":      "forms USE-LIST (Use([]string{pattern, '/y'}, h)), GET-2H / USE-2H (two handlers in one registration), GET+POST (Add with two methods), ROUTE.GET / ROUTE.ALL (router.Route(pattern).Get / .All from the enclosing group or sub-app), Head, Post, Put, Delete, Connect, Options, Trace, Patch, Get, Use, All x patterns '/x', 'x' (no leading slash), '/', '/:id' x reply/next (the first n of a fixed order per size class)",
					"methods":           allMethods,
					"observation":       "per handler: id and Params(id), Params(t), Params(*), Route().Method; then status, Allow, body",
				},
				"shared_subapp_family": map[string]any{
					"size_classes":      hclassText,
					"trees":             htotal,
					"container_letters": "mount(p1){..} directly followed by again(p2) for every pair of the prefixes '/api', '/', '/:t' (also p1 = p2), four pairs with again(p2) after the remaining items of the list; trees with two container letters (quick tier: five + two of those pairs) also plain mounts and groups over the same prefixes (the shared sub-app inside another sub-app or group, or with a mount or group of its own)",
					"leaf_letters":      "as in the first family (the first n of its order per size class)",
				},
				"pattern_shape_family": map[string]any{
					"size_classes": sclassText,
					"trees":        stotal,
					"depth":        spol.depth,
					"prefixes":     shapePrefixOrder,
					"leaf_letters": "kinds GET, USE, ALL x patterns '/:id<odd>' (custom constraint), '/a\\:b' and '/x\\*' (escaped special characters), 'x' (no leading slash), '/x/y', '/x/', '/:id<odd>/z', '/v:id', '/:id', '/x' x reply/next (the first n of a fixed order per size class)",
					"requests":     "as in the parameterised-prefix family; a parameter with the custom constraint gets an odd digit, an even digit (constraint fails) and a letter; escape characters are removed from the request path",
					"constraint":   "every application of a program (root and sub-apps) registers the custom constraint 'odd' with RegisterCustomConstraint",
				},
				"late_registration_family": map[string]any{
					"size_classes":         lclassText,
					"trees":                ltotal,
					"leaf_letters":         "kinds GET, POST, USE, ALL x patterns '', '/', '/x', '/:id', '/*' x reply/next (the first n of a fixed order per size class)",
					"splits":               "every split of the top-level item sequence with >= 1 item before and >= 1 item after start-up",
					"configs_of_two_phase": lcfgText,
					"refresh":              "app.RebuildTree() after the late registrations (docs/api/app.md)",
				},
			},
		},
		Assumptions: []string{
			"handler-level drive (app.Handler() on a reused fasthttp.RequestCtx); fasthttp URI parsing is not re-checked",
			"all apps of a tree share the routing configuration and use default error handlers",
			"reference composition of prefix and path: trailing slashes of the prefix dropped, empty path leaves the prefix unchanged ('/api' + '/v1' = '/api/v1')",
			"Route().Path spelling seen by handlers is compared only when everything else is equal and differences are counted as unspecified (counters route-path-spelling ...), the statement speaks about answers to requests",
			"Register.All (Route(prefix).All) is taken as the middleware registration it is documented to be, i.e. the Route()-chain counterpart of Use",
			"map iteration inside mount.go (mount, Group.mount, appendSubAppLists, processSubAppsRoutes) follows verifrt.MapOrder (keys snapshot before the loop); orders are explored up to the stated number of deviations from the sorted default; generateAppListKeys' range is not owned (its result is sorted and only feeds Render's view lookup)",
			"registration after start-up is judged for routes and groups of routes only (documented: app.RebuildTree()); a sub-app mounted after start-up is documented nowhere and is treated as unspecified",
			"two-phase programs: start-up is app.Handler() followed by one pass over the whole request list; late items are registered on the root app only (not on groups or sub-apps created before start-up); the routing tree is refreshed with app.RebuildTree() and the request handler obtained at start-up keeps being used",
			"a violation is attributed to the smallest sub-program that still shows the same kind of difference (greedy minimisation: delete, hoist, mount->group, simpler prefix/leaf); counts are per (tree, configuration, clause, kind of difference)",
		},
		MinOutcomes: 4,
	}
	r.Finish(ev)
}

func newWorker(r *core.Run) *worker {
	w := &worker{r: r, l: core.NewLocal(), e: newExec(), quick: r.Quick(),
		seenKinds: map[string]bool{}, chainCache: map[string]*sigInfo{}, hasMemo: map[string]bool{}, bySig: map[string]*sigInfo{}}
	w.maxPairs = 40
	return w
}

func runWorker(r *core.Run, pol, lpol, rpol, fpol, spol, hpol policy) {
	debug.SetGCPercent(100)
	w := newWorker(r)
	// The budget is CPU time of this (single-threaded) worker, so that a machine shared with many other
	// checks does not cut the exploration short: an idle machine needs ~50 CPU-s per worker for the quick
	// tier. The wall-clock limit is a distant safety net only.
	limit, cpuLimit := 60*time.Minute, 200*time.Second
	if !r.Quick() {
		limit, cpuLimit = 3*time.Hour, 45*time.Minute
	}
	deadline := r.Start.Add(limit)
	over := func() bool {
		var ru syscall.Rusage
		if syscall.Getrusage(syscall.RUSAGE_SELF, &ru) == nil && time.Duration(ru.Utime.Nano()+ru.Stime.Nano()) > cpuLimit {
			return true
		}
		return time.Now().After(deadline) || r.Expired()
	}
	capped := false
	var n int64
	enumerate(pol, func(idx int64) bool {
		if onlyOne || !r.Shard(int(idx%(1<<30))) {
			return false
		}
		if capped {
			return false
		}
		n++
		if n%64 == 0 && over() {
			capped = true
			r.Cap("CPU budget (or the distant wall-clock limit) reached before all trees were explored")
			return false
		}
		return true
	}, func(idx int64, t *tree) {
		w.evalTree(idx, t)
	})
	// late-registration family (shards continue the index space of the first family)
	enumerate(lpol, func(idx int64) bool {
		if skipFamily(onlyLate) || !r.Shard(int(idx%(1<<30))) {
			return false
		}
		if capped {
			return false
		}
		n++
		if n%64 == 0 && over() {
			capped = true
			r.Cap("CPU budget (or the distant wall-clock limit) reached before all trees were explored")
			return false
		}
		return true
	}, func(idx int64, t *tree) {
		w.evalLateTree(idx, t, lpol)
	})
	// the families explored in a mode of their own: switch the mode, drop everything cached under the other mode
	for _, fam := range []struct {
		pre        string
		rich, form bool
		pol        policy
		skip       bool
	}{
		{"shared_", false, false, hpol, skipFamily(onlyShared)}, // shared sub-app family
		{"forms_", false, true, fpol, skipFamily(onlyForms)},    // registration-forms family
		{"param_", true, false, rpol, skipFamily(onlyParams)},   // parameterised-prefix family
		{"shape_", true, false, spol, skipFamily(onlyShapes)},   // pattern-shape family
	} {
		setMode(fam.rich, fam.form)
		w.pre = fam.pre
		w.chainCache, w.hasMemo, w.bySig = map[string]*sigInfo{}, map[string]bool{}, map[string]*sigInfo{}
		fpolicy := fam.pol
		enumerate(fpolicy, func(idx int64) bool {
			if fam.skip || !r.Shard(int(idx%(1<<30))) {
				return false
			}
			if capped {
				return false
			}
			n++
			if n%64 == 0 && over() {
				capped = true
				r.Cap("CPU budget (or the distant wall-clock limit) reached before all trees were explored")
				return false
			}
			return true
		}, func(idx int64, t *tree) {
			w.cfgSel = fpolicy.cfgsFor(treeClass(t))
			w.evalTree(idx, t)
		})
	}
	w.flush()
	r.Merge(w.l.P)
	pprof.StopCPUProfile()
	if pf := os.Getenv("C04_HEAPPROFILE"); pf != "" {
		if f, err := os.Create(pf); err == nil {
			runtime.GC()
			_ = pprof.WriteHeapProfile(f)
			f.Close()
		}
	}
	r.FinishWorker()
}

func (w *worker) flush() {
	st := [4]string{"200", "404", "405", "other"}
	for a := range w.outc {
		for b := range w.outc[a] {
			for c := range w.outc[a][b] {
				if v := w.outc[a][b][c]; v > 0 {
					hs := itoa(b)
					if b == 3 {
						hs = "3+"
					}
					k := fmt.Sprintf("status=%s handlers=%s params=%d", st[a], hs, c)
					w.l.P.Outcomes[k] += v
				}
			}
		}
	}
	w.l.Add("programs_built", w.e.built)
	w.l.Add("requests_run", w.e.reqs)
}

// tally classifies the observable outcome of every request of the reference program P'.
func (w *worker) tally(o *obsSet) {
	for i := 0; i < o.n(); i++ {
		b := o.get(i)
		bar := bytes.IndexByte(b, '|')
		if bar < 0 {
			continue
		}
		tr := b[:bar]
		nh := bytes.Count(tr, []byte{';'})
		if nh > 3 {
			nh = 3
		}
		hp := 0
		if richMode {
			for j := bytes.Index(tr, []byte(",n.")); j >= 0; {
				e := bytes.IndexByte(tr[j:], '=')
				if e >= 0 && j+e+1 < len(tr) && tr[j+e+1] != ',' && tr[j+e+1] != ';' {
					hp = 1 // some handler read a non-empty declared parameter
					break
				}
				k := bytes.Index(tr[j+3:], []byte(",n."))
				if k < 0 {
					break
				}
				j += 3 + k
			}
		} else if bytes.Count(tr, []byte(":,,;")) < bytes.Count(tr, []byte{';'}) {
			hp = 1 // some handler saw a non-empty parameter
		}
		si := 3
		rest := b[bar+1:]
		switch {
		case bytes.HasPrefix(rest, []byte("200|")):
			si = 0
		case bytes.HasPrefix(rest, []byte("404|")):
			si = 1
		case bytes.HasPrefix(rest, []byte("405|")):
			si = 2
		}
		w.outc[si][nh][hp]++
	}
}

func (w *worker) evalTree(idx int64, t *tree) {
	ti := analyse(t)
	w.l.Add(w.pre+"trees", 1)
	w.pending = w.pending[:0]
	for ci, c := range cfgs {
		if w.cfgSel != nil {
			sel := false
			for _, k := range w.cfgSel {
				sel = sel || k == ci
			}
			if !sel {
				continue
			}
		}
		w.l.Add(w.pre+"evaluations", 1)
		for k := range w.seenKinds {
			delete(w.seenKinds, k)
		}
		w.e.sawInside, w.e.sawSecond, w.e.sawExtra = false, false, false
		odd := w.e.oddCalls
		w.e.runAll(t, ti, c, progGroup, nil, &w.oG)
		if w.e.sawInside {
			w.l.Add(w.pre+"nontrivial", 1)
		}
		if w.e.sawExtra {
			// anti-vacuity of the registration-forms family: a group's middleware or the extra first handler of a registration ran
			w.l.Add(w.pre+"evaluations_running_an_extra_handler_or_group_middleware", 1)
		}
		if w.pre == "shared_" && w.sharedBoth(t, ti) {
			// anti-vacuity of the shared sub-app family: a handler of the shared sub-app ran under both of its mounts
			w.l.Add(w.pre+"evaluations_answering_under_both_mounts_of_one_subapp", 1)
		}
		if w.e.oddCalls != odd {
			// anti-vacuity of the pattern-shape family: the custom constraint decided a match
			w.l.Add(w.pre+"evaluations_consulting_the_custom_constraint", 1)
		}
		if w.e.sawSecond {
			// anti-vacuity of the parameterised-prefix family: a handler read a non-empty *2 or +2
			w.l.Add(w.pre+"evaluations_reading_a_second_wildcard_or_plus_value", 1)
		}
		w.tally(&w.oG)
		if ti.hasMount {
			w.e.sawInside = false
			w.e.runAll(t, ti, c, progMount, nil, &w.oP)
			if w.e.sawInside {
				w.l.Add("mount_evaluations_with_inner_handler_run", 1)
			}
			ar := append([]int(nil), w.e.arities...)
			w.compare(clMount, ci, &w.oP, &w.oG)
			w.e.runAll(t, ti, c, progMountCfg, nil, &w.oD)
			w.compare(clMountCfg, ci, &w.oD, &w.oG)
			w.e.runAll(t, ti, c, progMountRebuild, nil, &w.oD)
			w.compare(clMountRebuild, ci, &w.oD, &w.oG)
			w.e.runAll(t, ti, c, progMountLate, nil, &w.oL)
			w.compareLate(ci)
			w.l.Add("mount_evaluations", 1)
			if len(ar) > 0 {
				w.l.Add("mount_evaluations_with_map_choice", 1)
			}
			for _, plan := range w.plans(ar, ci) {
				w.e.runAll(t, ti, c, progMount, plan, &w.oD)
				w.l.Add("map_order_deviations_run", 1)
				w.compare(clMapOrder, ci, &w.oD, &w.oP)
			}
		}
		w.e.runAll(t, ti, c, progFlat, nil, &w.oF)
		w.compare(clFlat, ci, &w.oG, &w.oF)
		w.e.runAll(t, ti, c, progRoute, nil, &w.oR)
		w.compare(clRoute, ci, &w.oR, &w.oF)
	}
	if richMode && w.pre == "param_" && (w.r.Worker == 2 || w.r.Worker < 0) && w.richSamples < 1 && w.e.sawSecond && idx >= int64(3000*w.richSamples) {
		w.richSamples++
		for i := 0; i < w.oG.n(); i++ {
			if b := w.oG.get(i); bytes.Contains(b, []byte(",*2=b")) || bytes.Contains(b, []byte(",+2=b")) {
				m, p := reqAt(ti, i)
				w.l.Sample(map[string]any{"tree": modePrefix() + t.String(), "config": cfgs[len(cfgs)-1].String(), "requests": len(ti.paths) * len(methods),
					"paths": ti.paths, "request": m + " " + p, "observation_P'": string(b)})
				break
			}
		}
	}
	if formMode && (w.r.Worker == 3 || w.r.Worker < 0) && w.formSamples < 1 && w.e.sawExtra && idx >= 2000 {
		w.formSamples++
		i := w.oG.n() - 1
		for j := 0; j < w.oG.n(); j++ {
			if b := w.oG.get(j); bytes.Count(b[:bytes.IndexByte(b, '|')], []byte{';'}) >= 2 {
				i = j
				break
			}
		}
		m, p := reqAt(ti, i)
		w.l.Sample(map[string]any{"tree": modePrefix() + t.String(), "config": cfgs[len(cfgs)-1].String(), "requests": len(ti.paths) * len(methods),
			"paths": ti.paths, "request": m + " " + p, "observation_P'": string(w.oG.get(i))})
	}
	if w.pre == "shape_" && (w.r.Worker == 4 || w.r.Worker < 0) && w.shapeSamples < 1 && idx >= 500 {
		w.shapeSamples++
		i := w.oG.n() - 2
		for j := 0; j < w.oG.n(); j++ {
			if b := w.oG.get(j); bytes.Contains(b, []byte("|200|")) && bytes.Contains(b, []byte(",n.")) {
				i = j // a request answered by a handler that read a declared parameter
				break
			}
		}
		m, p := reqAt(ti, i)
		w.l.Sample(map[string]any{"tree": modePrefix() + t.String(), "config": cfgs[len(cfgs)-1].String(), "requests": len(ti.paths) * len(methods),
			"paths": ti.paths, "request": m + " " + p, "observation_P'": string(w.oG.get(i))})
	}
	// the coordinator keeps six samples: one per family (each from another worker)
	if w.pre == "shared_" && (w.r.Worker == 5 || w.r.Worker < 0) && w.sharedSamples < 1 && idx >= 1500 && w.sharedBoth(t, ti) {
		w.sharedSamples++
		i := w.firstWith([]byte("|200|"))
		m, p := reqAt(ti, i)
		w.l.Sample(map[string]any{"tree": t.String(), "config": cfgs[len(cfgs)-1].String(), "requests": len(ti.paths) * len(methods),
			"paths": ti.paths, "request": m + " " + p, "observation_P'": string(w.oG.get(i))})
	}
	if w.pre == "" && !richMode && !formMode && w.r.Worker <= 0 && idx%40000 == 1600 && len(w.l.P.Samples) < 1 {
		i := w.firstWith([]byte("|200|"))
		m, p := reqAt(ti, i)
		w.l.Sample(map[string]any{"tree": t.String(), "config": cfgs[len(cfgs)-1].String(), "requests": len(ti.paths) * len(methods),
			"paths": ti.paths, "request": m + " " + p, "observation_P'": string(w.oG.get(i))})
	}
	for _, p := range w.pending {
		si := w.classify(t, ti, p)
		w.record(si)
	}
}

// sharedBoth tells whether, in the observations of P' (w.oG), one handler ran for two request paths of
// which one lies under the prefix of an again(...) node's instantiation and the other does not - coarse:
// some handler inside a mount ran for >= 2 different paths.
func (w *worker) sharedBoth(t *tree, ti *treeInfo) bool {
	var seen [maxLeaves]int
	var lastPath [maxLeaves]int
	for i := range lastPath {
		lastPath[i] = -1
	}
	for i := 0; i < w.oG.n(); i++ {
		b := w.oG.get(i)
		bar := bytes.IndexByte(b, '|')
		if bar <= 0 {
			continue
		}
		tr := b[:bar]
		for j := 0; j < len(tr); j++ {
			if (j == 0 || tr[j-1] == ';') && j+1 < len(tr) && tr[j+1] == ':' && tr[j] >= '0' && tr[j] <= '9' {
				id := int(tr[j] - '0')
				if ti.insideM&(1<<id) != 0 && lastPath[id] != i/len(methods) {
					lastPath[id] = i / len(methods)
					seen[id]++
				}
			}
		}
	}
	for _, n := range seen {
		if n >= 2 {
			return true
		}
	}
	return false
}

// firstWith is the index of the first observation of P' (w.oG) that contains sub (the last one if none does).
func (w *worker) firstWith(sub []byte) int {
	for i := 0; i < w.oG.n(); i++ {
		if bytes.Contains(w.oG.get(i), sub) {
			return i
		}
	}
	return w.oG.n() - 1
}

// treeClass is the (containers, leaves) size class of t.
func treeClass(t *tree) (c, n int) {
	var rec func(items []*node)
	rec = func(items []*node) {
		for _, it := range items {
			switch it.T {
			case 'r':
				n++
			case 's': // part of the container letter of the mount it repeats
			default:
				c++
				rec(it.Items)
			}
		}
	}
	rec(t.Items)
	return
}

// evalLateTree evaluates one tree of the late-registration family: the one-phase P and P' under
// every configuration (mount-vs-group), and every two-phase program of the tree (one per split of
// the top-level sequence) under the configurations of the policy.
func (w *worker) evalLateTree(idx int64, t *tree, lpol policy) {
	ti := analyse(t)
	w.l.Add("late_family_trees", 1)
	if !ti.hasMount {
		w.l.Add("late_family_trees_without_mount_skipped", 1) // P and P' are the same program
		return
	}
	w.pending = w.pending[:0]
	for ci, c := range cfgs {
		phased := false
		for _, pc := range lpol.phasedCfgs {
			phased = phased || pc == ci
		}
		for k := range w.seenKinds {
			delete(w.seenKinds, k)
		}
		w.e.runAll(t, ti, c, progGroup, nil, &w.oG)
		w.e.runAll(t, ti, c, progMount, nil, &w.oP)
		w.l.Add("late_family_one_phase_runs", 1)
		w.compare(clMount, ci, &w.oP, &w.oG)
		if !phased {
			continue
		}
		tt := *t
		for tt.Late = 1; tt.Late < len(t.Items); tt.Late++ {
			if tt.lateHasMount() {
				// UNSPECIFIED: a sub-app mounted on a running application. The statement does not speak
				// about registration after start-up and the docs describe dynamic registration of
				// routes only: run, classify, never judge.
				w.e.runPhased(&tt, ti, c, progGroup, &w.oH)
				w.e.runPhased(&tt, ti, c, progMount, &w.oQ)
				w.l.Add("late_mount_after_startup_programs_unspecified", 1)
				w.l.Add("unspecified_skipped", int64(w.oQ.n()))
				if bytes.Equal(w.oQ.buf, w.oH.buf) {
					w.l.P.Outcomes["unspecified: sub-app mounted after start-up, answers like the group spelling"]++
				} else {
					w.l.P.Outcomes["unspecified: sub-app mounted after start-up, answers differ from the group spelling"]++
					w.l.Add("late_mount_after_startup_programs_answering_differently", 1)
				}
				continue
			}
			w.l.Add("late_evaluations", 1)
			w.e.sawInside = false
			w.e.runPhased(&tt, ti, c, progGroup, &w.oH)
			if w.e.sawInside {
				w.l.Add("late_nontrivial", 1)
			}
			w.tally(&w.oH)
			w.e.runPhased(&tt, ti, c, progMount, &w.oQ)
			w.comparePhased(ci, tt.Late, ti.lateMask(&tt), ti.insideM)
		}
	}
	if (w.r.Worker == 1 || w.r.Worker < 0) && w.lateSamples < 1 && idx >= 1500 && w.mixedAt >= 0 && bytes.Equal(w.oQ.get(w.mixedAt), w.oH.get(w.mixedAt)) { // core keeps 3 samples per worker: worker 0 gives those of the first family
		// sample: the last two-phase program of this tree, at a request that ran a spliced and a late handler
		w.lateSamples++
		tt := *t
		tt.Late = len(t.Items) - 1
		m, p := reqAt(ti, w.mixedAt)
		w.l.Sample(map[string]any{"two_phase_program": tt.String(), "config": cfgs[lpol.phasedCfgs[len(lpol.phasedCfgs)-1]].String(),
			"requests_per_round": len(ti.paths) * len(methods), "request": m + " " + p + " (second round)",
			"observation_P": string(w.oQ.get(w.mixedAt)), "observation_P'": string(w.oH.get(w.mixedAt))})
	}
	for _, p := range w.pending {
		tt := *t
		tt.Late = p.late
		si := w.classify(&tt, ti, p)
		w.record(si)
	}
}

// comparePhased: second-round observations of the two-phase P (oQ) and P' (oH); a request is
// attributed to this clause only when the one-phase P and P' answer it alike (otherwise the
// mount-vs-group clause already reports the request).
func (w *worker) comparePhased(ci, late int, lateMask, mountMask uint32) {
	n := w.oQ.n()
	w.l.Add("request_comparisons", int64(n))
	mixed := false
	w.mixedAt = -1
	for i := 0; i < n; i++ {
		a, b := w.oQ.get(i), w.oH.get(i)
		if !mixed && traceTouches(b, lateMask) && traceTouches(b, mountMask&^lateMask) {
			mixed = true
			w.mixedAt = i
		}
		if bytes.Equal(a, b) || !bytes.Equal(w.oP.get(i), w.oG.get(i)) {
			continue
		}
		w.l.Add("mismatching_requests", 1)
		kind, _, leaf := kindOf(parseObs(a), parseObs(b))
		key := clPhased + "|" + kind + "|" + itoa(late)
		if w.seenKinds[key] {
			continue
		}
		w.seenKinds[key] = true
		w.pending = append(w.pending, pendingV{clause: clPhased, kind: kind, ci: ci, leaf: leaf, late: late})
	}
	if mixed {
		// anti-vacuity: one request ran a handler spliced from a sub-app at start-up AND a handler registered afterwards
		w.l.Add("late_evaluations_with_spliced_and_late_handler_in_one_request", 1)
	}
}

// traceTouches tells whether the handler trace of observation b names a leaf of mask.
func traceTouches(b []byte, mask uint32) bool {
	bar := bytes.IndexByte(b, '|')
	if bar < 0 {
		return false
	}
	tr := b[:bar]
	for i := 0; i < len(tr); i++ {
		if (i == 0 || tr[i-1] == ';') && i+1 < len(tr) && tr[i+1] == ':' && tr[i] >= '0' && tr[i] <= '9' {
			if mask&(1<<(tr[i]-'0')) != 0 {
				return true
			}
		}
	}
	return false
}

// plans lists the deviating map orders: every single non-default pick; in the thorough tier,
// under the default configuration, also pairs of picks (bounded per tree).
func (w *worker) plans(ar []int, ci int) []map[int]int {
	var out []map[int]int
	if w.quick && !w.allDev && ci != 0 && ci != len(cfgs)-1 {
		return nil
	}
	for k, n := range ar {
		for a := 1; a < n; a++ {
			out = append(out, map[int]int{k: a})
		}
	}
	if w.quick || ci != 0 {
		return out
	}
	pairs := 0
	for d := 1; d < len(ar); d++ { // nearest choice points first
		for k1 := 0; k1+d < len(ar); k1++ {
			k2 := k1 + d
			for a1 := 1; a1 < ar[k1]; a1++ {
				for a2 := 1; a2 < ar[k2]; a2++ {
					if pairs >= w.maxPairs {
						w.l.Add("map_order_pair_budget_hits", 1)
						return out
					}
					pairs++
					out = append(out, map[int]int{k1: a1, k2: a2})
				}
			}
		}
	}
	return out
}

func (w *worker) compare(clause string, ci int, impl, ref *obsSet) {
	n := impl.n()
	w.l.Add("request_comparisons", int64(n))
	for i := 0; i < n; i++ {
		a, b := impl.get(i), ref.get(i)
		if bytes.Equal(a, b) {
			ra, rb := impl.getRP(i), ref.getRP(i)
			if !bytes.Equal(ra, rb) {
				w.l.Add("unspecified_skipped", 1)
				w.l.Add("route-path-spelling "+clause+" "+spellingClass(string(ra), string(rb)), 1)
			}
			continue
		}
		w.l.Add("mismatching_requests", 1)
		kind, _, leaf := kindOf(parseObs(a), parseObs(b))
		key := clause + "|" + kind
		if w.seenKinds[key] {
			continue
		}
		w.seenKinds[key] = true
		w.pending = append(w.pending, pendingV{clause: clause, kind: kind, ci: ci, leaf: leaf})
	}
}

// compareLate: the program that mounts first and populates afterwards must answer like P'; a
// request is attributed to this clause only when P itself answers it like P' (otherwise the
// mount-vs-group clause already reports the request).
func (w *worker) compareLate(ci int) {
	n := w.oL.n()
	w.l.Add("request_comparisons", int64(n))
	for i := 0; i < n; i++ {
		a := w.oL.get(i)
		if bytes.Equal(a, w.oG.get(i)) || !bytes.Equal(w.oP.get(i), w.oG.get(i)) {
			continue
		}
		w.l.Add("mismatching_requests", 1)
		kind, _, leaf := kindOf(parseObs(a), parseObs(w.oG.get(i)))
		key := clMountLate + "|" + kind
		if w.seenKinds[key] {
			continue
		}
		w.seenKinds[key] = true
		w.pending = append(w.pending, pendingV{clause: clMountLate, kind: kind, ci: ci, leaf: leaf})
	}
}

func (w *worker) record(si *sigInfo) {
	w.l.Violate(si.sig, si.what, si.cs, si.obs, si.exp)
}

// ---------------------------------------------------------------------------
// classification: a violation is attributed to the smallest program that still shows it

type diffHit struct {
	req       string
	impl, ref string
	detail    string
	plan      map[int]int
}

// evalClause runs the two programs of a clause on t and calls fn for every differing request.
func (w *worker) evalClause(t *tree, c rcfg, clause string, fn func(h diffHit, kind string) bool) {
	ti := analyse(t)
	run := func(impl, ref *obsSet, plan map[int]int) bool {
		for i := 0; i < impl.n(); i++ {
			a, b := impl.get(i), ref.get(i)
			if bytes.Equal(a, b) {
				continue
			}
			kind, detail, _ := kindOf(parseObs(a), parseObs(b))
			m, p := reqAt(ti, i)
			if fn(diffHit{req: m + " " + p, impl: string(a), ref: string(b), detail: detail, plan: plan}, kind) {
				return true
			}
		}
		return false
	}
	switch clause {
	case clMount:
		w.e.runAll(t, ti, c, progMount, nil, &w.sA)
		w.e.runAll(t, ti, c, progGroup, nil, &w.sB)
		run(&w.sA, &w.sB, nil)
	case clMountCfg:
		w.e.runAll(t, ti, c, progMountCfg, nil, &w.sA)
		w.e.runAll(t, ti, c, progGroup, nil, &w.sB)
		run(&w.sA, &w.sB, nil)
	case clMountRebuild:
		w.e.runAll(t, ti, c, progMountRebuild, nil, &w.sA)
		w.e.runAll(t, ti, c, progGroup, nil, &w.sB)
		run(&w.sA, &w.sB, nil)
	case clMountLate:
		w.e.runAll(t, ti, c, progMountLate, nil, &w.sA)
		w.e.runAll(t, ti, c, progGroup, nil, &w.sB)
		w.e.runAll(t, ti, c, progMount, nil, &w.sC)
		for i := 0; i < w.sA.n(); i++ {
			a, b := w.sA.get(i), w.sB.get(i)
			if bytes.Equal(a, b) || !bytes.Equal(w.sC.get(i), b) {
				continue
			}
			kind, detail, _ := kindOf(parseObs(a), parseObs(b))
			m, p := reqAt(ti, i)
			if fn(diffHit{req: m + " " + p, impl: string(a), ref: string(b), detail: detail}, kind) {
				break
			}
		}
	case clPhased:
		if !t.phased() || t.lateHasMount() { // a mount after start-up is unspecified, not judged
			return
		}
		w.e.runPhased(t, ti, c, progMount, &w.sA)
		w.e.runPhased(t, ti, c, progGroup, &w.sB)
		w.e.runAll(t, ti, c, progMount, nil, &w.sC)
		w.e.runAll(t, ti, c, progGroup, nil, &w.sD)
		for i := 0; i < w.sA.n(); i++ {
			a, b := w.sA.get(i), w.sB.get(i)
			if bytes.Equal(a, b) || !bytes.Equal(w.sC.get(i), w.sD.get(i)) {
				continue
			}
			kind, detail, _ := kindOf(parseObs(a), parseObs(b))
			m, p := reqAt(ti, i)
			if fn(diffHit{req: m + " " + p + " (second round, after the late registrations)", impl: string(a), ref: string(b), detail: detail}, kind) {
				break
			}
		}
	case clFlat:
		w.e.runAll(t, ti, c, progGroup, nil, &w.sA)
		w.e.runAll(t, ti, c, progFlat, nil, &w.sB)
		run(&w.sA, &w.sB, nil)
	case clRoute:
		w.e.runAll(t, ti, c, progRoute, nil, &w.sA)
		w.e.runAll(t, ti, c, progFlat, nil, &w.sB)
		run(&w.sA, &w.sB, nil)
	case clMapOrder:
		w.e.runAll(t, ti, c, progMount, nil, &w.sB)
		ar := append([]int(nil), w.e.arities...)
		ci := 1
		for i, cc := range cfgs {
			if cc == c {
				ci = i
			}
		}
		for _, plan := range w.plans(ar, ci) {
			w.e.runAll(t, ti, c, progMount, plan, &w.sA)
			if run(&w.sA, &w.sB, plan) {
				return
			}
		}
	}
}

func (w *worker) hasKind(t *tree, c rcfg, clause, kind string) bool {
	key := clause + "|" + kind + "|" + c.String() + "|" + t.String()
	if v, ok := w.hasMemo[key]; ok {
		return v
	}
	found := false
	w.evalClause(t, c, clause, func(_ diffHit, k string) bool {
		if k == kind {
			found = true
		}
		return found
	})
	if len(w.hasMemo) < 200000 {
		w.hasMemo[key] = found
	}
	return found
}

// anyKind returns the kind of the first difference the clause shows on t ("" = none).
func (w *worker) anyKind(t *tree, c rcfg, clause string) string {
	kind := ""
	w.evalClause(t, c, clause, func(_ diffHit, k string) bool {
		kind = k
		return true
	})
	return kind
}

func (w *worker) classify(t *tree, ti *treeInfo, p pendingV) *sigInfo {
	c := cfgs[p.ci]
	// 1. small sub-programs: single chains (one leaf with its enclosing containers; the diverging
	//    leaf first), every container chain without leaves, and the tree without its leaves:
	//    the violation is attributed to the first chain that shows the same kind of difference,
	//    else to the first chain that violates the clause at all (its simplest manifestation)
	var chains []*tree
	if p.clause == clPhased {
		// two-item sub-programs: one chain registered before start-up and one registered afterwards
		// (a chain = a leaf with its enclosing containers, or a container chain without leaves)
		type ch struct {
			t    *tree
			late bool
		}
		var all []ch
		add := func(c *tree, top int, first bool) {
			if first {
				all = append([]ch{{c, top >= t.split()}}, all...)
			} else {
				all = append(all, ch{c, top >= t.split()})
			}
		}
		for i, lf := range ti.leaves {
			add(chainTree(lf.chain, lf.n), lf.top, i == p.leaf)
		}
		for i, cc := range ti.containers {
			add(chainTree(cc, nil), ti.contTop[i], false)
		}
		for _, a := range all {
			for _, b := range all {
				if !a.late && b.late {
					chains = append(chains, &tree{Items: []*node{a.t.Items[0], b.t.Items[0]}, Late: 1})
				}
			}
		}
	} else if p.leaf >= 0 && p.leaf < len(ti.leaves) && len(ti.leaves[p.leaf].chain) > 0 {
		chains = append(chains, chainTree(ti.leaves[p.leaf].chain, ti.leaves[p.leaf].n))
	}
	if p.clause != clPhased {
		for i, lf := range ti.leaves {
			if i != p.leaf && len(lf.chain) > 0 {
				chains = append(chains, chainTree(lf.chain, lf.n))
			}
		}
		for _, ch := range ti.containers {
			chains = append(chains, chainTree(ch, nil))
		}
		// shared sub-app family: a chain through a mount together with the again(...) node that repeats the mount
		for _, cc := range ti.containers {
			sn := cc[len(cc)-1]
			if sn.T != 's' || sn.ref == nil {
				continue
			}
			for i, lf := range ti.leaves {
				k := -1
				for j, c := range lf.chain {
					if c == sn.ref {
						k = j
					}
				}
				if k < 0 {
					continue
				}
				items := []*node{chainTree(lf.chain[k:], lf.n).Items[0], {T: 's', Prefix: sn.Prefix}}
				for j := k - 1; j >= 0; j-- {
					items = []*node{{T: lf.chain[j].T, Prefix: lf.chain[j].Prefix, MW: lf.chain[j].MW, Items: items}}
				}
				if i == p.leaf {
					chains = append([]*tree{{Items: items}}, chains...)
				} else {
					chains = append(chains, &tree{Items: items})
				}
			}
		}
		if len(ti.containers) > 1 && len(ti.leaves) > 0 {
			chains = append(chains, containersOnly(t)) // the container structure alone (startup panics, map orders)
		}
	}
	for _, kind := range []string{p.kind, ""} {
		for _, ct := range chains {
			key := p.clause + "|" + kind + "|" + itoa(p.ci) + "|" + ct.String()
			si, ok := w.chainCache[key]
			if !ok {
				k := kind
				if k == "" {
					k = w.anyKind(ct, c, p.clause)
				}
				if k != "" && w.hasKind(ct, c, p.clause, k) {
					si = w.minimise(ct, c, p.clause, k)
				}
				w.chainCache[key] = si
			}
			if si != nil {
				return si
			}
		}
	}
	// 2. the violation needs several items: minimise the whole tree (bounded number of times)
	if w.fullShrinks >= fullShrinkCap {
		return &sigInfo{sig: p.clause + " " + p.kind + " (needs several sibling items; not minimised after " + itoa(fullShrinkCap) + " minimisations per worker)",
			what: "further violations of this clause and kind that need more than one leaf were not minimised"}
	}
	w.fullShrinks++
	return w.minimise(t, c, p.clause, p.kind)
}

func (w *worker) minimise(t *tree, c rcfg, clause, kind string) *sigInfo {
	cur := t
	for progress := true; progress; {
		progress = false
		for _, cand := range cur.candidates() {
			if w.hasKind(cand, c, clause, kind) {
				cur, progress = cand, true
				break
			}
		}
	}
	mkey := clause + "|" + kind + "|" + cur.String()
	if si, ok := w.bySig[mkey]; ok {
		return si
	}
	var fail []rcfg
	w.allDev = true
	for _, cc := range cfgs {
		if w.hasKind(cur, cc, clause, kind) {
			fail = append(fail, cc)
		}
	}
	w.allDev = false
	if len(fail) == 0 { // cannot happen when executions are deterministic
		core.Fatal("harness nondeterminism: minimal tree %s no longer shows %s %s", cur, clause, kind)
	}
	var hit *diffHit
	w.evalClause(cur, fail[0], clause, func(h diffHit, k string) bool {
		if k == kind {
			hit = &h
			return true
		}
		return false
	})
	parts := []string{clause}
	if clause == clMount || clause == clMountCfg || clause == clMountRebuild || clause == clMountLate || clause == clMapOrder || clause == clPhased {
		parts = append(parts, mountClass(cur))
	}
	if clause == clPhased {
		parts = append(parts, lateClass(cur))
	}
	parts = append(parts, kind)
	if hit.detail != "" {
		parts = append(parts, hit.detail)
	}
	parts = append(parts, "min="+modePrefix()+cur.String(), "cfg="+cfgConstraint(fail))
	pair := map[string]string{
		clMount:        progNames[progMount] + " vs " + progNames[progGroup],
		clMountLate:    progNames[progMountLate] + " vs " + progNames[progGroup],
		clMountCfg:     progNames[progMountCfg] + " vs " + progNames[progGroup],
		clMountRebuild: progNames[progMountRebuild] + " vs " + progNames[progGroup],
		clMapOrder:     progNames[progMount] + " under a deviating appList map order vs the default order",
		clPhased:       progNames[progMount] + " vs " + progNames[progGroup] + ", both built in two phases: the items after || are registered after start-up and a first pass of requests, then app.RebuildTree()",
		clFlat:         progNames[progGroup] + " vs " + progNames[progFlat],
		clRoute:        progNames[progRoute] + " vs " + progNames[progFlat],
	}[clause]
	cs := map[string]any{
		"minimal_tree":    modePrefix() + cur.String(),
		"program_P":       strings.Split(strings.TrimSpace(cur.goProgram()), "\n"),
		"config":          fail[0].String(),
		"failing_configs": len(fail),
		"request":         hit.req,
		"compared":        pair,
		"observation":     "<handler id>:<Params(id)>,<Params(t)>,<Params(*)>; ... |status|Allow|body  (observed = first program of 'compared', expected = second; the clause requires them to be equal)",
	}
	if hit.plan != nil {
		var ks []int
		for k := range hit.plan {
			ks = append(ks, k)
		}
		sort.Ints(ks)
		var ps []string
		for _, k := range ks {
			ps = append(ps, fmt.Sprintf("choice#%d=pick%d", k, hit.plan[k]))
		}
		cs["map_order_plan"] = strings.Join(ps, ",")
	}
	si := &sigInfo{sig: strings.Join(parts, " "), what: "request answered differently: " + pair, cs: cs, obs: hit.impl, exp: hit.ref}
	w.bySig[mkey] = si
	return si
}

// replay evaluates one tree (from -tree or from the minimal_tree of a replay file) under every
// configuration and clause and prints every differing request; exit 1 when a clause is violated.
func replay(r *core.Run, text string) {
	if text == "" {
		b, err := os.ReadFile(r.Replay)
		if err != nil {
			core.Fatal("replay: %v", err)
		}
		var v struct {
			Case struct {
				MinimalTree string `json:"minimal_tree"`
			} `json:"case"`
		}
		if err := json.Unmarshal(b, &v); err != nil || v.Case.MinimalTree == "" {
			core.Fatal("replay: no minimal_tree in %s", r.Replay)
		}
		text = v.Case.MinimalTree
	}
	t, err := parseTree(text)
	if err != nil {
		core.Fatal("%v", err)
	}
	w := newWorker(r)
	w.allDev = true
	fmt.Println("tree:", modePrefix()+t.String())
	fmt.Print(t.goProgram())
	if t.lateHasMount() {
		fmt.Println("note: a sub-app is mounted after start-up: unspecified, the late-registration clause does not judge this program")
	}
	bad := 0
	for _, c := range cfgs {
		for _, clause := range []string{clMount, clMountCfg, clMountRebuild, clMountLate, clMapOrder, clPhased, clFlat, clRoute} {
			w.evalClause(t, c, clause, func(h diffHit, kind string) bool {
				bad++
				fmt.Printf("%s | %s | %s %s | %s\n    first : %s\n    second: %s\n", c, clause, kind, h.detail, h.req, h.impl, h.ref)
				return false
			})
		}
	}
	if bad > 0 {
		fmt.Printf("VIOLATION reproduced: %d differing (configuration, clause, request) triples\n", bad)
		os.Exit(1)
	}
	fmt.Println("no difference")
	os.Exit(0)
}

// spellingExamples illustrates the unspecified Route().Path spelling classes on two fixed programs.
func spellingExamples() []map[string]string {
	e := newExec()
	var out []map[string]string
	for _, text := range []string{`[mount("/API"){GET "/x" reply}]`, `[mount("/api"){USE "" reply}]`} {
		t, err := parseTree(text)
		if err != nil {
			continue
		}
		ti := analyse(t)
		var a, b obsSet
		e.runAll(t, ti, cfgs[0], progMount, nil, &a)
		e.runAll(t, ti, cfgs[0], progGroup, nil, &b)
		for i := 0; i < a.n(); i++ {
			if bytes.Equal(a.get(i), b.get(i)) && !bytes.Equal(a.getRP(i), b.getRP(i)) {
				m, p := reqAt(ti, i)
				out = append(out, map[string]string{"tree": text, "config": cfgs[0].String(), "request": m + " " + p,
					"Route().Path in P (mount)": string(a.getRP(i)), "Route().Path in P' (group)": string(b.getRP(i)),
					"class": spellingClass(string(a.getRP(i)), string(b.getRP(i)))})
				break
			}
		}
	}
	return out
}

// debugOne evaluates one tree verbosely.
func debugOne(r *core.Run, pol policy, only int64, show bool) {
	w := newWorker(r)
	enumerate(pol, func(idx int64) bool { return idx == only }, func(idx int64, t *tree) {
		fmt.Println("tree", idx, t)
		fmt.Print(t.goProgram())
		ti := analyse(t)
		fmt.Println("paths:", ti.paths)
		if show {
			for _, c := range cfgs {
				for prog := progMount; prog <= progRoute; prog++ {
					var o obsSet
					w.e.runAll(t, ti, c, prog, nil, &o)
					for i := 0; i < o.n(); i++ {
						m, p := reqAt(ti, i)
						fmt.Printf("%s | %-40s | %s %-14s -> %s   [%s]\n", c, progNames[prog], m, p, o.get(i), o.getRP(i))
					}
				}
			}
		}
		w.evalTree(idx, t)
		for s, v := range w.l.P.Violations {
			fmt.Println("VIOLATION", s, v.Count)
		}
		for k, v := range w.l.P.Counters {
			fmt.Println("counter", k, v)
		}
	})
	os.Exit(0)
}
