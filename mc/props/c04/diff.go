package main

import (
	"sort"
	"strings"
)

// clauses of the property (each compares an implementation program with a reference program)
const (
	clMount        = "mount-vs-group"                        // P (mounts)                      vs P' (groups)
	clMountCfg     = "mount-other-subapp-config-vs-group"    // P (sub-apps created with the opposite routing config) vs P' (groups)
	clMountLate    = "late-mount-vs-group"                   // P (mounted first, filled later) vs P' (groups)
	clMountRebuild = "mount-rebuilt-before-startup-vs-group" // P (mounts, app.RebuildTree() before start-up) vs P' (groups)
	clMapOrder     = "map-order"                             // P under a deviating map order   vs P under the default order
	clFlat         = "group-vs-fullpath"                     // P' (groups)                     vs P'' (full paths)
	clRoute        = "routechain-vs-fullpath"                // P''' (Route chains)             vs P'' (full paths)
	// two-phase programs: the items after "||" are registered after start-up and the first requests,
	// then app.RebuildTree(); P (mounts) vs P' (groups) built with the same step sequence
	clPhased = "late-registration-mount-vs-group"
)

// pobs is a parsed observation "<trace>|<status>|<Allow>|<body>".
type pobs struct {
	panicMsg string
	ids      []byte
	params   [][3]string
	kv       [][]string // parameterised-prefix family: "key=value" readings of every handler
	status   string
	allow    string
	body     string
}

var paramNames = [3]string{"id", "t", "*"}

func parseObs(b []byte) pobs {
	s := string(b)
	var o pobs
	i := strings.IndexByte(s, '|')
	if i < 0 {
		o.panicMsg = "UNPARSABLE " + s
		return o
	}
	tr, rest := s[:i], s[i+1:]
	if strings.HasPrefix(tr, "STARTUP-PANIC") || strings.HasPrefix(tr, "REQUEST-PANIC") || strings.HasPrefix(tr, "LATE-REGISTRATION-PANIC") {
		o.panicMsg = tr
	} else {
		for _, ent := range strings.Split(tr, ";") {
			if ent == "" {
				continue
			}
			o.ids = append(o.ids, ent[0])
			if strings.HasPrefix(ent[2:], "names=") {
				o.kv = append(o.kv, strings.Split(ent[2:], ","))
				o.params = append(o.params, [3]string{})
				continue
			}
			vals := strings.SplitN(ent[2:], ",", 3)
			var p [3]string
			copy(p[:], vals)
			o.params = append(o.params, p)
		}
	}
	parts := strings.SplitN(rest, "|", 3)
	for len(parts) < 3 {
		parts = append(parts, "")
	}
	o.status, o.allow, o.body = parts[0], parts[1], parts[2]
	return o
}

func isSubseq(a, b []byte) bool { // a is a subsequence of b
	j := 0
	for i := 0; i < len(b) && j < len(a); i++ {
		if a[j] == b[i] {
			j++
		}
	}
	return j == len(a)
}

func sortedBytes(a []byte) string {
	c := append([]byte(nil), a...)
	sort.Slice(c, func(i, j int) bool { return c[i] < c[j] })
	return string(c)
}

// kindOf classifies how the implementation's observation differs from the reference's.
// kind is what the minimiser preserves; detail refines the signature; leaf = id of the first
// handler involved in the divergence (-1 = none).
func kindOf(impl, ref pobs) (kind, detail string, leaf int) {
	leaf = -1
	switch {
	case impl.panicMsg != "" || ref.panicMsg != "":
		if impl.panicMsg != "" && ref.panicMsg == "" {
			return "panic", "first-program-only: " + impl.panicMsg, -1
		}
		if impl.panicMsg == "" {
			return "panic", "second-program-only: " + ref.panicMsg, -1
		}
		return "panic", "both differ", -1
	case string(impl.ids) != string(ref.ids):
		n := 0
		for n < len(impl.ids) && n < len(ref.ids) && impl.ids[n] == ref.ids[n] {
			n++
		}
		switch {
		case n < len(ref.ids) && (n >= len(impl.ids) || isSubseq(impl.ids, ref.ids)):
			leaf = int(ref.ids[n] - '0')
		case n < len(impl.ids):
			leaf = int(impl.ids[n] - '0')
		}
		st := "impl=" + impl.status + " ref=" + ref.status
		switch {
		case sortedBytes(impl.ids) == sortedBytes(ref.ids):
			return "handler-order", st, leaf
		case isSubseq(impl.ids, ref.ids):
			return "handlers-missing", st, leaf
		case isSubseq(ref.ids, impl.ids):
			return "handlers-extra", st, leaf
		}
		return "handlers-differ", st, leaf
	}
	for i := range impl.kv {
		if i >= len(ref.kv) || strings.Join(impl.kv[i], ",") == strings.Join(ref.kv[i], ",") {
			continue
		}
		return "params", kvDetail(impl.kv[i], ref.kv[i]), int(impl.ids[i] - '0')
	}
	for i := range impl.params {
		if impl.params[i] == ref.params[i] {
			continue
		}
		leaf = int(impl.ids[i] - '0')
		var parts []string
		for k := 0; k < 3; k++ {
			got, want := impl.params[i][k], ref.params[i][k]
			if got == want {
				continue
			}
			rel := "other"
			switch {
			case got == "":
				rel = "empty"
			case want == "":
				rel = "unexpected-value"
				for j := 0; j < 3; j++ {
					if j != k && ref.params[i][j] == got {
						rel = "unexpected-value-of-" + paramNames[j]
					}
				}
			default:
				for j := 0; j < 3; j++ {
					if j != k && ref.params[i][j] == got {
						rel = "value-of-" + paramNames[j]
					}
				}
			}
			parts = append(parts, paramNames[k]+"="+rel)
		}
		return "params", strings.Join(parts, ","), leaf
	}
	if len(impl.ids) > 0 {
		leaf = int(impl.ids[len(impl.ids)-1] - '0')
	}
	switch {
	case impl.status != ref.status:
		return "status", "impl=" + impl.status + " ref=" + ref.status, leaf
	case impl.allow != ref.allow:
		return "allow", "impl=[" + impl.allow + "] ref=[" + ref.allow + "]", leaf
	}
	return "body", "", leaf
}

// kvDetail describes how the parameter readings of one handler differ (parameterised-prefix
// family): which readings, and how the observed value relates to the expected readings.
func kvDetail(impl, ref []string) string {
	split := func(e string) (string, string) {
		if i := strings.IndexByte(e, '='); i >= 0 {
			return e[:i], e[i+1:]
		}
		return e, ""
	}
	refVal := map[string]string{}
	for _, e := range ref {
		k, v := split(e)
		if _, dup := refVal[k]; !dup {
			refVal[k] = v
		}
	}
	var parts []string
	seen := map[string]bool{}
	add := func(p string) {
		if !seen[p] {
			seen[p] = true
			parts = append(parts, p)
		}
	}
	ik, iv := split(impl[0])
	rk, rv := split(ref[0])
	if ik == "names" && rk == "names" && iv != rv {
		add("Route().Params=[" + iv + "]-not-[" + rv + "]")
	}
	// by key: the declared names may differ between the programs
	implVal := map[string]string{}
	for _, e := range impl[1:] {
		k, v := split(e)
		if _, dup := implVal[k]; !dup {
			implVal[k] = v
		}
	}
	var keys []string
	for _, e := range ref[1:] {
		k, _ := split(e)
		keys = append(keys, k)
	}
	for _, e := range impl[1:] {
		k, _ := split(e)
		if _, ok := refVal[k]; !ok {
			keys = append(keys, k)
		}
	}
	for _, k := range keys {
		got, gok := implVal[k]
		want, wok := refVal[k]
		switch {
		case !gok:
			add(k + "=not-declared")
		case !wok:
			add(k + "=declared-only-here")
		case got == want:
		case got == "":
			add(k + "=empty")
		default:
			rel := "other"
			if want == "" {
				rel = "unexpected-value"
			}
			for _, e := range ref[1:] {
				k2, v2 := split(e)
				if k2 != k && v2 == got && strings.HasPrefix(k2, "n.") {
					rel = "value-of-" + k2[2:]
					break
				}
			}
			add(k + "=" + rel)
		}
	}
	if len(parts) > 6 {
		parts = append(parts[:6], "...")
	}
	return strings.Join(parts, ",")
}

// spellingClass classifies a Route().Path spelling difference (traces equal).
func spellingClass(impl, ref string) string {
	a, b := strings.Split(impl, ";"), strings.Split(ref, ";")
	if len(a) != len(b) {
		return "count"
	}
	var lc, ts, other bool
	for i := range a {
		x, y := a[i], b[i]
		if x == y {
			continue
		}
		xt, yt := strings.TrimRight(x, "/"), strings.TrimRight(y, "/")
		switch {
		case strings.EqualFold(xt, yt):
			lc = lc || xt != yt
			ts = ts || len(x)-len(xt) != len(y)-len(yt)
		default:
			other = true
		}
	}
	var ks []string
	if lc {
		ks = append(ks, "letter-case")
	}
	if ts {
		ks = append(ks, "trailing-slash")
	}
	if other {
		ks = append(ks, "other")
	}
	return strings.Join(ks, "+")
}

// mountClass names the input class of a minimal violating tree (all of its features are necessary).
func mountClass(t *tree) string {
	has := map[string]bool{}
	nm := 0
	var rec func(items []*node, inMount bool, groupPrefix string, mountDepth int)
	rec = func(items []*node, inMount bool, groupPrefix string, mountDepth int) {
		for _, n := range items {
			switch n.T {
			case 'r':
				if inMount && n.Pat == "" {
					has["empty-pattern"] = true
				}
			case 'g':
				if inMount && strings.Contains(strings.ReplaceAll(n.Prefix, "\\:", ""), ":") {
					has["param-group-inside-mount"] = true
				}
				rec(n.Items, inMount, groupPrefix+n.Prefix, mountDepth)
			case 's':
				nm++
				has["same-subapp-mounted-again"] = true
			case 'm':
				nm++
				eff := groupPrefix + n.Prefix    // what the mount placeholder is registered under (group prefixes included)
				if strings.Contains(eff, "\\") { // pattern-shape family: an escaped special character is a constant
					has["escaped-character-prefix"] = true
					eff = strings.NewReplacer("\\:", "", "\\*", "", "\\+", "").Replace(eff)
				}
				if strings.ContainsAny(eff, "*+") {
					has["wildcard-prefix"] = true
				}
				switch {
				case strings.Contains(eff, ":"):
					has["param-prefix"] = true
				case len(n.Prefix) > 1 && strings.HasSuffix(n.Prefix, "/"):
					has["trailing-slash-prefix"] = true
				case n.Prefix == "/":
					has["root-prefix"] = true
				case strings.ToLower(eff) != eff:
					has["uppercase-prefix"] = true
				}
				if groupPrefix != "" {
					has["mount-from-group"] = true
				}
				if mountDepth > 0 {
					has["nested-mount"] = true
				}
				rec(n.Items, true, "", mountDepth+1)
			}
		}
	}
	rec(t.Items, false, "", 0)
	if nm > 1 && !has["nested-mount"] {
		has["sibling-mounts"] = true
	}
	var feats []string
	for _, k := range []string{"escaped-character-prefix", "wildcard-prefix", "param-prefix", "param-group-inside-mount", "trailing-slash-prefix", "root-prefix", "uppercase-prefix", "empty-pattern", "mount-from-group", "nested-mount", "sibling-mounts", "same-subapp-mounted-again"} {
		if has[k] {
			feats = append(feats, k)
		}
	}
	if len(feats) == 0 {
		return "plain-prefix"
	}
	return strings.Join(feats, "+")
}

// lateClass names what a minimal two-phase program registered before start-up and what it
// registers afterwards (all of its features are necessary).
func lateClass(t *tree) string {
	if !t.phased() {
		return "late=none"
	}
	var rec func(items []*node, pre string, set map[string]bool)
	rec = func(items []*node, pre string, set map[string]bool) {
		for _, n := range items {
			switch n.T {
			case 'r':
				set[pre+kindNames[n.Kind]] = true
			case 'g':
				if len(n.Items) == 0 {
					set[pre+"empty-group"] = true
				}
				rec(n.Items, pre+"group:", set)
			default:
				if len(n.Items) == 0 {
					set[pre+"empty-mount"] = true
				}
				rec(n.Items, pre+"mount:", set)
			}
		}
	}
	join := func(set map[string]bool) string {
		ks := make([]string, 0, len(set))
		for k := range set {
			ks = append(ks, k)
		}
		sort.Strings(ks)
		if len(ks) == 0 {
			return "nothing"
		}
		return strings.Join(ks, ",")
	}
	early, late := map[string]bool{}, map[string]bool{}
	rec(t.Items[:t.split()], "", early)
	rec(t.Items[t.split():], "", late)
	return "before-startup=" + join(early) + " late=" + join(late)
}

// cfgConstraint summarises the set of failing configurations.
func cfgConstraint(fail []rcfg) string {
	if len(fail) == len(cfgs) {
		return "any"
	}
	var parts []string
	flag := func(name string, get func(rcfg) bool) {
		on, off := 0, 0
		for _, c := range fail {
			if get(c) {
				on++
			} else {
				off++
			}
		}
		if off == 0 {
			parts = append(parts, name+"=1")
		} else if on == 0 {
			parts = append(parts, name+"=0")
		}
	}
	flag("CaseSensitive", func(c rcfg) bool { return c.CS })
	flag("StrictRouting", func(c rcfg) bool { return c.Strict })
	flag("UnescapePath", func(c rcfg) bool { return c.Unesc })
	if len(parts) == 0 {
		return "some(" + itoa(len(fail)) + "/8)"
	}
	return strings.Join(parts, ",")
}

func itoa(i int) string {
	if i == 0 {
		return "0"
	}
	s := ""
	for i > 0 {
		s = string(rune('0'+i%10)) + s
		i /= 10
	}
	return s
}
