package main

import (
	"fmt"
	"sort"
	"strings"
)

// ---------------------------------------------------------------------------
// program trees
//
// A program is a sequence of items registered on the root app, in order:
//   route  : kind {GET, USE, ALL} x pattern x behaviour {reply, next}
//   group  : prefix + items                 router.Group(prefix) ...
//   mount  : prefix + items of a sub-app    router.Use(prefix, sub)
// A mount that sits inside a group is a "mount-from-group" (grp.Use(prefix, sub)).

const (
	kGET = iota
	kUSE
	kALL
	kPOST // a verb other than GET (letters of the late-registration family only)
	// letters of the registration-forms family only (formMode):
	kHEAD // the verb-specific registration methods Head, Put, Delete, Connect, Options, Trace, Patch
	kPUT
	kDELETE
	kCONNECT
	kOPTIONS
	kTRACE
	kPATCH
	kADD2 // Add([]string{"GET", "POST"}, pattern, h): several methods in one registration
	kUSEL // Use([]string{pattern, "/y"}, h): the documented multiple-prefix middleware registration
	kGET2 // Get(pattern, pre, h): several handlers in one registration (pre traces itself and calls Next)
	kUSE2 // Use(pattern, pre, h)
	kRGET // router.Route(pattern).Get(h): a Route() registered from the enclosing group / sub-app
	kRALL // router.Route(pattern).All(h): the middleware registration of a Route()
)

var kindNames = [...]string{"GET", "USE", "ALL", "POST", "HEAD", "PUT", "DELETE", "CONNECT", "OPTIONS", "TRACE", "PATCH",
	"GET+POST", "USE-LIST", "GET-2H", "USE-2H", "ROUTE.GET", "ROUTE.ALL"}

// verbOf: the single HTTP method a kind registers ("" = not a single-verb kind)
var verbOf = [...]string{"GET", "", "", "POST", "HEAD", "PUT", "DELETE", "CONNECT", "OPTIONS", "TRACE", "PATCH", "", "", "GET", "", "GET", ""}

// useKind tells whether a leaf kind is a middleware (prefix-matching) registration.
func useKind(k uint8) bool { return k == kUSE || k == kUSEL || k == kUSE2 || k == kRALL }

// listAlt is the second prefix of a USE-LIST leaf.
const listAlt = "/y"

type node struct {
	T      byte // 'r' route, 'g' group, 'm' mount, 's' the sub-app of the closest preceding sibling mount mounted AGAIN (shared sub-app family; no items of its own)
	Kind   uint8
	Pat    string
	Next   bool
	Prefix string
	MW     bool // group created with a middleware handler: router.Group(prefix, mw) (registration-forms family)
	Items  []*node

	// set by link(): the mount an 's' node refers to (nil = none: it mounts a fresh empty sub-app) and,
	// for a mount, the handler id of its first leaf
	ref   *node
	start int
}

// link resolves the 's' nodes of a tree (per item list: the closest preceding sibling mount) and
// numbers the first leaf of every mount. Idempotent; called before a tree is analysed or built.
func (t *tree) link() {
	id := 0
	linkItems(t.Items, &id)
}

func linkItems(items []*node, id *int) {
	var last *node
	for _, n := range items {
		switch n.T {
		case 'r':
			*id++
		case 'm':
			n.start = *id
			linkItems(n.Items, id)
			last = n
		case 'g':
			linkItems(n.Items, id)
		case 's':
			n.ref = last
		}
	}
}

// refItems: the items an 's' node stands for.
func (n *node) refItems() []*node {
	if n.ref == nil {
		return nil
	}
	return n.ref.Items
}

// Late > 0 makes the tree a two-phase program ("program steps after start-up"): the last Late
// top-level items are registered on the root app AFTER the application was started and served its
// first requests; app.RebuildTree() follows (the documented way of dynamic registration). The
// static programs (every clause but late-registration) ignore Late.
type tree struct {
	Items []*node
	Late  int
}

// split is the number of top-level items registered before start-up.
func (t *tree) split() int { return len(t.Items) - t.Late }

// lateHasMount tells whether a mount (at any depth) is registered after start-up.
func (t *tree) lateHasMount() bool {
	if !t.phased() {
		return false
	}
	var has func(items []*node) bool
	has = func(items []*node) bool {
		for _, n := range items {
			if n.T == 'm' || n.T == 's' || (n.T == 'g' && has(n.Items)) {
				return true
			}
		}
		return false
	}
	return has(t.Items[t.split():])
}

// phased tells whether t is a proper two-phase program (something before and something after start-up).
func (t *tree) phased() bool { return t.Late >= 1 && t.Late < len(t.Items) }

// rank orders: index = simplicity rank used by the minimiser (0 = simplest)
var patRank = []string{"/x", "/", "", "/:id", "/*", "/X"}
var prefixRank = []string{"/api", "/", "/a-b", "/API", "/api/", "/:t"}

// richMode is the mode of the parameterised-prefix family ("prefixes with every parameter kind"):
// requests are derived with distinct values per parameter position (instantiateRich), handlers
// report every way of reading parameters (build.go mkHandler) and the minimiser ranks the letters
// of that family. One process explores the other families first and then switches the mode once
// (the workers are single-threaded); the text form of a tree of this mode starts with "params:".
var richMode bool

// the letters after "/o/*" and "/*/+" belong to the pattern-shape family (enum.go)
var richPatRank = []string{"/x", "/", "/:id", "/:id?", "/:id<int>", "/:t", "/*", "/+", "/o/*",
	"x", "/x/y", "/x/", `/a\:b`, "/:id<odd>", "/:id<odd>/z", `/x\*`, "/v:id"}
var richPrefixRank = []string{"/api", "/:t", "/:t?", "/:t<int>", "/:t/:u", "/*", "/+", "/f/*/by", "/p/+/q", "/*/+",
	"api", "/v1/api", `/a\:b`, "/:t<odd>", "/api/v1/"}

// formMode is the mode of the registration-forms family ("every way of registering"): requests use
// every HTTP method, handlers also report Route().Method, the minimiser ranks the letters of that
// family; the text form of a tree of this mode starts with "forms:".
var formMode bool

var formPatRank = []string{"/x", "/", "x", "/:id", "/*"}
var formPrefixRank = []string{"/api", "/", "api", "/:t", "/v", "v"}

func patRanks() []string {
	switch {
	case richMode:
		return richPatRank
	case formMode:
		return formPatRank
	}
	return patRank
}

func prefixRanks() []string {
	switch {
	case richMode:
		return richPrefixRank
	case formMode:
		return formPrefixRank
	}
	return prefixRank
}

func modePrefix() string {
	switch {
	case richMode:
		return "params:"
	case formMode:
		return "forms:"
	}
	return ""
}

// setMode switches the exploration mode of the process (the workers are single-threaded).
func setMode(rich, form bool) {
	richMode, formMode = rich, form
	if form {
		methods = allMethods
	} else {
		methods = twoMethods
	}
}

func rankOf(list []string, s string) int {
	for i, v := range list {
		if v == s {
			return i
		}
	}
	return len(list)
}

func (n *node) write(b *strings.Builder) {
	switch n.T {
	case 'r':
		b.WriteString(kindNames[n.Kind])
		b.WriteString(` "`)
		b.WriteString(n.Pat)
		if n.Next {
			b.WriteString(`" next`)
		} else {
			b.WriteString(`" reply`)
		}
	case 's':
		b.WriteString(`again("` + n.Prefix + `")`)
	default:
		if n.T == 'g' {
			b.WriteString(`group("`)
		} else {
			b.WriteString(`mount("`)
		}
		b.WriteString(n.Prefix)
		if n.MW {
			b.WriteString(`" +mw){`)
		} else {
			b.WriteString(`"){`)
		}
		writeItems(b, n.Items)
		b.WriteString("}")
	}
}

func writeItems(b *strings.Builder, items []*node) {
	for i, it := range items {
		if i > 0 {
			b.WriteString("; ")
		}
		it.write(b)
	}
}

// text form: [item; item || item] - the items after "||" are registered after start-up
func (t *tree) String() string {
	var b strings.Builder
	b.WriteString("[")
	if t.Late > 0 && t.Late <= len(t.Items) {
		writeItems(&b, t.Items[:t.split()])
		b.WriteString(" || ")
		writeItems(&b, t.Items[t.split():])
	} else {
		writeItems(&b, t.Items)
	}
	b.WriteString("]")
	return b.String()
}

// handler ids: leaf i (DFS order) runs handler i; the extra first handler of a two-handler
// registration is handler i+preOffset; the middleware of the k-th group created with one is
// handler mwOffset+k (trees of the registration-forms family have <= 4 leaves and <= 2 such groups).
const (
	preOffset = 4
	mwOffset  = 8
)

// goProgram renders the tree as the Go program P (with mounts as written).
func (t *tree) goProgram() string {
	var b strings.Builder
	sub := 0
	grp := 0
	id := 0
	mw := 0
	t.link()
	subName := map[*node]string{}
	var rec func(recv string, items []*node, ind string)
	rec = func(recv string, items []*node, ind string) {
		for i, n := range items {
			if recv == "app" && t.Late > 0 && i == t.split() {
				b.WriteString("handler := app.Handler() // start-up; every request is served once through handler\n")
			}
			switch n.T {
			case 'r':
				beh := "reply"
				if n.Next {
					beh = "next"
				}
				h := "h" + string(rune('0'+id)) + beh
				pre := "h" + string(rune('0'+id+preOffset)) + "next"
				q := `"` + n.Pat + `"`
				switch n.Kind {
				case kADD2:
					b.WriteString(ind + recv + `.Add([]string{"GET", "POST"}, ` + q + ", " + h + ")\n")
				case kUSEL:
					b.WriteString(ind + recv + `.Use([]string{` + q + `, "` + listAlt + `"}, ` + h + ")\n")
				case kGET2:
					b.WriteString(ind + recv + ".Get(" + q + ", " + pre + ", " + h + ")\n")
				case kUSE2:
					b.WriteString(ind + recv + ".Use(" + q + ", " + pre + ", " + h + ")\n")
				case kRGET:
					b.WriteString(ind + recv + ".Route(" + q + ").Get(" + h + ")\n")
				case kRALL:
					b.WriteString(ind + recv + ".Route(" + q + ").All(" + h + ")\n")
				default:
					m := kindNames[n.Kind][:1] + strings.ToLower(kindNames[n.Kind][1:]) // Get, Use, All, Post, Head, ...
					b.WriteString(ind + recv + "." + m + "(" + q + ", " + h + ")\n")
				}
				id++
			case 'g':
				g := "g" + string(rune('0'+grp))
				grp++
				if n.MW {
					b.WriteString(ind + g + " := " + recv + `.Group("` + n.Prefix + `", h` + string(rune('0'+mwOffset+mw)) + "next)\n")
					mw++
				} else {
					b.WriteString(ind + g + " := " + recv + `.Group("` + n.Prefix + "\")\n")
				}
				rec(g, n.Items, ind)
			case 'm':
				s := "sub" + string(rune('0'+sub))
				sub++
				subName[n] = s
				b.WriteString(ind + s + " := fiber.New(cfg)\n")
				rec(s, n.Items, ind)
				b.WriteString(ind + recv + `.Use("` + n.Prefix + `", ` + s + ")\n")
			case 's':
				if s, ok := subName[n.ref]; ok {
					b.WriteString(ind + recv + `.Use("` + n.Prefix + `", ` + s + ") // the same sub-app once more\n")
				} else {
					b.WriteString(ind + recv + `.Use("` + n.Prefix + "\", fiber.New(cfg))\n")
				}
			}
		}
	}
	b.WriteString("app := fiber.New(cfg)\n")
	rec("app", t.Items, "")
	if t.Late > 0 {
		b.WriteString("app.RebuildTree() // then every request is served again through handler\n")
	}
	return b.String()
}

func cloneNode(n *node) *node {
	c := *n
	c.ref = nil
	if n.Items != nil {
		c.Items = make([]*node, len(n.Items))
		for i, it := range n.Items {
			c.Items[i] = cloneNode(it)
		}
	}
	return &c
}

func (t *tree) clone() *tree {
	c := &tree{Items: make([]*node, len(t.Items)), Late: t.Late}
	for i, it := range t.Items {
		c.Items[i] = cloneNode(it)
	}
	return c
}

// refJoin is the reference composition of a prefix and a path written under it: trailing
// slashes of the prefix are dropped, the path gets a leading slash, an empty path leaves the
// prefix as it is ("/api" + "/v1" = "/api/v1").
func refJoin(prefix, path string) string {
	if path == "" {
		return prefix
	}
	if path[0] != '/' {
		path = "/" + path
	}
	return strings.TrimRight(prefix, "/") + path
}

// leafInfo describes one route of a tree (ids are DFS order).
type leafInfo struct {
	n     *node
	chain []*node // enclosing containers, outermost first
	full  string  // reference full pattern
	top   int     // index of the top-level item the leaf belongs to
}

type treeInfo struct {
	leaves     []leafInfo
	containers [][]*node // chain (outermost first, including itself) of every container
	contTop    []int     // index of the top-level item of every container
	hasMount   bool
	hasCont    bool
	inside     uint32 // bit i: leaf i is inside a container
	insideM    uint32 // bit i: leaf i is inside a mount
	paths      []string
}

func analyse(t *tree) *treeInfo {
	if richMode {
		return analyseRich(t)
	}
	ti := &treeInfo{}
	set := map[string]struct{}{"/": {}, "/zzz": {}}
	add := func(p string) {
		if p == "" {
			p = "/"
		}
		if p[0] != '/' { // only origin-form request targets
			return
		}
		set[p] = struct{}{}
	}
	// variants of a path: other letter case and %78 for the last x segment
	addVariants := func(p string) {
		add(p)
		switch {
		case strings.ToLower(p) != p:
			add(strings.ToLower(p))
		case strings.Contains(p, "/api"):
			add(strings.Replace(p, "/api", "/API", 1))
		case strings.Contains(p, "/x"):
			add(strings.Replace(p, "/x", "/X", 1))
		}
		if i := strings.LastIndex(p, "/x"); i >= 0 && (i+2 == len(p) || p[i+2] == '/') {
			add(p[:i] + "/%78" + p[i+2:])
		}
	}
	// ghost: the items are those of a sub-app mounted again ('s' node): their handlers are numbered
	// where the sub-app is first mounted, only the request paths under the other prefix are derived
	var rec func(items []*node, chain []*node, acc string, depth int, ghost bool)
	top := 0
	t.link()
	rec = func(items []*node, chain []*node, acc string, depth int, ghost bool) {
		for i, n := range items {
			if depth == 0 {
				top = i
			}
			if n.T == 'r' {
				full := n.Pat
				if depth > 0 {
					full = refJoin(acc, n.Pat)
				}
				if !ghost {
					id := len(ti.leaves)
					ti.leaves = append(ti.leaves, leafInfo{n: n, chain: append([]*node(nil), chain...), full: full, top: top})
					if depth > 0 {
						ti.inside |= 1 << id
					}
					for _, c := range chain {
						if c.T == 'm' {
							ti.insideM |= 1 << id
						}
					}
				}
				p := instantiate(lead(full), "v")
				addVariants(p)
				if strings.HasSuffix(p, "/") && len(p) > 1 {
					add(strings.TrimRight(p, "/"))
				} else if p != "" && p != "/" {
					add(p + "/")
				}
				if strings.Contains(full, "*") {
					add(instantiate(lead(full), "v/w"))
				}
				if useKind(n.Kind) {
					q := strings.TrimRight(p, "/")
					add(q + "/v")
					add(q + "v")
				}
				if n.Kind == kUSEL { // the second prefix of the list
					alt := listAlt
					if depth > 0 {
						alt = refJoin(acc, listAlt)
					}
					q := instantiate(lead(alt), "v")
					add(q)
					add(q + "/v")
				}
				continue
			}
			ti.hasCont = true
			if n.T == 'm' || n.T == 's' {
				ti.hasMount = true
			}
			nacc := n.Prefix
			if depth > 0 {
				nacc = refJoin(acc, n.Prefix)
			}
			nchain := append(append([]*node(nil), chain...), n)
			if !ghost {
				ti.containers = append(ti.containers, nchain)
				ti.contTop = append(ti.contTop, top)
			}
			p := instantiate(lead(nacc), "v")
			addVariants(strings.TrimRight(p, "/"))
			add(strings.TrimRight(p, "/") + "/")
			if n.T == 's' {
				rec(n.refItems(), nchain, nacc, depth+1, true)
				continue
			}
			rec(n.Items, nchain, nacc, depth+1, ghost)
		}
	}
	rec(t.Items, nil, "", 0, false)
	ti.paths = make([]string, 0, len(set))
	for p := range set {
		ti.paths = append(ti.paths, p)
	}
	sort.Strings(ti.paths)
	return ti
}

// lead spells a full pattern the way registration reads it: with a leading slash.
func lead(full string) string {
	if full != "" && full[0] != '/' {
		return "/" + full
	}
	return full
}

// analyseRich is analyse for the parameterised-prefix family: the same structure information, the
// request paths are the instantiations of every full pattern and every container prefix with
// distinct values per parameter position (instantiateRich).
func analyseRich(t *tree) *treeInfo {
	ti := &treeInfo{}
	set := map[string]struct{}{"/": {}, "/zzz": {}}
	add := func(p string) {
		if p == "" {
			p = "/"
		}
		if p[0] != '/' {
			return
		}
		set[p] = struct{}{}
	}
	top := 0
	t.link()
	var rec func(items []*node, chain []*node, acc string, depth int, ghost bool)
	rec = func(items []*node, chain []*node, acc string, depth int, ghost bool) {
		for i, n := range items {
			if depth == 0 {
				top = i
			}
			if n.T == 'r' {
				full := n.Pat
				if depth > 0 {
					full = refJoin(acc, n.Pat)
				}
				if !ghost {
					id := len(ti.leaves)
					ti.leaves = append(ti.leaves, leafInfo{n: n, chain: append([]*node(nil), chain...), full: full, top: top})
					if depth > 0 {
						ti.inside |= 1 << id
					}
					for _, c := range chain {
						if c.T == 'm' {
							ti.insideM |= 1 << id
						}
					}
				}
				vs := instantiateRich(lead(full))
				for _, p := range vs {
					add(p)
				}
				p := vs[0]
				if strings.HasSuffix(p, "/") && len(p) > 1 {
					add(strings.TrimRight(p, "/"))
				} else if p != "" && p != "/" {
					add(p + "/")
				}
				if up := strings.ToUpper(p); up != p {
					add(up)
				}
				if useKind(n.Kind) {
					q := strings.TrimRight(p, "/")
					add(q + "/z")
					add(q + "z")
				}
				continue
			}
			ti.hasCont = true
			if n.T == 'm' || n.T == 's' {
				ti.hasMount = true
			}
			nacc := n.Prefix
			if depth > 0 {
				nacc = refJoin(acc, n.Prefix)
			}
			nchain := append(append([]*node(nil), chain...), n)
			if !ghost {
				ti.containers = append(ti.containers, nchain)
				ti.contTop = append(ti.contTop, top)
			}
			vs := instantiateRich(lead(nacc))
			add(strings.TrimRight(vs[0], "/"))
			add(strings.TrimRight(vs[0], "/") + "/")
			if len(vs) > 1 {
				add(vs[1])
			}
			if n.T == 's' {
				rec(n.refItems(), nchain, nacc, depth+1, true)
				continue
			}
			rec(n.Items, nchain, nacc, depth+1, ghost)
		}
	}
	rec(t.Items, nil, "", 0, false)
	ti.paths = make([]string, 0, len(set))
	for p := range set {
		ti.paths = append(ti.paths, p)
	}
	sort.Strings(ti.paths)
	return ti
}

// instantiateRich lists request paths for a full pattern whose segments are constants, ":name",
// ":name?", ":name<int>", "*" or "+". The k-th parameter of the WHOLE pattern gets the k-th value
// of its own (a, b, c, ...; 1, 2, 3, ... for <int>), so that a value read under the wrong name or
// position is visible. Variants: [0] one segment per parameter; then two segments for every "*"
// and "+"; every optional parameter (":name?", "*") absent; letters for every <int> parameter.
func instantiateRich(full string) []string {
	if full == "" {
		return []string{"/"}
	}
	segs := strings.Split(full, "/")
	build := func(variant int) string {
		var out []string
		k := 0
		for i, sg := range segs {
			if i == 0 && sg == "" {
				out = append(out, "")
				continue
			}
			letter := string(rune('a' + k%26))
			switch {
			case sg == "*" || sg == "+":
				k++
				switch {
				case variant == 1:
					out = append(out, letter+"/"+letter+"2")
				case variant == 2 && sg == "*":
					// absent
				default:
					out = append(out, letter)
				}
			case strings.HasPrefix(sg, ":") && strings.HasSuffix(sg, "?"):
				k++
				if variant != 2 {
					out = append(out, letter)
				}
			case strings.HasPrefix(sg, ":") && strings.HasSuffix(sg, "<int>"):
				k++
				if variant == 3 {
					out = append(out, letter)
				} else {
					out = append(out, string(rune('0'+k%10)))
				}
			case strings.HasPrefix(sg, ":") && strings.Contains(sg, "<odd>"):
				// custom constraint "odd" (pattern-shape family): odd digit; variant 4 an even digit, variant 3 a letter
				k++
				v := string(rune('0' + (2*k-1)%10))
				switch variant {
				case 3:
					v = letter
				case 4:
					v = string(rune('0' + (2*k)%10))
				}
				out = append(out, v)
			case strings.HasPrefix(sg, ":"):
				k++
				out = append(out, letter)
			default:
				// a constant; "\\" escapes a special character; a parameter may follow a constant inside the segment ("v:id")
				if i := strings.Index(sg, ":"); i > 0 && sg[i-1] != '\\' {
					k++
					out = append(out, sg[:i]+letter)
					continue
				}
				out = append(out, strings.ReplaceAll(sg, "\\", ""))
			}
		}
		p := strings.Join(out, "/")
		if p == "" {
			p = "/"
		}
		return p
	}
	res := []string{build(0)}
	if strings.ContainsAny(full, "*+") {
		res = append(res, build(1))
	}
	if strings.ContainsAny(full, "*?") {
		res = append(res, build(2))
	}
	if strings.Contains(full, "<int>") || strings.Contains(full, "<odd>") {
		res = append(res, build(3))
	}
	if strings.Contains(full, "<odd>") {
		res = append(res, build(4))
	}
	return res
}

// lateMask: bit i is set when leaf i is registered after start-up in the two-phase program t.
func (ti *treeInfo) lateMask(t *tree) uint32 {
	var m uint32
	for i, lf := range ti.leaves {
		if lf.top >= t.split() {
			m |= 1 << i
		}
	}
	return m
}

// instantiate replaces :id by "v", :t by "w" and * by star.
func instantiate(full, star string) string {
	if full == "" {
		return "/"
	}
	if !strings.ContainsAny(full, ":*") {
		return full
	}
	segs := strings.Split(full, "/")
	for i, s := range segs {
		switch s {
		case ":id":
			segs[i] = "v"
		case ":t":
			segs[i] = "w"
		case "*":
			segs[i] = star
		}
	}
	return strings.Join(segs, "/")
}

// chainTree is the tree that keeps only the containers of chain and, innermost, leaf (nil = none).
func chainTree(chain []*node, leaf *node) *tree {
	var items []*node
	if leaf != nil {
		c := *leaf
		items = []*node{&c}
	}
	for i := len(chain) - 1; i >= 0; i-- {
		c := &node{T: chain[i].T, Prefix: chain[i].Prefix, MW: chain[i].MW, Items: items}
		items = []*node{c}
	}
	return &tree{Items: items}
}

// containersOnly is t without its routes.
func containersOnly(t *tree) *tree {
	var rec func(items []*node) []*node
	rec = func(items []*node) []*node {
		var out []*node
		for _, n := range items {
			if n.T != 'r' {
				out = append(out, &node{T: n.T, Prefix: n.Prefix, MW: n.MW, Items: rec(n.Items)})
			}
		}
		return out
	}
	return &tree{Items: rec(t.Items)}
}

// measure is the well-founded size the minimiser decreases.
func (t *tree) measure() [5]int {
	var m [5]int
	m[4] = t.Late
	var rec func(items []*node)
	rec = func(items []*node) {
		for _, n := range items {
			m[0]++
			if n.T == 'r' {
				m[3] += int(n.Kind)*100 + rankOf(patRanks(), n.Pat)*10
				if n.Next {
					m[3]++
				}
				continue
			}
			if n.T == 'm' || n.T == 's' || n.MW {
				m[1]++ // a group without a middleware of its own is simpler than one with it
			}
			if t.Late > 0 {
				m[1]++ // two-phase programs: a route is simpler than a container (empty group -> route)
			}
			m[2] += rankOf(prefixRanks(), n.Prefix)
			rec(n.Items)
		}
	}
	rec(t.Items)
	return m
}

func less4(a, b [5]int) bool {
	for i := range a {
		if a[i] != b[i] {
			return a[i] < b[i]
		}
	}
	return false
}

// candidates lists the one-step simplifications of t (each strictly smaller by measure()).
func (t *tree) candidates() []*tree {
	var out []*tree
	base := t.measure()
	// addr walks every node; mutate(copy) applies a change at the same address in a clone
	type addr []int
	var addrs []addr
	var walk func(items []*node, pre addr)
	walk = func(items []*node, pre addr) {
		for i, n := range items {
			a := append(append(addr(nil), pre...), i)
			addrs = append(addrs, a)
			if n.T != 'r' {
				walk(n.Items, a)
			}
		}
	}
	walk(t.Items, nil)
	at := func(c *tree, a addr) (parent *[]*node, idx int) {
		items := &c.Items
		for k := 0; k < len(a)-1; k++ {
			items = &(*items)[a[k]].Items
		}
		return items, a[len(a)-1]
	}
	emit := func(c *tree) {
		if less4(c.measure(), base) {
			out = append(out, c)
		}
	}
	// a two-phase program stays one: something before and something after start-up
	emit0 := emit
	emit = func(c *tree) {
		if t.Late > 0 && !c.phased() {
			return
		}
		emit0(c)
	}
	// 0. one more top-level item registered before start-up
	if t.Late > 1 {
		c := t.clone()
		c.Late--
		emit(c)
	}
	// 1. delete a node
	for _, a := range addrs {
		c := t.clone()
		p, i := at(c, a)
		*p = append((*p)[:i:i], (*p)[i+1:]...)
		if len(a) == 1 && t.Late > 0 && i >= t.split() {
			c.Late--
		}
		emit(c)
	}
	// 2. hoist a container's items into its parent
	for _, a := range addrs {
		c := t.clone()
		p, i := at(c, a)
		n := (*p)[i]
		if n.T == 'r' {
			continue
		}
		repl := append(append(append([]*node(nil), (*p)[:i]...), n.Items...), (*p)[i+1:]...)
		*p = repl
		if len(a) == 1 && t.Late > 0 && i >= t.split() {
			c.Late += len(n.Items) - 1
		}
		emit(c)
	}
	// 3. mount -> group
	for _, a := range addrs {
		c := t.clone()
		p, i := at(c, a)
		if (*p)[i].T == 'm' {
			(*p)[i].T = 'g'
			emit(c)
		}
	}
	// 3a. a group created without its middleware
	for _, a := range addrs {
		c := t.clone()
		p, i := at(c, a)
		if (*p)[i].MW {
			(*p)[i].MW = false
			emit(c)
		}
	}
	// 3b. two-phase programs: an empty group replaced by the simplest route (one canonical minimum)
	if t.Late > 0 {
		for _, a := range addrs {
			c := t.clone()
			p, i := at(c, a)
			if n := (*p)[i]; n.T == 'g' && len(n.Items) == 0 {
				(*p)[i] = &node{T: 'r', Kind: kGET, Pat: patRanks()[0]}
				emit(c)
			}
		}
	}
	// 4. simpler prefix
	for _, a := range addrs {
		p0, i0 := at(t, a)
		n0 := (*p0)[i0]
		if n0.T == 'r' {
			continue
		}
		for r := 0; r < rankOf(prefixRanks(), n0.Prefix); r++ {
			c := t.clone()
			p, i := at(c, a)
			(*p)[i].Prefix = prefixRanks()[r]
			emit(c)
		}
	}
	// 4b. every occurrence of one prefix replaced by a simpler one
	seenP := map[string]bool{}
	for _, a := range addrs {
		p0, i0 := at(t, a)
		n0 := (*p0)[i0]
		if n0.T == 'r' || seenP[n0.Prefix] {
			continue
		}
		seenP[n0.Prefix] = true
		for r := 0; r < rankOf(prefixRanks(), n0.Prefix); r++ {
			c := t.clone()
			changed := 0
			for _, b := range addrs {
				p, i := at(c, b)
				if (*p)[i].T != 'r' && (*p)[i].Prefix == n0.Prefix {
					(*p)[i].Prefix = prefixRanks()[r]
					changed++
				}
			}
			if changed > 1 {
				emit(c)
			}
		}
	}
	// 5. simpler leaf
	for _, a := range addrs {
		p0, i0 := at(t, a)
		n0 := (*p0)[i0]
		if n0.T != 'r' {
			continue
		}
		for k := uint8(0); k < n0.Kind; k++ {
			c := t.clone()
			p, i := at(c, a)
			(*p)[i].Kind = k
			emit(c)
		}
		for r := 0; r < rankOf(patRanks(), n0.Pat); r++ {
			c := t.clone()
			p, i := at(c, a)
			(*p)[i].Pat = patRanks()[r]
			emit(c)
		}
		if n0.Next {
			c := t.clone()
			p, i := at(c, a)
			(*p)[i].Next = false
			emit(c)
		}
	}
	return out
}

// parseTree reads the text form produced by (*tree).String().
func parseTree(s string) (t *tree, err error) {
	defer func() {
		if r := recover(); r != nil {
			t, err = nil, fmt.Errorf("bad tree text: %v", r)
		}
	}()
	if strings.HasPrefix(s, "params:") { // a tree of the parameterised-prefix family: switch the mode (replay, -tree)
		setMode(true, false)
		s = s[len("params:"):]
	}
	if strings.HasPrefix(s, "forms:") { // a tree of the registration-forms family
		setMode(false, true)
		s = s[len("forms:"):]
	}
	pos := 0
	skip := func() {
		for pos < len(s) && (s[pos] == ' ' || s[pos] == ';') {
			pos++
		}
	}
	expect := func(lit string) {
		skip()
		if !strings.HasPrefix(s[pos:], lit) {
			panic(fmt.Sprintf("expected %q at %d", lit, pos))
		}
		pos += len(lit)
	}
	str := func() string {
		expect(`"`)
		j := strings.IndexByte(s[pos:], '"')
		v := s[pos : pos+j]
		pos += j + 1
		return v
	}
	splitAt := -1
	var items func(closer byte) []*node
	items = func(closer byte) []*node {
		var out []*node
		for {
			skip()
			if s[pos] == closer {
				pos++
				return out
			}
			if closer == ']' && strings.HasPrefix(s[pos:], "||") { // start-up marker (top level only)
				pos += 2
				splitAt = len(out)
				continue
			}
			switch {
			case strings.HasPrefix(s[pos:], "again("):
				pos += 6
				n := &node{T: 's'}
				n.Prefix = str()
				expect(")")
				out = append(out, n)
			case strings.HasPrefix(s[pos:], "group(") || strings.HasPrefix(s[pos:], "mount("):
				n := &node{T: s[pos]}
				pos += 6
				n.Prefix = str()
				skip()
				if strings.HasPrefix(s[pos:], "+mw") {
					n.MW = true
					pos += 3
				}
				expect("){")
				n.Items = items('}')
				out = append(out, n)
			default:
				n := &node{T: 'r'}
				j := strings.IndexByte(s[pos:], ' ')
				if j < 0 {
					panic("route kind at " + s[pos:])
				}
				k := s[pos : pos+j]
				pos += j
				n.Kind = uint8(rankOf(kindNames[:], k))
				if int(n.Kind) == len(kindNames) {
					panic("route kind " + k)
				}
				n.Pat = str()
				skip()
				if strings.HasPrefix(s[pos:], "next") {
					n.Next = true
					pos += 4
				} else {
					expect("reply")
				}
				out = append(out, n)
			}
		}
	}
	expect("[")
	t = &tree{Items: items(']')}
	if splitAt >= 0 {
		t.Late = len(t.Items) - splitAt
	}
	return t, nil
}
