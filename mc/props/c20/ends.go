// C20 layer E — "how the exchange ends".
//
// The confidentiality clause ("a cookie set by a handler behind the middleware reaches the
// client only as ciphertext") holds for EVERY response the server writes, whatever its status
// and whoever produced its body. Layers A–D only ever let the handler return nil with 200.
// Layer E enumerates, on real wire-level exchanges,
//
//	how the final handler ends   return nil (no body / body / 201 / redirect), c.SendStatus(4xx/5xx),
//	                             return *fiber.Error (4xx, 5xx, after a body was written, wrapped
//	                             with %w), return a plain error, return c.Next() with no further
//	                             route, no route at all (router 404), panic with the recover
//	                             middleware registered in front
//	who reacts to an error       the application ErrorHandler (default / custom) or a downstream
//	                             middleware that answers the error itself and returns nil
//	where the cookies are set    downstream middleware before c.Next(), final handler before and
//	                             after the response-writing call, downstream middleware after
//	                             c.Next() returned; one cookie, two cookies (all slot pairs), the
//	                             same name set twice (the later value overrides)
//	how the chain is built       app.Use(mw) + app.Get(final)  /  app.Get(path, mw, final)
//
// x keys x every Except subset x a value menu. Every exchange also carries one validly issued
// request cookie, so both directions are judged in the same exchange. The oracle is the one of
// the other layers (checkResp / checkView): it is applied to whatever response reaches the wire.
package main

import (
	"bytes"
	"errors"
	"fmt"
	"strings"

	"github.com/gofiber/fiber/v3"
	"github.com/gofiber/fiber/v3/middleware/encryptcookie"
	recovermw "github.com/gofiber/fiber/v3/middleware/recover"

	"verifmc/core"
)

type endKind struct {
	Name   string // precise description (cases, outcomes)
	Class  string // class used in violation signatures
	Path   string
	Status int  // status of the application WITHOUT the middleware (harness self-check)
	Final  bool // the final handler runs
	Late   bool // the final handler has a response-writing call, after which the "late" cookies are set
	After  bool // control returns to the downstream middleware after its c.Next()
	Err    bool // that c.Next() returns a non-nil error
	Rec    bool // the recover middleware is registered in front of encryptcookie
}

const (
	eNil = iota
	eBodyNil
	e201
	eRedirect
	eSendStatus403
	eSendStatus502
	eFiber401
	eFiber503
	ePlainErr
	eBodyThenFiber400
	eWrapped403
	eNextNoRoute
	eNoRoute
	ePanic
)

var ends = []endKind{
	eNil:              {Name: "return nil, no body", Class: "nil-200", Path: "/x", Status: 200, Final: true, After: true},
	eBodyNil:          {Name: "SendString, return nil", Class: "nil-200", Path: "/x", Status: 200, Final: true, Late: true, After: true},
	e201:              {Name: "Status(201).SendString, return nil", Class: "nil-other-status", Path: "/x", Status: 201, Final: true, Late: true, After: true},
	eRedirect:         {Name: "return c.Redirect().To(...)", Class: "nil-other-status", Path: "/x", Status: 302, Final: true, Late: true, After: true},
	eSendStatus403:    {Name: "return c.SendStatus(403)", Class: "sendstatus-4xx", Path: "/x", Status: 403, Final: true, Late: true, After: true},
	eSendStatus502:    {Name: "return c.SendStatus(502)", Class: "sendstatus-5xx", Path: "/x", Status: 502, Final: true, Late: true, After: true},
	eFiber401:         {Name: "return fiber.NewError(401)", Class: "fiber-error-4xx", Path: "/x", Status: 401, Final: true, After: true, Err: true},
	eFiber503:         {Name: "return fiber.ErrServiceUnavailable", Class: "fiber-error-5xx", Path: "/x", Status: 503, Final: true, After: true, Err: true},
	ePlainErr:         {Name: "return errors.New(...)", Class: "plain-error", Path: "/x", Status: 500, Final: true, After: true, Err: true},
	eBodyThenFiber400: {Name: "SendString, then return fiber.ErrBadRequest", Class: "fiber-error-4xx", Path: "/x", Status: 400, Final: true, Late: true, After: true, Err: true},
	eWrapped403:       {Name: "return fmt.Errorf(\"%w\", fiber.ErrForbidden)", Class: "wrapped-fiber-error", Path: "/x", Status: 403, Final: true, After: true, Err: true},
	eNextNoRoute:      {Name: "return c.Next() with no further route", Class: "router-404", Path: "/x", Status: 404, Final: true, After: true, Err: true},
	eNoRoute:          {Name: "no route matches (only the middlewares run)", Class: "router-404", Path: "/none", Status: 404, After: true, Err: true},
	ePanic:            {Name: "panic, recover middleware in front", Class: "panic-recovered-upstream", Path: "/x", Status: 500, Final: true, Rec: true},
}

// cookie slots in execution order
const (
	sMwBefore = iota
	sFinalEarly
	sFinalLate
	sMwAfter
	nSlots
)

var slotName = [nSlots]string{"downstream-middleware-before-next", "final-handler-early", "final-handler-after-response-write", "downstream-middleware-after-next"}

var dmName = []string{"propagates the error", "answers the error itself (500) and returns nil"}
var ehName = []string{"default", "custom (status from *fiber.Error, own body)"}
var structName = []string{"app.Use(encryptcookie); app.Use(mw); app.Get(final)", "app.Use(encryptcookie); app.Get(path, mw, final)"}

type plan struct {
	End  int
	DM   int // 0: downstream middleware returns what c.Next() returned; 1: it answers an error itself and returns nil
	Slot [nSlots][]ck
}

var (
	gPlan     *plan
	gRanFinal int
)

func setAll(c fiber.Ctx, cs []ck) {
	for _, s := range cs {
		c.Cookie(&fiber.Cookie{Name: s.N, Value: s.V})
	}
}

// mwE is the middleware behind encryptcookie: it records what it sees of the request, may set
// cookies before and after the rest of the chain.
func mwE(c fiber.Ctx) error {
	gRan++
	c.Request().Header.VisitAllCookie(func(k, v []byte) {
		gView = append(gView, ck{string(k), string(v)})
	})
	for _, n := range names {
		gGet[n] = string([]byte(c.Cookies(n)))
	}
	p := gPlan
	setAll(c, p.Slot[sMwBefore])
	err := c.Next()
	setAll(c, p.Slot[sMwAfter])
	if err != nil && p.DM == 1 {
		return c.Status(fiber.StatusInternalServerError).SendString("handled downstream: " + err.Error())
	}
	return err
}

func finalE(c fiber.Ctx) error {
	gRanFinal++
	p := gPlan
	setAll(c, p.Slot[sFinalEarly])
	var ret error
	switch p.End {
	case eNil:
	case eBodyNil:
		ret = c.SendString("ok")
	case e201:
		ret = c.Status(fiber.StatusCreated).SendString("created")
	case eRedirect:
		ret = c.Redirect().To("/elsewhere")
	case eSendStatus403:
		ret = c.SendStatus(fiber.StatusForbidden)
	case eSendStatus502:
		ret = c.SendStatus(fiber.StatusBadGateway)
	case eFiber401:
		ret = fiber.NewError(fiber.StatusUnauthorized, "nope")
	case eFiber503:
		ret = fiber.ErrServiceUnavailable
	case ePlainErr:
		ret = errors.New("boom")
	case eBodyThenFiber400:
		_ = c.SendString("partial")
		ret = fiber.ErrBadRequest
	case eWrapped403:
		ret = fmt.Errorf("checking access: %w", fiber.ErrForbidden)
	case eNextNoRoute:
		ret = c.Next()
	}
	setAll(c, p.Slot[sFinalLate])
	if p.End == ePanic {
		panic("boom")
	}
	return ret
}

func customErrorHandler(c fiber.Ctx, err error) error {
	code := fiber.StatusInternalServerError
	var fe *fiber.Error
	if errors.As(err, &fe) {
		code = fe.Code
	}
	return c.Status(code).SendString("custom error page: " + err.Error())
}

type appEKey struct {
	MW                    bool
	Ki, Mask, EH, St, Rec int
}

var appECache = map[appEKey]*fiber.App{}

func appE(k appEKey) *fiber.App {
	if !k.MW {
		k.Ki, k.Mask = 0, 0
	}
	if a, ok := appECache[k]; ok {
		return a
	}
	cfg := fiber.Config{ReadBufferSize: 1 << 16, DisableDefaultDate: true}
	if k.EH == 1 {
		cfg.ErrorHandler = customErrorHandler
	}
	app := fiber.New(cfg)
	if k.Rec == 1 {
		app.Use(recovermw.New())
	}
	if k.MW {
		app.Use(encryptcookie.New(encryptcookie.Config{Key: keys[k.Ki], Except: exceptOf(k.Mask)}))
	}
	if k.St == 0 {
		app.Use(mwE)
		app.Get("/x", finalE)
	} else {
		app.Get("/x", mwE, finalE)
	}
	app.Handler()
	appECache[k] = app
	return app
}

// effective mirrors the control flow of mwE/finalE: which cookies are in the response, in header
// order (a later cookie of the same name replaces the value in place), where each was set, and
// which values were set and later overridden.
func (p *plan) effective() (eff []ck, at []string, shadowed []ck) {
	k := &ends[p.End]
	for s := 0; s < nSlots; s++ {
		if (s == sFinalEarly || s == sFinalLate) && !k.Final {
			continue
		}
		if s == sMwAfter && !k.After {
			continue
		}
		for _, c := range p.Slot[s] {
			done := false
			for i := range eff {
				if eff[i].N == c.N {
					shadowed = append(shadowed, eff[i])
					eff[i].V, at[i], done = c.V, slotName[s], true
				}
			}
			if !done {
				eff = append(eff, c)
				at = append(at, slotName[s])
			}
		}
	}
	return eff, at, shadowed
}

func (p *plan) expectedStatus() int {
	k := &ends[p.End]
	if k.Err && p.DM == 1 {
		return 500
	}
	return k.Status
}

// forEachPlacement enumerates the cookie placements over the usable slots:
// one cookie (names x slots), two cookies of different names (ordered name pairs x slot pairs
// s1<=s2), the same name twice (names x slot pairs s1<s2); each with every rotation of the value menu.
func forEachPlacement(usable []int, menu []string, fn func(slots [nSlots][]ck)) {
	m := len(menu)
	for r := 0; r < m; r++ {
		v1, v2 := menu[r], menu[(r+1)%m]
		for ni := range names {
			for _, s := range usable {
				var sl [nSlots][]ck
				sl[s] = []ck{{names[ni], v1}}
				fn(sl)
			}
		}
		for ni := range names {
			for nj := range names {
				for i1, s1 := range usable {
					for _, s2 := range usable[i1:] {
						if ni == nj && s1 == s2 {
							continue
						}
						var sl [nSlots][]ck
						sl[s1] = append(sl[s1], ck{names[ni], v1})
						sl[s2] = append(sl[s2], ck{names[nj], v2})
						fn(sl)
					}
				}
			}
		}
	}
}

const reqSecret = "request secret"

func layerE(l *core.Local, ki, mask, eh, st int, menu []string, sample bool) {
	x := &cx{l: l, layer: "E", ki: ki, mask: mask}
	// one validly issued request cookie per name (issued by the plain single-handler application under the same key)
	var reqW [3]string
	for ni := range names {
		w, ok := x.issueOne(mwApp(ki, 0), names[ni], reqSecret)
		if !ok {
			l.Violate("issue-failed layer=E", "could not obtain a cookie", nil, nil, nil)
			return
		}
		reqW[ni] = w
	}
	pi := 0
	for end := range ends {
		k := &ends[end]
		if st == 1 && !k.Final {
			continue // route-level chain: nobody behind the middleware runs when no route matches
		}
		rec := 0
		if k.Rec {
			rec = 1
		}
		app := appE(appEKey{MW: true, Ki: ki, Mask: mask, EH: eh, St: st, Rec: rec})
		base := appE(appEKey{EH: eh, St: st, Rec: rec})
		var usable []int
		usable = append(usable, sMwBefore)
		if k.Final {
			usable = append(usable, sFinalEarly)
			if k.Late {
				usable = append(usable, sFinalLate)
			}
		}
		if k.After {
			usable = append(usable, sMwAfter)
		}
		dms := []int{0}
		if k.Err {
			dms = []int{0, 1}
		}
		for _, dm := range dms {
			forEachPlacement(usable, menu, func(slots [nSlots][]ck) {
				p := &plan{End: end, DM: dm, Slot: slots}
				rn := pi % len(names)
				pi++
				eff, at, shadowed := p.effective()
				var where []string
				for i := range eff {
					where = append(where, eff[i].N+" @ "+at[i])
				}
				for _, s := range shadowed {
					where = append(where, s.N+"="+q(s.V)+" set earlier and overridden")
				}
				x.extra = map[string]any{"handler_end": k.Name, "downstream_middleware": dmName[dm], "error_handler": ehName[eh],
					"chain": structName[st], "cookies_set_at": where, "recover_in_front": k.Rec}
				x.endClass, x.setAt = k.Class, at
				if k.Err && dm == 1 {
					x.endClass = "error-answered-by-downstream-middleware"
				}
				defer func() { x.extra, x.endClass, x.setAt = nil, "", nil }()

				req := []sent{{Name: names[rn], Text: reqW[rn], Mode: mMust, Must: reqSecret, Kind: "issued"}}
				if excepted(mask, names[rn]) {
					req[0] = sent{Name: names[rn], Text: reqW[rn], Mode: mBase, Kind: "excepted"}
				}
				h := hdr1(names[rn], []byte(reqW[rn]))
				gPlan = p
				e := doPath(app, k.Path, h)
				ranFinal := gRanFinal
				gPlan = p
				b := doPath(base, k.Path, h)
				// harness self-check on the application without the middleware
				wantFinal := 0
				if k.Final {
					wantFinal = 1
				}
				if b.Panic != nil || b.ParseErr != nil || b.Resp.Status != p.expectedStatus() || b.Ran != 1 || gRanFinal != wantFinal || len(b.Resp.SetCookies) != len(eff) {
					core.Fatal("layer E baseline is not what the plan says: %v", x.caseMap(req, eff, b))
				}
				l.Add("evaluations", 1)
				l.Add("ends_exchanges", 1)
				nt := false
				for _, s := range eff {
					nt = nt || (s.V != "" && !excepted(mask, s.N))
				}
				if nt {
					l.Add("nontrivial", 1)
				}
				switch {
				case e.Panic != nil:
					l.Violate("panic-in-exchange layer=E end="+x.endClass, "the server panicked while serving the request", x.caseMap(req, eff, e), e.Panic, "a response")
					return
				case e.ParseErr != nil:
					l.Violate("response-unparseable end="+x.endClass, "the response is not a well-formed HTTP/1.1 message: "+e.ParseErr.Error(), x.caseMap(req, eff, e), nil, nil)
					return
				case e.Ran != 1 || ranFinal != wantFinal:
					l.Violate(fmt.Sprintf("handler-runs=%d/%d end=%s", e.Ran, ranFinal, x.endClass), "the handlers behind the middleware did not run as without it", x.caseMap(req, eff, e), nil, nil)
					return
				}
				nv := len(l.P.Violations)
				var cnt int64
				for _, v := range l.P.Violations {
					cnt += v.Count
				}
				x.checkView(e, b, req, -1, eff)
				x.checkResp(e, b, req, eff)
				// a value that was set and later overridden must not be anywhere in the response either
				for _, s := range shadowed {
					if !excepted(mask, s.N) && distinctive(s.V) && bytes.Contains(e.Raw, []byte(s.V)) {
						l.Violate("overridden-plaintext-in-response end="+x.endClass, "a value a handler set for a non-excepted cookie (and overrode later) is in the response in plaintext", x.caseMap(req, eff, e), nil, nil)
					}
				}
				var cnt2 int64
				for _, v := range l.P.Violations {
					cnt2 += v.Count
				}
				if len(l.P.Violations) == nv && cnt2 == cnt {
					stat := "status as without the middleware"
					if e.Resp.Status != b.Resp.Status {
						// the statement does not speak about the status: recorded, not judged
						stat = fmt.Sprintf("status %d instead of %d", e.Resp.Status, b.Resp.Status)
						l.Add("ends_status_differs", 1)
					}
					l.Outcome(fmt.Sprintf("ends: %s; downstream middleware %s -> %d, %s, cookies as required", k.Name, strings.SplitN(dmName[dm], " (", 2)[0], b.Resp.Status, stat))
					if nt && b.Resp.Status >= 400 {
						l.Add("ends_error_status_encrypted", 1)
					}
					if nt && k.Err && dm == 0 {
						l.Add("ends_error_returned_encrypted", 1)
					}
				}
				if sample && end == eFiber401 && dm == 0 && len(eff) == 2 && at[0] != at[1] && len(l.P.Samples) < 3 && eff[0].V == menu[0] {
					sample = false
					var lines []string
					for _, sc := range e.Resp.SetCookies {
						lines = append(lines, q(sc.Line))
					}
					l.Sample(map[string]any{"layer": "E", "key_bytes": keyBytes[ki], "except": exceptOf(mask), "handler_end": k.Name, "cookies_set_at": where,
						"status": e.Resp.Status, "set_cookie_lines": lines})
				}
			})
		}
	}
}
