// C20 layers F, K, L, M, N — dimensions added by the clause-coverage audit (AUDIT.md).
//
//	layer N  cookie names vs Except: a family of names that are related to one another (case variants, prefixes,
//	         extensions, one byte off, 64-byte names) x Except lists built from them (single entry, entry padded
//	         with unrelated names in front / around / behind, entry listed twice, all names in three orders, empty):
//	         a name is excepted iff it is listed EXACTLY; all names in one exchange and every name alone
//	layer M  many cookies: 4..64 (thorough ..200) cookies per request and per response, names and values of
//	         varying length, none / two of them excepted; a forgery at the first, second, middle, last-but-one and
//	         last position while the others stay valid, and all of them forged at once
//	layer L  long values also in the quick tier: 1000..20000-byte values, issue / replay / the reduced manipulation
//	         family / other key / plaintext, Except = none, this name, the other names
//	layer K  what kind of request it is and Config.Next: 7 methods x 3 spellings of the Cookie field name x 2
//	         separators x Next {nil, always false, true for paths under /skip}; after a skipped request the next
//	         one must be processed in full (requests Next answers true for are outside the statement: outcome only)
//	layer F  the Encryptor fails (environment answer: the entropy source returns an error; configuration: a custom
//	         Encryptor returns one) for the 1st..nth cookie of the response, once or from then on, with and without
//	         the recover middleware in front: whatever response reaches the wire carries no plaintext of a
//	         non-excepted cookie, and the next exchange on the same application is served as usual
//
// All of them are judged by the oracle of layers A-E (checkResp / checkView / judge); values are carriable ones
// only, so the two known lossy-value findings are not re-reported under other signatures.
package main

import (
	"bytes"
	"fmt"
	"sort"
	"strings"

	"github.com/gofiber/fiber/v3"
	"github.com/gofiber/fiber/v3/middleware/encryptcookie"
	recovermw "github.com/gofiber/fiber/v3/middleware/recover"

	"verifmc/core"
)

// ---------------------------------------------------------------------------
// applications and requests of the added layers

const (
	nextNil = iota
	nextNever
	nextSkipPath
)

var nextName = []string{"nil", "always-false", "true-under-/skip"}

type appSpec struct {
	MW      bool
	Key     string
	Except  []string
	Next    int
	EncFail bool // custom Encryptor/Decryptor: the defaults, but the Encryptor fails as armed in gEncFail
	Rec     bool
}

// custom Encryptor failure injection (layer F, cause "custom Encryptor returns an error")
var gEncFail struct {
	calls, failAt int
	sticky        bool
}

func armEnc(failAt int, sticky bool) {
	gEncFail.calls, gEncFail.failAt, gEncFail.sticky = 0, failAt, sticky
}

func newAppX(sp appSpec) *fiber.App {
	app := fiber.New(fiber.Config{ReadBufferSize: 1 << 16, DisableDefaultDate: true})
	if sp.Rec {
		app.Use(recovermw.New())
	}
	if sp.MW {
		cfg := encryptcookie.Config{Key: sp.Key, Except: sp.Except}
		switch sp.Next {
		case nextNever:
			cfg.Next = func(fiber.Ctx) bool { return false }
		case nextSkipPath:
			cfg.Next = func(c fiber.Ctx) bool { return strings.HasPrefix(c.Path(), "/skip/") }
		}
		if sp.EncFail {
			cfg.Encryptor = func(v, k string) (string, error) {
				gEncFail.calls++
				if gEncFail.failAt > 0 && (gEncFail.calls == gEncFail.failAt || (gEncFail.sticky && gEncFail.calls > gEncFail.failAt)) {
					return "", errNoEntropy
				}
				return encryptcookie.EncryptCookie(v, k)
			}
			cfg.Decryptor = func(v, k string) (string, error) { return encryptcookie.DecryptCookie(v, k) }
		}
		app.Use(encryptcookie.New(cfg))
	}
	app.All("/x", handler)
	app.All("/skip/x", handler)
	app.Handler()
	return app
}

var xBaseApp *fiber.App

func xBase() *fiber.App {
	if xBaseApp == nil {
		xBaseApp = newAppX(appSpec{})
	}
	return xBaseApp
}

type shape struct {
	Method, Path, HdrName, Sep string
}

var defShape = shape{"GET", "/x", "Cookie", "; "}

var xBuf []byte

// doShape sends one request of the given shape carrying the cookies of req in one Cookie field.
func doShape(app *fiber.App, sh shape, req []sent, set []ck) *exch {
	gSet = set
	b := xBuf[:0]
	b = append(b, sh.Method...)
	b = append(b, ' ')
	b = append(b, sh.Path...)
	b = append(b, " HTTP/1.1\r\nHost: h\r\n"...)
	if len(req) > 0 {
		b = append(b, sh.HdrName...)
		b = append(b, ": "...)
		for i, s := range req {
			if i > 0 {
				b = append(b, sh.Sep...)
			}
			b = append(b, s.Name...)
			b = append(b, '=')
			b = append(b, s.Text...)
		}
		b = append(b, '\r', '\n')
	}
	switch sh.Method {
	case "POST", "PUT", "PATCH":
		b = append(b, "Content-Length: 0\r\n"...)
	}
	b = append(b, '\r', '\n')
	xBuf = b
	return doRaw(app, b)
}

// ---------------------------------------------------------------------------
// the common routine: issue a set, replay it, forge positions

type exOpts struct {
	Sh        shape
	Positions []int  // positions that are forged in turn (nil = all)
	Full      bool   // the reduced manipulation family of layer B instead of the four-forgery family
	OtherKi   int    // key index of the foreign ciphertexts
	Counter   string // per-layer exchange counter
}

// exercise lets the handler set `set`, judges the response, replays the issued cookies while the handler sets
// them again with rotated values, then forges the chosen positions in turn and all of them at once.
func (x *cx) exercise(app, base *fiber.App, set []ck, o exOpts) bool {
	l := x.l
	n := len(set)
	count := func(nontrivial bool) {
		l.Add("evaluations", 1)
		l.Add(o.Counter, 1)
		if nontrivial {
			l.Add("nontrivial", 1)
		}
	}
	ex := doShape(app, o.Sh, nil, set)
	bx := doShape(base, o.Sh, nil, set)
	nt := false
	for _, s := range set {
		nt = nt || (s.V != "" && !x.isExc(s.N))
	}
	count(nt)
	if !x.sound(ex, nil, set) {
		return false
	}
	wire := x.checkResp(ex, bx, nil, set)
	if wire == nil {
		return false
	}
	set2 := make([]ck, n)
	valid := make([]sent, n)
	anyFree := 0
	for i := range set {
		set2[i] = ck{set[i].N, set[(i+1)%n].V}
		if x.isExc(set[i].N) {
			valid[i] = sent{Name: set[i].N, Text: wire[i], Mode: mBase, Kind: "excepted"}
		} else {
			valid[i] = sent{Name: set[i].N, Text: wire[i], Mode: mMust, Must: set[i].V, Kind: "issued"}
			anyFree++
		}
	}
	run := func(req []sent, target int, nontrivial bool) bool {
		e := doShape(app, o.Sh, req, set2)
		b := doShape(base, o.Sh, req, set2)
		if b.Panic != nil || b.ParseErr != nil || b.Resp.Status != 200 || b.Ran != 1 {
			core.Fatal("baseline exchange of an added layer failed: %v", x.caseMap(req, set2, b))
		}
		count(nontrivial)
		if !x.sound(e, req, set2) {
			return false
		}
		ok := x.checkView(e, b, req, target, set2)
		return x.checkResp(e, b, req, set2) != nil && ok
	}
	all := true
	if run(valid, -1, false) {
		l.Add("replay_ok", 1)
		l.Outcome("added layers: replay of the issued cookies reaches the handler as set")
	} else {
		all = false
	}
	pos := o.Positions
	if pos == nil {
		for t := 0; t < n; t++ {
			pos = append(pos, t)
		}
	}
	for _, t := range pos {
		W := wire[t]
		Cb := decodeStd(W)
		exc := valid[t].Mode == mBase
		mk := func(kind string, s []byte) sent {
			if exc {
				return sent{Name: valid[t].Name, Text: string(s), Mode: mBase, Kind: kind}
			}
			return sent{Name: valid[t].Name, Text: string(s), Mode: mAltered, Kind: kind, C: W, Cb: Cb, Issued: set[t].V}
		}
		try := func(ts sent) {
			req := append([]sent(nil), valid...)
			req[t] = ts
			if run(req, t, true) {
				if exc {
					l.Add("excepted_req_pass", 1)
					l.Outcome("added layers: manipulated excepted cookie passes unchanged, others intact")
				} else {
					l.Add("tamper_rejected_or_same", 1)
					l.Outcome("added layers: " + strings.SplitN(ts.Kind, "-", 2)[0] + " on one cookie rejected/same-bytes, others intact")
				}
			} else {
				all = false
			}
		}
		if o.Full {
			forEachReduced(W, func(kind string, s []byte) { try(mk(kind, s)) })
		} else if len(W) > 0 {
			try(mk("trunc-tail", []byte(W[:len(W)/2])))
			b := []byte(W)
			b[0] = map[bool]byte{true: 'B', false: 'A'}[b[0] == 'A']
			try(mk("subst-b64", b))
		}
		if Wj, ok := x.issueOne(mwApp(o.OtherKi, 0), valid[t].Name, set[t].V); ok {
			try(mk("other-key", []byte(Wj)))
		}
		if !exc {
			try(mk("plaintext", []byte("forged-"+valid[t].Name)))
			if set[t].V != "" && sendable(set[t].V) {
				try(mk("plaintext", []byte(set[t].V)))
			}
		} else if C0, ok := x.issueOne(mwApp(x.ki, 0), valid[t].Name, set[t].V); ok {
			try(mk("ciphertext-for-excepted-name", []byte(C0)))
		}
	}
	if anyFree >= 2 {
		for _, kind := range []string{"trunc-tail", "plaintext"} {
			req := append([]sent(nil), valid...)
			for t := range req {
				if valid[t].Mode == mBase {
					continue
				}
				text := "forged-" + valid[t].Name
				if kind == "trunc-tail" {
					text = wire[t][:len(wire[t])/2]
				}
				req[t] = sent{Name: valid[t].Name, Text: text, Mode: mAltered, Kind: kind, C: wire[t], Cb: decodeStd(wire[t]), Issued: set[t].V}
			}
			if run(req, -1, true) {
				l.Outcome("added layers: all non-excepted cookies manipulated at once -> all \"\"")
			} else {
				all = false
			}
		}
	}
	return all
}

// ---------------------------------------------------------------------------
// layer N: names vs Except

func longName(last byte) string {
	const al = "abcdefghijklmnopqrstuvwxyz0123456789-_"
	b := make([]byte, 64)
	for i := range b {
		b[i] = al[(i*5+3)%len(al)]
	}
	b[0] = 'n'
	b[63] = last
	return string(b)
}

var relNames = []string{"sess", "Sess", "SESS", "ses", "sessx", "xsess", "sess.", "s", "a-b", "a_b", "a.b", "A.B",
	longName('q'), longName('r'), strings.ToUpper(longName('q'))}

var nFillers = []string{"zz0", "csrf_", "f2", "theme", "f4", "lang", "f6", "f7"}

type excList struct {
	Shape string
	List  []string
}

func exceptLists() []excList {
	out := []excList{{"empty", []string{}}}
	for _, n := range relNames {
		out = append(out, excList{"single", []string{n}})
	}
	for _, n := range relNames {
		out = append(out, excList{"entry-then-8-unrelated", append([]string{n}, nFillers...)})
		mid := append(append(append([]string{}, nFillers[:4]...), n), nFillers[4:]...)
		out = append(out, excList{"entry-amid-8-unrelated", mid})
		out = append(out, excList{"8-unrelated-then-entry", append(append([]string{}, nFillers...), n)})
	}
	for _, i := range []int{0, 1, 6, 10, 12} {
		out = append(out, excList{"entry-twice", []string{relNames[i], relNames[i]}})
	}
	all := append([]string{}, relNames...)
	out = append(out, excList{"all-names", all})
	rev := make([]string, len(all))
	for i, n := range all {
		rev[len(all)-1-i] = n
	}
	out = append(out, excList{"all-names-reversed", rev})
	srt := append([]string{}, all...)
	sort.Strings(srt)
	out = append(out, excList{"all-names-sorted", srt})
	return out
}

func foldEq(a, b string) bool { return strings.EqualFold(a, b) }

// relOf names how a cookie name relates to the Except list (the closest relation wins).
func relOf(name string, exc []string) string {
	rank := map[string]int{"listed": 0, "case-variant-of-listed": 1, "one-byte-off-listed": 2, "prefix-of-listed": 3, "extends-listed": 4, "ends-with-listed": 5, "unrelated": 6}
	best := "unrelated"
	for _, e := range exc {
		r := "unrelated"
		switch {
		case e == name:
			r = "listed"
		case foldEq(e, name):
			r = "case-variant-of-listed"
		case len(e) == len(name) && oneOff(e, name):
			r = "one-byte-off-listed"
		case strings.HasPrefix(e, name):
			r = "prefix-of-listed"
		case strings.HasPrefix(name, e):
			r = "extends-listed"
		case strings.HasSuffix(name, e):
			r = "ends-with-listed"
		}
		if rank[r] < rank[best] {
			best = r
		}
	}
	return best
}

func oneOff(a, b string) bool {
	d := 0
	for i := range a {
		if a[i] != b[i] {
			d++
		}
	}
	return d == 1
}

func layerN(l *core.Local, ki, li int, sample bool) {
	el := exceptLists()[li]
	x := &cx{l: l, layer: "N", ki: ki, exc: el.List, useExc: true}
	x.extra = map[string]any{"except_list_shape": el.Shape}
	x.qualFn = func(name string) string {
		if name == "" {
			return " except-list=" + el.Shape
		}
		return " name-is=" + relOf(name, el.List) // the shape of the list is in the case
	}
	old := gNames
	gNames = relNames
	defer func() { gNames = old }()
	app := newAppX(appSpec{MW: true, Key: keys[ki], Except: el.List})
	base := xBase()
	o := exOpts{Sh: defShape, OtherKi: (ki + 2) % len(keys), Counter: "names_exchanges"}
	// all names in one exchange
	set := make([]ck, len(relNames))
	for i, n := range relNames {
		set[i] = ck{n, fmt.Sprintf("secret value no. %d of this response", i)}
	}
	if x.exercise(app, base, set, o) {
		l.Outcome("names: all related names in one exchange, excepted exactly the listed ones (" + el.Shape + ")")
	}
	// every name alone
	for i, n := range relNames {
		if x.exercise(app, base, []ck{{n, fmt.Sprintf("lonely secret %d", i)}}, o) {
			l.Add("names_rel_"+relOf(n, el.List), 1)
			l.Outcome("names: a name that is " + relOf(n, el.List) + " is treated as such")
		}
	}
	if sample {
		l.Sample(map[string]any{"layer": "N", "key_bytes": keyBytes[ki], "except": el.List, "names": relNames})
	}
}

// ---------------------------------------------------------------------------
// layer M: many cookies

func manyName(i int) string { return fmt.Sprintf("c%02d", i) + strings.Repeat("x", i%5) }

func countClass(k int) string {
	switch {
	case k <= 3:
		return "1-3"
	case k <= 8:
		return "4-8"
	case k <= 16:
		return "9-16"
	case k <= 64:
		return "17-64"
	}
	return "65+"
}

func layerM(l *core.Local, ki, k, excMode int, sample bool) {
	var exc []string
	if excMode == 1 {
		exc = []string{manyName(1), manyName(k - 2)}
	} else {
		exc = []string{}
	}
	x := &cx{l: l, layer: "M", ki: ki, exc: exc, useExc: true}
	x.extra = map[string]any{"cookies": k}
	x.qual = " cookies=" + countClass(k)
	var nm []string
	set := make([]ck, k)
	for i := 0; i < k; i++ {
		nm = append(nm, manyName(i))
		set[i] = ck{nm[i], fmt.Sprintf("value %d of %d ", i, k) + strings.Repeat("y", (i*3)%7) + "."}
	}
	old := gNames
	gNames = nm
	defer func() { gNames = old }()
	app := newAppX(appSpec{MW: true, Key: keys[ki], Except: exc})
	pos := []int{0, 1, k / 2, k - 2, k - 1}
	sort.Ints(pos)
	var up []int
	for i, p := range pos {
		if i == 0 || p != pos[i-1] {
			up = append(up, p)
		}
	}
	if x.exercise(app, xBase(), set, exOpts{Sh: defShape, Positions: up, OtherKi: (ki + 2) % len(keys), Counter: "many_exchanges"}) {
		l.Outcome("many cookies (" + countClass(k) + "): every one judged on its own")
	}
	if sample {
		l.Sample(map[string]any{"layer": "M", "key_bytes": keyBytes[ki], "cookies": k, "except": exc})
	}
}

// ---------------------------------------------------------------------------
// layer L: long values

func longValue(n int) string {
	const al = "0123456789abcdefghijklmnopqrstuvwxyzABCDEFGHIJKLMNOPQRSTUVWXYZ_."
	b := make([]byte, n)
	for i := range b {
		b[i] = al[(i*11+i/61)%64]
	}
	return string(b)
}

func lenClass(n int) string {
	switch {
	case n <= 64:
		return "1-64"
	case n <= 1024:
		return "65-1024"
	case n <= 4096:
		return "1025-4096"
	}
	return "4097+"
}

func layerL(l *core.Local, ki, ni, n, excMode int, sample bool) {
	name := names[ni]
	var exc []string
	switch excMode {
	case 0:
		exc = []string{}
	case 1:
		exc = []string{name}
	case 2:
		for _, o := range names {
			if o != name {
				exc = append(exc, o)
			}
		}
	}
	x := &cx{l: l, layer: "L", ki: ki, exc: exc, useExc: true}
	x.extra = map[string]any{"value_bytes": n}
	x.qual = " value-bytes=" + lenClass(n)
	app := newAppX(appSpec{MW: true, Key: keys[ki], Except: exc})
	o := exOpts{Sh: defShape, Full: true, OtherKi: (ki + 2) % len(keys), Counter: "long_exchanges"}
	if x.exercise(app, xBase(), []ck{{name, longValue(n)}}, o) {
		l.Outcome("long value (" + lenClass(n) + " bytes): issued, replayed, every manipulation judged")
	}
	// a long cookie next to a short one, both orders
	other := names[(ni+1)%len(names)]
	for _, set := range [][]ck{{{name, longValue(n)}, {other, "short one"}}, {{other, "short one"}, {name, longValue(n)}}} {
		o.Full = false
		x.exercise(app, xBase(), set, o)
	}
	if sample {
		l.Sample(map[string]any{"layer": "L", "key_bytes": keyBytes[ki], "name": name, "value_bytes": n, "except": exc})
	}
}

// ---------------------------------------------------------------------------
// layer K: kind of request and Config.Next

var kMethods = []string{"GET", "HEAD", "POST", "PUT", "DELETE", "OPTIONS", "PATCH"}
var kHdrNames = []string{"Cookie", "cookie", "COOKIE"}
var kSeps = []string{"; ", ";"}

func layerK(l *core.Local, ki, mask, next int, sample bool) {
	x := &cx{l: l, layer: "K", ki: ki, mask: mask}
	app := newAppX(appSpec{MW: true, Key: keys[ki], Except: exceptOf(mask), Next: next})
	base := xBase()
	set := []ck{{names[0], "first secret"}, {names[1], "second secret"}, {names[2], "third secret"}}
	type combo struct {
		m, h, s int
	}
	var combos []combo
	for m := range kMethods {
		for h := range kHdrNames {
			for s := range kSeps {
				combos = append(combos, combo{m, h, s})
			}
		}
	}
	nd := func(c combo) int {
		n := 0
		for _, v := range []int{c.m, c.h, c.s} {
			if v != 0 {
				n++
			}
		}
		return n
	}
	// the plain request first, then those that differ from it in one, two, three components: a violation is
	// reported under the smallest set of components that shows it
	sort.SliceStable(combos, func(a, b int) bool { return nd(combos[a]) < nd(combos[b]) })
	x.fold = map[string][]int{}
	for _, c := range combos {
		sh := shape{kMethods[c.m], "/x", kHdrNames[c.h], kSeps[c.s]}
		x.extra = map[string]any{"method": sh.Method, "cookie_field_name": sh.HdrName, "separator": sh.Sep, "config_next": nextName[next]}
		x.foldMask = 0
		x.qual = ""
		if c.m != 0 {
			x.foldMask |= 1
			x.qual += " method=" + sh.Method
		}
		if c.h != 0 {
			x.foldMask |= 2
			x.qual += " cookie-field-name=" + sh.HdrName
		}
		if c.s != 0 {
			x.foldMask |= 4
			x.qual += " separator=no-space"
		}
		if next != nextNil {
			x.qual += " config-next=" + nextName[next]
		}
		if next == nextSkipPath {
			// a request Next answers true for: outside the statement (the documentation says the middleware is skipped);
			// recorded, not judged — but the request after it must be processed in full
			skip := sh
			skip.Path = "/skip/x"
			e := doShape(app, skip, []sent{{Name: names[0], Text: "anything"}}, set)
			l.Add("evaluations", 1)
			l.Add("kind_exchanges", 1)
			l.Add("unspecified_skipped", 1)
			l.Add("next_true_requests", 1)
			r := "no usable response"
			if e.Panic == nil && e.ParseErr == nil && len(e.Resp.SetCookies) == len(set) {
				r = "response cookies left as set"
				for i, sc := range e.Resp.SetCookies {
					if sc.Value != set[i].V {
						r = "response cookies not as set"
					}
				}
				if len(e.View) != 1 || e.View[0].V != "anything" {
					r += ", request cookie changed"
				} else {
					r += ", request cookie left as sent"
				}
			}
			l.Outcome("Config.Next answers true: " + r)
		}
		if x.exercise(app, base, set, exOpts{Sh: sh, OtherKi: (ki + 2) % len(keys), Counter: "kind_exchanges"}) {
			l.Outcome("kind of request: " + sh.Method + " processed as GET is")
			if next != nextNil {
				l.Add("next_false_processed", 1)
			}
		}
	}
	if sample {
		l.Sample(map[string]any{"layer": "K", "key_bytes": keyBytes[ki], "except": exceptOf(mask), "config_next": nextName[next], "requests": len(combos)})
	}
}

// ---------------------------------------------------------------------------
// layer F: the Encryptor fails

var causeName = []string{"entropy source returns an error", "custom Encryptor returns an error"}

func layerF(l *core.Local, ki, mask, rec, cause int, sample bool) {
	x := &cx{l: l, layer: "F", ki: ki, mask: mask}
	app := newAppX(appSpec{MW: true, Key: keys[ki], Except: exceptOf(mask), Rec: rec == 1, EncFail: cause == 1})
	vals := []string{"hello world", "binary \x01\xfe\x80 secret", "v"}
	var sets [][]ck
	for i := range names {
		sets = append(sets, []ck{{names[i], vals[i]}})
		for j := range names {
			if i != j {
				sets = append(sets, []ck{{names[i], vals[0]}, {names[j], vals[1]}})
			}
		}
	}
	sets = append(sets, []ck{{names[0], vals[0]}, {names[1], vals[1]}, {names[2], vals[2]}}, []ck{{names[2], vals[1]}, {names[1], vals[2]}, {names[0], vals[0]}})
	reqW, okW := x.issueOne(mwApp(ki, 0), names[0], reqSecret)
	if !okW {
		l.Violate("issue-failed layer=F", "could not obtain a cookie", nil, nil, nil)
		return
	}
	req := []sent{{Name: names[0], Text: reqW, Mode: mMust, Must: reqSecret, Kind: "issued"}}
	if excepted(mask, names[0]) {
		req = nil
	}
	for _, set := range sets {
		free := 0
		for _, s := range set {
			if !excepted(mask, s.N) {
				free++
			}
		}
		for failAt := 1; failAt <= free; failAt++ {
			for _, sticky := range []bool{false, true} {
				if sticky && failAt == free {
					continue // same as the one-shot failure of the last encryption
				}
				x.extra = map[string]any{"encryptor_failure": causeName[cause], "fails_at_encryption_no": failAt, "and_at_all_later_ones": sticky, "recover_in_front": rec == 1}
				rnd.arm(0, false)
				armEnc(0, false)
				if cause == 0 {
					rnd.arm(failAt, sticky)
				} else {
					armEnc(failAt, sticky)
				}
				e := doShape(app, defShape, req, set)
				rnd.arm(0, false)
				armEnc(0, false)
				l.Add("evaluations", 1)
				l.Add("nontrivial", 1)
				l.Add("encfail_exchanges", 1)
				switch {
				case e.Panic != nil && len(e.Raw) == 0:
					l.Add("encfail_no_response", 1)
					l.Outcome("Encryptor fails, nothing in front: the panic escapes, no response is written")
				case e.Panic != nil || e.ParseErr != nil:
					l.Violate(fmt.Sprintf("response-unparseable end=encryptor-failed recover-in-front=%v", rec == 1), "bytes were written that are not a well-formed response", x.caseMap(req, set, e), nil, nil)
				default:
					// which cookie's encryption failed: the failAt-th non-excepted one in header order
					failedIdx, seen := -1, 0
					for i, s := range set {
						if !excepted(mask, s.N) {
							seen++
							if seen == failAt {
								failedIdx = i
							}
						}
					}
					leaked := false
					for i, s := range set {
						if excepted(mask, s.N) || s.V == "" {
							continue
						}
						hit := distinctive(s.V) && bytes.Contains(e.Raw, []byte(s.V))
						for _, sc := range e.Resp.SetCookies {
							hit = hit || (sc.Name == s.N && (sc.Value == s.V || sc.Value == normCookieValue(s.V)))
						}
						if !hit {
							continue
						}
						leaked = true
						which := "the-cookie-whose-encryption-failed"
						if i > failedIdx {
							which = "a-cookie-behind-the-failed-one"
						} else if i < failedIdx {
							which = "a-cookie-before-the-failed-one"
						}
						l.Violate(fmt.Sprintf("plaintext-on-wire end=encryptor-failed recover-in-front=%v leaked=%s", rec == 1, which),
							"the Encryptor returned an error and the response that reaches the client carries a non-excepted cookie in plaintext",
							x.caseMap(req, set, e), q(string(e.Raw)), "no response, or one without the plaintext")
					}
					if !leaked {
						l.Add("encfail_response_without_plaintext", 1)
						l.Outcome(fmt.Sprintf("Encryptor fails: a %d response without any plaintext", e.Resp.Status))
					}
					if e.Ran == 1 && req != nil {
						x.checkView(e, nil, req, -1, set)
					}
				}
				// the failure must not outlive the exchange
				x.extra = map[string]any{"after": "an exchange in which the Encryptor failed (" + causeName[cause] + ")"}
				x.qual = " after=encryptor-failure"
				if w, ok := x.issueOne(app, names[0], "fresh value"); ok && !excepted(mask, names[0]) {
					rq := []sent{{Name: names[0], Text: w, Mode: mMust, Must: "fresh value", Kind: "issued"}}
					e2 := doShape(app, defShape, rq, nil)
					l.Add("evaluations", 1)
					if w == "fresh value" {
						l.Violate("plaintext-on-wire after=encryptor-failure", "after an exchange in which the Encryptor failed cookies leave in plaintext", x.caseMap(rq, []ck{{names[0], "fresh value"}}, e2), nil, nil)
					} else if x.sound(e2, rq, nil) && x.checkView(e2, nil, rq, -1, nil) {
						l.Add("encfail_next_exchange_ok", 1)
					}
				} else if !ok {
					l.Violate("issue-failed after=encryptor-failure", "after an exchange in which the Encryptor failed the application no longer issues cookies", x.caseMap(nil, nil, nil), nil, nil)
				}
				x.qual = ""
			}
		}
	}
	if sample {
		l.Sample(map[string]any{"layer": "F", "key_bytes": keyBytes[ki], "except": exceptOf(mask), "recover_in_front": rec == 1, "cause": causeName[cause], "cookie_sets": len(sets)})
	}
}

// foldNextQualifier: layer K reports under " config-next=..." what it sees with a Config.Next that answers false;
// when the same signature was reported without Config.Next too, the qualified one says nothing new and is
// folded into it (counts added). Runs in the parent on the merged violations.
func foldNextQualifier(vs map[string]*core.Violation) {
	var sigs []string
	for sig := range vs {
		sigs = append(sigs, sig)
	}
	sort.Strings(sigs)
	for _, sig := range sigs {
		i := strings.Index(sig, " config-next=")
		if i < 0 {
			continue
		}
		if stem, ok := vs[sig[:i]]; ok {
			stem.Count += vs[sig].Count
			delete(vs, sig)
		}
	}
}
