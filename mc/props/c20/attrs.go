// C20 layer T — the attributes of the response cookies and the call that puts them into the response.
//
// Layers A-N let the handler set every cookie as fiber.Cookie{Name, Value}: a session cookie without any
// attribute. The statement quantifies over every cookie a handler sets, so this layer takes the product of
//
//	Expires      none / fasthttp.CookieExpireDelete / one second after the epoch / one hour before, one second
//	             before, one hour after the request / the end of 2099
//	MaxAge       0 / -1 / 1 / 3600
//	SessionOnly  false / true
//	other        none / Path+Domain+Secure+HTTPOnly+SameSite=Strict+Partitioned
//	value        non-empty (several classes) / empty
//	set by       c.Cookie / c.Cookie with the value the handler read from the request cookie of that name (the
//	             "log out" idiom) / fasthttp's Response.Header.SetCookie / c.ClearCookie(name) followed by c.Cookie /
//	             c.Cookie followed by c.ClearCookie(name) / c.ClearCookie(name) / c.ClearCookie() for all request cookies
//
// with one cookie per response, with three cookies of different lifetimes in one response, and with a cookie
// re-set after c.ClearCookie() removed all of them; x keys x every Except subset x names. Every request carries
// the validly issued cookies of all names. Oracle = checkResp / checkView of the other layers: whatever its
// attributes, a cookie whose name is not in Except reaches the client as ciphertext only, an excepted one
// byte-identical to the application without the middleware; every non-empty issued value, sent back, reaches the
// handler as set (the statement makes no exception for a cookie the client is told to drop).
package main

import (
	"fmt"
	"strings"
	"time"

	"github.com/gofiber/fiber/v3"
	"github.com/gofiber/fiber/v3/middleware/encryptcookie"
	"github.com/valyala/fasthttp"

	"verifmc/core"
)

type expKind struct {
	Name  string
	Class string // none | past | future
	At    func(now time.Time) time.Time
}

var expKinds = []expKind{
	{"none", "none", func(time.Time) time.Time { return time.Time{} }},
	{"fasthttp.CookieExpireDelete", "past", func(time.Time) time.Time { return fasthttp.CookieExpireDelete }},
	{"1970-01-01 00:00:01 UTC", "past", func(time.Time) time.Time { return time.Unix(1, 0).UTC() }},
	{"one hour before the request", "past", func(n time.Time) time.Time { return n.Add(-time.Hour) }},
	{"one second before the request", "past", func(n time.Time) time.Time { return n.Add(-time.Second) }},
	{"one hour after the request", "future", func(n time.Time) time.Time { return n.Add(time.Hour) }},
	{"2099-12-31 23:59:59 UTC", "future", func(time.Time) time.Time { return time.Date(2099, 12, 31, 23, 59, 59, 0, time.UTC) }},
}

var maxAges = []int{0, -1, 1, 3600}

const (
	opCookie = iota
	opEcho
	opFast
	opClearThenCookie
	opCookieThenClear
	opClearName
)

var opName = []string{"c.Cookie", "c.Cookie(value-read-from-request-cookie)", "Response.Header.SetCookie", "c.ClearCookie(name)+c.Cookie", "c.Cookie+c.ClearCookie(name)", "c.ClearCookie(name)"}

// ckT is one step of the handler of layer T.
type ckT struct {
	N, V        string // V: the plaintext the step puts into the cookie (opEcho: what the request cookie must have delivered)
	Exp, MaxAge int
	Sess, Rich  bool
	Op          int
}

func (p *ckT) final() string {
	if p.Op == opCookieThenClear || p.Op == opClearName {
		return ""
	}
	return p.V
}

func maClass(n int) string {
	switch {
	case n == 0:
		return "0"
	case n < 0:
		return "negative"
	}
	return "positive"
}

func (p *ckT) class() string {
	if p.Op == opClearName {
		return " set-by=" + opName[p.Op]
	}
	return fmt.Sprintf(" expires=%s max-age=%s session-only=%v set-by=%s", expKinds[p.Exp].Class, maClass(p.MaxAge), p.Sess, opName[p.Op])
}

func (p *ckT) String() string {
	if p.Op == opClearName {
		return opName[p.Op] + " " + p.N
	}
	return fmt.Sprintf("%s %s=%s Expires=%s MaxAge=%d SessionOnly=%v other-attributes=%v", opName[p.Op], p.N, q(p.V), expKinds[p.Exp].Name, p.MaxAge, p.Sess, p.Rich)
}

var (
	gPlanT    []ckT
	gClearAll bool
	gExpAt    = make([]time.Time, len(expKinds))
)

func (p *ckT) fiberCookie(v string) *fiber.Cookie {
	ck := &fiber.Cookie{Name: p.N, Value: v, Expires: gExpAt[p.Exp], MaxAge: p.MaxAge, SessionOnly: p.Sess}
	if p.Rich {
		ck.Path, ck.Domain, ck.Secure, ck.HTTPOnly, ck.SameSite, ck.Partitioned = "/app", "example.com", true, true, "Strict", true
	}
	return ck
}

func handlerT(c fiber.Ctx) error {
	gRan++
	c.Request().Header.VisitAllCookie(func(k, v []byte) {
		gView = append(gView, ck{string(k), string(v)})
	})
	for _, n := range gNames {
		gGet[n] = string([]byte(c.Cookies(n)))
	}
	if gClearAll {
		c.ClearCookie()
	}
	for i := range gPlanT {
		p := &gPlanT[i]
		switch p.Op {
		case opCookie:
			c.Cookie(p.fiberCookie(p.V))
		case opEcho:
			c.Cookie(p.fiberCookie(c.Cookies(p.N)))
		case opFast:
			var fc fasthttp.Cookie
			fc.SetKey(p.N)
			fc.SetValue(p.V)
			if !p.Sess {
				fc.SetMaxAge(p.MaxAge)
				fc.SetExpire(gExpAt[p.Exp])
			}
			if p.Rich {
				fc.SetPath("/app")
				fc.SetDomain("example.com")
				fc.SetSecure(true)
				fc.SetHTTPOnly(true)
				fc.SetSameSite(fasthttp.CookieSameSiteStrictMode)
				fc.SetPartitioned(true)
			}
			c.Response().Header.SetCookie(&fc)
		case opClearThenCookie:
			c.ClearCookie(p.N)
			c.Cookie(p.fiberCookie(p.V))
		case opCookieThenClear:
			c.Cookie(p.fiberCookie(p.V))
			c.ClearCookie(p.N)
		case opClearName:
			c.ClearCookie(p.N)
		}
	}
	return nil
}

var appTCache = map[[2]int]*fiber.App{}

// appT: the application of the other layers plus the route of handlerT (ki < 0: without the middleware).
func appT(ki, mask int) *fiber.App {
	k := [2]int{ki, mask}
	if a, ok := appTCache[k]; ok {
		return a
	}
	app := fiber.New(fiber.Config{ReadBufferSize: 1 << 16, DisableDefaultDate: true})
	if ki >= 0 {
		app.Use(encryptcookie.New(encryptcookie.Config{Key: keys[ki], Except: exceptOf(mask)}))
	}
	app.Get("/x", handler)
	app.Get("/t", handlerT)
	app.Handler()
	appTCache[k] = app
	return app
}

// the values the request cookies of the three names were issued with
var tInit = []string{"hello world", "x=y", "tok3n.s3cr3t-0123456789"}

func layerT(l *core.Local, ki, mask, ni int, menu []string, sample bool) {
	x := &cx{l: l, layer: "T", ki: ki, mask: mask}
	app, base := appT(ki, mask), appT(-1, 0)
	init := make([]ck, len(names))
	for i, n := range names {
		init[i] = ck{n, tInit[i]}
	}
	x.qual = " layer=T"
	ex := do(app, nil, init)
	bx := do(base, nil, init)
	l.Add("evaluations", 1)
	l.Add("attr_exchanges", 1)
	if !x.sound(ex, nil, init) {
		return
	}
	wire0 := x.checkResp(ex, bx, nil, init)
	if wire0 == nil {
		return
	}
	valid := make([]sent, len(init))
	for i := range init {
		if excepted(mask, init[i].N) {
			valid[i] = sent{Name: init[i].N, Text: wire0[i], Mode: mBase, Kind: "excepted"}
		} else {
			valid[i] = sent{Name: init[i].N, Text: wire0[i], Mode: mMust, Must: init[i].V, Kind: "issued"}
		}
	}
	hdrs := joinHdr(valid, false)
	x.qual = ""

	sampled := false
	runCase := func(plan []ckT, clearAll bool) {
		now := time.Now()
		for i := range expKinds {
			gExpAt[i] = expKinds[i].At(now)
		}
		gPlanT, gClearAll = plan, clearAll
		defer func() { gPlanT, gClearAll = nil, false }()
		var descr []string
		if clearAll {
			descr = append(descr, "c.ClearCookie()")
		}
		for i := range plan {
			descr = append(descr, plan[i].String())
		}
		x.extra = map[string]any{"handler_does": descr}
		x.qualFn = func(cookie string) string {
			for i := len(plan) - 1; i >= 0; i-- {
				if plan[i].N == cookie {
					return plan[i].class()
				}
			}
			if cookie != "" && clearAll {
				return " set-by=c.ClearCookie()"
			}
			return " layer=T"
		}
		e := doPath(app, "/t", hdrs)
		b := doPath(base, "/t", hdrs)
		// what the handler's calls leave in the response, in the order the application without the middleware writes it
		want := map[string]string{}
		echo := map[string]bool{}
		if clearAll {
			for _, n := range names {
				want[n] = ""
			}
		}
		for i := range plan {
			want[plan[i].N] = plan[i].final()
			echo[plan[i].N] = plan[i].Op == opEcho
		}
		if b.Panic != nil || b.ParseErr != nil || b.Resp.Status != 200 || b.Ran != 1 || len(b.Resp.SetCookies) != len(want) {
			core.Fatal("layer T: baseline exchange unusable: %v", x.caseMap(valid, nil, b))
		}
		set := make([]ck, 0, len(want))
		seen := map[string]bool{}
		for _, sc := range b.Resp.SetCookies {
			w, ok := want[sc.Name]
			if !ok || seen[sc.Name] || (sc.Value != w && !(echo[sc.Name] && !excepted(mask, sc.Name))) {
				core.Fatal("layer T: the application without the middleware does not write what the plan says: %v", x.caseMap(valid, nil, b))
			}
			seen[sc.Name] = true
			set = append(set, ck{sc.Name, w})
		}
		nt, removable := false, false
		for _, s := range set {
			nt = nt || (s.V != "" && !excepted(mask, s.N))
		}
		for i := range plan {
			p := &plan[i]
			if p.final() != "" && !excepted(mask, p.N) && !p.Sess && (p.MaxAge < 0 || (p.MaxAge == 0 && expKinds[p.Exp].Class == "past")) {
				removable = true
			}
		}
		l.Add("evaluations", 1)
		l.Add("attr_exchanges", 1)
		if nt {
			l.Add("nontrivial", 1)
		}
		if removable {
			l.Add("attr_nonempty_value_with_removal_attributes", 1)
		}
		if !x.sound(e, valid, set) {
			return
		}
		okView := x.checkView(e, b, valid, -1, set)
		wire := x.checkResp(e, b, valid, set)
		if wire == nil {
			return
		}
		if sample && !sampled && len(plan) == 1 && plan[0].Exp == 1 && plan[0].MaxAge == 0 && !plan[0].Sess && plan[0].Rich && plan[0].Op == opCookie && plan[0].V != "" {
			sampled = true
			l.Sample(map[string]any{"layer": "T", "key_bytes": keyBytes[ki], "except": exceptOf(mask), "handler_does": descr, "set_cookie": q(e.Resp.SetCookies[0].Line)})
		}
		// every non-empty value issued here, sent back
		var req []sent
		for i, s := range set {
			if wire[i] == s.V || (distinctive(s.V) && strings.Contains(wire[i], s.V)) {
				continue // reported by checkResp; what the handler would get back says nothing more
			}
			if s.V != "" && !excepted(mask, s.N) {
				req = append(req, sent{Name: s.N, Text: wire[i], Mode: mMust, Must: s.V, Kind: "issued"})
			}
		}
		if len(req) == 0 {
			if okView {
				l.Outcome("attributes: response judged (nothing to send back)")
			}
			return
		}
		rp := do(app, joinHdr(req, false), nil)
		l.Add("evaluations", 1)
		l.Add("attr_exchanges", 1)
		if x.sound(rp, req, nil) && x.checkView(rp, nil, req, -1, nil) && okView {
			l.Add("attr_replay_ok", 1)
			l.Outcome("attributes: response judged, issued values sent back reach the handler as set")
		}
	}

	name := names[ni]
	n1, n2 := names[(ni+1)%len(names)], names[(ni+2)%len(names)]
	type prof struct {
		Exp, MaxAge int
		Sess        bool
	}
	var profs []prof
	for e := range expKinds {
		for _, ma := range maxAges {
			for _, s := range []bool{false, true} {
				profs = append(profs, prof{e, ma, s})
			}
		}
	}
	// one cookie per response: the full product
	for _, pf := range profs {
		for _, rich := range []bool{false, true} {
			mk := func(v string, op int) []ckT {
				return []ckT{{N: name, V: v, Exp: pf.Exp, MaxAge: pf.MaxAge, Sess: pf.Sess, Rich: rich, Op: op}}
			}
			for _, v := range menu {
				runCase(mk(v, opCookie), false)
				runCase(mk(v, opClearThenCookie), false)
				if !pf.Sess {
					runCase(mk(v, opFast), false)
				}
			}
			runCase(mk(tInit[ni], opEcho), false)
		}
	}
	// three cookies of different lifetimes in one response; one cookie re-set after c.ClearCookie() removed all
	for i, pf := range profs {
		qf := profs[(i*5+3)%len(profs)]
		for _, op := range []int{opCookie, opEcho} {
			v := menu[0]
			if op == opEcho {
				v = tInit[ni]
			}
			runCase([]ckT{
				{N: name, V: v, Exp: pf.Exp, MaxAge: pf.MaxAge, Sess: pf.Sess, Op: op},
				{N: n1, V: "plain neighbour", Op: opCookie},
				{N: n2, V: "other-l1fetime.0123456789", Exp: qf.Exp, MaxAge: qf.MaxAge, Sess: qf.Sess, Rich: true, Op: opCookie},
			}, false)
			runCase([]ckT{{N: name, V: v, Exp: pf.Exp, MaxAge: pf.MaxAge, Sess: pf.Sess, Op: op}}, true)
		}
	}
	// removals only
	runCase(nil, true)
	runCase([]ckT{{N: name, Op: opClearName}}, false)
	runCase([]ckT{{N: name, Op: opClearName}, {N: n1, Op: opClearName}, {N: n2, Op: opClearName}}, false)
	runCase([]ckT{{N: name, Op: opClearName}, {N: n1, V: menu[0], Op: opCookie}}, false)
	for _, e := range []int{0, 1, 5} {
		runCase([]ckT{{N: name, V: menu[0], Exp: e, Op: opCookieThenClear}}, false)
	}
	x.extra, x.qualFn = nil, nil
}

func tDims() map[string]any {
	var ex []string
	for _, e := range expKinds {
		ex = append(ex, e.Name)
	}
	return map[string]any{"expires": ex, "max_age": maxAges, "session_only": []bool{false, true}, "set_by": append(append([]string(nil), opName...), "c.ClearCookie()"),
		"other_attributes": "none | " + strings.Join([]string{"Path", "Domain", "Secure", "HTTPOnly", "SameSite=Strict", "Partitioned"}, "+")}
}
