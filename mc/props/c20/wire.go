// Strict, minimal HTTP/1.1 response parser used by the C20 harness to extract
// Set-Cookie lines from the bytes the server wrote. It accepts exactly the
// shape a client must be able to rely on (status line, CRLF-terminated header
// fields, Content-Length framed body, nothing after it) and nothing else.
package main

import (
	"bytes"
	"errors"
	"fmt"
	"strconv"
)

type setCookie struct {
	Line  string   // whole field value of the Set-Cookie header
	Name  string   // bytes before the first '='
	Value string   // bytes between the first '=' and the first ';' (verbatim, nothing trimmed)
	Attrs []string // remaining ';'-separated parts, one leading SP removed
}

type response struct {
	Status     int
	Headers    [][2]string
	Body       []byte
	SetCookies []setCookie
}

func isTchar(c byte) bool {
	switch {
	case c >= 'a' && c <= 'z', c >= 'A' && c <= 'Z', c >= '0' && c <= '9':
		return true
	}
	return bytes.IndexByte([]byte("!#$%&'*+-.^_`|~"), c) >= 0
}

// parseResponse parses exactly one response and requires that nothing follows it.
func parseResponse(b []byte) (*response, error) { return parseResponseOf(b, false) }

// parseResponseOf: the response to a HEAD request has no body whatever its Content-Length says, and the
// Content-Length field itself is optional there.
func parseResponseOf(b []byte, head bool) (*response, error) {
	r := &response{}
	eol := bytes.Index(b, []byte("\r\n"))
	if eol < 0 {
		return nil, errors.New("no status line")
	}
	sl := b[:eol]
	// HTTP/1.1 SP 3DIGIT SP reason
	if len(sl) < 13 || string(sl[:9]) != "HTTP/1.1 " || sl[12] != ' ' {
		return nil, fmt.Errorf("bad status line %q", sl)
	}
	for _, c := range sl[9:12] {
		if c < '0' || c > '9' {
			return nil, fmt.Errorf("bad status code in %q", sl)
		}
	}
	r.Status, _ = strconv.Atoi(string(sl[9:12]))
	for _, c := range sl[13:] {
		if c == '\r' || c == '\n' || c == 0 {
			return nil, fmt.Errorf("bad reason phrase in %q", sl)
		}
	}
	p := eol + 2
	cl := -1
	for {
		if p+2 <= len(b) && b[p] == '\r' && b[p+1] == '\n' {
			p += 2
			break
		}
		e := bytes.Index(b[p:], []byte("\r\n"))
		if e < 0 {
			return nil, errors.New("header block not terminated")
		}
		line := b[p : p+e]
		p += e + 2
		colon := bytes.IndexByte(line, ':')
		if colon <= 0 {
			return nil, fmt.Errorf("header line without name: %q", line)
		}
		name := line[:colon]
		for _, c := range name {
			if !isTchar(c) {
				return nil, fmt.Errorf("bad header name %q", name)
			}
		}
		val := line[colon+1:]
		for len(val) > 0 && (val[0] == ' ' || val[0] == '\t') {
			val = val[1:]
		}
		for len(val) > 0 && (val[len(val)-1] == ' ' || val[len(val)-1] == '\t') {
			val = val[:len(val)-1]
		}
		if bytes.IndexByte(val, '\r') >= 0 || bytes.IndexByte(val, '\n') >= 0 {
			return nil, fmt.Errorf("bare CR/LF in header value %q", val)
		}
		r.Headers = append(r.Headers, [2]string{string(name), string(val)})
		switch lower(string(name)) {
		case "content-length":
			if cl >= 0 {
				return nil, errors.New("duplicate Content-Length")
			}
			n, err := strconv.ParseUint(string(val), 10, 31)
			if err != nil {
				return nil, fmt.Errorf("bad Content-Length %q", val)
			}
			cl = int(n)
		case "transfer-encoding":
			return nil, errors.New("unexpected Transfer-Encoding")
		case "set-cookie":
			sc, err := parseSetCookie(string(val))
			if err != nil {
				return nil, err
			}
			r.SetCookies = append(r.SetCookies, sc)
		}
	}
	if head {
		if len(b) != p {
			return nil, fmt.Errorf("%d bytes behind the header block of the response to a HEAD request", len(b)-p)
		}
		return r, nil
	}
	if cl < 0 {
		return nil, errors.New("no Content-Length")
	}
	if len(b)-p != cl {
		return nil, fmt.Errorf("body is %d bytes, Content-Length says %d", len(b)-p, cl)
	}
	r.Body = b[p:]
	return r, nil
}

func lower(s string) string {
	b := []byte(s)
	for i, c := range b {
		if c >= 'A' && c <= 'Z' {
			b[i] = c + 32
		}
	}
	return string(b)
}

// parseSetCookie splits one Set-Cookie field value the way RFC 6265 5.2 tells a
// user agent to: name = up to the first '=', value = up to the first ';'.
// Nothing is trimmed or unquoted: the harness wants the verbatim bytes.
func parseSetCookie(line string) (setCookie, error) {
	sc := setCookie{Line: line}
	first := line
	rest := ""
	if i := indexByte(line, ';'); i >= 0 {
		first, rest = line[:i], line[i+1:]
	}
	eq := indexByte(first, '=')
	if eq <= 0 {
		return sc, fmt.Errorf("Set-Cookie without name=value: %q", line)
	}
	sc.Name, sc.Value = first[:eq], first[eq+1:]
	for _, c := range []byte(sc.Name) {
		if !isTchar(c) {
			return sc, fmt.Errorf("Set-Cookie with bad cookie name: %q", line)
		}
	}
	for rest != "" {
		part := rest
		if i := indexByte(rest, ';'); i >= 0 {
			part, rest = rest[:i], rest[i+1:]
		} else {
			rest = ""
		}
		if len(part) > 0 && part[0] == ' ' {
			part = part[1:]
		}
		sc.Attrs = append(sc.Attrs, part)
	}
	return sc, nil
}

func indexByte(s string, c byte) int {
	for i := 0; i < len(s); i++ {
		if s[i] == c {
			return i
		}
	}
	return -1
}
