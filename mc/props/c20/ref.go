// Reference model for C20, written from the property statement only.
package main

import (
	"bytes"
	"encoding/base64"
	"strings"
)

// normCookieValue is what the cookie syntax (RFC 6265 4.1.1 / 5.2) delivers of a
// value written into a Cookie header: surrounding spaces are not part of it, and
// one pair of surrounding double quotes is framing.
func normCookieValue(s string) string {
	for len(s) > 0 && s[0] == ' ' {
		s = s[1:]
	}
	for len(s) > 0 && s[len(s)-1] == ' ' {
		s = s[:len(s)-1]
	}
	if len(s) > 1 && s[0] == '"' && s[len(s)-1] == '"' {
		s = s[1 : len(s)-1]
	}
	return s
}

// sameDecode reports whether the altered text base64-decodes (under any of the
// four standard base64 flavours, padding bits ignored) to exactly the bytes of
// the issued ciphertext. Only then may the handler see the original value.
func sameDecode(alt string, issued []byte) bool {
	if issued == nil {
		return false
	}
	for _, enc := range []*base64.Encoding{base64.StdEncoding, base64.RawStdEncoding, base64.URLEncoding, base64.RawURLEncoding} {
		if b, err := enc.DecodeString(alt); err == nil && bytes.Equal(b, issued) {
			return true
		}
	}
	return false
}

// valueClass names the feature of a plaintext that matters for cookie transport.
func valueClass(v string) string {
	switch {
	case v == "":
		return "empty"
	case strings.Contains(v, ";"):
		return "semicolon"
	case len(v) > 1 && v[0] == '"' && v[len(v)-1] == '"':
		return "dquoted"
	case v[0] == ' ' || v[len(v)-1] == ' ':
		return "edge-space"
	}
	for i := 0; i < len(v); i++ {
		if v[i] < 0x20 || v[i] >= 0x7f {
			return "binary"
		}
	}
	switch {
	case len(v) > 1024:
		return "long"
	case strings.Contains(v, " "):
		return "inner-space"
	case strings.Contains(v, "="):
		return "equals"
	}
	return "plain"
}

// sendable reports whether a text can be written verbatim as one request cookie value.
func sendable(v string) bool {
	for i := 0; i < len(v); i++ {
		if v[i] < 0x20 || v[i] >= 0x7f || v[i] == ';' {
			return false
		}
	}
	return normCookieValue(v) == v
}

// carriable reports whether the cookie syntax itself can carry v as one cookie value
// (no ';', no surrounding spaces, not wrapped in double quotes).
func carriable(v string) bool {
	return !strings.Contains(v, ";") && normCookieValue(v) == v
}

// distinctive reports whether v contains a byte that can never occur inside base64 text,
// or is long enough that an accidental occurrence inside random base64 text is impossible in practice.
func distinctive(v string) bool {
	if len(v) >= 16 {
		return true
	}
	for i := 0; i < len(v); i++ {
		c := v[i]
		switch {
		case c >= 'a' && c <= 'z', c >= 'A' && c <= 'Z', c >= '0' && c <= '9', c == '+', c == '/':
		case c == '=' && i == len(v)-1:
		default:
			return true
		}
	}
	return false
}

const b64std = "ABCDEFGHIJKLMNOPQRSTUVWXYZabcdefghijklmnopqrstuvwxyz0123456789+/"

// mutation alphabet: base64 alphabet + '=' + '-' + ' '
const mutAlpha = b64std + "=- "

func chClass(c byte) string {
	switch c {
	case '=':
		return "pad"
	case '-':
		return "dash"
	case ' ':
		return "space"
	}
	return "b64"
}

// forEachFull enumerates every single-character substitution over mutAlpha, every
// truncation (prefixes and suffixes) and every one-character insertion (incl. prepend
// and append) of c. The byte slice handed to fn is reused between calls.
//
// part/parts split the enumeration by position (i % parts == part) so that a long
// ciphertext can be spread over several work items; parts=1 enumerates everything.
func forEachFull(c string, part, parts int, fn func(kind string, s []byte)) {
	L := len(c)
	buf := make([]byte, 0, L+1)
	for i := 0; i < L; i++ {
		if i%parts != part {
			continue
		}
		for j := 0; j < len(mutAlpha); j++ {
			ch := mutAlpha[j]
			if ch == c[i] {
				continue
			}
			buf = append(buf[:0], c...)
			buf[i] = ch
			fn("subst-"+chClass(ch), buf)
		}
	}
	for i := 0; i < L; i++ {
		if i%parts != part {
			continue
		}
		buf = append(buf[:0], c[:i]...)
		fn("trunc-tail", buf)
	}
	for i := 1; i < L; i++ {
		if i%parts != part {
			continue
		}
		buf = append(buf[:0], c[i:]...)
		fn("trunc-head", buf)
	}
	for i := 0; i <= L; i++ {
		if i%parts != part {
			continue
		}
		kind := "ext-insert-"
		if i == 0 {
			kind = "ext-prepend-"
		} else if i == L {
			kind = "ext-append-"
		}
		for j := 0; j < len(mutAlpha); j++ {
			ch := mutAlpha[j]
			buf = append(buf[:0], c[:i]...)
			buf = append(buf, ch)
			buf = append(buf, c[i:]...)
			fn(kind+chClass(ch), buf)
		}
	}
}

// forEachReduced is the fixed small family used for every cookie of a multi-cookie request.
func forEachReduced(c string, fn func(kind string, s []byte)) {
	L := len(c)
	if L == 0 {
		fn("ext-append-b64", []byte("A"))
		return
	}
	sub := func(i int, ch byte) {
		if c[i] == ch {
			ch = 'B'
			if c[i] == 'B' {
				ch = 'C'
			}
		}
		b := []byte(c)
		b[i] = ch
		fn("subst-"+chClass(ch), b)
	}
	sub(0, 'A')
	sub(L/2, 'A')
	sub(L-1, 'A')
	last := L - 1
	for last > 0 && c[last] == '=' {
		last--
	}
	// every other base64 character at the last significant position: some of them may only differ in padding bits
	for j := 0; j < len(b64std); j++ {
		if b64std[j] != c[last] {
			b := []byte(c)
			b[last] = b64std[j]
			fn("subst-b64", b)
		}
	}
	sub(L/3, '-')
	sub(L/2, ' ')
	sub(L-1, ' ')
	sub(L/2, '=')
	fn("trunc-tail", []byte(c[:L-1]))
	fn("trunc-tail", []byte(c[:L/2]))
	fn("trunc-tail", []byte(""))
	fn("trunc-head", []byte(c[1:]))
	fn("ext-append-b64", []byte(c+"A"))
	fn("ext-append-pad", []byte(c+"="))
	fn("ext-append-space", []byte(c+" "))
	fn("ext-prepend-b64", []byte("A"+c))
	fn("ext-insert-b64", []byte(c[:L/2]+"A"+c[L/2:]))
}
