package main

// Concurrent part: two requests in flight on ONE middleware instance (package verifmc/ccpair). What encryptcookie
// does for a request is a function of that request alone, so under every interleaving each request must receive
// exactly the response it receives when served alone — in particular its own cookies encrypted under their own names.
// Scheduling points: the Encryptor / Decryptor callbacks (on entry AND after the value is computed, before the
// middleware stores it) and the handler yield to the cooperative scheduler, plus any
// sync operation the middleware performs (shimmed through the overlay: none on the pinned tree). Ciphertexts carry a
// random nonce, so responses are compared after decrypting every Set-Cookie value with the configured key.

import (
	"fmt"
	"sort"
	"strings"

	"github.com/gofiber/fiber/v3"
	"github.com/gofiber/fiber/v3/middleware/encryptcookie"
	"github.com/gofiber/fiber/v3/verifrt"
	"github.com/valyala/fasthttp"

	"verifmc/ccpair"
	"verifmc/core"
)

const ccKey = "MDEyMzQ1Njc4OWFiY2RlZjAxMjM0NTY3ODlhYmNkZWY=" // 32 bytes, base64

func ccBuildEnc(except []string) func() fasthttp.RequestHandler {
	return func() fasthttp.RequestHandler {
		app := fiber.New()
		app.Use(encryptcookie.New(encryptcookie.Config{
			Key:    ccKey,
			Except: except,
			Encryptor: func(v, k string) (string, error) {
				verifrt.Yield("encryptor")
				out, err := encryptcookie.EncryptCookie(v, k)
				// a second point AFTER the value exists and BEFORE the middleware copies it into the response:
				// a result that still aliases shared scratch memory is overwritten by the other request here
				verifrt.Yield("encryptor-returned")
				return out, err
			},
			Decryptor: func(v, k string) (string, error) {
				verifrt.Yield("decryptor")
				out, err := encryptcookie.DecryptCookie(v, k)
				verifrt.Yield("decryptor-returned")
				return out, err
			},
		}))
		app.Get("/:who", func(c fiber.Ctx) error {
			who := c.Params("who")
			var seen []string
			for _, n := range []string{"sid_a", "sid_b", "common", "plain"} {
				if v := c.Cookies(n); v != "" {
					seen = append(seen, n+"="+v)
				}
			}
			verifrt.Yield("handler")
			c.Cookie(&fiber.Cookie{Name: "sid_" + who, Value: strings.ToUpper(who) + "-secret-plaintext"})
			c.Cookie(&fiber.Cookie{Name: "common", Value: "common-of-" + who})
			c.Cookie(&fiber.Cookie{Name: "plain", Value: "plain-of-" + who})
			return c.SendString(who + " saw " + strings.Join(seen, ";"))
		})
		return app.Handler()
	}
}

func ccObserveEnc(resp *fasthttp.Response) string {
	var cookies []string
	resp.Header.VisitAllCookie(func(k, v []byte) {
		var ck fasthttp.Cookie
		if err := ck.ParseBytes(v); err != nil {
			cookies = append(cookies, string(k)+"=<unparsable>")
			return
		}
		val := string(ck.Value())
		if string(k) == "plain" {
			cookies = append(cookies, "plain(excepted)="+val)
			return
		}
		dec, err := encryptcookie.DecryptCookie(val, ccKey)
		if err != nil {
			cookies = append(cookies, string(k)+"=NOT-CIPHERTEXT:"+val)
			return
		}
		cookies = append(cookies, string(k)+"=enc("+dec+")")
	})
	sort.Strings(cookies)
	return fmt.Sprintf("status=%d cookies=%v body=%q", resp.StatusCode(), cookies, resp.Body())
}

func runConcurrentEnc(r *core.Run) {
	enc := func(v string) string {
		s, err := encryptcookie.EncryptCookie(v, ccKey)
		if err != nil {
			core.Fatal("encrypt: %v", err)
		}
		return s
	}
	mkReq := func(who string, cookies ...string) func() *fasthttp.Request {
		return func() *fasthttp.Request {
			rq := fasthttp.AcquireRequest()
			rq.Header.SetMethod("GET")
			rq.SetRequestURI("http://app.test/" + who)
			for i := 0; i+1 < len(cookies); i += 2 {
				rq.Header.SetCookie(cookies[i], cookies[i+1])
			}
			return rq
		}
	}
	reqs := []ccpair.Req{
		{Name: "a-with-valid-cookies", Make: mkReq("a", "sid_a", enc("A-old"), "common", enc("common-old-a"), "plain", "p-a")},
		{Name: "b-with-valid-cookies", Make: mkReq("b", "sid_b", enc("B-old"), "common", enc("common-old-b"), "plain", "p-b")},
		{Name: "a-without-cookies", Make: mkReq("a")},
		{Name: "b-with-forged-cookie", Make: mkReq("b", "sid_b", "forged-not-ciphertext", "common", enc("common-old-b"))},
	}
	bound := 2
	if !r.Quick() {
		bound = 3
	}
	ccpair.Run(r, "concurrent", []ccpair.Scenario{
		{Name: "except-plain", Build: ccBuildEnc([]string{"plain"}), Reqs: reqs, Observe: ccObserveEnc, Self: true},
	}, bound)
	if r.P.Counters["cc_executions"] < 100 {
		core.Fatal("vacuous concurrent part: only %d executions", r.P.Counters["cc_executions"])
	}
}
