package main

// Layer R: RELATED keys used in one process. The statement quantifies over every key of a valid length; the other
// layers use six unrelated keys. Here every ordered pair (Ka, Kb) of a family of keys that are close to each other —
// a key and its zero-padded extensions (16 -> 24 -> 32 bytes), the leading 16 / 24 bytes of a longer key, one bit
// flipped, bytes rotated by one, all-zero keys of the three lengths — is used by two middleware instances of ONE
// process, in both orders of first use: a cookie issued under Ka must reach the handler behind Kb empty (never as
// its plaintext, never as any other text), and each instance must still round-trip its own cookies afterwards.

import (
	"encoding/base64"
	"fmt"

	"github.com/gofiber/fiber/v3"

	"verifmc/core"
)

type relKey struct {
	Name string
	Key  []byte
}

func relatedKeys() []relKey {
	base := make([]byte, 16)
	for i := range base {
		base[i] = byte(0x21 + 3*i)
	}
	pad := func(b []byte, n int) []byte { return append(append([]byte{}, b...), make([]byte, n-len(b))...) }
	long := make([]byte, 32)
	for i := range long {
		long[i] = byte(0xa0 ^ (7 * i))
	}
	flip := append([]byte{}, base...)
	flip[15] ^= 1
	rot := append(append([]byte{}, base[1:]...), base[0])
	return []relKey{
		{"k16", base}, {"k16+zeros=24", pad(base, 24)}, {"k16+zeros=32", pad(base, 32)},
		{"k32", long}, {"k32[:16]", long[:16]}, {"k32[:24]", long[:24]},
		{"k16-last-bit-flipped", flip}, {"k16-rotated", rot},
		{"zeros16", make([]byte, 16)}, {"zeros24", make([]byte, 24)}, {"zeros32", make([]byte, 32)},
	}
}

func layerR(l *core.Local) {
	ks := relatedKeys()
	x := &cx{l: l, layer: "R"}
	values := []string{"hello world", "v", bin16}
	b64 := func(b []byte) string { return base64.StdEncoding.EncodeToString(b) }
	for order := 0; order < 2; order++ {
		for i := range ks {
			for j := range ks {
				if i == j {
					continue
				}
				a, b := ks[i], ks[j]
				first, second := a, b
				if order == 1 {
					first, second = b, a // the instance that is CREATED and USED first
				}
				apps := map[string]*fiber.App{}
				for _, k := range []relKey{first, second} {
					apps[k.Name] = newApp(true, b64(k.Key), nil)
					// first use of that instance: one round trip
					w, ok := x.issueOne(apps[k.Name], "warm", "w")
					if ok {
						_ = do(apps[k.Name], hdr1("warm", []byte(w)), nil)
					}
				}
				for _, val := range values {
					l.Add("evaluations", 2)
					l.Add("nontrivial", 2)
					l.Add("related_key_exchanges", 1)
					cs := map[string]any{"issued_under": a.Name, "presented_to": b.Name, "first_used": first.Name, "value": val}
					wa, ok := x.issueOne(apps[a.Name], names[0], val)
					if !ok {
						l.Violate("related-keys issue-failed key="+a.Name, "an instance could not issue a cookie", cs, nil, nil)
						continue
					}
					// own round trip
					own := do(apps[a.Name], hdr1(names[0], []byte(wa)), nil)
					if own.Panic != nil || own.Get[names[0]] != val {
						l.Violate(fmt.Sprintf("related-keys own-roundtrip-broken key-relation=%s/%s first-used=%s", a.Name, b.Name, roleOf(first.Name, a.Name)),
							"after a related key was used in the same process an instance no longer returns its own cookie's value", cs, own.Get[names[0]], val)
					}
					// foreign instance: must be rejected
					e := do(apps[b.Name], hdr1(names[0], []byte(wa)), nil)
					got, present := e.Get[names[0]]
					switch {
					case e.Panic != nil:
						l.Violate("related-keys panic", "the middleware panicked on a cookie issued under a related key", cs, e.Panic, nil)
					case present && got != "":
						kind := "other-text"
						if got == val {
							kind = "plaintext-of-the-other-key's-cookie"
						}
						l.Violate(fmt.Sprintf("related-keys other-key-accepted handler-saw=%s key-relation=%s->%s first-used=%s", kind, a.Name, b.Name, roleOf(first.Name, a.Name)),
							"a cookie encrypted under another (related) key reached the handler non-empty", cs, got, "")
					default:
						l.Add("otherkey_rejected", 1)
						l.Add("related_key_rejected", 1)
					}
					l.Outcome("layer R pair")
				}
			}
		}
	}
}

func roleOf(first, issuer string) string {
	if first == issuer {
		return "issuer"
	}
	return "receiver"
}
