// C20 — encrypted cookies: handlers see authentic plaintext, clients only ciphertext.
//
// Wire level (app.Server().ServeConn on an in-memory connection), bounded exhaustive:
//
//	layer A  keys x names x values x every Except subset; one cookie; for the issued
//	         ciphertext EVERY single-character substitution over base64+'='+'-'+' ',
//	         every truncation, every one-character insertion, the ciphertext of every
//	         other key, of every other value, of another name, and the plaintext
//	         (thorough adds a 4 KiB value, run with Except = none / this name / the other names)
//	layer B  ordered sets of 2..3 cookies x every Except subset x value tuples; request
//	         and response cookies in the same exchange; one and several Cookie headers;
//	         a fixed reduced mutation family on every position while the others stay valid,
//	         and all non-excepted positions manipulated at once
//	layer C  keys of an invalid length (outcome only: the statement is silent)
//	layer D  requests that carry the same cookie name twice
//	layer E  how the exchange ends (ends.go): the handler returns nil / *fiber.Error / a plain error /
//	         calls SendStatus / redirects / falls off the route table / panics behind recover, the
//	         error is rendered by the default or a custom ErrorHandler or answered by a downstream
//	         middleware, cookies are set in a downstream middleware and in the final handler,
//	         before and after the response-writing call, one, two, or one name twice
//	layers F-N (dims.go), R (relkeys.go), T (attrs.go: attributes of the response cookies and the call that sets them)
//
// crypto/rand.Reader is replaced by a counter stream that is re-seeded per work item,
// work items are sharded over sequential worker processes: results do not depend on
// scheduling or on the number of workers.
package main

import (
	"bytes"
	"crypto/rand"
	"crypto/sha256"
	"encoding/base64"
	"encoding/binary"
	"errors"
	"fmt"
	"os"
	"runtime"
	"runtime/debug"
	"sort"
	"strconv"
	"strings"
	"time"

	"github.com/gofiber/fiber/v3"
	"github.com/gofiber/fiber/v3/middleware/encryptcookie"

	"verifmc/core"
	"verifmc/fx"
)

// ---------------------------------------------------------------------------
// alphabets

var names = []string{"a", "sess", "a.b"}

const bin16 = "\x00\xff\x01\xfek\x80\x7f\x10\xc3\x28\xa0\xa1\xe2\x82\x0b\xff"

func long4k() string {
	const al = "0123456789abcdefghijklmnopqrstuvwxyzABCDEFGHIJKLMNOPQRSTUVWXYZ_."
	b := make([]byte, 4096)
	for i := range b {
		b[i] = al[(i*7+i/64)%64]
	}
	return string(b)
}

var valuesAll = []string{"", "v", "hello world", "a;b=c", `"q"`, "x=y", bin16, long4k()}

func mkKey(n int, start, step byte) string {
	b := make([]byte, n)
	for i := range b {
		b[i] = start + byte(i)*step
	}
	return base64.StdEncoding.EncodeToString(b)
}

// two fixed keys per valid length
var keys = []string{mkKey(16, 0, 1), mkKey(16, 0xf0, 7), mkKey(24, 1, 3), mkKey(24, 0x80, 5), mkKey(32, 2, 9), mkKey(32, 0x55, 11)}
var keyBytes = []int{16, 16, 24, 24, 32, 32}

type badKey struct{ Name, Key string }

var badKeys = []badKey{
	{"10-bytes", mkKey(10, 0, 1)},
	{"15-bytes", mkKey(15, 0, 1)},
	{"33-bytes", mkKey(33, 0, 1)},
	{"not-base64", "!!!not base64!!!"},
	{"empty", ""},
}

func exceptOf(mask int) []string {
	out := []string{}
	for i, n := range names {
		if mask&(1<<i) != 0 {
			out = append(out, n)
		}
	}
	return out
}

func q(s string) string {
	if len(s) > 96 {
		return strconv.Quote(s[:48]) + fmt.Sprintf("...(%d bytes)...", len(s)) + strconv.Quote(s[len(s)-24:])
	}
	return strconv.Quote(s)
}

// ---------------------------------------------------------------------------
// deterministic rand.Reader

type ctrReader struct {
	seed, n uint64
	buf     []byte
	// failure injection (layer F): Read calls are counted from the last arm(); call number failAt (1-based)
	// fails, and every later one too when sticky. failAt 0 = the source never fails.
	calls, failAt int
	sticky        bool
}

var errNoEntropy = errors.New("entropy source unavailable")

func (c *ctrReader) arm(failAt int, sticky bool) { c.calls, c.failAt, c.sticky = 0, failAt, sticky }

func (c *ctrReader) Read(p []byte) (int, error) {
	c.calls++
	if c.failAt > 0 && (c.calls == c.failAt || (c.sticky && c.calls > c.failAt)) {
		return 0, errNoEntropy
	}
	for i := range p {
		if len(c.buf) == 0 {
			var in [16]byte
			binary.LittleEndian.PutUint64(in[:8], c.seed)
			binary.LittleEndian.PutUint64(in[8:], c.n)
			c.n++
			h := sha256.Sum256(in[:])
			c.buf = h[:]
		}
		p[i] = c.buf[0]
		c.buf = c.buf[1:]
	}
	return len(p), nil
}

var rnd = &ctrReader{}

func reseed(s uint64) { rnd.seed, rnd.n, rnd.buf = s, 0, nil; rnd.arm(0, false) }

// ---------------------------------------------------------------------------
// the application under test and one exchange with it

type ck struct{ N, V string }

var (
	gSet   []ck
	gView  []ck
	gGet   map[string]string
	gRan   int
	gNames = names // the names the handlers read through c.Cookies(); layers N, M set their own list
)

func handler(c fiber.Ctx) error {
	gRan++
	c.Request().Header.VisitAllCookie(func(k, v []byte) {
		gView = append(gView, ck{string(k), string(v)})
	})
	for _, n := range gNames {
		gGet[n] = string([]byte(c.Cookies(n)))
	}
	for _, s := range gSet {
		c.Cookie(&fiber.Cookie{Name: s.N, Value: s.V})
	}
	return nil
}

func newApp(withMW bool, key string, except []string) *fiber.App {
	app := fiber.New(fiber.Config{ReadBufferSize: 1 << 16, DisableDefaultDate: true}) // no wall-clock bytes in recorded responses
	if withMW {
		app.Use(encryptcookie.New(encryptcookie.Config{Key: key, Except: except}))
	}
	app.Get("/x", handler)
	app.Handler() // startup processing
	return app
}

var appCache = map[[2]int]*fiber.App{}

// mwApp returns the application with the middleware under keys[ki] and Except = exceptOf(mask).
func mwApp(ki, mask int) *fiber.App {
	k := [2]int{ki, mask}
	if a, ok := appCache[k]; ok {
		return a
	}
	a := newApp(true, keys[ki], exceptOf(mask))
	appCache[k] = a
	return a
}

func baseApp() *fiber.App {
	k := [2]int{-1, 0}
	if a, ok := appCache[k]; ok {
		return a
	}
	a := newApp(false, "", nil)
	appCache[k] = a
	return a
}

type exch struct {
	View     []ck
	Get      map[string]string
	Ran      int
	Raw      []byte
	Resp     *response
	ParseErr error
	Panic    any
}

var reqBuf []byte

// do sends one GET with the given Cookie header field values on a fresh in-memory
// connection; the handler sets the cookies of set.
func do(app *fiber.App, cookieHdrs [][]byte, set []ck) (e *exch) {
	gSet = set
	return doPath(app, "/x", cookieHdrs)
}

// doPath is do for any path; what the handlers set is taken from gSet (layers A-D) or gPlan (layer E).
func doPath(app *fiber.App, path string, cookieHdrs [][]byte) (e *exch) {
	reqBuf = append(reqBuf[:0], "GET "...)
	reqBuf = append(reqBuf, path...)
	reqBuf = append(reqBuf, " HTTP/1.1\r\nHost: h\r\n"...)
	for _, h := range cookieHdrs {
		reqBuf = append(reqBuf, "Cookie: "...)
		reqBuf = append(reqBuf, h...)
		reqBuf = append(reqBuf, '\r', '\n')
	}
	reqBuf = append(reqBuf, '\r', '\n')
	return doRaw(app, reqBuf)
}

// doRaw serves the request bytes on a fresh in-memory connection.
func doRaw(app *fiber.App, raw []byte) (e *exch) {
	gView, gGet, gRan, gRanFinal = nil, map[string]string{}, 0, 0
	e = &exch{}
	conn := fx.NewWireConn(raw, nil)
	func() {
		defer func() {
			if p := recover(); p != nil {
				e.Panic = fmt.Sprint(p)
			}
		}()
		_ = app.Server().ServeConn(conn)
	}()
	e.View, e.Get, e.Ran = gView, gGet, gRan
	e.Raw = conn.Output()
	if e.Panic == nil {
		e.Resp, e.ParseErr = parseResponseOf(e.Raw, bytes.HasPrefix(raw, []byte("HEAD ")))
	}
	return e
}

func hdr1(name string, val []byte) [][]byte {
	b := make([]byte, 0, len(name)+1+len(val))
	b = append(b, name...)
	b = append(b, '=')
	b = append(b, val...)
	return [][]byte{b}
}

// ---------------------------------------------------------------------------
// oracle

const (
	mMust    = iota // exactly Must
	mAltered        // "" or (Issued if the sent text decodes to the bytes of C)
	mOneOf          // any of OneOf (statement silent between them)
	mBase           // whatever the application without the middleware sees (excepted names)
)

type sent struct {
	Name, Text string // Text = what was written after "name="
	Mode       int
	Kind       string // provenance: issued | mutation kind | other-key | plaintext | swap-name | other-value
	Must       string
	C          string
	Cb         []byte
	Issued     string
	OneOf      []string
}

type cx struct {
	l     *core.Local
	layer string
	ki    int
	mask  int
	// layer E only: description of the plan for the case, the class of the handler end and,
	// per cookie of the set handed to checkResp, where it was set (both go into signatures)
	extra    map[string]any
	endClass string
	setAt    []string
	// layers F-N (dims.go): the Except list when it is not a subset of names (mask is ignored then), and a
	// qualifier naming the class of the new dimension the case belongs to (appended to every signature)
	exc    []string
	useExc bool
	qual   string
	qualFn func(cookie string) string // layer N: the qualifier depends on the cookie the violation is about
	cur    string                     // that cookie ("" = the exchange as a whole)
	// layer K: a violation is reported under the smallest set of non-default request components that shows it
	fold     map[string][]int
	foldMask int
}

func (x *cx) isExc(name string) bool {
	if !x.useExc {
		return excepted(x.mask, name)
	}
	for _, n := range x.exc {
		if n == name {
			return true
		}
	}
	return false
}

func (x *cx) exceptList() []string {
	if x.useExc {
		return x.exc
	}
	return exceptOf(x.mask)
}

// violate is l.Violate with the qualifier of the case's dimension class appended to the signature.
func (x *cx) violate(sig, what string, cs map[string]any, got, want any) {
	full := sig + x.qual
	if x.qualFn != nil {
		full = sig + x.qualFn(x.cur)
	}
	if x.fold != nil {
		known := false
		for _, m := range x.fold[sig] {
			if m != x.foldMask && m&x.foldMask == m {
				x.l.Add("violations_folded_into_simpler_request", 1)
				return
			}
			known = known || m == x.foldMask
		}
		if !known {
			x.fold[sig] = append(x.fold[sig], x.foldMask)
		}
	}
	x.l.Violate(full, what, cs, got, want)
}

// endSfx is appended to response-side signatures: empty in layers A-D (handler returns nil, 200).
func (x *cx) endSfx() string {
	if x.endClass == "" {
		return ""
	}
	return " end=" + x.endClass
}

func (x *cx) caseMap(req []sent, set []ck, e *exch) map[string]any {
	var rq, st, vw []string
	for _, s := range req {
		rq = append(rq, s.Name+"="+q(s.Text)+" ["+s.Kind+"]")
	}
	for _, s := range set {
		st = append(st, s.N+"="+q(s.V))
	}
	m := map[string]any{"layer": x.layer, "key_base64": keys[x.ki], "key_bytes": keyBytes[x.ki], "except": x.exceptList(),
		"request_cookies": rq, "handler_sets": st}
	for k, v := range x.extra {
		m[k] = v
	}
	if e != nil {
		for _, v := range e.View {
			vw = append(vw, v.N+"="+q(v.V))
		}
		m["handler_saw"] = vw
		m["response_raw"] = q(string(e.Raw))
		if e.Panic != nil {
			m["panic"] = e.Panic
		}
	}
	return m
}

func excepted(mask int, name string) bool {
	for i, n := range names {
		if n == name && mask&(1<<i) != 0 {
			return true
		}
	}
	return false
}

func gotClass(got string, s *sent) string {
	switch {
	case got == "":
		return "empty"
	case s.Issued != "" && got == s.Issued:
		return "issued-value"
	case got == s.Text || got == normCookieValue(s.Text):
		return "sent-text-unchanged"
	}
	return "other-text"
}

// sound reports whether the exchange completed as an HTTP exchange at all.
func (x *cx) sound(e *exch, req []sent, set []ck) bool {
	switch {
	case e.Panic != nil:
		x.violate("panic-in-exchange layer="+x.layer, "the server panicked while serving the request", x.caseMap(req, set, e), e.Panic, "a response")
	case e.ParseErr != nil:
		x.violate("response-unparseable", "the response is not a well-formed HTTP/1.1 message: "+e.ParseErr.Error(), x.caseMap(req, set, e), nil, nil)
	case e.Resp.Status != 200:
		x.violate("status-not-200 status="+strconv.Itoa(e.Resp.Status), "unexpected status", x.caseMap(req, set, e), e.Resp.Status, 200)
	case e.Ran != 1:
		x.violate("handler-runs="+strconv.Itoa(e.Ran), "the handler did not run exactly once", x.caseMap(req, set, e), e.Ran, 1)
	default:
		return true
	}
	return false
}

// judge checks one observed value against the expectation of one sent cookie.
// target tells which sent cookie was the manipulated one (for the signature of bystander damage).
func (x *cx) judge(s *sent, got, channel string, role string, req []sent, set []ck, e *exch, base string) bool {
	ok := true
	switch s.Mode {
	case mMust:
		if got != s.Must {
			ok = false
			if s.Kind == "issued" && role == "target" {
				x.violate(fmt.Sprintf("roundtrip-value-changed value-class=%s got=%s", valueClass(s.Must), rtClass(s.Must, got, s.Text)),
					"a cookie issued by the server and sent back unmodified does not reach the handler with its original value",
					x.caseMap(req, set, e), q(got), q(s.Must))
			} else {
				x.violate(fmt.Sprintf("valid-cookie-damaged role=%s kind=%s got=%s channel=%s", role, s.Kind, rtClass(s.Must, got, s.Text), channel),
					"a validly issued cookie of the request does not reach the handler with its value", x.caseMap(req, set, e), q(got), q(s.Must))
			}
		}
	case mAltered:
		switch {
		case got == "":
		case got == s.Issued && sameDecode(normCookieValue(s.Text), s.Cb):
			x.l.Add("altered_same_bytes_accepted", 1)
		default:
			ok = false
			x.violate(fmt.Sprintf("tamper-accepted kind=%s got=%s channel=%s", s.Kind, gotClass(got, s), channel),
				"a cookie value that was not issued under the current key reaches the handler as text other than \"\"",
				x.caseMap(req, set, e), q(got), `"" (or the issued value only if the text decodes to the issued bytes)`)
		}
	case mOneOf:
		ok = false
		for _, o := range s.OneOf {
			ok = ok || got == o
		}
		if !ok {
			x.violate(fmt.Sprintf("foreign-cookie-wrong-text kind=%s got=%s channel=%s", s.Kind, gotClass(got, s), channel),
				"a cookie issued for another name/value reaches the handler as text that is neither \"\" nor the value it was issued for",
				x.caseMap(req, set, e), q(got), fmt.Sprint(s.OneOf))
		}
	case mBase:
		if got != base {
			ok = false
			x.violate(fmt.Sprintf("excepted-request-cookie-changed kind=%s got=%s channel=%s", s.Kind, gotClass(got, s), channel),
				"a request cookie whose name is in Except does not reach the handler unchanged", x.caseMap(req, set, e), q(got), q(base))
		}
	}
	return ok
}

func rtClass(orig, got, wire string) string {
	switch {
	case got == "":
		return "empty"
	case got == wire:
		return "still-ciphertext"
	case strings.Contains(orig, ";") && got == normCookieValue(orig[:strings.Index(orig, ";")]):
		return "cut-at-semicolon"
	case got == normCookieValue(orig):
		return "cookie-normalised"
	}
	return "other-text"
}

// checkView compares what the handler saw with the expectations; the names of req are distinct.
// b is the baseline (no middleware) exchange of the very same request, needed only when a name
// is excepted. A cookie that has to reach the handler as "" may as well be absent (Cookies(name)
// is "" either way); every other cookie must be there exactly once.
func (x *cx) checkView(e, b *exch, req []sent, target int, set []ck) bool {
	cnt := map[string]int{}
	val := map[string]string{}
	for _, v := range e.View {
		if cnt[v.N] == 0 {
			val[v.N] = v.V
		}
		cnt[v.N]++
	}
	known := map[string]bool{}
	for _, s := range req {
		known[s.Name] = true
	}
	for _, v := range e.View {
		if !known[v.N] {
			x.violate("request-cookie-unexpected-name", "the handler sees a cookie name the request did not carry", x.caseMap(req, set, e), v.N, nil)
			return false
		}
	}
	ok := true
	present := 0
	defer func() { x.cur = "" }()
	for i := range req {
		s := &req[i]
		x.cur = s.Name
		role := "bystander"
		if i == target || target < 0 {
			role = "target"
		}
		base := ""
		if s.Mode == mBase {
			found := false
			if b != nil {
				for _, v := range b.View {
					if v.N == s.Name && !found {
						base, found = v.V, true
					}
				}
			}
			if !found {
				core.Fatal("baseline view unusable for %v", x.caseMap(req, set, b))
			}
		}
		switch cnt[s.Name] {
		case 0:
			mayBeAbsent := s.Mode == mAltered || (s.Mode == mMust && s.Must == "")
			if s.Mode == mOneOf {
				for _, o := range s.OneOf {
					mayBeAbsent = mayBeAbsent || o == ""
				}
			}
			if !mayBeAbsent {
				ok = false
				x.violate(fmt.Sprintf("request-cookie-missing role=%s kind=%s", role, s.Kind),
					"a cookie of the request that has to reach the handler with a value is not seen by the handler at all (skipped/removed)", x.caseMap(req, set, e), nil, nil)
				continue
			}
			x.l.Add("rejected_cookie_absent", 1)
			if g := e.Get[s.Name]; g != "" {
				ok = x.judge(s, g, "Cookies()", role, req, set, e, base) && ok
			}
			continue
		case 1:
			present++
		default:
			ok = false
			x.violate(fmt.Sprintf("request-cookie-duplicated role=%s kind=%s", role, s.Kind),
				"the handler sees a cookie of the request more than once", x.caseMap(req, set, e), cnt[s.Name], 1)
			continue
		}
		got := val[s.Name]
		ok = x.judge(s, got, "VisitAllCookie", role, req, set, e, base) && ok
		if g := e.Get[s.Name]; g != got {
			// Cookies(name) must obey the same expectation
			ok = x.judge(s, g, "Cookies()", role, req, set, e, base) && ok
		}
	}
	if present == len(req) {
		for i := range req {
			if e.View[i].N != req[i].Name {
				x.l.Outcome("request cookies reach the handler in another order")
				break
			}
		}
	}
	return ok
}

// checkResp checks the Set-Cookie lines of e against the handler's set and the baseline b.
// It returns the wire values by position of set (nil if unusable).
func (x *cx) checkResp(e, b *exch, req []sent, set []ck) []string {
	if b.Panic != nil || b.ParseErr != nil || len(b.Resp.SetCookies) != len(set) {
		core.Fatal("baseline response unusable: %v", x.caseMap(req, set, b))
	}
	got := e.Resp.SetCookies
	if len(got) != len(set) {
		x.violate(fmt.Sprintf("set-cookie-count set=%d on-wire=%d", len(set), len(got))+x.endSfx(),
			"the response does not carry exactly one Set-Cookie per cookie the handler set", x.caseMap(req, set, e), len(got), len(set))
		return nil
	}
	byName := map[string]int{}
	for i, sc := range got {
		if _, dup := byName[sc.Name]; dup {
			x.violate("set-cookie-duplicated"+x.endSfx(), "a cookie name appears twice on the wire", x.caseMap(req, set, e), sc.Name, nil)
			return nil
		}
		byName[sc.Name] = i
	}
	wire := make([]string, len(set))
	defer func() { x.cur = "" }()
	for i, s := range set {
		x.cur = s.N
		j, okn := byName[s.N]
		if !okn {
			x.violate("set-cookie-missing"+x.endSfx(), "a cookie the handler set is not on the wire", x.caseMap(req, set, e), s.N, nil)
			return nil
		}
		if j != i {
			x.l.Outcome("response cookies are written in another order")
		}
		sc := got[j]
		bl := b.Resp.SetCookies[i]
		if bl.Name != s.N {
			core.Fatal("baseline Set-Cookie order differs: %v", x.caseMap(req, set, b))
		}
		wire[i] = sc.Value
		if x.isExc(s.N) {
			if sc.Line != bl.Line {
				x.violate("excepted-response-cookie-changed value-class="+valueClass(s.V)+x.endSfx(),
					"a response cookie whose name is in Except is not on the wire as the handler set it", x.caseMap(req, set, e), q(sc.Line), q(bl.Line))
			} else {
				x.l.Outcome("response: excepted cookie byte-identical to no-middleware line")
				x.l.Add("excepted_resp_pass", 1)
			}
			continue
		}
		if s.V == "" {
			x.l.Add("unspecified_skipped", 1) // confidentiality of an empty value: nothing to hide
			x.l.Outcome("response: empty value (" + map[bool]string{true: "left empty", false: "replaced by ciphertext"}[sc.Value == ""] + ")")
			continue
		}
		leak := ""
		switch {
		case sc.Value == s.V:
			leak = "value-is-plaintext"
		case distinctive(s.V) && strings.Contains(sc.Value, s.V):
			leak = "value-contains-plaintext"
		case distinctive(s.V) && strings.Contains(sc.Line, s.V):
			leak = "line-contains-plaintext"
		case sc.Value == normCookieValue(s.V) || (strings.Contains(s.V, ";") && sc.Value == s.V[:strings.Index(s.V, ";")]):
			leak = "value-is-plaintext-as-cookie-syntax-carries-it"
		}
		if leak != "" {
			sig := fmt.Sprintf("plaintext-on-wire how=%s value-class=%s cookies-set=%s", leak, valueClass(s.V), sizeClass(len(set)))
			if x.endClass != "" {
				// layer E: the class is how the exchange ended and where the cookie was set
				sig = fmt.Sprintf("plaintext-on-wire end=%s set-at=%s", x.endClass, x.setAt[i])
			}
			x.violate(sig, "a non-excepted cookie reaches the client with its plaintext ("+leak+")", x.caseMap(req, set, e), q(sc.Line), "ciphertext only")
			continue
		}
		if !distinctive(s.V) {
			x.l.Add("confidentiality_equality_only", 1)
		}
		x.l.Add("encrypted_resp", 1)
		if strings.Join(sc.Attrs, ";") == strings.Join(bl.Attrs, ";") {
			x.l.Outcome("response: ciphertext, attributes as without middleware")
		} else {
			x.l.Outcome("response: ciphertext, attributes differ from no-middleware line (" + valueClass(s.V) + " value)")
		}
	}
	return wire
}

func sizeClass(n int) string {
	if n == 1 {
		return "1"
	}
	return "several"
}

func decodeStd(s string) []byte {
	b, err := base64.StdEncoding.DecodeString(s)
	if err != nil {
		return nil
	}
	return b
}

// issueOne lets app issue one cookie and returns its wire value ("" , false if the exchange failed).
func (x *cx) issueOne(app *fiber.App, name, val string) (string, bool) {
	e := do(app, nil, []ck{{name, val}})
	if e.Panic != nil || e.ParseErr != nil || len(e.Resp.SetCookies) != 1 || e.Resp.SetCookies[0].Name != name {
		return "", false
	}
	return e.Resp.SetCookies[0].Value, true
}

// ---------------------------------------------------------------------------
// layer A

func layerA(l *core.Local, ki, ni, vi, mask int, vals []string, part, parts int, sample bool) {
	real := l
	if part > 0 {
		l = core.NewLocal() // issue/replay of this case are judged by part 0; here they only rebuild the same ciphertext
	}
	x := &cx{l: l, layer: "A", ki: ki, mask: mask}
	app, base := mwApp(ki, mask), baseApp()
	name, val := names[ni], vals[vi]
	set := []ck{{name, val}}
	ex := do(app, nil, set)
	bx := do(base, nil, set)
	l.Add("evaluations", 1)
	if !x.sound(ex, nil, set) {
		return
	}
	if val != "" && !excepted(mask, name) {
		l.Add("nontrivial", 1)
	}
	wire := x.checkResp(ex, bx, nil, set)
	if wire == nil {
		return
	}
	W := wire[0]
	plain := mwApp(ki, 0)

	if excepted(mask, name) {
		// pass-through of everything that looks like a ciphertext of this very key
		C0, ok := x.issueOne(plain, name, val)
		if !ok {
			return
		}
		try := func(kind string, s []byte) {
			req := []sent{{Name: name, Text: string(s), Mode: mBase, Kind: kind}}
			h := hdr1(name, s)
			e := do(app, h, nil)
			b := do(base, h, nil)
			l.Add("evaluations", 1)
			l.Add("nontrivial", 1)
			if x.sound(e, req, nil) && x.checkView(e, b, req, 0, nil) {
				l.Outcome("request: excepted name passes unchanged (" + strings.SplitN(kind, "-", 2)[0] + ")")
				l.Add("excepted_req_pass", 1)
			}
		}
		try("issued", []byte(C0))
		l, x.l = real, real
		forEachFull(C0, part, parts, try)
		if part > 0 {
			return
		}
		if sendable(val) {
			try("plaintext", []byte(val))
		}
		return
	}

	// replay
	Cb := decodeStd(W)
	req := []sent{{Name: name, Text: W, Mode: mMust, Must: val, Kind: "issued"}}
	rp := do(app, hdr1(name, []byte(W)), nil)
	l.Add("evaluations", 1)
	if !x.sound(rp, req, nil) {
		return
	}
	if x.checkView(rp, nil, req, 0, nil) {
		l.Outcome("replay: issued cookie reaches the handler as the original value")
		l.Add("replay_ok", 1)
	}
	if len(rp.View) != 1 {
		return
	}
	issued := rp.View[0].V // what the server really sealed into W
	if sample {
		l.Sample(map[string]any{"layer": "A", "key_bytes": keyBytes[ki], "name": name, "value": q(val), "except": exceptOf(mask), "set_cookie": q(ex.Resp.SetCookies[0].Line), "replayed_value_seen": q(issued)})
	}

	// every alteration
	l, x.l = real, real
	forEachFull(W, part, parts, func(kind string, s []byte) {
		req := []sent{{Name: name, Text: string(s), Mode: mAltered, Kind: kind, C: W, Cb: Cb, Issued: issued}}
		e := do(app, hdr1(name, s), nil)
		l.Add("evaluations", 1)
		l.Add("nontrivial", 1)
		if !x.sound(e, req, nil) {
			return
		}
		if x.checkView(e, nil, req, 0, nil) {
			g := "\"\""
			if e.Get[name] != "" {
				g = "issued value (same bytes)"
			}
			l.Outcome("tamper " + strings.SplitN(kind, "-", 2)[0] + " -> " + g)
			l.Add("tamper_rejected_or_same", 1)
		}
	})

	if part > 0 {
		return
	}

	// ciphertext of every other key (same name, same value)
	for kj := range keys {
		if kj == ki {
			continue
		}
		Wj, ok := x.issueOne(mwApp(kj, 0), name, val)
		if !ok {
			continue
		}
		req := []sent{{Name: name, Text: Wj, Mode: mAltered, Kind: "other-key", C: W, Cb: Cb, Issued: issued}}
		e := do(app, hdr1(name, []byte(Wj)), nil)
		l.Add("evaluations", 1)
		l.Add("nontrivial", 1)
		if x.sound(e, req, nil) && x.checkView(e, nil, req, 0, nil) {
			l.Outcome("other key's ciphertext -> \"\"")
			l.Add("otherkey_rejected", 1)
		}
	}
	// ciphertext of the same key for every other value: it is a validly issued cookie of its own
	for vj := range vals {
		if vj == vi {
			continue
		}
		Wv, ok := x.issueOne(app, name, vals[vj])
		if !ok {
			continue
		}
		if !carriable(vals[vj]) {
			l.Add("unspecified_skipped", 1) // lossy plaintexts are judged by their own replay item
			continue
		}
		req := []sent{{Name: name, Text: Wv, Mode: mMust, Must: vals[vj], Kind: "other-value"}}
		e := do(app, hdr1(name, []byte(Wv)), nil)
		l.Add("evaluations", 1)
		l.Add("nontrivial", 1)
		if x.sound(e, req, nil) && x.checkView(e, nil, req, -2, nil) {
			l.Outcome("same key, other issued value -> that value")
		}
	}
	// ciphertext issued for another name: the statement is silent between "" and that cookie's value
	other := "swapped"
	for nj := range names {
		if nj == ni {
			continue
		}
		Ws, ok := x.issueOne(plain, names[nj], other)
		if !ok {
			continue
		}
		req := []sent{{Name: name, Text: Ws, Mode: mOneOf, OneOf: []string{"", other}, Kind: "swap-name"}}
		e := do(app, hdr1(name, []byte(Ws)), nil)
		l.Add("evaluations", 1)
		l.Add("nontrivial", 1)
		l.Add("unspecified_skipped", 1)
		if x.sound(e, req, nil) && x.checkView(e, nil, req, 0, nil) {
			l.Outcome("ciphertext issued for another name -> " + map[bool]string{true: "\"\"", false: "the other cookie's value"}[e.Get[name] == ""])
		}
	}
	// the plaintext itself
	if val != "" && sendable(val) {
		req := []sent{{Name: name, Text: val, Mode: mAltered, Kind: "plaintext", C: W, Cb: Cb, Issued: issued}}
		e := do(app, hdr1(name, []byte(val)), nil)
		l.Add("evaluations", 1)
		l.Add("nontrivial", 1)
		if x.sound(e, req, nil) && x.checkView(e, nil, req, 0, nil) {
			l.Outcome("plaintext sent as cookie -> \"\"")
		}
	}
}

// ---------------------------------------------------------------------------
// layer B

func joinHdr(req []sent, split bool) [][]byte {
	var out [][]byte
	var one []byte
	for i, s := range req {
		if split {
			out = append(out, []byte(s.Name+"="+s.Text))
			continue
		}
		if i > 0 {
			one = append(one, "; "...)
		}
		one = append(one, s.Name+"="+s.Text...)
	}
	if !split {
		out = [][]byte{one}
	}
	return out
}

func layerB(l *core.Local, ki int, tuple []int, mask int, vals []string, menu []int, sample bool) {
	x := &cx{l: l, layer: "B", ki: ki, mask: mask}
	app, base, plain := mwApp(ki, mask), baseApp(), mwApp(ki, 0)
	n := len(tuple)
	otherKey := (ki + 2) % len(keys) // a key of another length
	sameLenKey := ki ^ 1             // the other key of the same length
	vt := make([]int, n)
	var rec func(p int)
	rec = func(p int) {
		if p < n {
			for _, v := range menu {
				vt[p] = v
				rec(p + 1)
			}
			return
		}
		set := make([]ck, n)
		set2 := make([]ck, n) // what the handler sets while it receives the cookies: values rotated by one
		for i := range tuple {
			set[i] = ck{names[tuple[i]], vals[vt[i]]}
			set2[i] = ck{names[tuple[i]], vals[vt[(i+1)%n]]}
		}
		ex := do(app, nil, set)
		bx := do(base, nil, set)
		bx2 := do(base, nil, set2)
		l.Add("evaluations", 1)
		l.Add("nontrivial", 1)
		l.Add("multi_cookie_exchanges", 1)
		if !x.sound(ex, nil, set) {
			return
		}
		wire := x.checkResp(ex, bx, nil, set)
		if wire == nil {
			return
		}
		valid := make([]sent, n)
		anyExc := false
		for i := range set {
			if excepted(mask, set[i].N) {
				valid[i] = sent{Name: set[i].N, Text: wire[i], Mode: mBase, Kind: "excepted"}
				anyExc = true
			} else {
				valid[i] = sent{Name: set[i].N, Text: wire[i], Mode: mMust, Must: set[i].V, Kind: "issued"}
			}
		}
		// replay, one Cookie header and one header per cookie; the handler sets set2 meanwhile
		var issued []string
		for _, split := range []bool{false, true} {
			h := joinHdr(valid, split)
			e := do(app, h, set2)
			var b *exch
			if anyExc {
				b = do(base, h, nil)
				if b.Resp == nil || b.Resp.Status != 200 || b.Ran != 1 {
					l.Add("unsendable_skipped", 1) // a raw excepted value no client could send back (e.g. NUL bytes)
					return
				}
			}
			l.Add("evaluations", 1)
			l.Add("multi_cookie_exchanges", 1)
			if !x.sound(e, valid, set2) {
				return
			}
			if x.checkView(e, b, valid, -1, set2) {
				l.Outcome(fmt.Sprintf("replay of %d cookies (%s): all reach the handler", n, map[bool]string{false: "one Cookie header", true: "one header per cookie"}[split]))
				l.Add("replay_ok", 1)
			}
			x.checkResp(e, bx2, valid, set2)
			if len(e.View) != n {
				return
			}
			if issued == nil {
				issued = make([]string, n)
				for i := range valid {
					for _, v := range e.View {
						if v.N == valid[i].Name {
							issued[i] = v.V
							break
						}
					}
				}
			}
		}
		if sample && vt[0] == menu[1] && vt[n-1] == menu[2] && (n == 2 || vt[1] == menu[0]) {
			l.Sample(map[string]any{"layer": "B", "key_bytes": keyBytes[ki], "handler_sets": x.caseMap(nil, set, nil)["handler_sets"], "except": exceptOf(mask), "set_cookie_lines": len(ex.Resp.SetCookies), "first_line": q(ex.Resp.SetCookies[0].Line)})
		}
		// the lossy plaintexts are reported by the replay; afterwards a bystander is expected to keep what replay showed
		for i := range valid {
			if valid[i].Mode == mMust {
				valid[i].Must = issued[i]
			}
		}
		// manipulate every position in turn
		for t := 0; t < n; t++ {
			W := wire[t]
			Cb := decodeStd(W)
			exc := valid[t].Mode == mBase
			run := func(ts sent) {
				req := append([]sent(nil), valid...)
				req[t] = ts
				h := joinHdr(req, false)
				e := do(app, h, set2)
				var b *exch
				if anyExc {
					b = do(base, h, nil)
					if b.Resp == nil || b.Resp.Status != 200 || b.Ran != 1 {
						l.Add("unsendable_skipped", 1)
						return
					}
				}
				l.Add("evaluations", 1)
				l.Add("nontrivial", 1)
				l.Add("multi_cookie_exchanges", 1)
				if !x.sound(e, req, set2) {
					return
				}
				if x.checkView(e, b, req, t, set2) {
					switch {
					case exc:
						l.Outcome("multi: manipulated excepted cookie passes unchanged, others intact")
						l.Add("excepted_req_pass", 1)
					case ts.Mode == mOneOf:
						l.Outcome("multi: neighbour's ciphertext under this name -> " + map[bool]string{true: "\"\"", false: "the neighbour's value"}[e.Get[ts.Name] == ""])
					default:
						l.Outcome("multi: " + strings.SplitN(ts.Kind, "-", 2)[0] + " on one cookie rejected/same-bytes, others intact")
						l.Add("tamper_rejected_or_same", 1)
					}
				}
				x.checkResp(e, bx2, req, set2)
			}
			mk := func(kind string, s []byte) sent {
				if exc {
					return sent{Name: valid[t].Name, Text: string(s), Mode: mBase, Kind: kind}
				}
				return sent{Name: valid[t].Name, Text: string(s), Mode: mAltered, Kind: kind, C: W, Cb: Cb, Issued: issued[t]}
			}
			forEachReduced(W, func(kind string, s []byte) { run(mk(kind, s)) })
			for _, kj := range []int{otherKey, sameLenKey} {
				if Wj, ok := x.issueOne(mwApp(kj, 0), valid[t].Name, set[t].V); ok {
					run(mk("other-key", []byte(Wj)))
				}
			}
			if !exc && set[t].V != "" && sendable(set[t].V) {
				run(mk("plaintext", []byte(set[t].V)))
			}
			if exc {
				if C0, ok := x.issueOne(plain, valid[t].Name, set[t].V); ok {
					run(mk("ciphertext-for-excepted-name", []byte(C0)))
				}
			}
			// the neighbour's cookie under this name (neighbour keeps its own too)
			nb := (t + 1) % n
			if !exc && valid[nb].Mode == mMust {
				l.Add("unspecified_skipped", 1)
				run(sent{Name: valid[t].Name, Text: wire[nb], Mode: mOneOf, OneOf: []string{"", issued[nb]}, Kind: "swap-name"})
			}
		}
		// every non-excepted position manipulated at once (excepted ones stay as they are)
		for _, kind := range []string{"trunc-tail", "subst-b64", "other-key", "plaintext"} {
			req := append([]sent(nil), valid...)
			changed := 0
			for t := 0; t < n; t++ {
				if valid[t].Mode == mBase {
					continue
				}
				W := wire[t]
				text := ""
				switch kind {
				case "trunc-tail":
					text = W[:len(W)/2]
				case "subst-b64":
					b := []byte(W)
					if len(b) > 0 {
						b[0] = map[bool]byte{true: 'B', false: 'A'}[b[0] == 'A']
					}
					text = string(b)
				case "other-key":
					text, _ = x.issueOne(mwApp(otherKey, 0), valid[t].Name, set[t].V)
				case "plaintext":
					text = "forged-" + valid[t].Name
				}
				req[t] = sent{Name: valid[t].Name, Text: text, Mode: mAltered, Kind: kind, C: W, Cb: decodeStd(W), Issued: issued[t]}
				changed++
			}
			if changed < 2 {
				continue
			}
			h := joinHdr(req, false)
			e := do(app, h, set2)
			var b *exch
			if anyExc {
				b = do(base, h, nil)
				if b.Resp == nil || b.Resp.Status != 200 || b.Ran != 1 {
					l.Add("unsendable_skipped", 1)
					continue
				}
			}
			l.Add("evaluations", 1)
			l.Add("nontrivial", 1)
			l.Add("multi_cookie_exchanges", 1)
			if x.sound(e, req, set2) {
				if x.checkView(e, b, req, -1, set2) {
					l.Outcome("multi: all non-excepted cookies manipulated at once -> all \"\"")
				}
				x.checkResp(e, bx2, req, set2)
			}
		}
	}
	rec(0)
}

// ---------------------------------------------------------------------------
// layer C: keys of an invalid length (statement silent; outcomes only)

func layerC(l *core.Local, bk badKey) {
	var app *fiber.App
	var cpanic any
	func() {
		defer func() { cpanic = recover() }()
		app = newApp(true, bk.Key, nil)
	}()
	l.Add("evaluations", 1)
	l.Add("unspecified_skipped", 1)
	if cpanic != nil {
		l.Outcome("invalid key " + bk.Name + ": construction panics")
		return
	}
	e1 := do(app, hdr1("a", []byte("anything")), nil)
	r1 := "request cookie -> panic"
	if e1.Panic == nil {
		r1 = "request cookie -> " + map[bool]string{true: "\"\"", false: "text"}[e1.Get["a"] == ""]
	}
	app = newApp(true, bk.Key, nil)
	e2 := do(app, nil, []ck{{"a", "hello world"}})
	r2 := "response cookie -> handler panic (no response)"
	if e2.Panic == nil {
		r2 = "response cookie -> response without plaintext"
		if strings.Contains(string(e2.Raw), "hello world") {
			r2 = "response cookie -> PLAINTEXT on the wire"
		}
	}
	l.Add("evaluations", 2)
	l.Outcome("invalid key " + bk.Name + ": construction accepted; " + r1 + "; " + r2)
}

// ---------------------------------------------------------------------------
// layer D: the same cookie name twice in one request

func layerD(l *core.Local, ki, ni int, vals []string) {
	x := &cx{l: l, layer: "D", ki: ki, mask: 0}
	app := mwApp(ki, 0)
	name := names[ni]
	other := names[(ni+1)%len(names)]
	v1, v2, v3 := "hello world", "x=y", "v"
	W1, ok1 := x.issueOne(app, name, v1)
	W2, ok2 := x.issueOne(app, name, v2)
	W3, ok3 := x.issueOne(app, other, v3)
	Wk, ok4 := x.issueOne(mwApp((ki+2)%len(keys), 0), name, v1)
	if !(ok1 && ok2 && ok3 && ok4) {
		x.l.Violate("issue-failed layer=D", "could not obtain cookies", nil, nil, nil)
		return
	}
	good1 := sent{Name: name, Text: W1, Mode: mMust, Must: v1, Kind: "issued"}
	good2 := sent{Name: name, Text: W2, Mode: mMust, Must: v2, Kind: "issued"}
	good3 := sent{Name: other, Text: W3, Mode: mMust, Must: v3, Kind: "issued"}
	forged := func(text, kind string) sent {
		return sent{Name: name, Text: text, Mode: mAltered, Kind: kind, C: W1, Cb: decodeStd(W1), Issued: v1}
	}
	bads := []sent{forged("forged", "plaintext"), forged(Wk, "other-key"), forged(W1[:len(W1)-2], "trunc-tail"), forged("", "trunc-tail")}
	var reqs [][]sent
	reqs = append(reqs, []sent{good1, good2}, []sent{good2, good1}, []sent{good1, good3, good2})
	for _, b := range bads {
		reqs = append(reqs, []sent{good1, b}, []sent{b, good1}, []sent{good1, good3, b}, []sent{b, good3, good1}, []sent{b, b})
	}
	for _, req := range reqs {
		for _, split := range []bool{false, true} {
			e := do(app, joinHdr(req, split), nil)
			l.Add("evaluations", 1)
			l.Add("nontrivial", 1)
			l.Add("dup_name_requests", 1)
			if !x.sound(e, req, nil) {
				continue
			}
			// A rejected cookie may be absent instead of "": try every reading in which some of the forged
			// cookies were removed and the rest lines up by name; the request is fine if one reading is.
			okOne := func(s *sent, got string) bool {
				if s.Mode == mMust {
					return got == s.Must
				}
				return got == "" || (got == s.Issued && sameDecode(normCookieValue(s.Text), s.Cb))
			}
			fine := false
			for drop := 0; drop < 1<<len(req) && !fine; drop++ {
				var keep []int
				legal := true
				for i := range req {
					if drop&(1<<i) != 0 {
						legal = legal && req[i].Mode == mAltered
					} else {
						keep = append(keep, i)
					}
				}
				if !legal || len(keep) != len(e.View) {
					continue
				}
				all := true
				for j, i := range keep {
					all = all && e.View[j].N == req[i].Name && okOne(&req[i], e.View[j].V)
				}
				fine = all
			}
			if fine {
				l.Outcome("duplicate names: every cookie judged on its own")
				continue
			}
			l.Outcome("duplicate names: some cookie reaches the handler wrong")
			if len(e.View) != len(req) {
				l.Violate(fmt.Sprintf("dup-name-request no-consistent-reading sent=%d seen=%d", len(req), len(e.View)),
					"request with the same cookie name twice: what the handler sees cannot be explained by judging every cookie on its own", x.caseMap(req, nil, e), nil, nil)
				continue
			}
			// same number of cookies: the signature names the effect per slot — which of the same-named
			// cookies (first / later), what was sent there, what the handler saw there
			seenName := false
			for i := range req {
				s := &req[i]
				pos := "only"
				if s.Name == name {
					pos = "first"
					if seenName {
						pos = "later"
					}
					seenName = true
				}
				got := e.View[i].V
				if e.View[i].N != s.Name {
					l.Violate("dup-name-request names-changed", "request with the same cookie name twice: names seen differ from names sent", x.caseMap(req, nil, e), nil, nil)
					break
				}
				if okOne(s, got) {
					continue
				}
				sentAs := "forged"
				if s.Mode == mMust {
					sentAs = "valid"
				}
				gc := "other-text"
				switch {
				case got == "":
					gc = "empty"
				case got == s.Text:
					gc = "raw-sent-text"
				default:
					for j := range req {
						if j != i && req[j].Mode == mMust && got == req[j].Must {
							gc = "value-of-another-cookie-of-the-request"
						}
					}
				}
				l.Violate(fmt.Sprintf("dup-name-request pos=%s sent=%s handler-saw=%s", pos, sentAs, gc),
					"request with the same cookie name twice: a cookie is not judged on its own — its slot shows the result of a same-named cookie, or it is left as sent",
					x.caseMap(req, nil, e), q(got), map[bool]string{true: q(s.Must), false: `""`}[s.Mode == mMust])
			}
		}
	}
}

// ---------------------------------------------------------------------------
// enumeration

type item struct {
	Layer string
	Ki    int
	Ni    int
	Vi    int
	Mask  int
	Tuple []int
	Bad   int
	EH    int // layer E: 0 default ErrorHandler, 1 custom
	St    int // layer E: 0 app.Use chain, 1 route-level handler chain
	Part  int // layer A, 4 KiB value: the manipulations are split by position into Parts work items
	Parts int
	// layers F-N (dims.go)
	Li, K, Len, ExcMode, Next, Rec, Cause int
}

// cost is a rough relative CPU estimate used only to balance the static assignment to workers.
func (it item) cost(thorough bool) float64 {
	switch it.Layer {
	case "A":
		c := 0.05
		if it.Vi == 7 {
			c = 40 / float64(it.Parts)
		}
		if excepted(it.Mask, names[it.Ni]) {
			c *= 2 // every exchange is repeated on the application without the middleware
		}
		return c
	case "B":
		if thorough && len(it.Tuple) == 3 {
			return 1.5
		}
		return 0.3
	case "E":
		if thorough {
			return 0.6
		}
		return 0.15
	case "N":
		return 0.06
	case "M":
		return 0.004 * float64(it.K)
	case "L":
		return 0.00004 * float64(it.Len)
	case "K":
		return 0.12
	case "F":
		return 0.02
	case "T":
		if thorough {
			return 0.12
		}
		return 0.06
	}
	return 0.01
}

// assign distributes the items over n workers: longest estimated first, each to the least loaded
// worker (ties: lowest worker index). Pure function of the item list and n.
func assign(items []item, n int, thorough bool) []int {
	order := make([]int, len(items))
	for i := range order {
		order[i] = i
	}
	sort.SliceStable(order, func(a, b int) bool { return items[order[a]].cost(thorough) > items[order[b]].cost(thorough) })
	load := make([]float64, n)
	out := make([]int, len(items))
	for _, i := range order {
		w := 0
		for j := 1; j < n; j++ {
			if load[j] < load[w] {
				w = j
			}
		}
		out[i] = w
		load[w] += items[i].cost(thorough)
	}
	return out
}

func tuples(k int) [][]int {
	var out [][]int
	var rec func(cur []int)
	rec = func(cur []int) {
		if len(cur) == k {
			out = append(out, append([]int(nil), cur...))
			return
		}
		for i := range names {
			dup := false
			for _, c := range cur {
				dup = dup || c == i
			}
			if !dup {
				rec(append(cur, i))
			}
		}
	}
	rec(nil)
	return out
}

func main() {
	r := core.Start("C20")
	rand.Reader = rnd
	quick := r.Quick()

	nv := 7 // values without the 4 KiB one
	vals := valuesAll[:nv]
	if !quick {
		nv = 8
		vals = valuesAll[:nv]
	}
	keysB := []int{0, 2, 4}
	menu2 := []int{0, 1, 2, 3, 4, 5, 6}
	menu3 := []int{0, 2, 6}
	if !quick {
		keysB = []int{0, 1, 2, 3, 4, 5}
		menu2 = []int{0, 1, 2, 3, 4, 5, 6, 7}
		menu3 = []int{0, 1, 2, 3, 4, 5, 6}
	}

	var items []item
	// the costly ones (4 KiB) first so that they spread over the workers
	for vi := nv - 1; vi >= 0; vi-- {
		for ki := range keys {
			for ni := range names {
				for mask := 0; mask < 8; mask++ {
					// the 4 KiB value (about 740 000 manipulations per ciphertext) runs with three Except
					// sets only: none, exactly this name, exactly the other names
					if vi == 7 && mask != 0 && mask != 1<<ni && mask != 7^(1<<ni) {
						continue
					}
					parts := 1
					if vi == 7 {
						parts = 8
					}
					for p := 0; p < parts; p++ {
						items = append(items, item{Layer: "A", Ki: ki, Ni: ni, Vi: vi, Mask: mask, Part: p, Parts: parts})
					}
				}
			}
		}
	}
	for _, k := range []int{3, 2} {
		for _, ki := range keysB {
			for _, tp := range tuples(k) {
				for mask := 0; mask < 8; mask++ {
					items = append(items, item{Layer: "B", Ki: ki, Tuple: tp, Mask: mask})
				}
			}
		}
	}
	for i := range badKeys {
		items = append(items, item{Layer: "C", Bad: i})
	}
	for _, ki := range keysB {
		for ni := range names {
			items = append(items, item{Layer: "D", Ki: ki, Ni: ni})
		}
	}

	// layer E: appended last so that the random streams (seeded by item index) of layers A-D stay as they were
	menuE := []string{valuesAll[2], valuesAll[6], valuesAll[1]}
	if !quick {
		menuE = []string{valuesAll[2], valuesAll[6], valuesAll[1], valuesAll[3], valuesAll[4], valuesAll[5], valuesAll[0]}
	}
	for _, ki := range keysB {
		for mask := 0; mask < 8; mask++ {
			for eh := 0; eh < 2; eh++ {
				for st := 0; st < 2; st++ {
					items = append(items, item{Layer: "E", Ki: ki, Mask: mask, EH: eh, St: st})
				}
			}
		}
	}

	// layers F-N: appended behind layer E for the same reason
	manyK := []int{4, 8, 13, 24, 64}
	longLens := []int{1000, 4096, 4097, 20000}
	masksK := []int{0, 2, 5}
	if !quick {
		manyK = []int{4, 8, 13, 24, 64, 120, 200}
		longLens = []int{1000, 2500, 4096, 4097, 20000, 30000}
		masksK = []int{0, 1, 2, 3, 4, 5, 6, 7}
	}
	nLists := len(exceptLists())
	for _, ki := range keysB {
		for li := 0; li < nLists; li++ {
			items = append(items, item{Layer: "N", Ki: ki, Li: li})
		}
		for _, k := range manyK {
			for em := 0; em < 2; em++ {
				items = append(items, item{Layer: "M", Ki: ki, K: k, ExcMode: em})
			}
		}
		for ni := range names {
			for _, n := range longLens {
				for em := 0; em < 3; em++ {
					items = append(items, item{Layer: "L", Ki: ki, Ni: ni, Len: n, ExcMode: em})
				}
			}
		}
		for _, mask := range masksK {
			for nx := 0; nx < 3; nx++ {
				items = append(items, item{Layer: "K", Ki: ki, Mask: mask, Next: nx})
			}
		}
		for mask := 0; mask < 8; mask++ {
			for rec := 0; rec < 2; rec++ {
				for cause := 0; cause < 2; cause++ {
					items = append(items, item{Layer: "F", Ki: ki, Mask: mask, Rec: rec, Cause: cause})
				}
			}
		}
	}

	// layer T (attrs.go): appended behind layers F-N for the same reason
	menuT := []string{valuesAll[2], valuesAll[5], valuesAll[0]}
	keysT := keysB
	if !quick || os.Getenv("C20_T_FULL") != "" { // development aid: the thorough tier's layer T inside a quick run
		menuT = []string{valuesAll[2], valuesAll[5], valuesAll[0], valuesAll[1], longValue(300)}
		keysT = []int{0, 1, 2, 3, 4, 5}
	}
	for _, ki := range keysT {
		for mask := 0; mask < 8; mask++ {
			for ni := range names {
				items = append(items, item{Layer: "T", Ki: ki, Mask: mask, Ni: ni})
			}
		}
	}

	if r.IsWorker() {
		// the live heap of a worker is tiny and every exchange leaves a few KiB of garbage:
		// with the default GOGC more than a third of the CPU went into back-to-back GC cycles
		debug.SetGCPercent(4000)
		debug.SetMemoryLimit(2 << 30) // with long values (layer L, thorough) 40x the live heap is too much for 16 workers
		l := core.NewLocal()
		nwk := r.NWorkers
		if nwk < 1 {
			nwk = 1
		}
		owner := assign(items, nwk, !quick)
		for idx, it := range items {
			if owner[idx] != r.Worker {
				continue
			}
			if r.Expired() {
				r.Cap("wall-clock budget reached before all work items were explored")
				break
			}
			// the random stream depends on the item only (all parts of one layer-A case see the same ciphertexts)
			reseed(uint64(idx-it.Part) + 1)
			switch it.Layer {
			case "A":
				layerA(l, it.Ki, it.Ni, it.Vi, it.Mask, vals, it.Part, it.Parts, it.Mask == 0 && ((it.Ki == 0 && it.Ni == 1 && it.Vi == 2) || (it.Ki == 4 && it.Ni == 0 && it.Vi == 3) || (it.Ki == 3 && it.Ni == 2 && it.Vi == 6)))
			case "B":
				menu := menu2
				if len(it.Tuple) == 3 {
					menu = menu3
				}
				layerB(l, it.Ki, it.Tuple, it.Mask, vals, menu, (it.Mask == 4 && it.Ki == 0 && it.Tuple[0] == 0 && it.Tuple[1] == 1) || (it.Mask == 1 && it.Ki == 2 && len(it.Tuple) == 2 && it.Tuple[0] == 2 && it.Tuple[1] == 0))
			case "C":
				layerC(l, badKeys[it.Bad])
			case "D":
				layerD(l, it.Ki, it.Ni, vals)
			case "E":
				layerE(l, it.Ki, it.Mask, it.EH, it.St, menuE, it.St == 0 && ((it.Ki == 0 && it.Mask == 0 && it.EH == 0) || (it.Ki == 4 && it.Mask == 2 && it.EH == 1)))
			case "N":
				layerN(l, it.Ki, it.Li, it.Ki == 2 && it.Li == 17)
			case "M":
				layerM(l, it.Ki, it.K, it.ExcMode, it.Ki == 0 && it.K == 13 && it.ExcMode == 1)
			case "L":
				layerL(l, it.Ki, it.Ni, it.Len, it.ExcMode, it.Ki == 4 && it.Ni == 1 && it.Len == 4097 && it.ExcMode == 0)
			case "K":
				layerK(l, it.Ki, it.Mask, it.Next, it.Ki == 0 && it.Mask == 2 && it.Next == nextSkipPath)
			case "T":
				layerT(l, it.Ki, it.Mask, it.Ni, menuT, it.Ki == 2 && it.Mask == 4 && it.Ni == 1)
			case "F":
				layerF(l, it.Ki, it.Mask, it.Rec, it.Cause, it.Ki == 2 && it.Mask == 1 && it.Rec == 1 && it.Cause == 0)
			}
			l.Add("work_items", 1)
			if os.Getenv("VERIF_PROGRESS") != "" {
				fmt.Fprintf(os.Stderr, "worker %d: item %d/%d layer %s done, evaluations so far %d\n", r.Worker, idx, len(items), it.Layer, l.P.Counters["evaluations"])
			}
		}
		r.Merge(l.P)
		r.Finish(core.Evidence{})
		return
	}

	if r.Deadline.IsZero() {
		// internal deadline: the tiers keep their wall-clock bound on a loaded machine too
		// (a run that is cut short ends with exhaustive:false and exit 0)
		if quick {
			r.Deadline = r.Start.Add(58 * time.Second)
		} else {
			r.Deadline = r.Start.Add(14*time.Minute + 30*time.Second)
		}
	}
	nw := runtime.NumCPU()
	if nw > len(items) {
		nw = len(items)
	}
	crashed := r.SpawnWorkers(nw, nil)
	if len(crashed) > 0 {
		core.Fatal("worker(s) died: %v", crashed)
	}
	if r.Replay == "" {
		runConcurrentEnc(r) // two requests in flight on one middleware instance (small; runs in this process)
		lr := core.NewLocal()
		layerR(lr) // related keys used in one process (small; runs in this process)
		r.Merge(lr.P)
		if r.P.Counters["related_key_rejected"] == 0 && len(r.P.Violations) == 0 {
			core.Fatal("vacuous: layer R rejected nothing")
		}
	}
	foldNextQualifier(r.P.Violations)
	if os.Getenv("C20_OUTCOMES") != "" { // development aid: the outcome histogram (the evidence file lists it only up to 40 keys)
		var ks []string
		for k := range r.P.Outcomes {
			ks = append(ks, k)
		}
		sort.Strings(ks)
		for _, k := range ks {
			fmt.Fprintf(os.Stderr, "OUTCOME %8d  %s\n", r.P.Outcomes[k], k)
		}
	}
	sort.Slice(r.P.Samples, func(i, j int) bool { return core.Key(r.P.Samples[i]) < core.Key(r.P.Samples[j]) })
	c := r.P.Counters
	if len(r.P.Violations) == 0 && len(r.P.Caps) == 0 {
		for _, k := range []string{"replay_ok", "tamper_rejected_or_same", "altered_same_bytes_accepted", "excepted_req_pass", "excepted_resp_pass", "encrypted_resp", "otherkey_rejected", "multi_cookie_exchanges", "dup_name_requests", "ends_exchanges", "ends_error_status_encrypted", "ends_error_returned_encrypted",
			"names_exchanges", "names_rel_listed", "names_rel_case-variant-of-listed", "names_rel_one-byte-off-listed", "names_rel_prefix-of-listed", "names_rel_extends-listed", "names_rel_ends-with-listed", "names_rel_unrelated",
			"many_exchanges", "long_exchanges", "kind_exchanges", "next_true_requests", "next_false_processed", "encfail_exchanges", "encfail_no_response", "encfail_next_exchange_ok",
			"attr_exchanges", "attr_nonempty_value_with_removal_attributes", "attr_replay_ok"} {
			if c[k] == 0 {
				core.Fatal("vacuous exploration: mechanism counter %s is 0", k)
			}
		}
	}
	if len(r.P.Caps) == 0 { // counted before anything is judged: must be there whatever the run found
		for _, k := range []string{"attr_exchanges", "attr_nonempty_value_with_removal_attributes"} {
			if c[k] == 0 {
				core.Fatal("vacuous exploration: counter %s is 0", k)
			}
		}
	}
	if int(c["work_items"]) != len(items) && len(r.P.Caps) == 0 {
		core.Fatal("work items executed %d != enumerated %d", c["work_items"], len(items))
	}
	ev := core.Evidence{
		Level:      "exploration",
		Exhaustive: true,
		Coverage: map[string]any{
			"evaluations":         c["evaluations"],
			"distinct_nontrivial": c["nontrivial"],
			"rule": fmt.Sprintf("every request/response exchange with the real middleware over ServeConn is one evaluation. Layer A: %d keys x %d names x %d values x 8 Except subsets (the 4 KiB value of the thorough tier: 3 Except sets), one cookie: issue, replay, then EVERY substitution of every character by each of the %d characters of base64+'='+'-'+' ', every prefix and suffix truncation, every one-character insertion at every position, the ciphertext of each other key, of each other value, of each other name, and the plaintext. Layer B: %d keys x all ordered name tuples of size 2 (value menu %d^2) and 3 (value menu %d^3) x 8 Except subsets: issue, replay in one / in separate Cookie headers while the handler sets cookies again, then a fixed family of ~85 manipulations on each position with the others valid, then all non-excepted positions manipulated at once. Layer C: %d invalid keys. Layer D: duplicate-name requests. Layer E (how the exchange ends): %d keys x 8 Except subsets x {default, custom ErrorHandler} x {app.Use chain, route-level handler chain} x %d handler ends (return nil with/without body, 201, redirect, SendStatus 403/502, *fiber.Error 401/503, plain error, body then *fiber.Error, wrapped *fiber.Error, c.Next() with no further route, no route at all, panic behind the recover middleware) x {downstream middleware propagates / answers the error} x cookie placements over 4 slots (downstream middleware before/after c.Next(), final handler before/after its response-writing call): one cookie, two cookies over all slot pairs, one name set twice, x %d value rotations; every exchange also carries one validly issued request cookie; the application without the middleware must answer with the planned status and cookies (self-check). Layer R (related keys): every ordered pair of 11 mutually related keys (a 16-byte key and its zero-padded 24- and 32-byte extensions, the leading 16/24 bytes of a 32-byte key, one bit flipped, bytes rotated, all-zero keys of the three lengths) used by two middleware instances of one process in both orders of first use x 3 values: a cookie issued under one must reach the handler behind the other empty, and each instance still round-trips its own cookies. Concurrent part: every ordered pair of 4 requests (with valid cookies, without, with a forged cookie; also a request with itself) in flight on ONE middleware instance, all interleavings with <=2 (thorough <=3) preemptions at the Encryptor/Decryptor/handler seams and at any shimmed sync operation of the middleware; each response, with its Set-Cookie values decrypted, must equal the response of the same request served alone (counters cc_executions, cc_points). Layer N (names vs Except): %d keys x %d Except lists (empty; one entry; the entry in front of / amid / behind 8 unrelated names; an entry twice; all names in three orders) built from %d related names (case variants, prefixes, extensions, one byte off, 64-byte names): all names in one exchange and every name alone, each issued, replayed and forged (truncated, substituted, other key, plaintext; for listed names: passed through); a name is excepted iff it is listed exactly. Layer M (many cookies): %d keys x %v cookies per request and response x Except {none, two of them}, forgeries at the first, second, middle, last-but-one and last position and at all positions at once. Layer L (long values): %d keys x %d names x values of %v bytes x Except {none, this name, the others}: issue, replay, the ~85 reduced manipulations, other key, plaintext; next to a short cookie in both orders. Layer K (kind of request, Config.Next): %d keys x %d Except subsets x Config.Next {nil, always false, true under /skip} x 7 methods x 3 spellings of the Cookie field name x 2 separators, three cookies issued, replayed and forged per request kind; a request Next answers true for precedes every judged one (itself outside the statement: outcome only). Layer F (the Encryptor fails): %d keys x 8 Except subsets x {entropy source returns an error, custom Encryptor returns an error} x {recover middleware in front, nothing in front} x 11 cookie sets of 1-3 cookies x the failing encryption (1st..nth, once / from then on): no plaintext of a non-excepted cookie in whatever reaches the wire, and the next exchange on the same application issues and accepts cookies as usual. Layer T (attributes of the response cookies): %d keys x 8 Except subsets x %d names x Expires {none, fasthttp.CookieExpireDelete, one second after the epoch, one hour / one second before the request, one hour after it, end of 2099} x MaxAge %v x SessionOnly {false, true} x {no other attribute, Path+Domain+Secure+HTTPOnly+SameSite+Partitioned} x %d values (non-empty classes and the empty one) x set by {c.Cookie, c.Cookie with the value read from the request cookie, fasthttp Response.Header.SetCookie, c.ClearCookie(name) then c.Cookie}, one cookie per response; three cookies of different lifetimes in one response; one cookie re-set after c.ClearCookie() removed all request cookies; pure removals (c.ClearCookie(), c.ClearCookie(name...), c.Cookie then c.ClearCookie(name)); every request carries the validly issued cookies of all names; every non-excepted cookie on the wire must be ciphertext whatever its attributes, excepted ones byte-identical to the application without the middleware, and every non-empty issued value sent back must reach the handler as set. Non-trivial = an exchange whose request carries at least one cookie that is not an unmodified issued one, or whose response carries a non-excepted non-empty cookie (counted in the loop).",
				len(keys), len(names), nv, len(mutAlpha), len(keysB), len(menu2), len(menu3), len(badKeys), len(keysB), len(ends), len(menuE),
				len(keysB), nLists, len(relNames), len(keysB), manyK, len(keysB), len(names), longLens, len(keysB), len(masksK), len(keysB),
				len(keysT), len(names), maxAges, len(menuT)),
			"bounds": map[string]any{"keys": len(keys), "key_lengths": []int{16, 24, 32}, "names": names, "values": nv, "max_value_bytes": len(vals[nv-1]),
				"except_subsets": 8, "cookies_per_exchange_max": 3, "handler_ends": len(ends), "cookie_slots": nSlots, "mutation_alphabet": mutAlpha, "work_items": len(items), "workers": nw,
				"related_names": len(relNames), "except_lists": nLists, "cookies_per_request_many": manyK, "long_value_bytes": longLens,
				"request_methods": kMethods, "config_next": nextName, "encryptor_failure_causes": causeName, "response_cookie_attributes": tDims()},
		},
		Assumptions: []string{
			"AES-GCM, crypto/rand replaced by a SHA-256 counter stream (unique nonces), encoding/base64 and fasthttp's request parsing are trusted",
			"the client sends back, per RFC 6265, the bytes between the first '=' and the first ';' of each Set-Cookie line",
			"'decodes to the very same ciphertext' is judged leniently: any of the four standard base64 flavours, after the cookie syntax removed surrounding spaces",
			"for plaintexts that can occur inside base64 text by chance (short alphanumeric ones) confidentiality is judged by inequality only",
			"invalid key lengths and ciphertexts issued for another cookie name are outside the statement: recorded as outcomes, never flagged",
		},
		MinOutcomes: 6,
	}
	r.Finish(ev)
}
