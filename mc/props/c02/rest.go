package main

// Family R: REST-shaped patterns — two parameters separated by a literal SEGMENT ("/a/", "/ab/",
// "-a-", "/a-"), after "/" or "/a/", with and without a tail ("/", "/a/"): the shape of
// "/users/:id<int>/books/:idx<int>". The shapes of the other families glue a literal of at most one
// delimiter and two letters between parameters; here the text that ends a parameter ("/a", the
// segment without its final slash) differs from the literal that must follow ("/a/"), literals repeat
// in the pattern, constrained and unconstrained parameters are mixed, and the parameters carry names
// of several characters that are prefixes of each other (id, idx): the handler asks Params for each
// declared name, so a look-up that confuses names shows as a value that does not reproduce the path.

var restSyms = []string{"/", "-", ".", "a", "b", "7", "12", "/a/", "-a-"}

func generateREST(add func(*patternX), genN int, quick bool) {
	con := func(opt bool, cs ...string) tokSpec { return tokSpec{Kind: kNamed, Optional: opt, Cons: cs} }
	firsts := []string{"/", "/a/"}
	p1s := []tokSpec{con(false, "int"), spNamed, con(true, "int"), spStar}
	mids := []string{"/a/", "-a-", "/a-", "/ab/"}
	p2s := []tokSpec{con(false, "int"), con(false, "alpha"), con(true, "int"), spPlus}
	tails := []string{"", "/", "/a/"}
	if !quick {
		p1s = append(p1s, spNamedOpt, spPlus, con(false, "regex"))
		mids = append(mids, "-a/", ".a.", "/a/a/")
		p2s = append(p2s, spNamed, spNamedOpt, spStar, con(false, "len"))
		tails = append(tails, "/a", "-a")
	}
	for _, f := range firsts {
		for _, p1 := range p1s {
			for _, m := range mids {
				for _, p2 := range p2s {
					for _, t := range tails {
						specs := []tokSpec{litSpec(f), p1, litSpec(m), p2}
						if t != "" {
							if p2.Kind == kNamed && !p2.Optional && !isDelim(t[0]) {
								continue
							}
							specs = append(specs, litSpec(t))
						}
						add(buildNamed(specs, "R", restSyms, genN, wordNames))
					}
				}
			}
		}
	}
}

func isDelim(c byte) bool { return c == '/' || c == '-' || c == '.' }

// restMenu: instantiation values of family R; they repeat the text of the literals ("a", "/a", "-a-")
// so that the literal that ends a parameter occurs more often in the path than in the pattern.
func restMenu(t token) []string {
	switch t.Kind {
	case kStar:
		return []string{"", "a", "a/b", "b/a/b", "a/a", "b-a-b", "a/"}
	case kPlus:
		return []string{"a", "a/b", "b/a/b", "", "a-a-a", "7/a"}
	}
	if len(t.Cons) == 0 {
		return []string{"a", "b7", "a-b", "a.b", "a/b", "-a-", "ab", t.Text, ""}
	}
	return append(paramMenu(t, false, false), "7/a", "7-a-7", "12/a/7")
}
