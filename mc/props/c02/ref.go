package main

// Reference side of C02, written from the property statement and docs/guide/routing.md only.
// Every per-constraint reference is three-valued: vValid (the docs clearly accept the value),
// vInvalid (the docs clearly reject it) and vUnspec (the docs are silent: never judged).

import (
	"strconv"
	"strings"
)

type tri int

const (
	vValid tri = iota
	vInvalid
	vUnspec
)

func (t tri) String() string { return [...]string{"valid", "invalid", "unspecified"}[t] }

func isASCII(s string) bool {
	for i := 0; i < len(s); i++ {
		if s[i] >= 0x80 {
			return false
		}
	}
	return true
}

func allDigits(s string) bool {
	if s == "" {
		return false
	}
	for i := 0; i < len(s); i++ {
		if s[i] < '0' || s[i] > '9' {
			return false
		}
	}
	return true
}

// refIntVal: "-"?digits (at most 18 digits) is an integer everybody agrees on; a string holding
// a byte that can never be part of a decimal integer is no integer; the rest ("+5", overflow) is unspecified.
func refIntVal(v string) (int64, tri) {
	if v == "" {
		return 0, vInvalid
	}
	body := v
	if body[0] == '-' {
		body = body[1:]
	}
	if allDigits(body) && len(body) <= 18 {
		n, _ := strconv.ParseInt(v, 10, 64)
		return n, vValid
	}
	for i := 0; i < len(v); i++ {
		c := v[i]
		if !(c >= '0' && c <= '9') && c != '+' && c != '-' {
			return 0, vInvalid
		}
	}
	// only digits and signs: a sign anywhere but in front, or no digit at all, is no integer
	if !allDigits(strings.TrimLeft(v, "+-")) || strings.LastIndexAny(v, "+-") > 0 {
		return 0, vInvalid
	}
	return 0, vUnspec
}

func refInt(v string) tri { _, t := refIntVal(v); return t }

func refBool(v string) tri {
	switch v {
	case "true", "false":
		return vValid
	case "1", "0", "t", "f", "T", "F", "TRUE", "FALSE", "True", "False":
		return vUnspec
	}
	return vInvalid
}

func refFloat(v string) tri {
	// plain decimal: -?digits(.digits)? with at most 15 significant characters
	body := strings.TrimPrefix(v, "-")
	if i := strings.IndexByte(body, '.'); i >= 0 {
		if allDigits(body[:i]) && allDigits(body[i+1:]) && len(body) <= 16 {
			return vValid
		}
	} else if allDigits(body) && len(body) <= 15 {
		return vValid
	}
	// the most liberal reading anybody could have is Go's own float syntax
	if _, err := strconv.ParseFloat(v, 64); err != nil {
		if ne, ok := err.(*strconv.NumError); ok && ne.Err == strconv.ErrSyntax {
			return vInvalid
		}
	}
	return vUnspec
}

func refAlpha(v string) tri {
	if v == "" {
		return vUnspec
	}
	ascii := true
	for i := 0; i < len(v); i++ {
		c := v[i]
		if c >= 0x80 {
			ascii = false
			continue
		}
		if !(c >= 'a' && c <= 'z') && !(c >= 'A' && c <= 'Z') {
			return vInvalid
		}
	}
	if ascii {
		return vValid
	}
	return vUnspec
}

func isHex(s string) bool {
	if s == "" {
		return false
	}
	for i := 0; i < len(s); i++ {
		c := s[i]
		if !(c >= '0' && c <= '9') && !(c >= 'a' && c <= 'f') && !(c >= 'A' && c <= 'F') {
			return false
		}
	}
	return true
}

func canonicalGUID(v string) bool {
	if len(v) != 36 || v[8] != '-' || v[13] != '-' || v[18] != '-' || v[23] != '-' {
		return false
	}
	return isHex(v[:8]) && isHex(v[9:13]) && isHex(v[14:18]) && isHex(v[19:23]) && isHex(v[24:])
}

func refGUID(v string) tri {
	if canonicalGUID(v) {
		return vValid
	}
	// other spellings some parsers take: urn:uuid: prefix, braces, 32 hex digits
	w := v
	if len(w) >= 9 && strings.EqualFold(w[:9], "urn:uuid:") {
		w = w[9:]
	}
	if len(w) >= 2 && w[0] == '{' && w[len(w)-1] == '}' {
		w = w[1 : len(w)-1]
	}
	if canonicalGUID(w) || (len(w) == 32 && isHex(w)) {
		return vUnspec
	}
	return vInvalid
}

func refLen(ok func(n int) bool) func(string) tri {
	return func(v string) tri {
		if !isASCII(v) {
			return vUnspec // bytes or characters? the docs say "characters"
		}
		if ok(len(v)) {
			return vValid
		}
		return vInvalid
	}
}

func refNum(ok func(n int64) bool) func(string) tri {
	return func(v string) tri {
		n, t := refIntVal(v)
		if t != vValid {
			return t
		}
		if ok(n) {
			return vValid
		}
		return vInvalid
	}
}

// refDate is the reference for datetime(2006-01-02).
func refDate(v string) tri {
	if len(v) != 10 || v[4] != '-' || v[7] != '-' || !allDigits(v[:4]) || !allDigits(v[5:7]) || !allDigits(v[8:]) {
		return vInvalid
	}
	y, _ := strconv.Atoi(v[:4])
	m, _ := strconv.Atoi(v[5:7])
	d, _ := strconv.Atoi(v[8:])
	if m < 1 || m > 12 || d < 1 {
		return vInvalid
	}
	dim := [...]int{31, 28, 31, 30, 31, 30, 31, 31, 30, 31, 30, 31}[m-1]
	if m == 2 && y%4 == 0 && (y%100 != 0 || y%400 == 0) {
		dim = 29
	}
	if d > dim {
		return vInvalid
	}
	if y == 0 {
		return vUnspec
	}
	return vValid
}

// refRegexAC is the reference for regex(^[a-c]+$), spelled out without package regexp.
func refRegexAC(v string) tri {
	if v == "" {
		return vInvalid
	}
	for i := 0; i < len(v); i++ {
		if v[i] < 'a' || v[i] > 'c' {
			return vInvalid
		}
	}
	return vValid
}

// ---------------------------------------------------------------------------
// custom constraints: their Execute IS their specification (given the right arguments)

type oddConstraint struct{}

func (oddConstraint) Name() string { return "odd" }
func (oddConstraint) Execute(param string, _ ...string) bool {
	n, err := strconv.Atoi(param)
	return err == nil && n%2 != 0
}

type multConstraint struct{}

func (multConstraint) Name() string { return "mult" }
func (multConstraint) Execute(param string, args ...string) bool {
	if len(args) != 1 {
		return false
	}
	k, err := strconv.Atoi(args[0])
	if err != nil || k == 0 {
		return false
	}
	n, err := strconv.Atoi(param)
	return err == nil && n%k == 0
}

// isOddConstraint: the same predicate under a name with a capital letter (custom constraints are
// looked up by name).
type isOddConstraint struct{}

func (isOddConstraint) Name() string { return "isOdd" }
func (isOddConstraint) Execute(param string, args ...string) bool {
	return oddConstraint{}.Execute(param, args...)
}

// inConstraint: the value is one of the arguments, letter for letter.
type inConstraint struct{}

func (inConstraint) Name() string { return "in" }
func (inConstraint) Execute(param string, args ...string) bool {
	for _, a := range args {
		if a == param {
			return true
		}
	}
	return false
}

// refRegexUpper is the reference for regex(^[A-C]+$).
func refRegexUpper(v string) tri {
	if v == "" {
		return vInvalid
	}
	for i := 0; i < len(v); i++ {
		if v[i] < 'A' || v[i] > 'C' {
			return vInvalid
		}
	}
	return vValid
}

// refDateHour is the reference for datetime(2006-01-02T15): a date, the letter T, an hour.
func refDateHour(v string) tri {
	if len(v) < 12 || len(v) > 13 {
		return vInvalid
	}
	d := refDate(v[:10])
	if d == vInvalid || v[10] != 'T' || !allDigits(v[11:]) {
		return vInvalid // a 't' is not the 'T' the layout spells
	}
	if len(v) == 12 {
		return vUnspec // one-digit hour
	}
	if h, _ := strconv.Atoi(v[11:]); h > 23 {
		return vInvalid
	}
	return d
}

func refCustom(ok func(string) bool) func(string) tri {
	return func(v string) tri {
		if ok(v) {
			return vValid
		}
		return vInvalid
	}
}

// ---------------------------------------------------------------------------
// constraint catalogue

type consDef struct {
	Name string // short name used in signatures
	Text string // spelling inside <...>
	Ref  func(string) tri
	Syms []string // extra path symbols (values the base alphabet cannot spell)
	Menu []string // instantiation values: valid, invalid and unspecified exemplars
}

const (
	guidOK  = "cd2c1638-1638-72d5-1638-deadbeef1638"
	guidBad = "cd2c1638-1638-72d5-1638-deadbeef163"
)

var consCatalogue = []consDef{
	{"int", "int", refInt, nil, []string{"12", "-7", "+5", "7a", "a", "1_0", "99999999999999999999", "7-", "--7"}},
	{"bool", "bool", refBool, []string{"true"}, []string{"true", "false", "1", "T", "yes", "tru", "truee"}},
	{"float", "float", refFloat, nil, []string{"7.12", "-1", "1e3", "7.", ".5", "7.7.7", "inf", "NaN", "0x1p-2", "a", "7a"}},
	{"alpha", "alpha", refAlpha, nil, []string{"ab", "A", "a7", "a-b", "7"}},
	{"guid", "guid", refGUID, []string{guidOK, guidBad}, []string{guidOK, guidBad, strings.ToUpper(guidOK), "{" + guidOK + "}", "urn:uuid:" + guidOK, strings.ReplaceAll(guidOK, "-", ""), guidOK + "0"}},
	{"minLen", "minLen(2)", refLen(func(n int) bool { return n >= 2 }), nil, []string{"a", "ab", "abc"}},
	{"maxLen", "maxLen(3)", refLen(func(n int) bool { return n <= 3 }), nil, []string{"abc", "abcd", "a"}},
	{"len", "len(2)", refLen(func(n int) bool { return n == 2 }), nil, []string{"a", "ab", "abc"}},
	{"betweenLen", "betweenLen(1,2)", refLen(func(n int) bool { return n >= 1 && n <= 2 }), nil, []string{"a", "ab", "abc"}},
	{"min", "min(5)", refNum(func(n int64) bool { return n >= 5 }), []string{"3"}, []string{"3", "5", "7", "12", "a", "-7", "+7"}},
	{"max", "max(9)", refNum(func(n int64) bool { return n <= 9 }), nil, []string{"9", "12", "a", "-7", "7a"}},
	{"range", "range(5,9)", refNum(func(n int64) bool { return n >= 5 && n <= 9 }), []string{"3"}, []string{"3", "5", "9", "12", "a", "7a"}},
	{"datetime", `datetime(2006\-01\-02)`, refDate, []string{"2024-02-29", "2023-02-29"}, []string{"2024-02-29", "2023-02-29", "2024-13-01", "2024-2-29", "0000-01-01", "20240229", "2024-02-29a"}},
	{"regex", `regex(^[a-c]+$)`, refRegexAC, nil, []string{"abc", "abd", "A", "a7", "cab"}},
	{"odd", "odd", refCustom(func(v string) bool { return oddConstraint{}.Execute(v) }), nil, []string{"7", "12", "a", "-7", "77"}},
	{"mult", "mult(3)", refCustom(func(v string) bool { return multConstraint{}.Execute(v, "3") }), nil, []string{"12", "7", "a", "9", "3a"}},
	// constraint spellings that hold capital letters (the pattern text is case-folded for routing when
	// CaseSensitive is off; what a constraint means must not change with it)
	{"custom-with-capital-in-name", "isOdd", refCustom(func(v string) bool { return isOddConstraint{}.Execute(v) }), nil, []string{"7", "12", "a", "-7", "77"}},
	{"custom-with-capital-in-argument", "in(Ab,b7)", refCustom(func(v string) bool { return inConstraint{}.Execute(v, "Ab", "b7") }), nil, []string{"Ab", "ab", "AB", "b7", "B7", "a", "Abb7"}},
	{"regex-with-capital-class", `regex(^[A-C]+$)`, refRegexUpper, []string{"B"}, []string{"ABC", "abc", "A", "a", "Ab", "A7", "CAB"}},
	{"datetime-with-letter-in-layout", `datetime(2006\-01\-02T15)`, refDateHour, []string{"2024-02-29T10", "2024-02-29t10"}, []string{"2024-02-29T10", "2024-02-29t10", "2023-02-29T10", "2024-02-29T24", "2024-02-29T7", "2024-02-29", "2024-02-29T10a"}},
}

func consByName(n string) consDef {
	for _, c := range consCatalogue {
		if c.Name == n {
			return c
		}
	}
	panic("unknown constraint " + n)
}

// constraint lists used on one parameter (single and multiple constraints)
var consSets = [][]string{
	{"int"}, {"bool"}, {"float"}, {"alpha"}, {"guid"}, {"minLen"}, {"maxLen"}, {"len"}, {"betweenLen"},
	{"min"}, {"max"}, {"range"}, {"datetime"}, {"regex"}, {"odd"}, {"mult"},
	{"int", "min"}, {"alpha", "len"}, {"minLen", "maxLen"}, {"min", "odd"}, {"regex", "maxLen"}, {"len", "mult"},
	{"custom-with-capital-in-name"}, {"custom-with-capital-in-argument"}, {"regex-with-capital-class"}, {"datetime-with-letter-in-layout"},
	// three constraints: "7" fails only the first, "12" only the second, "1277" only the third
	{"minLen", "odd", "maxLen"},
}

// ---------------------------------------------------------------------------
// pattern model (the harness' own reading of a pattern; never fiber's parser)

type tokKind int

const (
	kLit tokKind = iota
	kNamed
	kStar
	kPlus
)

type token struct {
	Kind     tokKind
	Text     string    // spelling in the pattern
	Lit      string    // literal text with escapes removed (kLit)
	Name     string    // key for Params (kNamed: p,q,..; kStar: *1..; kPlus: +1..)
	Optional bool      // ':x?' and '*'
	Cons     []consDef // declared constraints
}

func (t token) isParam() bool { return t.Kind != kLit }

// kindName is the short spelling used in signatures and skeletons.
func (t token) kindName() string {
	switch t.Kind {
	case kLit:
		if t.Lit == "" {
			return "''"
		}
		d := t.Lit[:1]
		if strings.ContainsAny(d, "/-.") {
			if len(t.Lit) > 1 {
				return d + "L"
			}
			return d
		}
		return "L"
	case kStar:
		return "*"
	case kPlus:
		return "+"
	}
	s := ":"
	if len(t.Cons) > 0 {
		var n []string
		for _, c := range t.Cons {
			n = append(n, c.Name)
		}
		s += "<" + strings.Join(n, ";") + ">"
	}
	if t.Optional {
		s += "?"
	}
	return s
}

type pattern struct {
	Text   string
	Unesc  string // Text without backslashes: what a literal comparison would compare with
	Toks   []token
	Family string
	Sigma  int // index of the generic path set
	NPar   int
}

func (p *pattern) skeleton() string {
	var b strings.Builder
	for i, t := range p.Toks {
		if i > 0 {
			b.WriteByte(' ')
		}
		b.WriteString(t.kindName())
	}
	return b.String()
}

func lower(s string) string {
	for i := 0; i < len(s); i++ {
		if s[i] >= 'A' && s[i] <= 'Z' {
			b := []byte(s)
			for j := i; j < len(b); j++ {
				if b[j] >= 'A' && b[j] <= 'Z' {
					b[j] += 'a' - 'A'
				}
			}
			return string(b)
		}
	}
	return s
}

func trimSlashes(s string) string {
	for len(s) > 0 && s[len(s)-1] == '/' {
		s = s[:len(s)-1]
	}
	return s
}

type config struct{ CaseSensitive, Strict, Unescape bool }

func (c config) String() string {
	b := func(v bool) byte {
		if v {
			return '1'
		}
		return '0'
	}
	return "cs" + string(b(c.CaseSensitive)) + "sr" + string(b(c.Strict)) + "ue" + string(b(c.Unescape))
}

// recon compares the pattern filled with the reported values (s) with the request path.
// It returns a class; classes starting with "MISMATCH" are violations of clause (1).
//
//	exact         equal (after the configured case folding)
//	slash-config  equal up to trailing slashes, StrictRouting off
//	slash-pattern equal up to trailing slashes that the filled pattern has and the request lacks
//	              (the pattern spells a '/' it treats as optional: "/:p/", "/a/:p?" with p empty)
//	prefix...     the same for middleware, "equal" replaced by "is a prefix of the request path"
func recon(s, path string, cfg config, use bool) string {
	if !cfg.CaseSensitive {
		// foldU: the most tolerant folding (see mb.go); the same as lower() on ASCII text
		s, path = foldU(s), foldU(path)
	}
	st := trimSlashes(s)
	if use {
		switch {
		case s == path:
			return "exact"
		case strings.HasPrefix(path, s):
			return "prefix"
		case len(st) < len(s) && strings.HasPrefix(path, st):
			return "prefix-slash-pattern"
		}
		return "MISMATCH not-a-prefix"
	}
	if s == path {
		return "exact"
	}
	if st == trimSlashes(path) {
		switch {
		case !cfg.Strict:
			return "slash-config"
		case len(s) > len(path):
			return "slash-pattern"
		}
		return "MISMATCH extra-trailing-slash-under-StrictRouting"
	}
	return "MISMATCH differs"
}

// fill substitutes values into the pattern (literals without their escapes).
func (p *pattern) fill(vals []string) string {
	var b strings.Builder
	k := 0
	for _, t := range p.Toks {
		if t.isParam() {
			b.WriteString(vals[k])
			k++
		} else {
			b.WriteString(t.Lit)
		}
	}
	return b.String()
}

// valueOK applies the statement's side conditions to one value.
// consMode 0: ignore constraints; 1: reject only definitely-invalid values.
func valueOK(t token, v string, consMode int) bool {
	if v == "" {
		return t.Optional
	}
	if t.Kind == kNamed && strings.IndexByte(v, '/') >= 0 {
		return false
	}
	if consMode == 1 {
		for _, c := range t.Cons {
			if c.Ref(v) == vInvalid {
				return false
			}
		}
	}
	return true
}

// exists reports whether some assignment of values (meeting the side conditions) fills the
// pattern to the request path. lenient=false: only the readings nobody disputes (exact, and
// trailing slashes when StrictRouting is off); lenient=true: every reading recon accepts.
func (p *pattern) exists(path string, cfg config, use, lenient bool, consMode int) bool {
	vals := make([]string, 0, 8)
	var rec func(ti, pos int) bool
	// literals: byte for byte under CaseSensitive; otherwise ASCII folding for the undisputed
	// reading and the most tolerant folding (mb.go) for the lenient one
	fold := 0
	if !cfg.CaseSensitive {
		fold = 1
		if lenient {
			fold = 2
		}
	}
	rec = func(ti, pos int) bool {
		if ti == len(p.Toks) {
			cls := recon(p.fill(vals), path, cfg, use)
			if strings.HasPrefix(cls, "MISMATCH") {
				return false
			}
			return lenient || cls == "exact" || cls == "prefix" || cls == "slash-config"
		}
		t := p.Toks[ti]
		if !t.isParam() {
			lit := t.Lit
			if n := matchLit(path[pos:], lit, fold); n >= 0 && rec(ti+1, pos+n) {
				return true
			}
			// trailing slashes of the filled pattern may be missing in the request
			if pos == len(path) || trimSlashes(lit) != lit {
				l2 := trimSlashes(lit)
				if n := matchLit(path[pos:], l2, fold); n >= 0 && pos+n == len(path) {
					return rec(ti+1, pos+n)
				}
			}
			return false
		}
		for n := 0; pos+n <= len(path); n++ {
			v := path[pos : pos+n]
			if t.Kind == kNamed && n > 0 && v[n-1] == '/' {
				break
			}
			if !valueOK(t, v, consMode) {
				continue
			}
			vals = append(vals, v)
			ok := rec(ti+1, pos+n)
			vals = vals[:len(vals)-1]
			if ok {
				return true
			}
		}
		return false
	}
	return rec(0, 0)
}
