// C02 — a handler only runs on paths its pattern describes; constraints are enforced.
//
// Bounded exhaustive exploration: single-route apps (GET and USE) for every pattern of a token
// grammar x every request path of an exhaustive short-string alphabet plus paths derived from the
// pattern's own text x the 8 routing configurations. The oracle runs inside the handler (so only
// when the handler ran) and is three-valued; see ref.go for the reference side.
//
// Further dimensions (audit round, AUDIT.md): constraint spellings with capital letters and three
// constraints per parameter (ref.go), REST-shaped patterns with prefix-sharing parameter names
// (rest.go), variants of every execution — custom context, route registered through a mounted
// sub-app or a group (forms.go) —, two-route apps whose middleware reads Params before and after
// c.Next() (next.go), the documented short keys Params("*") / Params("+").
package main

import (
	"encoding/json"
	"flag"
	"fmt"
	"os"
	"path/filepath"
	"runtime"
	"runtime/debug"
	"sort"
	"strconv"
	"strings"
	"time"

	"github.com/gofiber/fiber/v3"
	"github.com/valyala/fasthttp"

	"verifmc/core"
	"verifmc/fx"
)

// ---------------------------------------------------------------------------
// pattern grammar

type tokSpec struct {
	Kind     tokKind
	Lit      string // raw literal text (may hold escapes)
	Optional bool
	Cons     []string // constraint names
}

func litSpec(s string) tokSpec { return tokSpec{Kind: kLit, Lit: s} }

var (
	spNamed    = tokSpec{Kind: kNamed}
	spNamedOpt = tokSpec{Kind: kNamed, Optional: true}
	spStar     = tokSpec{Kind: kStar, Optional: true}
	spPlus     = tokSpec{Kind: kPlus}
	plainPars  = []tokSpec{spNamed, spNamedOpt, spStar, spPlus}
)

// adjOK excludes the two adjacencies whose reading the documentation does not fix:
// a named parameter directly followed by '*' or '+' (":p*" is a parameter called "p*"), and
// '+' directly followed by another parameter character ("+:p": the docs' "introductory
// parameter characters become part of the route" rule makes the '+' a literal).
func adjOK(prev, cur tokSpec) bool {
	if prev.Kind == kNamed && (cur.Kind == kStar || cur.Kind == kPlus) {
		return false
	}
	if prev.Kind == kPlus && cur.Kind != kLit {
		return false
	}
	return true
}

func removeEscapes(s string) string { return strings.ReplaceAll(s, `\`, "") }

var sigmaIndex = map[string]int{}
var sigmas [][]string

func sigmaID(syms []string) int {
	k := strings.Join(syms, "\x00")
	if id, ok := sigmaIndex[k]; ok {
		return id
	}
	sigmaIndex[k] = len(sigmas)
	sigmas = append(sigmas, syms)
	return len(sigmas) - 1
}

var (
	baseSyms = []string{"/", "-", ".", "a", "b", "A", "7", "12"}
	escSyms  = []string{"/", "-", "a", "b", "7", ":", "*", "+"}
	pctSyms  = []string{"/", "-", "a", "b", "7", "%2F", "%61", "%2d"}
)

type patternX struct {
	pattern
	GenN int // generic paths: "/" followed by at most GenN symbols
}

var (
	letterNames = []string{"p", "q", "r", "s", "t", "u", "v", "w"}
	lateNames   = []string{"s", "t", "u", "v", "w"}
	// names of several characters, each a prefix of the next one (family R)
	wordNames = []string{"id", "idx", "idxy", "idxyz"}
)

func build(specs []tokSpec, family string, baseSigma []string, genN int) *patternX {
	return buildNamed(specs, family, baseSigma, genN, letterNames)
}

func buildNamed(specs []tokSpec, family string, baseSigma []string, genN int, names []string) *patternX {
	p := &patternX{GenN: genN}
	p.Family = family
	nNamed, nStar, nPlus := 0, 0, 0
	syms := append([]string(nil), baseSigma...)
	var b strings.Builder
	for _, s := range specs {
		t := token{Kind: s.Kind, Optional: s.Optional}
		switch s.Kind {
		case kLit:
			t.Text, t.Lit = s.Lit, removeEscapes(s.Lit)
		case kStar:
			nStar++
			t.Text, t.Name = "*", fmt.Sprintf("*%d", nStar)
		case kPlus:
			nPlus++
			t.Text, t.Name = "+", fmt.Sprintf("+%d", nPlus)
		case kNamed:
			t.Name = names[nNamed]
			nNamed++
			t.Text = ":" + t.Name
			if len(s.Cons) > 0 {
				var cs []string
				for _, cn := range s.Cons {
					cd := consByName(cn)
					t.Cons = append(t.Cons, cd)
					cs = append(cs, cd.Text)
					for _, sy := range cd.Syms {
						dup := false
						for _, o := range syms {
							dup = dup || o == sy
						}
						if !dup {
							syms = append(syms, sy)
						}
					}
				}
				t.Text += "<" + strings.Join(cs, ";") + ">"
			}
			if s.Optional {
				t.Text += "?"
			}
		}
		if t.isParam() {
			p.NPar++
		}
		b.WriteString(t.Text)
		p.Toks = append(p.Toks, t)
	}
	p.Text = b.String()
	p.Unesc = removeEscapes(p.Text)
	p.Sigma = sigmaID(syms)
	return p
}

// shapes enumerates token sequences: first token from firsts, nTok tokens in total, the rest from rest.
func shapes(firsts, rest []tokSpec, nTok int, emit func([]tokSpec)) {
	cur := make([]tokSpec, 0, nTok)
	var rec func()
	rec = func() {
		if len(cur) == nTok {
			emit(append([]tokSpec(nil), cur...))
			return
		}
		for _, t := range rest {
			if !adjOK(cur[len(cur)-1], t) {
				continue
			}
			cur = append(cur, t)
			rec()
			cur = cur[:len(cur)-1]
		}
	}
	for _, f := range firsts {
		cur = append(cur[:0], f)
		rec()
	}
}

func litTokens(delims, lits []string) []tokSpec {
	var out []tokSpec
	for _, d := range delims {
		for _, l := range lits {
			out = append(out, litSpec(d+l))
		}
	}
	return out
}

func hasParam(s []tokSpec) bool {
	for _, t := range s {
		if t.Kind != kLit {
			return true
		}
	}
	return false
}

type bounds struct {
	A3n, A4n, A5n, Bn, B2n, Cn, Un int
	Mn, MLn                        int // family M: ASCII patterns / patterns with a multi-byte literal
	Rn                             int // family R
	Nn                             int // family N (two-route apps)
	MLits                          []string
	BLits                          []string
}

func generate(quick bool) ([]*patternX, bounds) {
	bd := bounds{A3n: 5, A4n: 5, A5n: 4, Bn: 4, B2n: 4, Cn: 4, Un: 4, Mn: 4, MLn: 3, Rn: 4, Nn: 3, MLits: mbLits, BLits: []string{"", "a", "ab", "A"}}
	if quick {
		bd = bounds{A3n: 4, A4n: 3, A5n: 3, Bn: 3, B2n: 3, Cn: 3, Un: 3, Mn: 3, MLn: 2, Rn: 3, Nn: 2, MLits: mbLits[:5], BLits: []string{"", "a", "ab", "A"}}
	}
	var pats []*patternX
	seen := map[string]bool{}
	add := func(p *patternX) {
		k := p.Text
		if seen[k] {
			return
		}
		seen[k] = true
		pats = append(pats, p)
	}
	delims := []string{"/", "-", "."}
	lits4 := []string{"", "a", "ab", "A"}
	lits2 := []string{"", "a"}
	lits1 := []string{""}

	// A: unconstrained shapes
	for n := 2; n <= 3; n++ {
		shapes(litTokens([]string{"/"}, lits4), append(litTokens(delims, lits4), plainPars...), n, func(s []tokSpec) {
			if hasParam(s) {
				add(build(s, "A3", baseSyms, bd.A3n))
			}
		})
	}
	shapes(litTokens([]string{"/"}, lits2), append(litTokens(delims, lits2), plainPars...), 4, func(s []tokSpec) {
		if hasParam(s) {
			add(build(s, "A4", baseSyms, bd.A4n))
		}
	})
	shapes(litTokens([]string{"/"}, lits1), append(litTokens(delims, lits1), plainPars...), 5, func(s []tokSpec) {
		if hasParam(s) {
			add(build(s, "A5", baseSyms, bd.A5n))
		}
	})

	// B: one constrained parameter at every named position of every shape of <= 3 tokens
	for n := 2; n <= 3; n++ {
		shapes(litTokens([]string{"/"}, bd.BLits), append(litTokens(delims, bd.BLits), plainPars...), n, func(s []tokSpec) {
			for i := range s {
				if s[i].Kind != kNamed {
					continue
				}
				for _, cs := range consSets {
					v := append([]tokSpec(nil), s...)
					v[i].Cons = cs
					add(build(v, "B", baseSyms, bd.Bn))
				}
			}
		})
	}

	// B2: two constrained parameters, with and without a delimiter between them
	var two []tokSpec
	for _, cn := range []string{"int", "alpha", "len", "regex"} {
		two = append(two, tokSpec{Kind: kNamed, Cons: []string{cn}}, tokSpec{Kind: kNamed, Optional: true, Cons: []string{cn}})
	}
	for _, f := range litTokens([]string{"/"}, lits2) {
		for _, c1 := range two {
			for _, c2 := range two {
				add(build([]tokSpec{f, c1, c2}, "B2", baseSyms, bd.B2n))
				for _, d := range delims {
					add(build([]tokSpec{f, c1, litSpec(d), c2}, "B2", baseSyms, bd.B2n))
				}
			}
		}
	}

	// C: escaped characters next to parameters (alphabet holds ':' '*' '+')
	escLits := []tokSpec{litSpec(`\:`), litSpec(`\:a`), litSpec(`\*`), litSpec(`\+`), litSpec(`/a\:b`), litSpec(`/\:`)}
	restC := append(append([]tokSpec{litSpec("/"), litSpec("-"), litSpec("/a")}, escLits...), plainPars...)
	restC = append(restC, tokSpec{Kind: kNamed, Cons: []string{"int"}}, tokSpec{Kind: kNamed, Cons: []string{"alpha"}})
	for n := 2; n <= 3; n++ {
		shapes(litTokens([]string{"/"}, lits2), restC, n, func(s []tokSpec) {
			esc := false
			for _, t := range s {
				esc = esc || (t.Kind == kLit && strings.Contains(t.Lit, `\`))
			}
			if esc && hasParam(s) {
				add(build(s, "C", escSyms, bd.Cn))
			}
		})
	}

	// U: percent-encoded request paths (UnescapePath on and off)
	restU := append(litTokens(delims[:2], lits2), plainPars...)
	restU = append(restU, tokSpec{Kind: kNamed, Cons: []string{"alpha"}})
	for n := 2; n <= 3; n++ {
		shapes(litTokens([]string{"/"}, lits2), restU, n, func(s []tokSpec) {
			if hasParam(s) {
				// texts already explored over the base alphabet are explored again over the percent alphabet
				pats = append(pats, build(s, "U", pctSyms, bd.Un))
			}
		})
	}

	// M / ML: multi-byte UTF-8 text in request paths and in literal pattern segments (mb.go). Like U,
	// texts already explored over the base alphabet are explored again over this alphabet.
	seenM := map[string]bool{}
	generateMB(func(p *patternX) {
		if !seenM[p.Text] {
			seenM[p.Text] = true
			pats = append(pats, p)
		}
	}, bd.MLits, bd.Mn, bd.MLn)

	// R: REST-shaped patterns (rest.go); their texts differ from all others by the parameter names
	generateREST(func(p *patternX) { pats = append(pats, p) }, bd.Rn, quick)
	return pats, bd
}

// ---------------------------------------------------------------------------
// request paths

type pathSet struct {
	uris  []string // "http://h" + path
	short []int    // indexes of the paths of at most shortGeneric symbols
}

// shortGeneric: apps that dispatch through a custom context get the generic paths of at most this many
// symbols (and all pattern-derived paths)
const shortGeneric = 1

const uriPrefix = "http://h"

var genCache = map[[2]int]*pathSet{}

func genericPaths(sigma, n int) *pathSet {
	k := [2]int{sigma, n}
	if ps, ok := genCache[k]; ok {
		return ps
	}
	ps := &pathSet{}
	syms := sigmas[sigma]
	var rec func(p string, d int)
	rec = func(p string, d int) {
		if n-d <= shortGeneric {
			ps.short = append(ps.short, len(ps.uris))
		}
		ps.uris = append(ps.uris, uriPrefix+p)
		if d == 0 {
			return
		}
		for _, s := range syms {
			rec(p+s, d-1)
		}
	}
	rec("/", n)
	genCache[k] = ps
	return ps
}

// inGeneric reports whether path is "/" followed by at most n symbols of the alphabet.
func inGeneric(syms []string, n int, path string) bool {
	if path == "" || path[0] != '/' {
		return false
	}
	rest := path[1:]
	cnt := 0
	for rest != "" {
		best := ""
		for _, s := range syms {
			if len(s) > len(best) && strings.HasPrefix(rest, s) {
				best = s
			}
		}
		if best == "" {
			return false
		}
		rest = rest[len(best):]
		cnt++
		if cnt > n {
			return false
		}
	}
	return true
}

// paramMenu lists the values a parameter takes in the instantiations of its pattern; mb adds the
// multi-byte values of family M (in front, so that shortening a menu drops ASCII values first).
func paramMenu(t token, mb, rest bool) []string {
	pre := func(extra, m []string) []string {
		if !mb {
			return m
		}
		return append(append([]string(nil), extra...), m...)
	}
	if rest {
		return restMenu(t)
	}
	switch t.Kind {
	case kStar:
		return pre(mbWildMenu, []string{"", "a", "a/b", "a-b/", "*"})
	case kPlus:
		return pre(mbWildMenu, []string{"a", "a/b", "", "+", "a.b"})
	}
	if len(t.Cons) == 0 {
		return pre(mbNamedMenu, []string{"a", "A7", "a-b", "a.b", "a/b", t.Text, ""})
	}
	var m []string
	seen := map[string]bool{}
	add := func(v string) {
		if !seen[v] {
			seen[v] = true
			m = append(m, v)
		}
	}
	if mb {
		for _, v := range mbConsMenu {
			add(v)
		}
	}
	for _, c := range t.Cons {
		for _, v := range c.Menu {
			add(v)
		}
	}
	add("")
	add("a")
	add("a/b")
	add(t.Text) // the parameter's own spelling, e.g. ":p<int>"
	for _, c := range t.Cons {
		add(c.Text)
		add(removeEscapes(c.Text))
		add("<" + c.Text + ">")
	}
	return m
}

var insertSyms = []string{"/", "a", "7", "-"}

// derivedPaths: the pattern's own text (raw, unescaped, case variants, '?' percent-encoded), every
// one-symbol deletion / insertion of the unescaped text, and every instantiation of the pattern
// with values of the per-parameter menus. Paths already in the generic set are dropped.
func derivedPaths(p *patternX) []string {
	var out []string
	seen := map[string]bool{}
	syms := sigmas[p.Sigma]
	mb := isMBFamily(p.Family)
	add1 := func(s string) {
		if s == "" || s[0] != '/' || seen[s] {
			return
		}
		seen[s] = true
		if inGeneric(syms, p.GenN, s) {
			return
		}
		out = append(out, s)
	}
	add := func(s string) {
		add1(s)
		if strings.IndexByte(s, '?') >= 0 {
			add1(strings.ReplaceAll(s, "?", "%3F"))
		}
	}
	u := p.Unesc
	for _, t := range []string{p.Text, u, strings.ToUpper(u), lower(u)} {
		add(t)
		add(t + "/")
		add(t + "/a")
		add(t + "a")
	}
	for i := 0; i < len(u); i++ {
		add(u[:i] + u[i+1:])
	}
	for i := 0; i <= len(u); i++ {
		for _, s := range insertSyms {
			add(u[:i] + s + u[i:])
		}
		if mb {
			for _, s := range mbInsertSyms {
				add(u[:i] + s + u[i:])
			}
		}
	}
	// instantiations
	var menus [][]string
	total := 1
	for _, t := range p.Toks {
		if t.isParam() {
			m := paramMenu(t, mb, p.Family == "R")
			menus = append(menus, m)
			total *= len(m)
		}
	}
	for total > 4000 { // keep the product bounded: shorten the longest menu
		li := 0
		for i := range menus {
			if len(menus[i]) > len(menus[li]) {
				li = i
			}
		}
		total = total / len(menus[li]) * (len(menus[li]) - 1)
		menus[li] = menus[li][:len(menus[li])-1]
	}
	vals := make([]string, len(menus))
	var rec func(i int)
	rec = func(i int) {
		if i == len(menus) {
			add(p.fill(vals))
			return
		}
		for _, v := range menus[i] {
			vals[i] = v
			rec(i + 1)
		}
	}
	rec(0)
	return out
}

// ---------------------------------------------------------------------------
// violations with a deterministic example (smallest case key wins)

type vrec struct {
	Key   uint64 `json:"key"`
	Count int64  `json:"count"`
	What  string `json:"what"`
	Case  any    `json:"case"`
	Obs   any    `json:"observed"`
	Exp   any    `json:"expected"`
}

type vset map[string]*vrec

func (vs vset) add(sig string, key uint64, what string, mk func() (cs, o, e any)) {
	v, ok := vs[sig]
	if !ok {
		cs, o, e := mk()
		vs[sig] = &vrec{Key: key, Count: 1, What: what, Case: cs, Obs: o, Exp: e}
		return
	}
	v.Count++
	if key < v.Key {
		v.Key = key
		v.What = what
		v.Case, v.Obs, v.Exp = mk()
	}
}

func (vs vset) merge(o vset) {
	for s, v := range o {
		if w, ok := vs[s]; ok {
			w.Count += v.Count
			if v.Key < w.Key {
				w.Key, w.What, w.Case, w.Obs, w.Exp = v.Key, v.What, v.Case, v.Obs, v.Exp
			}
		} else {
			vs[s] = v
		}
	}
}

// ---------------------------------------------------------------------------
// execution of one pattern

type exec struct {
	l    *core.Local
	vs   vset
	p    *patternX
	pi   int
	use  bool
	cfg  config
	ci   int
	uri  string // current request
	idx  int    // index of the current request
	ran  bool
	cls  string
	vals []string

	hasCons bool

	custom        bool                // the app dispatches through a custom context (NewCtxFunc)
	v             variant             // how the route was registered / dispatched (forms.go)
	vi            int                 // index of the variant
	failedDefault map[string]struct{} // signature+request of the violations seen in the plain variant
	when          string              // family N: the moment of the reading (signature qualifier)
	twoRoutes     bool                // family N
	pair          *pairX
}

// customCtx is the smallest custom context an application can install with NewCtxFunc: it changes
// nothing, but its requests are dispatched by the custom-context request handler.
type customCtx struct{ fiber.DefaultCtx }

const variantShift = 28 // case keys: the variant index sits above the request index

func regName(use bool) string {
	if use {
		return "USE"
	}
	return "GET"
}

func (e *exec) key() uint64 {
	u := uint64(0)
	if e.use {
		u = 1
	}
	k := uint64(e.pi)<<40 | u<<39 | uint64(e.ci)<<36 | uint64(e.idx)
	return k | uint64(e.vi)<<variantShift
}

// pathClass tells whether the request path spells the pattern itself.
func (e *exec) pathClass(path string) string {
	u, q := e.p.Unesc, path
	if !e.cfg.CaseSensitive {
		u, q = lower(u), lower(q)
	}
	if !e.cfg.Strict {
		if len(u) > 1 {
			u = trimSlashes(u)
		}
		if len(q) > 1 {
			q = trimSlashes(q)
		}
	}
	switch {
	case q == u:
		return "pattern-text"
	case e.use && strings.HasPrefix(q, u):
		return "pattern-text-prefix"
	}
	return "other"
}

func (e *exec) caseDoc(seen string) map[string]any {
	m := map[string]any{"pattern": show(e.p.Text), "registration": regName(e.use), "config": map[string]bool{"CaseSensitive": e.cfg.CaseSensitive, "StrictRouting": e.cfg.Strict, "UnescapePath": e.cfg.Unescape},
		"request": "GET " + show(e.uri[len(uriPrefix):]), "path_seen_by_handler": show(seen), "family": e.p.Family}
	if e.custom {
		m["context"] = "custom context installed with app.NewCtxFunc"
	}
	if e.v.form != formDirect {
		m["registration"] = e.v.describe(e.p)
	}
	return m
}

func (e *exec) violate(sig, what, seen string, observed map[string]any, expected string) {
	seenC := strings.Clone(seen)
	if e.failedDefault != nil {
		// a violation the plain variant shows too is reported once, from there; what only the
		// custom-context dispatch / the other registration form shows is marked
		k := sig + "\x00" + e.uri
		if e.v.plain() {
			e.failedDefault[k] = struct{}{}
		} else {
			if _, both := e.failedDefault[k]; both {
				return
			}
			sig += e.v.suffix()
		}
	}
	mk := func() (any, any, any) { return e.caseDoc(seenC), observed, expected }
	if e.twoRoutes {
		mk = func() (any, any, any) { return e.pairDoc(seenC), observed, expected }
	}
	e.vs.add(sig, e.key(), what, mk)
}

// nextClass names what follows parameter token ti in the pattern: end, param, lit1 (a literal of
// one character), litN (a longer literal).
func (e *exec) nextClass(ti int) string {
	if ti+1 >= len(e.p.Toks) {
		return "end"
	}
	n := e.p.Toks[ti+1]
	switch {
	case n.isParam():
		return "param"
	case len(n.Lit) == 1:
		return "lit1"
	}
	return "litN"
}

func bareKind(t token) string {
	switch t.Kind {
	case kLit:
		return "literal"
	case kStar:
		return "*"
	case kPlus:
		return "+"
	}
	return "named"
}

// divergence names the token of the filled pattern in which it first differs from the request path.
func (e *exec) divergence(vals []string, path string) string {
	fold := func(s string) string {
		if !e.cfg.CaseSensitive {
			return lower(s)
		}
		return s
	}
	path = fold(path)
	pos, k := 0, 0
	prev := "start"
	for _, t := range e.p.Toks {
		part := t.Lit
		if t.isParam() {
			part = vals[k]
			k++
		}
		part = fold(part)
		if !strings.HasPrefix(path[min(pos, len(path)):], part) {
			return "diverges-at=" + bareKind(t) + " after=" + prev
		}
		pos += len(part)
		prev = bareKind(t)
		if len(t.Cons) > 0 {
			var n []string
			for _, c := range t.Cons {
				n = append(n, c.Name)
			}
			prev += "<" + strings.Join(n, ";") + ">"
		}
	}
	return "diverges-at=past-end after=" + prev
}

// judge is the oracle; it runs inside the handler.
func (e *exec) judge(c fiber.Ctx) {
	p := e.p
	e.ran = true
	path := c.Path()
	vals := e.vals[:0]
	for _, t := range p.Toks {
		if t.isParam() {
			vals = append(vals, c.Params(t.Name))
		}
	}
	e.vals = vals
	reg := regName(e.use)
	pc := ""
	pclass := func() string {
		if pc == "" {
			pc = e.pathClass(path)
		}
		return pc
	}
	obs := func() map[string]any {
		m := map[string]any{}
		k := 0
		for _, t := range p.Toks {
			if t.isParam() {
				m["Params("+t.Name+")"] = show(vals[k])
				k++
			}
		}
		m["Route().Path"] = show(c.Route().Path)
		m["pattern_filled_with_params"] = show(p.fill(vals))
		return m
	}
	// sig builds the signature: requests that spell the pattern's own text are one class per clause
	// (whatever the pattern); other requests are classified by the detail of the failing clause.
	// Paths holding non-ASCII bytes are further classified by the kind of text (mb.go textClass).
	sig := func(clause, detail string) string {
		if e.when == whenAfterNext {
			// one class per clause: whatever the later attempt left behind, the cause is the same
			return clause + " reg=" + reg + e.when
		}
		if pclass() != "other" {
			return "handler-ran-on-own-pattern-text clause=" + clause + " reg=" + reg + " path=" + pclass() + textClass(path) + e.when
		}
		return clause + " " + detail + " reg=" + reg + " path=other" + textClass(path) + e.when
	}
	// (4) Route().Path is the registered pattern
	if rp := c.Route().Path; rp != p.Text {
		e.violate(sig("route-path-differs", "shape=["+p.skeleton()+"]"), "Route().Path inside the handler is not the registered pattern", path, obs(), p.Text)
	}
	// the documented short keys: Params("*") / Params("+") name the first wildcard / plus parameter
	k := 0
	for _, t := range p.Toks {
		if !t.isParam() {
			continue
		}
		if t.Name == "*1" || t.Name == "+1" {
			if sv := c.Params(t.Name[:1]); sv != vals[k] {
				o := obs()
				o["Params("+t.Name[:1]+")"] = show(sv)
				e.violate(sig("short-key-reports-another-value", "key="+t.Name[:1]), "Params(\""+t.Name[:1]+"\") and Params(\""+t.Name+"\") report different values", path, o, "the value of "+t.Name)
			}
		}
		k++
	}
	// (2) and (3) per value
	k = 0
	empties := false
	for ti, t := range p.Toks {
		if !t.isParam() {
			continue
		}
		v := vals[k]
		k++
		if v == "" {
			empties = true
			if !t.Optional {
				e.violate(sig("required-param-empty", "param="+bareKind(t)+" next="+e.nextClass(ti)),
					"a named or '+' parameter that is not optional was reported empty", path, obs(), "non-empty value for "+t.Name)
			} else if len(t.Cons) > 0 {
				e.l.Add("unspecified_skipped", 1) // constraint on an absent optional value: the statement is silent
			}
			continue
		}
		if t.Kind == kNamed && strings.IndexByte(v, '/') >= 0 {
			e.violate(sig("named-param-spans-slash", "next="+e.nextClass(ti)),
				"a named parameter value contains '/'", path, obs(), "no '/' inside "+t.Name)
		}
		for _, cd := range t.Cons {
			switch cd.Ref(v) {
			case vInvalid:
				sg := sig("constraint-violating-value-reached-handler", "constraint="+cd.Name)
				e.violate(sg, "the handler ran although the captured value violates the declared constraint "+cd.Text, path, obs(),
					"404 (value "+strconv.QuoteToASCII(v)+" is not a valid "+cd.Text+")")
			case vUnspec:
				e.l.Add("unspecified_skipped", 1)
			default:
				e.l.Add("constraint_values_confirmed_valid", 1)
			}
		}
	}
	// (1) reconstruction
	cls := recon(p.fill(vals), path, e.cfg, e.use)
	if strings.HasPrefix(cls, "MISMATCH") {
		e.violate(sig("params-do-not-reproduce-path", "kind="+strings.TrimPrefix(cls, "MISMATCH ")+" "+e.divergence(vals, path)),
			"filling the pattern with the values reported by Params does not give the request path", path, obs(), "pattern filled with Params == "+show(path)+" (modulo configured case folding / optional trailing slashes)")
		cls = "mismatch"
		// Which request was it? When no assignment of constraint-satisfying values fills the pattern to
		// this path (under the most tolerant reading) although some assignment does, the request is one
		// "whose value violates a constraint": it had to get the not-found handling.
		if e.hasCons && p.exists(path, e.cfg, e.use, true, 0) && !p.exists(path, e.cfg, e.use, true, 1) {
			var n []string
			for _, t := range p.Toks {
				for _, cd := range t.Cons {
					n = append(n, cd.Name)
				}
			}
			e.violate(sig("constraint-violating-request-ran-handler", "constraints="+strings.Join(n, ";")),
				"the handler ran on a request path that only constraint-violating values can fill (the reported values are not the path's)", path, obs(), "404")
		}
	}
	if empties {
		cls += " empty-optional"
	}
	e.cls = cls
}

// serve sends one GET request through the app's handler; it returns the panic text when the call panicked.
func serve(fctx *fasthttp.RequestCtx, handler fasthttp.RequestHandler, uri string, first bool) (panicked string) {
	defer func() {
		if r := recover(); r != nil {
			panicked = fmt.Sprint(r)
		}
	}()
	if first {
		// the first request of an app opens the fake connection ...
		fx.CallInto(fctx, handler, fx.Req("GET", uri), nil, false)
	} else {
		// ... later ones arrive on it like keep-alive requests
		fctx.Request.Reset()
		fctx.Response.Reset()
		fctx.ResetUserValues()
		fctx.Request.SetRequestURI(uri)
		handler(fctx)
	}
	return ""
}

func unescapedView(raw string, unescape bool) (string, bool) {
	if i := strings.IndexAny(raw, "?#"); i >= 0 {
		raw = raw[:i]
	}
	if unescape && strings.IndexByte(raw, '%') >= 0 {
		return raw, false // decoding rules are fasthttp's business: not predicted here
	}
	return raw, true
}

const sampleEvery = 1009

var cfgs = func() []config {
	var out []config
	for i := 0; i < 8; i++ {
		out = append(out, config{i&1 != 0, i&2 != 0, i&4 != 0})
	}
	return out
}()

func runPattern(pi int, p *patternX, l *core.Local, vs vset, sample func(string, any)) {
	gen := genericPaths(p.Sigma, p.GenN)
	der := derivedPaths(p)
	derURIs := make([]string, len(der))
	for i, d := range der {
		derURIs[i] = uriPrefix + d
	}
	// family M: under UnescapePath every path holding non-ASCII bytes is also sent percent-encoded;
	// encViews[i] is the path before encoding: what the router must see after decoding when encPred[i]
	var encURIs, encViews []string
	var encPred []bool
	mb := isMBFamily(p.Family)
	if mb {
		addEnc := func(uri string) {
			raw := uri[len(uriPrefix):]
			if isASCII(raw) {
				return
			}
			encURIs = append(encURIs, uriPrefix+pctEncode(raw))
			encViews = append(encViews, raw)
			encPred = append(encPred, !strings.ContainsAny(raw, "%+?#"))
		}
		for _, u := range gen.uris {
			addEnc(u)
		}
		for _, u := range derURIs {
			addEnc(u)
		}
	}
	hasCons := false
	for _, t := range p.Toks {
		hasCons = hasCons || len(t.Cons) > 0
	}
	l.Add("patterns", 1)
	l.Add("patterns_family_"+p.Family, 1)
	var fctx fasthttp.RequestCtx
	for _, use := range []bool{false, true} {
		for ci, cfg := range cfgs {
			failedDefault := map[string]struct{}{}
			for vi, v := range variants(p, use) {
				custom := v.custom
				reduced := !v.plain() // the variants get the derived paths and the short generic paths
				e := &exec{l: l, vs: vs, p: p, pi: pi, use: use, cfg: cfg, ci: ci, hasCons: hasCons, custom: custom, v: v, vi: vi, failedDefault: failedDefault}
				h := func(c fiber.Ctx) error { e.judge(c); return nil }
				var handler fasthttp.RequestHandler
				func() {
					defer func() {
						if r := recover(); r != nil {
							l.Outcome("registration-panic")
							l.Add("registration_panics", 1)
							handler = nil
						}
					}()
					handler = buildVariant(v, p, cfg, use, h).Handler()
				}()
				if handler == nil {
					continue
				}
				l.Add("apps", 1)
				first := true
				nGen := len(gen.uris)
				nRaw := nGen + len(derURIs)
				nAll := nRaw
				if cfg.Unescape {
					nAll += len(encURIs)
				}
				nReq := nAll
				if reduced {
					nReq = nAll - nGen + len(gen.short)
				}
				if custom {
					l.Add("apps_custom_ctx", 1)
				}
				if v.form != formDirect {
					l.Add("apps_mounted_or_group", 1)
				}
				for ri := 0; ri < nReq; ri++ {
					idx := ri
					if reduced {
						// the short generic paths, then everything that is not generic
						if ri < len(gen.short) {
							idx = gen.short[ri]
						} else {
							idx = ri - len(gen.short) + nGen
						}
					}
					encView := ""
					switch {
					case idx < nGen:
						e.uri = gen.uris[idx]
					case idx < nRaw:
						e.uri = derURIs[idx-nGen]
					default:
						e.uri = encURIs[idx-nRaw]
						if encPred[idx-nRaw] {
							encView = encViews[idx-nRaw]
						}
					}
					e.idx = idx
					e.ran = false
					panicked := serve(&fctx, handler, e.uri, first)
					first = false
					l.Add("evaluations", 1)
					mbReq := idx >= nRaw || (mb && !isASCII(e.uri))
					if mbReq {
						l.Add("requests_with_multibyte_text", 1)
					}
					sampleNow := sample != nil && (pi*31+idx)%sampleEvery == 0 && ci == 1
					if mb { // samples of family M show multi-byte text, in the configuration that folds case
						sampleNow = sample != nil && mbReq && ci == 4 && idx%7 == 0
					}
					sampleNow = sampleNow && !reduced
					if custom {
						l.Add("evaluations_custom_ctx", 1)
					}
					if v.form != formDirect {
						l.Add("evaluations_mounted_or_group", 1)
					}
					if panicked != "" {
						// neither the handler nor the not-found handling: the request crashed the router
						// (fasthttp does not recover panics: the server process would die)
						l.Add("nontrivial", 1)
						l.Outcome("panic while routing")
						tc := textClass(e.uri[len(uriPrefix):])
						if idx >= nRaw {
							tc = textClass(encViews[idx-nRaw]) + " percent-encoded"
						}
						e.idx = idx
						e.violate("routing-panicked reg="+regName(use)+" ran-handler="+fmt.Sprint(e.ran)+tc,
							"the request made the router panic: it got neither the handler nor the not-found handling", "",
							map[string]any{"panic": panicked}, "handler (with Params that reproduce the path) or 404")
						first = true // start again on a fresh connection
						continue
					}
					status := fctx.Response.StatusCode()
					if e.ran {
						l.Add("nontrivial", 1)
						l.Add("handler_ran", 1)
						if custom {
							l.Add("handler_ran_custom_ctx", 1)
						}
						if v.form == formMountRoot || v.form == formMountSplit {
							l.Add("handler_ran_mounted", 1)
						}
						if v.form == formGroupSplit {
							l.Add("handler_ran_group", 1)
						}
						l.Outcome("ran reg=" + regName(use) + " " + e.cls)
						if status != 200 {
							l.Outcome(fmt.Sprintf("ran-but-status=%d", status))
						}
						if mbReq {
							l.Add("handler_ran_on_multibyte_text", 1)
						}
						if sampleNow {
							m := map[string]any{"pattern": show(p.Text), "reg": regName(use), "config": cfg.String(), "request": show(e.uri[len(uriPrefix):]), "class": "handler ran: " + e.cls}
							k := 0
							for _, t := range p.Toks {
								if t.isParam() {
									m["Params("+t.Name+")"] = show(e.vals[k])
									k++
								}
							}
							sample(p.Family+" ran", m)
						}
						continue
					}
					// handler did not run
					definitelyInvalid := false
					if hasCons && (idx >= nGen || status != fiber.StatusNotFound) {
						view, ok := unescapedView(e.uri[len(uriPrefix):], cfg.Unescape)
						if !ok && encView != "" {
							view, ok = encView, true // %XX of a byte >= 0x80 decodes to that byte: nothing to dispute
						}
						if !ok {
							l.Add("unspecified_skipped", 1)
						} else if p.exists(view, cfg, use, false, 0) && !p.exists(view, cfg, use, true, 1) {
							// (5) the request fills the pattern, but only with a value some constraint definitely rejects
							definitelyInvalid = true
							l.Add("nontrivial", 1)
							l.Add("invalid_value_requests", 1)
							if status != fiber.StatusNotFound {
								e.violate(fmt.Sprintf("constraint-violating-request-not-404 status=%d reg=%s shape=[%s]", status, regName(use), p.skeleton()),
									"a request whose value violates a constraint did not get the not-found handling", view,
									map[string]any{"status": status, "body": string(fctx.Response.Body())}, "404")
							}
						}
					}
					switch {
					case definitelyInvalid:
						if sampleNow {
							sample(p.Family+" rejected", map[string]any{"pattern": show(p.Text), "reg": regName(use), "config": cfg.String(), "request": show(e.uri[len(uriPrefix):]),
								"class": fmt.Sprintf("handler did not run, status %d; reference: only constraint-violating values fill the pattern", status)})
						}
						l.Outcome(fmt.Sprintf("not-run status=%d constraint-violating-request", status))
					default:
						l.Outcome(fmt.Sprintf("not-run status=%d", status))
					}
				}
			}
		}
	}
}

// newApp makes the app of one execution: the routing configuration, the custom constraints and,
// for custom, a custom context (NewCtxFunc) so that requests take the custom-context dispatch.
func newApp(cfg config, custom bool) *fiber.App {
	app := fiber.New(fiber.Config{CaseSensitive: cfg.CaseSensitive, StrictRouting: cfg.Strict, UnescapePath: cfg.Unescape})
	if custom {
		app.NewCtxFunc(func(a *fiber.App) fiber.CustomCtx {
			return &customCtx{DefaultCtx: *fiber.NewDefaultCtx(a)}
		})
	}
	app.RegisterCustomConstraint(oddConstraint{})
	app.RegisterCustomConstraint(multConstraint{})
	app.RegisterCustomConstraint(isOddConstraint{})
	app.RegisterCustomConstraint(inConstraint{})
	return app
}

func main() {
	only := flag.String("only", "", "debug: run only patterns whose text equals this")
	list := flag.Bool("list", false, "debug: print the patterns and exit")
	famFlag := flag.String("family", "", "debug: run only the patterns of these families (comma separated)")
	limitFlag := flag.Duration("limit", 0, "debug: override the internal wall-clock cap")
	r := core.Start("C02")
	pats, bd := generate(r.Quick())
	pairs := generatePairs(bd.Nn, r.Quick())
	if *only != "" {
		var f []*patternX
		for _, p := range pats {
			if p.Text == *only {
				f = append(f, p)
			}
		}
		pats = f
		pairs = nil
	}
	if *famFlag != "" {
		var f []*patternX
		for _, p := range pats {
			if strings.Contains(","+*famFlag+",", ","+p.Family+",") {
				f = append(f, p)
			}
		}
		pats = f
		if !strings.Contains(","+*famFlag+",", ",N,") {
			pairs = nil
		}
	}
	fam := map[string]int{}
	for _, p := range pats {
		fam[p.Family]++

	}
	if len(pairs) > 0 {
		fam["N (pairs)"] = len(pairs)
	}
	if *list {
		for _, p := range pats {
			fmt.Printf("%-3s n=%d sigma=%d %s\n", p.Family, p.GenN, p.Sigma, p.Text)
		}
		for _, p := range pairs {
			fmt.Printf("N   USE %s + GET %s\n", p.mw.Text, p.ep.Text)
		}
		fmt.Println(fam)
		return
	}
	nItems := len(pats) + len(pairs)
	limit := 40 * time.Minute
	if r.Quick() {
		limit = 10 * time.Minute
	}
	if *limitFlag > 0 {
		limit = *limitFlag
	}
	if r.IsWorker() {
		// One single-threaded process per shard: what Params reports after a failed match attempt
		// depends on the pooled context (ctx.values survives from the previous request), so the
		// sync.Pool must hand back the same context every time (GOMAXPROCS=1).
		debug.SetGCPercent(400)
		deadline := r.Start.Add(limit)
		l := core.NewLocal()
		vs := vset{}
		var sample func(string, any)
		if r.Worker == 0 { // only one worker samples: one case per family and kind, in exploration order
			want := map[string]bool{"A3 ran": true, "A5 ran": true, "B ran": true, "B rejected": true, "C ran": true, "U ran": true, "M ran": true, "M rejected": true, "ML ran": true, "R ran": true, "N ran": true, "N after": true}
			sample = func(k string, v any) {
				if want[k] {
					want[k] = false
					r.P.Samples = append(r.P.Samples, v)
				}
			}
		}
		for i := 0; i < nItems; i++ {
			if !r.Shard(i) {
				continue
			}
			if time.Now().After(deadline) || r.Expired() {
				r.Cap("wall-clock limit reached before all patterns were explored")
				l.Add("patterns_skipped_by_cap", 1)
				continue
			}
			if i < len(pats) {
				runPattern(i, pats[i], l, vs, sample)
			} else {
				runPair(i, pairs[i-len(pats)], l, vs, sample)
			}
		}
		r.Merge(l.P)
		b, err := json.Marshal(vs)
		if err == nil {
			err = os.WriteFile(r.Out+".viol", b, 0o644)
		}
		if err != nil {
			core.Fatal("worker %d: cannot write violations: %v", r.Worker, err)
		}
		r.FinishWorker()
	}
	nw := runtime.NumCPU()
	if nw > 16 {
		nw = 16
	}
	if nw > nItems {
		nw = nItems
	}
	var extra []string
	if *only != "" {
		extra = append(extra, "-only", *only)
	}
	if *limitFlag > 0 {
		extra = append(extra, "-limit", limitFlag.String())
	}
	if *famFlag != "" {
		extra = append(extra, "-family", *famFlag)
	}
	partDir := r.PartsDir()
	for i := 0; i < nw; i++ {
		_ = os.Remove(filepath.Join(partDir, fmt.Sprintf("part%d.json.viol", i)))
	}
	if crashed := r.SpawnWorkers(nw, []string{"GOMAXPROCS=1"}, extra...); len(crashed) > 0 {
		core.Fatal("workers crashed: %v", crashed)
	}
	// violations: merged here (not by core) so that the example kept per signature is the smallest case
	all := vset{}
	for i := 0; i < nw; i++ {
		f := filepath.Join(partDir, fmt.Sprintf("part%d.json.viol", i))
		b, err := os.ReadFile(f)
		if err != nil {
			core.Fatal("missing violation file of worker %d: %v", i, err)
		}
		vs := vset{}
		if err := json.Unmarshal(b, &vs); err != nil {
			core.Fatal("bad violation file of worker %d: %v", i, err)
		}
		all.merge(vs)
		_ = os.Remove(f)
	}
	// a violation seen in the endpoint of a two-route app that single-route apps report too is the same finding
	for s, v := range all {
		if stem, ok := strings.CutSuffix(s, whenAfterAttempt); ok {
			if w, both := all[stem]; both {
				w.Count += v.Count
				delete(all, s)
			}
		}
	}
	sigs := make([]string, 0, len(all))
	for s := range all {
		sigs = append(sigs, s)
	}
	sort.Strings(sigs)
	for _, s := range sigs {
		v := all[s]
		r.Violate(s, v.What, v.Case, v.Obs, v.Exp)
		r.P.Violations[s].Count = v.Count
	}
	if r.Replay == "" && *only == "" && *famFlag == "" {
		runConcurrentMatcher(r) // two requests in flight on routes with yielding custom constraints (small; this process)
	}
	famKeys := make([]string, 0, len(fam))
	for k := range fam {
		famKeys = append(famKeys, k)
	}
	sort.Strings(famKeys)
	famDoc := map[string]any{}
	for _, k := range famKeys {
		famDoc[k] = fam[k]
	}
	var consNames []string
	for _, cs := range consSets {
		var t []string
		for _, n := range cs {
			t = append(t, consByName(n).Text)
		}
		consNames = append(consNames, "<"+strings.Join(t, ";")+">")
	}
	ev := core.Evidence{
		Level:      "exploration",
		Exhaustive: true,
		Coverage: map[string]any{
			"evaluations":                   r.P.Counters["evaluations"],
			"distinct_nontrivial":           r.P.Counters["nontrivial"],
			"unspecified_skipped":           r.P.Counters["unspecified_skipped"],
			"requests_with_multibyte_text":  r.P.Counters["requests_with_multibyte_text"],
			"handler_ran_on_multibyte_text": r.P.Counters["handler_ran_on_multibyte_text"],
			"evaluations_custom_ctx":        r.P.Counters["evaluations_custom_ctx"],
			"handler_ran_custom_ctx":        r.P.Counters["handler_ran_custom_ctx"],
			"evaluations_two_routes":        r.P.Counters["evaluations_two_routes"],
			"evaluations_mounted_or_group":  r.P.Counters["evaluations_mounted_or_group"],
			"handler_ran_mounted":           r.P.Counters["handler_ran_mounted"],
			"handler_ran_group":             r.P.Counters["handler_ran_group"],
			"after_next_judged":             r.P.Counters["after_next_judged"],
			"rule":                          "one evaluation = one GET request to a fresh single-route app: every pattern of the token grammar (families A3/A4/A5 unconstrained shapes, B one constrained parameter at every named position, B2 two constrained parameters, C escaped characters, U percent-encoded alphabet, M the ASCII shapes of U plus <int>/<alpha> over an alphabet of multi-byte UTF-8 text, ML the same shapes with a multi-byte literal segment in the pattern, R REST shapes: two parameters (constrained, unconstrained, optional, greedy) around a literal segment such as /a/ or -a-, parameter names of several characters that are prefixes of each other) x registration {app.Get, app.Use} x 8 configs {CaseSensitive,StrictRouting,UnescapePath} x every request path of the family alphabet ('/' followed by <= n symbols) plus the pattern-derived paths (own text raw/unescaped/upper/lower/'?'->%3F, every one-character deletion and one-symbol insertion of it, every instantiation of the pattern with per-parameter value menus incl. valid/invalid/unspecified constraint exemplars and the parameter's own spelling). Families M/ML: the alphabet, the inserted symbols and the value menus hold one representative of every class of byte-level hazard (2-byte letters with a same-length case partner, letters whose case mapping changes the encoded length in either direction, 3- and 4-byte code points without case, bytes that are not UTF-8), sent raw and, under UnescapePath, also percent-encoded. Constraint spellings include capital letters (custom constraint name, custom constraint argument, regex class, datetime layout) and three constraints on one parameter. Every app of the families other than M/ML is built a second time with a custom context (app.NewCtxFunc: custom-context dispatch) and receives the pattern-derived paths and the generic paths of at most 1 symbol; what only that dispatch shows is marked ctx=custom-only. The app.Get executions of families A3, B (2-token shapes, all constraint lists), B2, C and R are repeated, on the same reduced path set, with the route registered through a sub-app mounted at '/', through a sub-app mounted under every prefix of the pattern that ends before a '/' token (the sub-app registers the rest and owns the custom constraints; mount prefixes with parameters included) and through app.Group(prefix).Get(rest); what only such a registration shows is marked registered-by=mounted-sub-app-only / group-only. The documented short keys Params('*')/Params('+') are read next to *1/+1 on every handler run. Family N: two-route apps, app.Use(parameterised pattern) whose handler reads its parameters, calls c.Next() and reads them again, followed by app.Get(another parameterised pattern), every middleware pattern x every endpoint pattern of the family x 8 configs x (generic paths + the derived paths of both patterns); the endpoint's handler is judged after the attempt of the middleware's pattern on the same request, the middleware's second reading is judged when no later route matched (c.Route() unchanged) and counted unspecified otherwise. All (app, config, context kind, path) tuples are distinct by construction. A case is non-trivial when the handler ran (the in-handler oracle was evaluated) or when the reference classified the request as carrying only constraint-violating values (404 clause evaluated); both are counted in the loop.",
			"bounds": map[string]any{
				"tier":                 r.Tier,
				"patterns":             len(pats),
				"patterns_per_family":  famDoc,
				"max_tokens":           map[string]int{"A3": 3, "A4": 4, "A5": 5, "B": 3, "B2": 4, "C": 3, "U": 3, "M": 3, "ML": 3, "R": 5, "N": 3},
				"generic_path_symbols": map[string]int{"A3": bd.A3n, "A4": bd.A4n, "A5": bd.A5n, "B": bd.Bn, "B2": bd.B2n, "C": bd.Cn, "U": bd.Un, "M": bd.Mn, "ML": bd.MLn, "R": bd.Rn, "N": bd.Nn},
				"context_kinds":        "default context; custom context (NewCtxFunc) for all families but M/ML on the derived paths and generic paths of <= 1 symbol",
				"registration_forms":   "app.Get, app.Use; for families A3, B (2 tokens), B2, C, R also: sub-app mounted at '/', sub-app mounted under a prefix of the pattern, app.Group(prefix).Get(rest), on the derived paths and generic paths of <= 1 symbol",
				"two_route_apps":       map[string]int{"pairs": len(pairs)},
				"alphabets":            map[string]any{"rest_family": restSyms, "base": baseSyms, "escape_family": escSyms, "percent_family": pctSyms, "multibyte_families": showAll(mbSyms), "multibyte_pattern_literals": showAll(bd.MLits), "constraint_extra_symbols": "bool:true guid:valid+truncated min/range:3 datetime:2024-02-29,2023-02-29"},
				"literals":             map[string]any{"A3": []string{"", "a", "ab", "A"}, "A4": []string{"", "a"}, "A5": []string{""}, "B": bd.BLits},
				"constraints":          consNames,
				"excluded_adjacency":   "named parameter directly followed by '*'/'+', and '+' directly followed by a parameter (reading not fixed by the docs)",
				"methods":              "GET requests only",
			},
		},
		Assumptions: []string{
			"a middleware that reads Params after c.Next() returned is still 'a handler that runs'; when no later route matched, c.Route() still names its own route and the values must still be the ones its pattern cuts out of the path; when a later route matched, Route()/Params speak about that route (documented) and the reading is not judged",
			"custom constraints are registered on the app that declares the route (the sub-app, when the route is registered through a mounted sub-app)",
			"the meaning of a constraint does not depend on CaseSensitive: a custom constraint name, a regular expression, a datetime layout and constraint arguments keep the letters the application wrote",
			"handler-level drive: app.Handler() on a fake connection (fx.CallInto for the first request of each app, later requests reuse that RequestCtx like keep-alive requests); 16 single-threaded worker processes (GOMAXPROCS=1) so that the pooled fiber context, whose parameter values survive failed match attempts, is the same object for every request of an app",
			"the request path is what the handler sees through Path() (PathOriginal, percent-decoded when UnescapePath); fasthttp's URI splitting/decoding is not re-checked",
			"case folding: the statement does not say which letters fold; the reconstruction clause accepts the most tolerant reading (simple Unicode case folding, rune by rune; bytes that are not UTF-8 stand for themselves), the 404 clause demands only what the ASCII reading and the Unicode reading agree on",
			"a request that makes the router panic is reported as a violation (it got neither the handler nor the not-found handling)",
			"the harness reads patterns by its own token list (never fiber's parser); per-constraint references are three-valued and written from docs/guide/routing.md; custom constraints are specified by their own Execute",
			"patterns without parameters are not judged (the statement speaks about parameterised patterns)",
			"trailing-slash tolerance: always when StrictRouting is off; under StrictRouting only slashes spelled by the pattern and absent from the request",
		},
		MinOutcomes: 4,
	}
	if r.P.Counters["handler_ran"] == 0 || (*only == "" && *famFlag == "" && (r.P.Counters["invalid_value_requests"] == 0 || r.P.Counters["handler_ran_on_multibyte_text"] == 0 ||
		r.P.Counters["handler_ran_custom_ctx"] == 0 || r.P.Counters["handler_ran_mounted"] == 0 || r.P.Counters["handler_ran_group"] == 0 || r.P.Counters["after_next_judged"] == 0 || r.P.Counters["endpoint_ran_after_failed_attempt_of_middleware_pattern"] == 0)) {
		core.Fatal("vacuous: handler_ran=%d invalid_value_requests=%d handler_ran_on_multibyte_text=%d handler_ran_custom_ctx=%d after_next_judged=%d endpoint_ran_after_failed_attempt_of_middleware_pattern=%d", r.P.Counters["handler_ran"], r.P.Counters["invalid_value_requests"], r.P.Counters["handler_ran_on_multibyte_text"],
			r.P.Counters["handler_ran_custom_ctx"], r.P.Counters["after_next_judged"], r.P.Counters["endpoint_ran_after_failed_attempt_of_middleware_pattern"])
	}
	r.Finish(ev)
}
