package main

// Variants of one (pattern, registration, configuration) execution. The first variant is the plain
// one (app.Get / app.Use on the app itself, default context, all request paths); the others build
// the same route another way and receive the pattern-derived paths and the short generic paths:
//
//	custom context   the app installs a context with NewCtxFunc: requests take the custom-context dispatch
//	mounted at "/"   a sub-app registers the route (and the custom constraints); the app mounts it at "/"
//	mounted, split   the pattern is cut at a token boundary: the app mounts the sub-app under the first
//	                 part, the sub-app registers the rest (the mount prefix may hold parameters)
//	group, split     the same cut, app.Group(first part).Get(rest)
//
// A mounted route is parsed a second time by the parent app (router.go addPrefixToRoute) when the
// app starts; the custom constraints live on the app that declares the route — the sub-app.
// What only a variant shows is marked "<variant>-only" in the signature.

import (
	"strings"

	"github.com/gofiber/fiber/v3"
)

type variant struct {
	custom bool
	form   int
	cut    int // token index where the pattern is cut (forms with a cut)
}

const (
	formDirect = iota
	formMountRoot
	formMountSplit
	formGroupSplit
)

func (v variant) plain() bool { return !v.custom && v.form == formDirect }

func (v variant) suffix() string {
	switch {
	case v.custom:
		return " ctx=custom-only"
	case v.form == formMountRoot || v.form == formMountSplit:
		return " registered-by=mounted-sub-app-only"
	case v.form == formGroupSplit:
		return " registered-by=group-only"
	}
	return ""
}

func (v variant) describe(p *patternX) string {
	pre, rest := p.cutAt(v.cut)
	switch v.form {
	case formMountRoot:
		return "sub := fiber.New(cfg); sub.RegisterCustomConstraint(...); sub.Get(" + show(p.Text) + ", h); app.Use(\"/\", sub)"
	case formMountSplit:
		return "sub := fiber.New(cfg); sub.RegisterCustomConstraint(...); sub.Get(" + show(rest) + ", h); app.Use(" + show(pre) + ", sub)"
	case formGroupSplit:
		return "app.Group(" + show(pre) + ").Get(" + show(rest) + ", h)"
	}
	return ""
}

func (p *patternX) cutAt(k int) (string, string) {
	var a, b strings.Builder
	for i, t := range p.Toks {
		if i < k {
			a.WriteString(t.Text)
		} else {
			b.WriteString(t.Text)
		}
	}
	return a.String(), b.String()
}

// formsFamily: the families whose patterns are also registered through sub-apps and groups.
func formsFamily(p *patternX) bool {
	switch p.Family {
	case "A3", "B2", "C", "R":
		return true
	case "B":
		return len(p.Toks) == 2
	}
	return false
}

// variants lists the executions of one pattern under one registration kind.
func variants(p *patternX, use bool) []variant {
	vs := []variant{{}}
	if isMBFamily(p.Family) {
		// the byte-level normalisation of the path is shared by all dispatchers and registration forms
		return vs
	}
	vs = append(vs, variant{custom: true})
	if use || !formsFamily(p) {
		return vs
	}
	vs = append(vs, variant{form: formMountRoot})
	for k := 1; k < len(p.Toks); k++ {
		pre, rest := p.cutAt(k)
		// the joined text must be the pattern's own text: the rest starts a new segment, the prefix
		// does not end one (getGroupPath trims the prefix's trailing slashes)
		if rest == "" || rest[0] != '/' || pre == "" || pre[len(pre)-1] == '/' || pre[len(pre)-1] == '\\' {
			continue
		}
		vs = append(vs, variant{form: formMountSplit, cut: k}, variant{form: formGroupSplit, cut: k})
	}
	return vs
}

// bareApp: an app with the routing configuration only (the parent of a mounted sub-app).
func bareApp(cfg config) *fiber.App {
	return fiber.New(fiber.Config{CaseSensitive: cfg.CaseSensitive, StrictRouting: cfg.Strict, UnescapePath: cfg.Unescape})
}

// buildVariant registers the route as the variant says and returns the app that serves requests.
func buildVariant(v variant, p *patternX, cfg config, use bool, h fiber.Handler) *fiber.App {
	switch v.form {
	case formMountRoot, formMountSplit:
		pre, rest := "/", p.Text
		if v.form == formMountSplit {
			pre, rest = p.cutAt(v.cut)
		}
		sub := newApp(cfg, false)
		sub.Get(rest, h)
		app := bareApp(cfg)
		app.Use(pre, sub)
		return app
	case formGroupSplit:
		pre, rest := p.cutAt(v.cut)
		app := newApp(cfg, false)
		app.Group(pre).Get(rest, h)
		return app
	}
	app := newApp(cfg, v.custom)
	if use {
		app.Use(p.Text, h)
	} else {
		app.Get(p.Text, h)
	}
	return app
}
