package main

// Family M: request paths and literal pattern segments that contain multi-byte UTF-8 text.
//
// The router works on bytes: it compares and measures a normalised view of the path (case folded,
// trailing slashes trimmed, percent-decoded) and cuts the reported values out of the path the
// handler sees. Every step that normalises bytes is a place where the two views can get out of
// step, and ASCII-only alphabets never show it. The alphabet below holds one representative of
// every class of byte-level hazard:
//
//	U+00E4 / U+00C4  2-byte letters that are each other's case partner (same encoded length)
//	U+212A, U+0130   letters whose lower case is SHORTER (3 -> 1 byte 'k', 2 -> 1 byte 'i')
//	U+1E9E           3 -> 2 bytes
//	U+023A / U+2C65  lower case LONGER than upper case (2 -> 3 bytes)
//	U+20AC, U+1F600  3- and 4-byte code points without case
//	0xFF, 0xA4       bytes that are not UTF-8 at all (an impossible byte, a lone continuation byte);
//	                 text functions replace them by U+FFFD (1 -> 3 bytes)
//
// They occur as parameter values, inside literal segments of the pattern, before and inside
// parameters, raw in the request line and (UnescapePath on) percent-encoded.

import (
	"strings"
	"unicode"
	"unicode/utf8"
)

const (
	mbAuml   = "\u00e4"     // a with diaeresis, small
	mbAUML   = "\u00c4"     // a with diaeresis, capital
	mbKelvin = "\u212a"     // KELVIN SIGN; lower case is ASCII 'k' (3 -> 1 byte)
	mbIdot   = "\u0130"     // capital I with dot above; lower case is ASCII 'i' (2 -> 1 byte)
	mbSharpS = "\u1e9e"     // capital sharp s; lower case U+00DF (3 -> 2 bytes)
	mbAbar   = "\u023a"     // capital A with stroke; lower case U+2C65 (2 -> 3 bytes)
	mbabar   = "\u2c65"     // small a with stroke; upper case U+023A (3 -> 2 bytes)
	mbEuro   = "\u20ac"     // euro sign: 3 bytes, no case
	mbEmoji  = "\U0001f600" // 4 bytes, no case
	mbFF     = "\xff"       // a byte that never occurs in UTF-8
	mbCont   = "\xa4"       // a continuation byte without a lead byte
)

var (
	// generic alphabet of the family
	mbSyms = []string{"/", "-", "a", "A", "7", mbAuml, mbAUML, mbKelvin, mbIdot, mbSharpS, mbAbar, mbabar, mbEuro, mbEmoji, mbFF, mbCont}
	// texts used as literal pattern segments (quick tier: the first five)
	mbLits = []string{mbAuml, mbAUML, mbKelvin, mbAbar, mbFF, mbSharpS, mbEuro, mbEmoji}
	// extra one-symbol insertions into the pattern text
	mbInsertSyms = []string{mbAuml, mbKelvin, mbAbar, mbFF}
	// values added to the instantiation menus of the family
	mbNamedMenu = []string{mbAuml, mbAUML + "7", mbKelvin + "7", "a" + mbKelvin, mbIdot, mbSharpS, mbAbar + "a", mbEuro, mbEmoji, mbFF, "a" + mbCont}
	mbWildMenu  = []string{mbAuml + "/b", mbKelvin + "/a", "a/" + mbKelvin, mbAbar, mbFF + "/" + mbEuro}
	mbConsMenu  = []string{mbAuml, mbKelvin, "7" + mbKelvin, mbAbar + "7", mbFF}
)

// generateMB appends the patterns of family M. ML (multi-byte literal in the pattern) patterns get
// the smaller generic path set (their instantiations and text edits carry the weight).
func generateMB(add func(*patternX), lits []string, mn, mln int) {
	cons := []tokSpec{{Kind: kNamed, Cons: []string{"int"}}, {Kind: kNamed, Cons: []string{"alpha"}}}
	// (i) ASCII patterns over the multi-byte path alphabet
	lits2 := []string{"", "a"}
	rest := append(litTokens([]string{"/", "-"}, lits2), plainPars...)
	rest = append(rest, cons...)
	for n := 2; n <= 3; n++ {
		shapes(litTokens([]string{"/"}, lits2), rest, n, func(s []tokSpec) {
			if hasParam(s) {
				add(build(s, "M", mbSyms, mn))
			}
		})
	}
	// (ii) patterns with a multi-byte literal: as a segment of its own, glued to a delimiter, and as
	// the only thing between two parameters
	for _, x := range lits {
		pars := append(append([]tokSpec(nil), plainPars...), cons[0])
		emit := func(s []tokSpec) {
			mb := false
			for i, t := range s {
				mb = mb || (t.Kind == kLit && !isASCII(t.Lit))
				// a required named parameter ends at a delimiter character only: text glued to it
				// would be part of its name (":pX" declares a parameter called "pX")
				if i > 0 && t.Kind == kLit && t.Lit == x && s[i-1].Kind == kNamed && !s[i-1].Optional {
					return
				}
			}
			if mb && hasParam(s) {
				add(build(s, "ML", mbSyms, mln))
			}
		}
		// the pattern starts with the literal: "/X" + one or two more tokens
		lx := []tokSpec{litSpec("/"), litSpec("/" + x), litSpec(x), litSpec("-" + x)}
		for n := 2; n <= 3; n++ {
			shapes([]tokSpec{litSpec("/" + x)}, append(append([]tokSpec(nil), lx...), pars...), n, emit)
		}
		// the literal follows a parameter: "/" P L, and "/" P L P with L = "/X", "X", "-X", "/X/"
		for _, p1 := range pars {
			for _, l := range append(lx[1:], litSpec("/"+x+"/")) {
				if !adjOK(p1, l) {
					continue
				}
				emit([]tokSpec{litSpec("/"), p1, l})
				for _, p2 := range pars {
					emit([]tokSpec{litSpec("/"), p1, l, p2})
				}
			}
		}
	}
}

func isMBFamily(f string) bool { return f == "M" || f == "ML" }

// pctEncode spells every byte >= 0x80 as %XX.
func pctEncode(s string) string {
	if isASCII(s) {
		return s
	}
	const hex = "0123456789ABCDEF"
	var b strings.Builder
	for i := 0; i < len(s); i++ {
		c := s[i]
		if c >= 0x80 {
			b.WriteByte('%')
			b.WriteByte(hex[c>>4])
			b.WriteByte(hex[c&15])
		} else {
			b.WriteByte(c)
		}
	}
	return b.String()
}

// show renders a string for evidence files: ASCII as it is, anything else Go-quoted in ASCII
// (JSON would silently replace invalid bytes).
func show(s string) string {
	if isASCII(s) {
		return strings.Clone(s) // values reported by fiber alias the request buffer
	}
	q := []byte{'"'}
	for i := 0; i < len(s); {
		r, w := utf8.DecodeRuneInString(s[i:])
		switch {
		case r == utf8.RuneError && w == 1:
			q = append(q, '\\', 'x', "0123456789abcdef"[s[i]>>4], "0123456789abcdef"[s[i]&15])
		case r < 0x80:
			if r == '"' || r == '\\' {
				q = append(q, '\\')
			}
			q = append(q, byte(r))
		case r < 0x10000:
			q = append(q, '\\', 'u')
			for sh := 12; sh >= 0; sh -= 4 {
				q = append(q, "0123456789abcdef"[(r>>uint(sh))&15])
			}
		default:
			q = append(q, '\\', 'U')
			for sh := 28; sh >= 0; sh -= 4 {
				q = append(q, "0123456789abcdef"[(r>>uint(sh))&15])
			}
		}
		i += w
	}
	return string(append(q, '"'))
}

func showAll(v []string) []string {
	out := make([]string, len(v))
	for i, s := range v {
		out[i] = show(s)
	}
	return out
}

// textClass names the kind of non-ASCII text a request path holds (for signatures). When several
// kinds occur the most hazardous one names the path.
func textClass(path string) string {
	if isASCII(path) {
		return ""
	}
	changes, invalid, cased := false, false, false
	for i := 0; i < len(path); {
		r, w := utf8.DecodeRuneInString(path[i:])
		i += w
		switch {
		case r == utf8.RuneError && w == 1:
			invalid = true
		case r >= 0x80:
			lo, up := unicode.ToLower(r), unicode.ToUpper(r)
			if lo != r || up != r {
				cased = true
			}
			if utf8.RuneLen(lo) != w || utf8.RuneLen(up) != w {
				changes = true
			}
		}
	}
	switch {
	case changes:
		return " path-text=utf8-letter-whose-case-mapping-changes-byte-length"
	case invalid:
		return " path-text=invalid-utf8-byte"
	case cased:
		return " path-text=utf8-letter-with-same-length-case-partner"
	}
	return " path-text=utf8-caseless"
}

// ---------------------------------------------------------------------------
// case folding on the reference side
//
// The statement says "modulo configured case folding" and does not say which letters fold. The
// implementation folds ASCII only; the reference must not demand that, nor forbid a Unicode-aware
// folding. canon maps a rune to the smallest member of its simple-case-folding orbit (K, k and
// U+212A are one orbit), so any folding an implementation could reasonably configure identifies at
// most what foldU identifies. Bytes that are not UTF-8 stand for themselves.

func canon(r rune) rune {
	if r < 0x80 {
		if r >= 'A' && r <= 'Z' {
			return r + 'a' - 'A'
		}
		return r
	}
	m := r
	for f := unicode.SimpleFold(r); f != r; f = unicode.SimpleFold(f) {
		if f < m {
			m = f
		}
	}
	if m >= 'A' && m <= 'Z' {
		m += 'a' - 'A'
	}
	return m
}

// foldU is the most tolerant folding: lower() for ASCII strings, canon rune by rune otherwise.
func foldU(s string) string {
	if isASCII(s) {
		return lower(s)
	}
	b := make([]byte, 0, len(s)+4)
	for i := 0; i < len(s); {
		r, w := utf8.DecodeRuneInString(s[i:])
		if r == utf8.RuneError && w == 1 {
			b = append(b, s[i])
		} else {
			b = utf8.AppendRune(b, canon(r))
		}
		i += w
	}
	return string(b)
}

// equalLowerASCII: a and b (same length) are equal once ASCII capitals are lower-cased.
func equalLowerASCII(a, b string) bool {
	for i := 0; i < len(a); i++ {
		x, y := a[i], b[i]
		if x >= 'A' && x <= 'Z' {
			x += 'a' - 'A'
		}
		if y >= 'A' && y <= 'Z' {
			y += 'a' - 'A'
		}
		if x != y {
			return false
		}
	}
	return true
}

// matchLit reports how many bytes of s the literal lit consumes when s starts with it, -1 when it
// does not. fold 0: byte for byte; 1: ASCII letters fold; 2: foldU (the consumed length may then
// differ from len(lit)).
func matchLit(s, lit string, fold int) int {
	switch fold {
	case 0:
		if strings.HasPrefix(s, lit) {
			return len(lit)
		}
		return -1
	case 1:
		if len(s) >= len(lit) && equalLowerASCII(s[:len(lit)], lit) {
			return len(lit)
		}
		return -1
	}
	if isASCII(lit) && len(s) >= len(lit) && isASCII(s[:len(lit)]) {
		if equalLowerASCII(s[:len(lit)], lit) {
			return len(lit)
		}
		return -1
	}
	i, j := 0, 0
	for j < len(lit) {
		if i >= len(s) {
			return -1
		}
		r1, w1 := utf8.DecodeRuneInString(s[i:])
		r2, w2 := utf8.DecodeRuneInString(lit[j:])
		bad1, bad2 := r1 == utf8.RuneError && w1 == 1, r2 == utf8.RuneError && w2 == 1
		switch {
		case bad1 || bad2:
			if !(bad1 && bad2) || s[i] != lit[j] {
				return -1
			}
		case canon(r1) != canon(r2):
			return -1
		}
		i += w1
		j += w2
	}
	return i
}
