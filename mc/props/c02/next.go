package main

// Family N: apps with TWO routes — a middleware under a parameterised pattern that reads its
// parameters, calls c.Next() and reads them AGAIN, followed by an endpoint under another
// parameterised pattern.
//
// The captured values live in one array of the pooled context. Every match attempt of a request
// writes into it, also the attempts that fail half-way (a later literal or a constraint refuses).
// Single-route apps can only show what an attempt of an EARLIER request left behind; here
//
//   - the endpoint's handler runs after an attempt of the middleware's pattern on the same request
//     (matched or failed), and
//   - the middleware's handler is still running when the endpoint's pattern is tried: when no later
//     route matched, the route it runs under is still its own (c.Route() did not change) and the
//     values Params reports must still be the ones its pattern cuts out of the path.
//
// When a later route matched, c.Route() names that route afterwards (documented: "the last executed
// route"), the statement is silent about what Params means for the middleware then: not judged.

import (
	"fmt"
	"strings"

	"github.com/gofiber/fiber/v3"
	"github.com/valyala/fasthttp"

	"verifmc/core"
)

type pairX struct {
	mw, ep *patternX // middleware pattern (app.Use), endpoint pattern (app.Get)
}

const (
	whenAfterNext = " when=after-c.Next()-found-no-later-route"
	// qualifier of the endpoint's violations; folded away at the end of the run when single-route apps
	// reported the same signature without it
	whenAfterAttempt = " app=middleware+endpoint"
)

// generatePairs: middleware patterns x endpoint patterns. Endpoint patterns: every shape of <= 3
// tokens over {"/", "-", "/a"} and the parameters {:s :s? * + :s<int> :s<alpha> :s<int>?}; middleware
// patterns: the shapes of 2 tokens and those of 3 tokens that start with "/" and hold no letter.
func generatePairs(genN int, quick bool) []*pairX {
	con := func(opt bool, cs ...string) tokSpec { return tokSpec{Kind: kNamed, Optional: opt, Cons: cs} }
	pars := append(append([]tokSpec(nil), plainPars...), con(false, "int"), con(false, "alpha"), con(true, "int"))
	lits := []tokSpec{litSpec("/"), litSpec("-"), litSpec("/a")}
	firsts := []tokSpec{litSpec("/"), litSpec("/a")}
	var eps, mws []*patternX
	seenE, seenM := map[string]bool{}, map[string]bool{}
	for n := 2; n <= 3; n++ {
		shapes(firsts, append(append([]tokSpec(nil), lits...), pars...), n, func(s []tokSpec) {
			if !hasParam(s) {
				return
			}
			p := buildNamed(s, "N", baseSyms, genN, lateNames)
			if !seenE[p.Text] {
				seenE[p.Text] = true
				eps = append(eps, p)
			}
		})
	}
	mwRest := append([]tokSpec{litSpec("/"), litSpec("-")}, pars[:5]...)
	if !quick {
		mwRest = append(mwRest, pars[5:]...)
	}
	for n := 2; n <= 3; n++ {
		f := firsts
		if n == 3 {
			f = firsts[:1]
		}
		shapes(f, mwRest, n, func(s []tokSpec) {
			if !hasParam(s) {
				return
			}
			p := buildNamed(s, "N", baseSyms, genN, letterNames)
			if !seenM[p.Text] {
				seenM[p.Text] = true
				mws = append(mws, p)
			}
		})
	}
	var out []*pairX
	for _, m := range mws {
		for _, e := range eps {
			out = append(out, &pairX{mw: m, ep: e})
		}
	}
	return out
}

func (e *exec) pairDoc(seen string) map[string]any {
	m := e.caseDoc(seen)
	delete(m, "pattern")
	delete(m, "registration")
	m["app"] = []string{"app.Use(" + show(e.pair.mw.Text) + ", reads Params, calls c.Next(), reads Params again)", "app.Get(" + show(e.pair.ep.Text) + ", reads Params)"}
	m["judged_handler"] = regName(e.use) + " " + show(e.p.Text)
	return m
}

var derCache = map[*patternX][]string{}

func derivedCached(p *patternX) []string {
	if d, ok := derCache[p]; ok {
		return d
	}
	d := derivedPaths(p)
	derCache[p] = d
	return d
}

// runPair explores one (middleware, endpoint) pair under the 8 configurations.
func runPair(pi int, pr *pairX, l *core.Local, vs vset, sample func(string, any)) {
	gen := genericPaths(pr.mw.Sigma, pr.mw.GenN)
	var uris []string
	seen := map[string]bool{}
	for _, u := range gen.uris {
		seen[u] = true
		uris = append(uris, u)
	}
	for _, d := range [][]string{derivedCached(pr.mw), derivedCached(pr.ep)} {
		for _, s := range d {
			if u := uriPrefix + s; !seen[u] {
				seen[u] = true
				uris = append(uris, u)
			}
		}
	}
	hasCons := func(p *patternX) bool {
		for _, t := range p.Toks {
			if len(t.Cons) > 0 {
				return true
			}
		}
		return false
	}
	l.Add("pairs_family_N", 1)
	var fctx fasthttp.RequestCtx
	for ci, cfg := range cfgs {
		em := &exec{l: l, vs: vs, p: pr.mw, pi: pi, use: true, cfg: cfg, ci: ci, hasCons: hasCons(pr.mw), twoRoutes: true, pair: pr}
		ee := &exec{l: l, vs: vs, p: pr.ep, pi: pi, use: false, cfg: cfg, ci: ci, hasCons: hasCons(pr.ep), twoRoutes: true, pair: pr, when: whenAfterAttempt}
		after := ""
		app := newApp(cfg, false)
		var handler fasthttp.RequestHandler
		func() {
			defer func() {
				if r := recover(); r != nil {
					l.Outcome("registration-panic")
					l.Add("registration_panics", 1)
					handler = nil
				}
			}()
			app.Use(pr.mw.Text, func(c fiber.Ctx) error {
				em.when = ""
				em.judge(c)
				before := em.cls
				own := c.Route()
				err := c.Next()
				if c.Route() != own {
					// a later route matched: Route() and Params now speak about that route
					after = "later-route-matched"
					l.Add("unspecified_skipped", 1)
					return err
				}
				after = "read-again"
				l.Add("after_next_judged", 1)
				em.when = whenAfterNext
				em.judge(c)
				em.when = ""
				em.cls = before
				return err
			})
			app.Get(pr.ep.Text, func(c fiber.Ctx) error { ee.judge(c); return nil })
			handler = app.Handler()
		}()
		if handler == nil {
			continue
		}
		l.Add("apps", 1)
		l.Add("apps_two_routes", 1)
		first := true
		for idx, uri := range uris {
			em.uri, ee.uri = uri, uri
			em.idx, ee.idx = idx, idx
			em.ran, ee.ran = false, false
			after = ""
			panicked := serve(&fctx, handler, uri, first)
			first = false
			l.Add("evaluations", 1)
			l.Add("evaluations_two_routes", 1)
			if panicked != "" {
				l.Add("nontrivial", 1)
				l.Outcome("panic while routing")
				em.violate("routing-panicked reg=USE+GET ran-handler="+fmt.Sprint(em.ran || ee.ran), "the request made the router panic: it got neither the handler nor the not-found handling", "",
					map[string]any{"panic": panicked}, "handler (with Params that reproduce the path) or 404")
				first = true
				continue
			}
			if !em.ran && !ee.ran {
				l.Outcome(fmt.Sprintf("two-routes none-ran status=%d", fctx.Response.StatusCode()))
				continue
			}
			l.Add("nontrivial", 1)
			l.Add("handler_ran", 1)
			var o, oc []string
			if em.ran {
				o = append(o, "middleware("+em.cls+") "+after)
				oc = append(oc, "middleware-ran "+after)
			}
			if ee.ran {
				o = append(o, "endpoint("+ee.cls+")")
				oc = append(oc, "endpoint-ran")
				if !em.ran {
					l.Add("endpoint_ran_after_failed_attempt_of_middleware_pattern", 1)
				}
			}
			l.Outcome("two-routes " + strings.Join(oc, " + "))
			if sample != nil && em.ran && ee.ran && ci == 0 && idx%5 == 0 {
				sample("N ran", map[string]any{"app": []string{"USE " + pr.mw.Text, "GET " + pr.ep.Text}, "config": cfg.String(), "request": show(uri[len(uriPrefix):]), "class": "both handlers ran: " + strings.Join(o, " + ")})
			}
			if sample != nil && em.ran && !ee.ran && after == "read-again" && ci == 0 && idx%5 == 0 {
				sample("N after", map[string]any{"app": []string{"USE " + pr.mw.Text, "GET " + pr.ep.Text}, "config": cfg.String(), "request": show(uri[len(uriPrefix):]), "class": "middleware ran, no later route matched, Params read again after c.Next(): " + em.cls})
			}
		}
	}
}
