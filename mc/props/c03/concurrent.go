package main

// Concurrent part ("Params returns exactly those values" while another request is matched against the same
// route): two requests in flight on ONE application whose routes carry custom constraints
// (package verifmc/ccpair). A custom constraint is a user callback that runs INSIDE the matcher, between the
// moment a parameter value is cut out of the path and the moment the route is accepted; the callback and the
// handlers yield to the cooperative scheduler, so every interleaving (within the preemption bound) of the two
// requests' match attempts on the same routes is explored. The matcher's state per request is the request's
// own: each request must receive exactly the response it receives when served alone (its own values reproduce its
// own path, constraints are judged on its own values).

import (
	"fmt"
	"strings"

	"github.com/gofiber/fiber/v3"
	"github.com/gofiber/fiber/v3/verifrt"
	"github.com/valyala/fasthttp"

	"verifmc/ccpair"
	"verifmc/core"
)

// gate accepts values that do not start with 'x'; it yields before answering
type gate3Constraint struct{}

func (gate3Constraint) Name() string { return "gate" }
func (gate3Constraint) Execute(param string, _ ...string) bool {
	verifrt.Yield("constraint.gate")
	return !strings.HasPrefix(param, "x")
}

func ccBuildRouter3(cfg fiber.Config) func() fasthttp.RequestHandler {
	return func() fasthttp.RequestHandler {
		app := fiber.New(cfg)
		app.RegisterCustomConstraint(gate3Constraint{})
		report := func(name string) fiber.Handler {
			return func(c fiber.Ctx) error {
				verifrt.Yield("handler")
				var kv []string
				for _, p := range c.Route().Params {
					kv = append(kv, p+"="+c.Params(p))
				}
				return c.SendString(name + " " + c.Route().Path + " " + strings.Join(kv, ","))
			}
		}
		app.Use("/:t<gate>", func(c fiber.Ctx) error {
			before := c.Params("t")
			verifrt.Yield("middleware.before-next")
			err := c.Next()
			c.Append("X-Mw", before+"|"+c.Params("t"))
			return err
		})
		app.Get("/:a<gate>/:b<gate>", report("two"))
		app.Get("/:id<int;gate>", report("one"))
		app.Get("/:x<gate>/items/:y<gate>-:z", report("three"))
		return app.Handler()
	}
}

func runConcurrentParams(r *core.Run) {
	mk := func(path string) func() *fasthttp.Request {
		return func() *fasthttp.Request {
			rq := fasthttp.AcquireRequest()
			rq.Header.SetMethod("GET")
			rq.SetRequestURI("http://app.test" + path)
			return rq
		}
	}
	reqs := []ccpair.Req{
		{Name: "two-accepted /first/1", Make: mk("/first/1")},
		{Name: "two-accepted /second/22", Make: mk("/second/22")},
		{Name: "two-refused-second /third/x3", Make: mk("/third/x3")},
		{Name: "one-int /5", Make: mk("/5")},
		{Name: "one-not-int /abc", Make: mk("/abc")},
		{Name: "three /p/items/q-r", Make: mk("/p/items/q-r")},
	}
	obs := func(resp *fasthttp.Response) string {
		return fmt.Sprintf("%d %q mw=%q", resp.StatusCode(), resp.Body(), resp.Header.Peek("X-Mw"))
	}
	scs := []ccpair.Scenario{
		{Name: "default", Build: ccBuildRouter3(fiber.Config{}), Reqs: reqs, Observe: obs, Self: true, Unordered: r.Quick()},
	}
	if !r.Quick() {
		scs = append(scs, ccpair.Scenario{Name: "case-sensitive+strict", Build: ccBuildRouter3(fiber.Config{CaseSensitive: true, StrictRouting: true}), Reqs: reqs, Observe: obs, Self: true})
	}
	ccpair.Run(r, "concurrent", scs, 2)
	if r.P.Counters["cc_executions"] < 500 {
		core.Fatal("vacuous concurrent part: only %d executions", r.P.Counters["cc_executions"])
	}
}
