// C03 — documented pattern syntax matches what it says and captures what was put in.
//
// Bounded exhaustive exploration: every *delimited* pattern (each parameter is
// followed by the end of the pattern or by a literal starting with '/', '-' or
// '.') up to a token bound x every assignment of values from a small alphabet to
// its parameters x request spelling variants x the 8 routing configurations.
//
//	oracle (a): a filled path whose values meet the statement's side conditions
//	            reaches the handler of the lone route and Params returns exactly
//	            the values; spelling variants are judged three-valued
//	            (must / must-not / unspecified) from the configuration sentence
//	            (claimFor); must-not only when a permissive reference matcher
//	            (refMatch/plausible) cannot describe the path at all.
//	oracle (b): fiber.RoutePatternMatch(path, pattern, cfg) == "the lone-route app
//	            ran the handler", for every path of the space including
//	            one-symbol neighbours and type-invalid fillings.
//
// Families (audit round, see AUDIT.md):
//
//	main:    the delimited patterns above; patterns of <=3 tokens also get values spelled with the
//	         special characters of the syntax (x:y, x+y, *) and are registered a second time WITHOUT
//	         their leading slash (app.Get("a/:p"), RoutePatternMatch(path, "a/:p")).
//	escaped: patterns with at least one literal written with an escaped special character
//	         (`\:`, `a\:b`, `\*a`, `a\+`); the path carries the plain character.
//	long:    patterns with three (thorough: four) parameters over reduced alphabets, letter
//	         separators included ("/:p/a/*-+/a").
//
// Every oracle-(a) case is dispatched twice: default context and a custom context installed with
// NewCtxFunc (custom-context request handler). On every request that reaches the handler the
// documented short keys Params("*") / Params("+") must equal Params("*1") / Params("+1").
//
// Tiers:
//
//	quick:    main: patterns of <=4 tokens (+ 5-token patterns made of bare delimiters and parameters),
//	          8 values; escaped: <=3 tokens full alphabet, 4 tokens reduced; long: 3 parameters;
//	          ~7.3*10^7 evaluations, ~250 core-seconds (capped by CPU time used, not by wall clock).
//	thorough: main: patterns of <=5 tokens, 9 values; escaped: <=4 tokens; long: 3 and 4 parameters.
//
// Signatures: sig.go. Debug knobs: C03_MAXTOK=n (main family, all patterns of <=n tokens only),
// C03_FAMILY=main|escaped|long (one family only).
package main

import (
	"fmt"
	"os"
	"sort"
	"strings"
	"syscall"
	"time"

	"github.com/gofiber/fiber/v3"
	"github.com/valyala/fasthttp"

	"verifmc/core"
	"verifmc/fx"
)

// ---------------------------------------------------------------------------
// pattern grammar

const (
	kLit = iota
	kNamed
	kNamedOpt
	kStar
	kPlus
)

type tok struct {
	kind  int
	text  string // literal text (delimiter + lit) for kLit, as it appears in a PATH
	ptext string // the same literal as spelled in the PATTERN when that differs (escaped special characters)
}

// spelled is the literal as written in the pattern.
func (t tok) spelled() string {
	if t.ptext != "" {
		return t.ptext
	}
	return t.text
}

// lit is one literal letter: its path text and, when different, its pattern spelling.
type lit struct{ text, ptext string }

func plainLits(ss []string) []lit {
	out := make([]lit, len(ss))
	for i, s := range ss {
		out[i] = lit{text: s}
	}
	return out
}

// family is one sub-space of the exploration: a pattern set with its own value alphabet and
// its own share of oracle (b).
type family struct {
	name       string
	values     []string
	neighbours bool // oracle (b) also sees every one-symbol deletion/insertion of the type-valid filled paths
}

type pat struct {
	toks    []tok
	text    string   // pattern as registered
	keys    []string // Params() keys, one per parameter, in order
	ptok    []int    // token index of each parameter
	runs    []string // maximal literal runs
	follow  []string // per parameter: the literal token that follows it ("" = end of pattern)
	litAlph bool     // some literal contains a letter
	esc     bool     // some literal is spelled with an escaped special character
	reg     string   // the pattern as handed to app.Get / RoutePatternMatch (text, or text without its leading slash)
	noSlash bool     // reg lacks the leading slash (registration adds it)
	shape   string
	fam     *family
	star1   int // index (into keys) of the first '*' / '+' parameter, -1 if none
	plus1   int
}

var delims = []string{"/", "-", "."}
var lits = []string{"", "a", "aB", "v1"}
var paramKinds = []int{kNamed, kNamedOpt, kStar, kPlus}
var paramNames = []string{"p", "q", "r", "s", "t", "u"}

func (t tok) isParam() bool { return t.kind != kLit }

func finishPat(toks []tok) *pat {
	p := &pat{toks: append([]tok(nil), toks...), star1: -1, plus1: -1}
	var sb, sh strings.Builder
	named, stars, pluses := 0, 0, 0
	run := ""
	for i, t := range p.toks {
		if i > 0 {
			sh.WriteByte(' ')
		}
		switch t.kind {
		case kLit:
			sb.WriteString(t.spelled())
			if t.ptext != "" {
				p.esc = true
			}
			run += t.text
			sh.WriteString(t.text[:1])
			if len(t.text) > 1 {
				sh.WriteByte('L')
			}
			if strings.ContainsAny(t.text, "abcdefghijklmnopqrstuvwxyzABCDEFGHIJKLMNOPQRSTUVWXYZ") {
				p.litAlph = true
			}
		case kNamed, kNamedOpt:
			n := paramNames[named]
			named++
			sb.WriteString(":" + n)
			sh.WriteString(":p")
			if t.kind == kNamedOpt {
				sb.WriteByte('?')
				sh.WriteByte('?')
			}
			p.keys = append(p.keys, n)
		case kStar:
			stars++
			sb.WriteByte('*')
			sh.WriteByte('*')
			if stars == 1 {
				p.star1 = len(p.keys)
			}
			p.keys = append(p.keys, fmt.Sprintf("*%d", stars))
		case kPlus:
			pluses++
			sb.WriteByte('+')
			sh.WriteByte('+')
			if pluses == 1 {
				p.plus1 = len(p.keys)
			}
			p.keys = append(p.keys, fmt.Sprintf("+%d", pluses))
		}
		if t.isParam() {
			p.ptok = append(p.ptok, i)
			if run != "" {
				p.runs = append(p.runs, run)
				run = ""
			}
			f := ""
			if i+1 < len(p.toks) {
				f = p.toks[i+1].text
			}
			p.follow = append(p.follow, f)
		}
	}
	if run != "" {
		p.runs = append(p.runs, run)
	}
	p.text = sb.String()
	p.reg = p.text
	p.shape = sh.String()
	return p
}

// enumPatterns lists every delimited pattern of 1..maxTok tokens; the first token is "/"+lit.
func enumPatterns(maxTok int, lits []lit) []*pat {
	var out []*pat
	var rec func(cur []tok)
	rec = func(cur []tok) {
		out = append(out, finishPat(cur))
		if len(cur) == maxTok {
			return
		}
		for _, d := range delims {
			for _, l := range lits {
				rec(append(cur, litTok(d, l)))
			}
		}
		if !cur[len(cur)-1].isParam() { // delimited: a parameter never follows a parameter
			for _, k := range paramKinds {
				rec(append(cur, tok{kind: k}))
			}
		}
	}
	for _, l := range lits {
		rec([]tok{litTok("/", l)})
	}
	return out
}

func litTok(d string, l lit) tok {
	t := tok{kind: kLit, text: d + l.text}
	if l.ptext != "" {
		t.ptext = d + l.ptext
	}
	return t
}

// ---------------------------------------------------------------------------
// fillings and the statement's side conditions

func (p *pat) fill(vals []string, litMap func(string) string) string {
	var sb strings.Builder
	pi := 0
	for _, t := range p.toks {
		if t.kind == kLit {
			if litMap != nil {
				sb.WriteString(litMap(t.text))
			} else {
				sb.WriteString(t.text)
			}
		} else {
			sb.WriteString(vals[pi])
			pi++
		}
	}
	return sb.String()
}

func countOv(s, sub string) int {
	n := 0
	for i := 0; i+len(sub) <= len(s); i++ {
		if s[i:i+len(sub)] == sub {
			n++
		}
	}
	return n
}

// typeValid: '+' and named values non-empty, named values free of '/'.
func (p *pat) typeValid(vals []string) bool {
	for i, ti := range p.ptok {
		k := p.toks[ti].kind
		if (k == kNamed || k == kPlus) && vals[i] == "" {
			return false
		}
		if (k == kNamed || k == kNamedOpt) && strings.IndexByte(vals[i], '/') >= 0 {
			return false
		}
	}
	return true
}

// admissible: type conditions + "the values create no additional occurrence of a
// literal that follows a parameter". The literal is read in the most conservative
// way (the single literal token right after the parameter, overlapping occurrences
// counted, compared case-insensitively when the router folds case), so that a
// filling is only demanded when every reasonable reading of the condition admits it.
func (p *pat) admissible(vals []string, fold bool) bool {
	if !p.typeValid(vals) {
		return false
	}
	path := p.fill(vals, nil)
	if fold {
		path = strings.ToLower(path)
	}
	for _, f := range p.follow {
		if f == "" {
			continue
		}
		if fold {
			f = strings.ToLower(f)
		}
		inPat := 0
		for _, r := range p.runs {
			if fold {
				r = strings.ToLower(r)
			}
			inPat += countOv(r, f)
		}
		if countOv(path, f) != inPat {
			return false
		}
	}
	return true
}

// ---------------------------------------------------------------------------
// permissive reference: "could this path be described by the pattern at all under
// this configuration?" — used only to decide when a must-NOT may be demanded.

func eqFold(a, b string, fold bool) bool {
	if fold {
		return strings.EqualFold(a, b)
	}
	return a == b
}

func refMatch(toks []tok, s string, fold bool) bool {
	if len(toks) == 0 {
		return s == ""
	}
	t := toks[0]
	if t.kind == kLit {
		if len(s) >= len(t.text) && eqFold(s[:len(t.text)], t.text, fold) && refMatch(toks[1:], s[len(t.text):], fold) {
			return true
		}
		// documented: "/user/:name?" also answers "/user" — a lone "/" before a tail of
		// empty optional parameters may be absent.
		if t.text == "/" && s == "" && len(toks) > 1 {
			for _, r := range toks[1:] {
				if r.kind != kNamedOpt && r.kind != kStar {
					return false
				}
			}
			return true
		}
		return false
	}
	min := 0
	if t.kind == kNamed || t.kind == kPlus {
		min = 1
	}
	for n := min; n <= len(s); n++ {
		if n > 0 && (t.kind == kNamed || t.kind == kNamedOpt) && s[n-1] == '/' {
			break
		}
		if refMatch(toks[1:], s[n:], fold) {
			return true
		}
	}
	return false
}

func pctDecode(s string) string {
	if strings.IndexByte(s, '%') < 0 {
		return s
	}
	hex := func(c byte) int {
		switch {
		case c >= '0' && c <= '9':
			return int(c - '0')
		case c >= 'a' && c <= 'f':
			return int(c-'a') + 10
		case c >= 'A' && c <= 'F':
			return int(c-'A') + 10
		}
		return -1
	}
	var b []byte
	for i := 0; i < len(s); i++ {
		if s[i] == '%' && i+2 < len(s) {
			h, l := hex(s[i+1]), hex(s[i+2])
			if h >= 0 && l >= 0 {
				b = append(b, byte(h<<4|l))
				i += 2
				continue
			}
		}
		b = append(b, s[i])
	}
	return string(b)
}

type rcfg struct{ CS, Strict, Unesc bool }

func (c rcfg) String() string {
	b := func(v bool) byte {
		if v {
			return '1'
		}
		return '0'
	}
	return fmt.Sprintf("CS%c/Strict%c/Unesc%c", b(c.CS), b(c.Strict), b(c.Unesc))
}

// plausible reports whether any reasonable reading lets the pattern describe the path under c.
func (p *pat) plausible(path string, c rcfg) bool {
	paths := []string{path}
	if c.Unesc {
		paths = append(paths, pctDecode(path))
	}
	tokSets := [][]tok{p.toks}
	if !c.Strict {
		n := len(paths)
		for i := 0; i < n; i++ {
			if t := strings.TrimRight(paths[i], "/"); t != paths[i] {
				paths = append(paths, t)
				if t == "" {
					paths = append(paths, "/")
				}
			}
		}
		tt := p.toks
		for len(tt) > 1 && tt[len(tt)-1].kind == kLit && tt[len(tt)-1].text == "/" {
			tt = tt[:len(tt)-1]
			tokSets = append(tokSets, tt)
		}
	}
	for _, ts := range tokSets {
		for _, s := range paths {
			if refMatch(ts, s, !c.CS) {
				return true
			}
		}
	}
	return false
}

// ---------------------------------------------------------------------------
// spelling variants

func upperASCII(s string) string {
	b := []byte(s)
	for i, c := range b {
		if c >= 'a' && c <= 'z' {
			b[i] = c - 32
		}
	}
	return string(b)
}

func encAll(s string) string {
	const hexd = "0123456789ABCDEF"
	b := make([]byte, 0, 3*len(s))
	for i := 0; i < len(s); i++ {
		b = append(b, '%', hexd[s[i]>>4], hexd[s[i]&15])
	}
	return string(b)
}

func encLetters(s string) string {
	const hexd = "0123456789ABCDEF"
	b := make([]byte, 0, 3*len(s))
	for i := 0; i < len(s); i++ {
		c := s[i]
		if c >= 'a' && c <= 'z' || c >= 'A' && c <= 'Z' || c >= '0' && c <= '9' {
			b = append(b, '%', hexd[c>>4], hexd[c&15])
		} else {
			b = append(b, c)
		}
	}
	return string(b)
}

func mapAll(vals []string, f func(string) string) []string {
	out := make([]string, len(vals))
	for i, v := range vals {
		out[i] = f(v)
	}
	return out
}

const (
	cUnspec = iota
	cMust
	cMustNot
)

type claim struct {
	kind    int
	vals    []string // expected Params values for cMust
	altLast string   // if altOK: the last parameter may also be this
	altOK   bool
}

const (
	vAsIs = iota
	vUpper
	vUpperLit
	vSlashAdd
	vSlashRem
	vEncVals
	vEncAll
	vCombo
	nVariants
)

var variantNames = [nVariants]string{"as-is", "upper", "upper-literals", "slash-added", "slash-removed", "enc-values", "enc-all", "upper+enc+slash"}

type variant struct {
	id   int
	name string
	path string
	cl   claim
}

// filling is one type-valid assignment with everything that does not depend on the configuration.
type filling struct {
	vals, uv, ev []string // values, upper-cased values, fully percent-encoded values
	P            string   // the filled path
	adm          [2]bool  // side conditions hold (exact / case-folded reading)
	admUV        bool     // upper-cased values meet them (exact reading)
	admEV        [2]bool  // encoded values meet them
	onlyValsUp   bool     // upper-casing the path changes values only
	vars         []variant
}

func (p *pat) lastIsGreedy() bool {
	k := p.toks[len(p.toks)-1].kind
	return k == kStar || k == kPlus
}

func (p *pat) mustNotOrUnspec(path string, c rcfg) claim {
	if p.plausible(path, c) {
		return claim{kind: cUnspec}
	}
	return claim{kind: cMustNot}
}

// newFilling prepares the spellings of one type-valid assignment.
func (p *pat) newFilling(vals []string) *filling {
	f := &filling{vals: vals, uv: mapAll(vals, upperASCII), ev: mapAll(vals, encAll)}
	f.P = p.fill(vals, nil)
	P := f.P
	f.adm = [2]bool{p.admissible(vals, false), p.admissible(vals, true)}
	f.admUV = p.admissible(f.uv, false)
	f.admEV = [2]bool{p.admissible(f.ev, false), p.admissible(f.ev, true)}
	UL := p.fill(vals, upperASCII)
	f.onlyValsUp = UL == P
	hasVal := false
	for _, v := range vals {
		hasVal = hasVal || v != ""
	}
	add := func(id int, path string) {
		f.vars = append(f.vars, variant{id: id, name: variantNames[id], path: path})
	}
	add(vAsIs, P)
	if U := upperASCII(P); U != P {
		add(vUpper, U)
	}
	if UL != P {
		add(vUpperLit, UL)
	}
	add(vSlashAdd, P+"/")
	if len(P) > 1 && strings.HasSuffix(P, "/") {
		add(vSlashRem, P[:len(P)-1])
	}
	if hasVal {
		add(vEncVals, p.fill(f.ev, nil))
	}
	if p.litAlph {
		add(vEncAll, p.fill(f.ev, encLetters))
	}
	if !strings.HasSuffix(P, "/") {
		add(vCombo, p.fill(mapAll(f.uv, encAll), func(s string) string { return encLetters(upperASCII(s)) })+"/")
	}
	return f
}

// claimFor judges one spelling of an admissible filling under configuration c, strictly from
// the statement: the first sentence for the filled path itself, the configuration sentence for
// the variants; everything else is unspecified.
func (p *pat) claimFor(f *filling, v *variant, c rcfg) claim {
	vals := f.vals
	fold := 0
	if !c.CS {
		fold = 1
	}
	switch v.id {
	case vAsIs:
		return claim{kind: cMust, vals: vals}
	case vUpper: // whole path upper-cased
		switch {
		case !c.CS:
			return claim{kind: cMust, vals: f.uv}
		case f.onlyValsUp: // only values changed: simply another filling
			if f.admUV {
				return claim{kind: cMust, vals: f.uv}
			}
			return claim{}
		}
		return p.mustNotOrUnspec(v.path, c)
	case vUpperLit: // literals upper-cased: the values must come back un-folded
		if !c.CS {
			return claim{kind: cMust, vals: vals}
		}
		return p.mustNotOrUnspec(v.path, c)
	case vSlashAdd: // "a trailing slash": judged only when the filled path has none yet
		switch {
		case strings.HasSuffix(f.P, "/"):
			return claim{}
		case !c.Strict:
			cl := claim{kind: cMust, vals: vals}
			if p.lastIsGreedy() {
				// "/a/x/" is the filling x of "/a/*" plus an ignored slash, or the filling "x/": either is accepted
				cl.altOK, cl.altLast = true, vals[len(vals)-1]+"/"
			}
			return cl
		}
		return p.mustNotOrUnspec(v.path, c)
	case vSlashRem:
		switch {
		case !c.Strict:
			if len(vals) > 0 && p.toks[len(p.toks)-1].isParam() && strings.HasSuffix(vals[len(vals)-1], "/") {
				return claim{}
			}
			return claim{kind: cMust, vals: vals}
		case p.toks[len(p.toks)-1].kind == kLit:
			return p.mustNotOrUnspec(v.path, c)
		}
		return claim{}
	case vEncVals: // every byte of every value percent-encoded
		if c.Unesc {
			return claim{kind: cMust, vals: vals}
		}
		if f.admEV[fold] {
			return claim{kind: cMust, vals: f.ev} // no decoding: the raw text is the value
		}
		return claim{}
	case vEncAll: // letters of the literals encoded too
		if c.Unesc {
			return claim{kind: cMust, vals: vals}
		}
		return p.mustNotOrUnspec(v.path, c)
	case vCombo: // all three at once: judged only where all three equivalences are promised
		if !c.CS && !c.Strict && c.Unesc {
			cl := claim{kind: cMust, vals: f.uv}
			if p.lastIsGreedy() {
				cl.altOK, cl.altLast = true, f.uv[len(f.uv)-1]+"/"
			}
			return cl
		}
	}
	return claim{}
}

// ---------------------------------------------------------------------------
// driving the real router

type runner struct {
	h    fasthttp.RequestHandler
	fctx fasthttp.RequestCtx
	req  fasthttp.Request
	hit  bool
	got  []string
	rt   string
	// the documented short keys: Params("*") / Params("+") name the first wildcard / plus parameter
	gotStar, gotPlus string
}

// customCtx is the smallest custom context an application can install with NewCtxFunc: it changes
// nothing, but requests are then dispatched by the custom-context request handler.
type customCtx struct{ fiber.DefaultCtx }

func newRunner(p *pat, c rcfg, custom bool) *runner {
	rn := &runner{got: make([]string, len(p.keys))}
	app := fiber.New(fiber.Config{CaseSensitive: c.CS, StrictRouting: c.Strict, UnescapePath: c.Unesc})
	if custom {
		app.NewCtxFunc(func(a *fiber.App) fiber.CustomCtx {
			return &customCtx{DefaultCtx: *fiber.NewDefaultCtx(a)}
		})
	}
	keys := p.keys
	star1, plus1 := p.star1, p.plus1
	app.Get(p.reg, func(ctx fiber.Ctx) error {
		rn.hit = true
		for i, k := range keys {
			rn.got[i] = strings.Clone(ctx.Params(k))
		}
		if star1 >= 0 {
			rn.gotStar = strings.Clone(ctx.Params("*"))
		}
		if plus1 >= 0 {
			rn.gotPlus = strings.Clone(ctx.Params("+"))
		}
		rn.rt = ctx.Route().Path
		return nil
	})
	rn.h = app.Handler()
	return rn
}

// shortKeyFault names the short key whose answer differs from the numbered key of the same parameter
// ("" = none). Judged on every request that reached the handler, whatever the path.
func (rn *runner) shortKeyFault(p *pat) string {
	if p.star1 >= 0 && rn.gotStar != rn.got[p.star1] {
		return "*"
	}
	if p.plus1 >= 0 && rn.gotPlus != rn.got[p.plus1] {
		return "+"
	}
	return ""
}

func (rn *runner) call(path string) bool {
	rn.hit = false
	for i := range rn.got {
		rn.got[i] = "<unset>"
	}
	rn.req.Reset()
	rn.req.Header.SetMethod("GET")
	rn.req.Header.SetHost("h.test")
	rn.req.SetRequestURI(path)
	fx.CallInto(&rn.fctx, rn.h, &rn.req, nil, false)
	if po := rn.fctx.URI().PathOriginal(); string(po) != path {
		core.Fatal("driver: request path %q arrived as %q", path, po)
	}
	st := rn.fctx.Response.StatusCode()
	if rn.hit != (st == 200) || (!rn.hit && st != 404) {
		core.Fatal("driver: handler ran=%v but status=%d for %q", rn.hit, st, path)
	}
	return rn.hit
}

// wireOK: the path can be written on a request line and is read as a path there (no raw space, starts
// with '/', no "://" — fasthttp reads a request target containing "://" as an absolute URI).
func wireOK(path string) bool {
	return len(path) > 0 && path[0] == '/' && strings.IndexByte(path, ' ') < 0 && !strings.Contains(path, "://")
}

// normalised is the path as the configuration sentence reads it (used for classification only).
func normalised(path string, c rcfg) string {
	if c.Unesc {
		path = pctDecode(path)
	}
	if !c.CS {
		path = strings.ToLower(path)
	}
	if !c.Strict && len(path) > 1 {
		path = strings.TrimRight(path, "/")
	}
	return path
}

var neighbourSyms = []string{"/", "-", ".", "x", "a"}

func addNeighbours(set map[string]struct{}, path string) {
	for i := 1; i < len(path); i++ { // never drop the leading slash
		set[path[:i]+path[i+1:]] = struct{}{}
	}
	for i := 1; i <= len(path); i++ {
		for _, s := range neighbourSyms {
			set[path[:i]+s+path[i:]] = struct{}{}
		}
	}
}

// ---------------------------------------------------------------------------

func fiberCfg(c rcfg) fiber.Config {
	return fiber.Config{CaseSensitive: c.CS, StrictRouting: c.Strict, UnescapePath: c.Unesc}
}

const (
	oUnspec = iota
	oMustOK
	oMustNoMatch
	oMustWrong
	oMustNotOK
	oMustNotMatched
	nOutcomes
)

var outcomeText = [nOutcomes]string{"unspecified", "must: matched, values returned", "must: NOT MATCHED", "must: matched, WRONG VALUES", "must-not: not matched", "must-not: MATCHED"}

// escaped literal letters: the special characters of the syntax written with the documented escape
// ("\\:" in a Go string). In the path the character stands for itself.
var escLits = []lit{{":", `\:`}, {"a:b", `a\:b`}, {"*a", `\*a`}, {"a+", `a\+`}}
var escLitsBare = []lit{{"", ""}, {"*", `\*`}, {"+", `\+`}, {":", `\:`}}
var escLitsReduced = []lit{{"", ""}, {"a", ""}, {":", `\:`}, {"a*b", `a\*b`}}

// values spelled with the special characters of the syntax (in a path they are ordinary characters)
var specialValues = []string{"x:y", "x+y", "*"}

// enumLong lists the delimited patterns with exactly n parameters over reduced alphabets:
// first literal x n parameter kinds x (n-1) separators x an optional trailing literal.
func enumLong(n int, first, seps, trail [][]lit2) []*pat {
	var out []*pat
	var rec func(cur []tok, k int)
	rec = func(cur []tok, k int) {
		if k == n {
			for _, t := range trail {
				out = append(out, finishPat(append(append([]tok(nil), cur...), toksOf(t)...)))
			}
			return
		}
		for _, kind := range paramKinds {
			withP := append(append([]tok(nil), cur...), tok{kind: kind})
			if k == n-1 {
				rec(withP, k+1)
				continue
			}
			for _, s := range seps {
				rec(append(append([]tok(nil), withP...), toksOf(s)...), k+1)
			}
		}
	}
	for _, f := range first {
		rec(toksOf(f), 0)
	}
	return out
}

// lit2 is a literal token given as delimiter + letters.
type lit2 struct{ d, l string }

func toksOf(ls []lit2) []tok {
	var out []tok
	for _, x := range ls {
		out = append(out, tok{kind: kLit, text: x.d + x.l})
	}
	return out
}

func main() {
	core.SuperviseSelf("C03") // a runtime fatal error inside the code under test is a finding, not a harness error
	r := core.Start("C03")
	// quick: all patterns of <=4 tokens over the full literal alphabet plus the 5-token patterns over
	// the empty literal only (delimiters and parameters); thorough: all patterns of <=5 tokens, one more value.
	maxTok, extraTok := 4, 5
	values := []string{"", "x", "xy", "X", "x y", "x-y", "x.y", "x/y"}
	escTokBare := 3               // escaped-literal family, literals that are one bare escaped special character
	escTok, escTokReduced := 3, 4 // escaped-literal family: full alphabet up to escTok tokens, reduced alphabet up to escTokReduced
	longMax := 3                  // long family: patterns with 3..longMax parameters
	if !r.Quick() {
		maxTok, extraTok = 5, 0
		values = append(values, "a")
		escTok, escTokReduced = 4, 4
		escTokBare = 4
		longMax = 4
	}
	onlyFam := os.Getenv("C03_FAMILY") // debug knob: run one family only (main, escaped, long)
	if s := os.Getenv("C03_MAXTOK"); s != "" {
		fmt.Sscan(s, &maxTok)
		extraTok = 0
		if onlyFam == "" {
			onlyFam = "main"
		}
	}
	valuesPlus := append(append([]string(nil), values...), specialValues...)
	famMain := &family{name: "main", values: values, neighbours: true}
	famShort := &family{name: "main", values: valuesPlus, neighbours: true} // patterns of <=3 tokens also get the special-character values
	famEsc := &family{name: "escaped", values: valuesPlus, neighbours: true}
	famEscReduced := &family{name: "escaped", values: []string{"", "x", "X/y", "x:y", "x-y"}, neighbours: false}
	famLong := &family{name: "long", values: []string{"", "x", "X-y", "x/Y"}, neighbours: false}
	famLong4 := &family{name: "long", values: []string{"", "x", "x/Y"}, neighbours: false} // four parameters (thorough)

	var pats []*pat
	if onlyFam == "" || onlyFam == "main" {
		for _, p := range enumPatterns(maxTok, plainLits(lits)) {
			p.fam = famMain
			if len(p.toks) <= 3 {
				p.fam = famShort
			}
			pats = append(pats, p)
		}
		if extraTok > maxTok {
			for _, p := range enumPatterns(extraTok, plainLits([]string{""})) {
				if len(p.toks) > maxTok {
					p.fam = famMain
					pats = append(pats, p)
				}
			}
		}
	}
	// the same short patterns written without their leading slash ("" for "/"): registration and
	// RoutePatternMatch both promise to add it
	nNoSlash := 0
	if onlyFam == "" || onlyFam == "main" {
		for _, p := range enumPatterns(3, plainLits(lits)) {
			if len(p.toks) > maxTok || strings.HasPrefix(p.text[1:], "/") {
				continue // without its first slash the text would be another pattern that has one
			}
			p.fam = famShort
			p.reg, p.noSlash = p.text[1:], true
			pats = append(pats, p)
			nNoSlash++
		}
	}
	nEscPats, nLongPats := 0, 0
	if onlyFam == "" || onlyFam == "escaped" {
		// every pattern with at least one escaped literal
		for _, p := range enumPatterns(escTok, append(plainLits(lits), escLits...)) {
			if p.esc {
				p.fam = famEsc
				pats = append(pats, p)
				nEscPats++
			}
		}
		for _, p := range enumPatterns(escTokReduced, escLitsReduced) {
			if p.esc && len(p.toks) > escTok {
				p.fam = famEscReduced
				pats = append(pats, p)
				nEscPats++
			}
		}
		// literals that are NOTHING BUT one escaped special character (`/\*`, `/\+/:p`, `/a-\:`): the text with the
		// escape characters removed is then spelled like a bare wildcard / parameter
		escSeen := map[string]bool{}
		for _, p := range pats {
			escSeen[p.text] = true
		}
		for _, p := range enumPatterns(escTokBare, escLitsBare) {
			if p.esc && !escSeen[p.text] {
				p.fam = famEsc
				pats = append(pats, p)
				nEscPats++
			}
		}
	}
	longFirst := [][]lit2{{{"/", ""}}, {{"/", "a"}, {"/", ""}}}
	longSeps := [][]lit2{{{"/", ""}}, {{"-", ""}}, {{"/", "a"}, {"/", ""}}}
	longTrail := [][]lit2{nil, {{"/", ""}}, {{"/", "a"}}, {{".", "a"}}}
	if onlyFam == "" || onlyFam == "long" {
		for n := 3; n <= longMax; n++ {
			seps := longSeps
			if n > 3 {
				seps = longSeps[:2]
			}
			for _, p := range enumLong(n, longFirst, seps, longTrail) {
				p.fam = famLong
				if n > 3 {
					p.fam = famLong4
				}
				pats = append(pats, p)
				nLongPats++
			}
		}
	}
	sort.SliceStable(pats, func(i, j int) bool { return len(pats[i].toks) < len(pats[j].toks) })
	// internal caps (never an oracle): the tail of the largest patterns is dropped and the run is reported as not
	// exhaustive. The machine is shared, so the quick tier is capped by the CPU time the process has used
	// (load-independent) with a generous wall-clock backstop; thorough keeps its wall-clock cap.
	cpuCap := time.Duration(0)
	if r.Deadline.IsZero() {
		r.Deadline = r.Start.Add(map[bool]time.Duration{true: 20 * time.Minute, false: 14 * time.Minute}[r.Quick()])
		if r.Quick() {
			cpuCap = 900 * time.Second
		}
	}
	expired := func() bool {
		if r.Expired() {
			return true
		}
		if cpuCap > 0 {
			var ru syscall.Rusage
			if syscall.Getrusage(syscall.RUSAGE_SELF, &ru) == nil {
				used := time.Duration(ru.Utime.Nano() + ru.Stime.Nano())
				return used > cpuCap
			}
		}
		return false
	}
	var cfgs []rcfg
	for i := 0; i < 8; i++ {
		cfgs = append(cfgs, rcfg{i&1 != 0, i&2 != 0, i&4 != 0})
	}
	var aKeys [nVariants][nOutcomes]string
	for v := 0; v < nVariants; v++ {
		for o := 0; o < nOutcomes; o++ {
			aKeys[v][o] = "params " + variantNames[v] + " " + outcomeText[o]
		}
	}
	bKeys := [2][2]string{{"rpm app=false RoutePatternMatch=false", "rpm app=false RoutePatternMatch=true"}, {"rpm app=true RoutePatternMatch=false", "rpm app=true RoutePatternMatch=true"}}
	b2i := func(b bool) int {
		if b {
			return 1
		}
		return 0
	}

	// Violations and samples are collected per pattern and merged in pattern order after the
	// parallel phase, so that the representative case of a signature does not depend on scheduling.
	perPat := make([]map[string]*core.Violation, len(pats))
	perPatSamples := make([][]any, len(pats))

	r.Parallel(len(pats), func(pi int, l *core.Local) {
		p := pats[pi]
		np := len(p.keys)
		values := p.fam.values
		vio := map[string]*core.Violation{}
		violate := func(sig, what string, cs func() map[string]any, observed, expected any) {
			if v, ok := vio[sig]; ok {
				v.Count++
				return
			}
			vio[sig] = &core.Violation{Signature: sig, What: what, Case: cs(), Observed: observed, Expected: expected, Count: 1}
		}
		defer func() {
			if len(vio) > 0 {
				perPat[pi] = vio
			}
		}()
		if expired() {
			r.Cap("CPU/wall-clock cap reached: the tail of the pattern list (ordered by token count) was skipped")
			l.Add("patterns_skipped_by_cap", 1)
			return
		}
		// all assignments over the alphabet
		var fills []*filling
		pathSet := map[string]struct{}{}
		cur := make([]string, np)
		var rec func(i int)
		rec = func(i int) {
			if i == np {
				a := append([]string(nil), cur...)
				pathSet[p.fill(a, nil)] = struct{}{} // oracle (b) also sees type-invalid fillings
				if p.typeValid(a) {
					fills = append(fills, p.newFilling(a))
				}
				return
			}
			for _, v := range values {
				cur[i] = v
				rec(i + 1)
			}
		}
		rec(0)
		for _, f := range fills {
			if p.fam.neighbours {
				addNeighbours(pathSet, f.P)
			}
			for _, v := range f.vars {
				pathSet[v.path] = struct{}{}
			}
		}
		paths := make([]string, 0, len(pathSet))
		for s := range pathSet {
			if wireOK(s) {
				paths = append(paths, s)
			}
		}
		sort.Strings(paths)

		var nEval, nNontrivial, nUnspec, nAdm, nOutside, nNotWire, nRpm, nCustom, nShortKey int64
		var aOut [nVariants][nOutcomes]int64
		var bOut [2][2]int64
		// verdicts of the default-context pass, replayed against the custom-context pass: a case that fails
		// in both is one root cause and keeps its signature, a case failing only there is marked so
		var failedDefault map[string]struct{}
		for _, c := range cfgs {
			fc := fiberCfg(c)
			fold := b2i(!c.CS)
			var rnDefault *runner
			for ck := 0; ck < 2; ck++ {
				custom := ck == 1
				rn := newRunner(p, c, custom)
				ctxSuffix := ""
				if custom {
					ctxSuffix = " ctx=custom-only"
				} else {
					rnDefault = rn
					failedDefault = map[string]struct{}{}
				}
				for fi, f := range fills {
					if !f.adm[fold] {
						if !custom {
							nOutside++
						}
						continue
					}
					if !custom {
						nAdm++
					}
					for vi := range f.vars {
						v := &f.vars[vi]
						if !wireOK(v.path) {
							if !custom {
								nNotWire++
							}
							continue
						}
						nEval++
						v.cl = p.claimFor(f, v, c)
						if v.cl.kind == cUnspec {
							nUnspec++
							aOut[v.id][oUnspec]++
							continue
						}
						hit := rn.call(v.path)
						if np > 0 {
							nNontrivial++
						}
						if custom {
							nCustom++
						}
						caseKey := fmt.Sprintf("%d/%d", fi, vi)
						mkCase := func() map[string]any {
							m := map[string]any{"pattern": p.reg, "values": f.vals, "variant": v.name, "path": v.path, "config": c.String()}
							if custom {
								m["context"] = "custom (NewCtxFunc)"
							}
							return m
						}
						fail := func(sig, what string, observed, expected any) {
							if !custom {
								failedDefault[caseKey] = struct{}{}
							} else if _, both := failedDefault[caseKey]; both {
								return // same case already reported from the default context
							}
							violate(sig+ctxSuffix, what, mkCase, observed, expected)
						}
						if !custom && np == 2 && pi%211 == 0 && v.id != vAsIs && c.Unesc && !c.CS && len(perPatSamples[pi]) < 2 && f.vals[0] != "" && f.vals[1] != "" {
							perPatSamples[pi] = append(perPatSamples[pi], map[string]any{"case": mkCase(), "claim": []string{"unspecified", "must", "must-not"}[v.cl.kind], "handler_ran": hit, "params": append([]string(nil), rn.got...)})
						}
						switch v.cl.kind {
						case cMust:
							if !hit {
								aOut[v.id][oMustNoMatch]++
								fail(sigA(p, *v, c, "no-match", rn.got), "a path filled according to the statement does not reach the lone route", "404", "handler runs")
								continue
							}
							ok := rn.rt == p.text
							for i := range v.cl.vals {
								if rn.got[i] == v.cl.vals[i] {
									continue
								}
								if i == len(v.cl.vals)-1 && v.cl.altOK && rn.got[i] == v.cl.altLast {
									continue
								}
								ok = false
							}
							if !ok {
								aOut[v.id][oMustWrong]++
								fail(sigA(p, *v, c, "wrong-values", rn.got), "Params does not return the values the path was filled with",
									map[string]any{"params": append([]string(nil), rn.got...), "route": rn.rt}, v.cl.vals)
								continue
							}
							if k := rn.shortKeyFault(p); k != "" {
								nShortKey++
								aOut[v.id][oMustWrong]++
								fail("params short-key Params(\""+k+"\") differs from Params(\""+k+"1\")", "the documented short key of the first wildcard / plus parameter does not return that parameter's value",
									map[string]any{"params": append([]string(nil), rn.got...), "Params(*)": rn.gotStar, "Params(+)": rn.gotPlus}, "equal to the numbered key")
								continue
							}
							aOut[v.id][oMustOK]++
						case cMustNot:
							if hit {
								aOut[v.id][oMustNotMatched]++
								fail(sigA(p, *v, c, "matched-although-config-says-different", rn.got), "the configuration makes this spelling a different path, no reading of the pattern describes it, yet the route answered",
									map[string]any{"params": append([]string(nil), rn.got...)}, "404")
								continue
							}
							aOut[v.id][oMustNotOK]++
						}
					}
				}
			}
			// oracle (b)
			rn := rnDefault
			for _, path := range paths {
				hit := rn.call(path)
				rpm := fiber.RoutePatternMatch(path, p.reg, fc)
				nEval++
				nRpm++
				if np > 0 {
					nNontrivial++
				}
				bOut[b2i(hit)][b2i(rpm)]++
				if hit {
					if k := rn.shortKeyFault(p); k != "" {
						nShortKey++
						violate("params short-key Params(\""+k+"\") differs from Params(\""+k+"1\")", "the documented short key of the first wildcard / plus parameter does not return that parameter's value",
							func() map[string]any { return map[string]any{"pattern": p.reg, "path": path, "config": c.String()} },
							map[string]any{"params": append([]string(nil), rn.got...), "Params(*)": rn.gotStar, "Params(+)": rn.gotPlus}, "equal to the numbered key")
					}
				}
				if hit == rpm {
					continue
				}
				violate(sigB(p, path, c, hit, rpm, fc), "RoutePatternMatch disagrees with dispatching the path to an app holding only that route",
					func() map[string]any { return map[string]any{"pattern": p.reg, "path": path, "config": c.String()} },
					map[string]any{"RoutePatternMatch": rpm, "handler_ran": hit}, "equal")
			}
		}
		l.Add("patterns", 1)
		l.Add("patterns_"+p.fam.name, 1)
		l.Add(fmt.Sprintf("patterns_with_%d_params", np), 1)
		l.Add("evaluations", nEval)
		l.Add("evaluations_"+p.fam.name, nEval)
		l.Add("nontrivial", nNontrivial)
		l.Add("unspecified_skipped", nUnspec)
		l.Add("fillings_admissible", nAdm)
		l.Add("fillings_outside_side_conditions", nOutside)
		l.Add("skipped_not_wire_expressible", nNotWire)
		l.Add("rpm_comparisons", nRpm)
		l.Add("custom_context_dispatches", nCustom)
		l.Add("short_key_faults", nShortKey)
		for v := 0; v < nVariants; v++ {
			for o := 0; o < nOutcomes; o++ {
				if aOut[v][o] > 0 {
					l.P.Outcomes[aKeys[v][o]] += aOut[v][o]
				}
			}
		}
		for a := 0; a < 2; a++ {
			for b := 0; b < 2; b++ {
				if bOut[a][b] > 0 {
					l.P.Outcomes[bKeys[a][b]] += bOut[a][b]
				}
			}
		}
	})

	var samples []any
	for pi := range pats {
		for sig, v := range perPat[pi] {
			if o, ok := r.P.Violations[sig]; ok {
				o.Count += v.Count
			} else {
				r.P.Violations[sig] = v
			}
		}
		if len(samples) < 6 {
			samples = append(samples, perPatSamples[pi]...)
		}
	}
	r.P.Violations = collapseConfigs(r.P.Violations)
	if r.Replay == "" && !r.IsWorker() {
		runConcurrentParams(r) // two requests in flight on one route, a yielding custom constraint inside the matcher
	}
	ev := core.Evidence{
		Level:      "exploration",
		Exhaustive: true,
		Coverage: map[string]any{
			"evaluations":         r.P.Counters["evaluations"],
			"distinct_nontrivial": r.P.Counters["nontrivial"],
			"rule": fmt.Sprintf("family main: every delimited pattern of <=%d tokens (first token '/'+lit, then any of 12 literal tokens {/,-,.}x%q or a parameter {:p,:p?,*,+} never directly after a parameter)%s x every assignment of %q to its parameters (patterns of <=3 tokens also %q, and each of them a second time registered without its leading slash: %d patterns); family escaped (%d patterns): every such pattern of <=%d tokens over the literal alphabet extended by the escaped letters %q, and of <=%d tokens over %q, and of <=%d tokens over the literals that are one bare escaped special character %q, with at least one escaped literal; family long (%d patterns): every pattern with 3..%d parameters {:p,:p?,*,+} built as first literal {/,/a/} x separators {/,-,/a/} x trailing {none,/,/a,.a} x every assignment of %q; total %d patterns. (a) assignments meeting the side conditions x spelling variants %q x 8 configs x {default context, custom context installed with NewCtxFunc} judged must/must-not/unspecified, and on every request that reaches the handler Params(\"*\")/Params(\"+\") must equal Params(\"*1\")/Params(\"+1\"); (b) every filled path (side conditions NOT required, type-invalid values included), every variant path and (families main, escaped) every one-symbol deletion/insertion (symbols %q) of the type-valid filled paths x 8 configs: RoutePatternMatch vs lone-route app. A case is non-trivial when the pattern has at least one parameter and the oracle gave a verdict (not unspecified)",
				maxTok, lits, map[bool]string{true: fmt.Sprintf(" plus every %d-token pattern whose literals are bare delimiters", extraTok), false: ""}[extraTok > maxTok], values, specialValues, nNoSlash,
				nEscPats, escTok, escLits, escTokReduced, escLitsReduced, escTokBare, escLitsBare, nLongPats, longMax, famLong.values, len(pats), variantNames, neighbourSyms),
			"samples": samples,
			"bounds": map[string]any{"max_tokens": maxTok, "extra_tokens_reduced_literals": extraTok, "value_alphabet": values, "special_values_short_patterns": specialValues, "literal_alphabet": lits,
				"escaped_literals": escLits, "escaped_bare_literals": escLitsBare, "escaped_bare_max_tokens": escTokBare, "escaped_max_tokens": escTok, "escaped_reduced_max_tokens": escTokReduced, "long_max_params": longMax, "long_values": famLong.values,
				"neighbour_symbols": neighbourSyms, "patterns": len(pats), "configs": 8, "context_kinds": 2},
		},
		Assumptions: []string{
			"handler-level drive: app.Handler() through fx.CallInto with a Host header; fasthttp request-line parsing is not re-checked (paths with a raw space are not sent)",
			"'a literal that follows a parameter' is read as the single literal token after the parameter, overlapping occurrences, case-folded when the router folds case: fillings excluded by this reading are not judged",
			"slash-added is judged only for paths without a trailing slash; for a trailing greedy parameter both v and v+'/' are accepted; must-not is demanded only when a permissive reference matcher (incl. the documented optional slash before trailing optional parameters) cannot describe the path",
			"constraints and adjacent parameters are outside this check (C02 / not delimited); random larger patterns of the quantifier are not sampled",
			"the custom context embeds DefaultCtx unchanged; oracle (b) runs on the default context only",
		},
		MinOutcomes: 4,
	}
	r.Finish(ev)
}
