// C03 — documented pattern syntax matches what it says and captures what was put in.
//
// Bounded exhaustive exploration: every *delimited* pattern (each parameter is
// followed by the end of the pattern or by a literal starting with '/', '-' or
// '.') up to a token bound x every assignment of values from a small alphabet to
// its parameters x request spelling variants x the 8 routing configurations.
//
//	oracle (a): a filled path whose values meet the statement's side conditions
//	            reaches the handler of the lone route and Params returns exactly
//	            the values; spelling variants are judged three-valued
//	            (must / must-not / unspecified) from the configuration sentence.
//	oracle (b): fiber.RoutePatternMatch(path, pattern, cfg) == "the lone-route app
//	            ran the handler", for every path of the space including
//	            one-symbol neighbours and type-invalid fillings.
package main

import (
	"fmt"
	"os"
	"sort"
	"strings"

	"github.com/gofiber/fiber/v3"
	"github.com/valyala/fasthttp"

	"verifmc/core"
	"verifmc/fx"
)

// ---------------------------------------------------------------------------
// pattern grammar

const (
	kLit = iota
	kNamed
	kNamedOpt
	kStar
	kPlus
)

type tok struct {
	kind int
	text string // literal text (delimiter + lit) for kLit
}

type pat struct {
	toks    []tok
	text    string   // pattern as registered
	keys    []string // Params() keys, one per parameter, in order
	ptok    []int    // token index of each parameter
	runs    []string // maximal literal runs
	follow  []string // per parameter: the literal token that follows it ("" = end of pattern)
	litAlph bool     // some literal contains a letter
	shape   string
}

var delims = []string{"/", "-", "."}
var lits = []string{"", "a", "aB", "v1"}
var paramKinds = []int{kNamed, kNamedOpt, kStar, kPlus}
var paramNames = []string{"p", "q", "r", "s", "t", "u"}

func (t tok) isParam() bool { return t.kind != kLit }

func finishPat(toks []tok) *pat {
	p := &pat{toks: append([]tok(nil), toks...)}
	var sb, sh strings.Builder
	named, stars, pluses := 0, 0, 0
	run := ""
	for i, t := range p.toks {
		if i > 0 {
			sh.WriteByte(' ')
		}
		switch t.kind {
		case kLit:
			sb.WriteString(t.text)
			run += t.text
			sh.WriteString(t.text[:1])
			if len(t.text) > 1 {
				sh.WriteByte('L')
			}
			if strings.ContainsAny(t.text, "abcdefghijklmnopqrstuvwxyzABCDEFGHIJKLMNOPQRSTUVWXYZ") {
				p.litAlph = true
			}
		case kNamed, kNamedOpt:
			n := paramNames[named]
			named++
			sb.WriteString(":" + n)
			sh.WriteString(":p")
			if t.kind == kNamedOpt {
				sb.WriteByte('?')
				sh.WriteByte('?')
			}
			p.keys = append(p.keys, n)
		case kStar:
			stars++
			sb.WriteByte('*')
			sh.WriteByte('*')
			p.keys = append(p.keys, fmt.Sprintf("*%d", stars))
		case kPlus:
			pluses++
			sb.WriteByte('+')
			sh.WriteByte('+')
			p.keys = append(p.keys, fmt.Sprintf("+%d", pluses))
		}
		if t.isParam() {
			p.ptok = append(p.ptok, i)
			if run != "" {
				p.runs = append(p.runs, run)
				run = ""
			}
			f := ""
			if i+1 < len(p.toks) {
				f = p.toks[i+1].text
			}
			p.follow = append(p.follow, f)
		}
	}
	if run != "" {
		p.runs = append(p.runs, run)
	}
	p.text = sb.String()
	p.shape = sh.String()
	return p
}

// enumPatterns lists every delimited pattern of 1..maxTok tokens; the first token is "/"+lit.
func enumPatterns(maxTok int) []*pat {
	var out []*pat
	var rec func(cur []tok)
	rec = func(cur []tok) {
		out = append(out, finishPat(cur))
		if len(cur) == maxTok {
			return
		}
		for _, d := range delims {
			for _, l := range lits {
				rec(append(cur, tok{kLit, d + l}))
			}
		}
		if !cur[len(cur)-1].isParam() { // delimited: a parameter never follows a parameter
			for _, k := range paramKinds {
				rec(append(cur, tok{kind: k}))
			}
		}
	}
	for _, l := range lits {
		rec([]tok{{kLit, "/" + l}})
	}
	return out
}

// ---------------------------------------------------------------------------
// fillings and the statement's side conditions

func (p *pat) fill(vals []string, litMap func(string) string) string {
	var sb strings.Builder
	pi := 0
	for _, t := range p.toks {
		if t.kind == kLit {
			if litMap != nil {
				sb.WriteString(litMap(t.text))
			} else {
				sb.WriteString(t.text)
			}
		} else {
			sb.WriteString(vals[pi])
			pi++
		}
	}
	return sb.String()
}

func countOv(s, sub string) int {
	n := 0
	for i := 0; i+len(sub) <= len(s); i++ {
		if s[i:i+len(sub)] == sub {
			n++
		}
	}
	return n
}

// typeValid: '+' and named values non-empty, named values free of '/'.
func (p *pat) typeValid(vals []string) bool {
	for i, ti := range p.ptok {
		k := p.toks[ti].kind
		if (k == kNamed || k == kPlus) && vals[i] == "" {
			return false
		}
		if (k == kNamed || k == kNamedOpt) && strings.IndexByte(vals[i], '/') >= 0 {
			return false
		}
	}
	return true
}

// admissible: type conditions + "the values create no additional occurrence of a
// literal that follows a parameter". The literal is read in the most conservative
// way (the single literal token right after the parameter, overlapping occurrences
// counted, compared case-insensitively when the router folds case), so that a
// filling is only demanded when every reasonable reading of the condition admits it.
func (p *pat) admissible(vals []string, fold bool) bool {
	if !p.typeValid(vals) {
		return false
	}
	path := p.fill(vals, nil)
	if fold {
		path = strings.ToLower(path)
	}
	for _, f := range p.follow {
		if f == "" {
			continue
		}
		if fold {
			f = strings.ToLower(f)
		}
		inPat := 0
		for _, r := range p.runs {
			if fold {
				r = strings.ToLower(r)
			}
			inPat += countOv(r, f)
		}
		if countOv(path, f) != inPat {
			return false
		}
	}
	return true
}

// ---------------------------------------------------------------------------
// permissive reference: "could this path be described by the pattern at all under
// this configuration?" — used only to decide when a must-NOT may be demanded.

func eqFold(a, b string, fold bool) bool {
	if fold {
		return strings.EqualFold(a, b)
	}
	return a == b
}

func refMatch(toks []tok, s string, fold bool) bool {
	if len(toks) == 0 {
		return s == ""
	}
	t := toks[0]
	if t.kind == kLit {
		if len(s) >= len(t.text) && eqFold(s[:len(t.text)], t.text, fold) && refMatch(toks[1:], s[len(t.text):], fold) {
			return true
		}
		// documented: "/user/:name?" also answers "/user" — a lone "/" before a tail of
		// empty optional parameters may be absent.
		if t.text == "/" && s == "" && len(toks) > 1 {
			for _, r := range toks[1:] {
				if r.kind != kNamedOpt && r.kind != kStar {
					return false
				}
			}
			return true
		}
		return false
	}
	min := 0
	if t.kind == kNamed || t.kind == kPlus {
		min = 1
	}
	for n := min; n <= len(s); n++ {
		if n > 0 && (t.kind == kNamed || t.kind == kNamedOpt) && s[n-1] == '/' {
			break
		}
		if refMatch(toks[1:], s[n:], fold) {
			return true
		}
	}
	return false
}

func pctDecode(s string) string {
	if strings.IndexByte(s, '%') < 0 {
		return s
	}
	hex := func(c byte) int {
		switch {
		case c >= '0' && c <= '9':
			return int(c - '0')
		case c >= 'a' && c <= 'f':
			return int(c-'a') + 10
		case c >= 'A' && c <= 'F':
			return int(c-'A') + 10
		}
		return -1
	}
	var b []byte
	for i := 0; i < len(s); i++ {
		if s[i] == '%' && i+2 < len(s) {
			h, l := hex(s[i+1]), hex(s[i+2])
			if h >= 0 && l >= 0 {
				b = append(b, byte(h<<4|l))
				i += 2
				continue
			}
		}
		b = append(b, s[i])
	}
	return string(b)
}

type rcfg struct{ CS, Strict, Unesc bool }

func (c rcfg) String() string {
	b := func(v bool) byte {
		if v {
			return '1'
		}
		return '0'
	}
	return fmt.Sprintf("CS%c/Strict%c/Unesc%c", b(c.CS), b(c.Strict), b(c.Unesc))
}

// plausible reports whether any reasonable reading lets the pattern describe the path under c.
func (p *pat) plausible(path string, c rcfg) bool {
	paths := []string{path}
	if c.Unesc {
		paths = append(paths, pctDecode(path))
	}
	tokSets := [][]tok{p.toks}
	if !c.Strict {
		n := len(paths)
		for i := 0; i < n; i++ {
			if t := strings.TrimRight(paths[i], "/"); t != paths[i] {
				paths = append(paths, t)
				if t == "" {
					paths = append(paths, "/")
				}
			}
		}
		tt := p.toks
		for len(tt) > 1 && tt[len(tt)-1].kind == kLit && tt[len(tt)-1].text == "/" {
			tt = tt[:len(tt)-1]
			tokSets = append(tokSets, tt)
		}
	}
	for _, ts := range tokSets {
		for _, s := range paths {
			if refMatch(ts, s, !c.CS) {
				return true
			}
		}
	}
	return false
}

// ---------------------------------------------------------------------------
// spelling variants

func upperASCII(s string) string {
	b := []byte(s)
	for i, c := range b {
		if c >= 'a' && c <= 'z' {
			b[i] = c - 32
		}
	}
	return string(b)
}

func encAll(s string) string {
	const hexd = "0123456789ABCDEF"
	b := make([]byte, 0, 3*len(s))
	for i := 0; i < len(s); i++ {
		b = append(b, '%', hexd[s[i]>>4], hexd[s[i]&15])
	}
	return string(b)
}

func encLetters(s string) string {
	const hexd = "0123456789ABCDEF"
	b := make([]byte, 0, 3*len(s))
	for i := 0; i < len(s); i++ {
		c := s[i]
		if c >= 'a' && c <= 'z' || c >= 'A' && c <= 'Z' || c >= '0' && c <= '9' {
			b = append(b, '%', hexd[c>>4], hexd[c&15])
		} else {
			b = append(b, c)
		}
	}
	return string(b)
}

func mapAll(vals []string, f func(string) string) []string {
	out := make([]string, len(vals))
	for i, v := range vals {
		out[i] = f(v)
	}
	return out
}

const (
	cUnspec = iota
	cMust
	cMustNot
)

type claim struct {
	kind    int
	vals    []string // expected Params values for cMust
	altLast string   // if altOK: the last parameter may also be this
	altOK   bool
}

type variant struct {
	name string
	path string
	cl   claim
}

func (p *pat) lastIsGreedy() bool {
	k := p.toks[len(p.toks)-1].kind
	return k == kStar || k == kPlus
}

func (p *pat) mustNotOrUnspec(path string, c rcfg) claim {
	if p.plausible(path, c) {
		return claim{kind: cUnspec}
	}
	return claim{kind: cMustNot}
}

// variants returns the judged spellings of one admissible filling under configuration c.
func (p *pat) variants(vals []string, c rcfg, buf []variant) []variant {
	out := buf[:0]
	P := p.fill(vals, nil)
	hasVal := false
	for _, v := range vals {
		hasVal = hasVal || v != ""
	}
	// as is
	out = append(out, variant{"as-is", P, claim{kind: cMust, vals: vals}})

	// upper-cased (whole path)
	if U := upperASCII(P); U != P {
		uv := mapAll(vals, upperASCII)
		var cl claim
		switch {
		case !c.CS:
			cl = claim{kind: cMust, vals: uv}
		case !p.litAlph || p.fill(vals, upperASCII) == p.fill(vals, nil):
			// only values changed: it is simply another filling
			if p.admissible(uv, false) {
				cl = claim{kind: cMust, vals: uv}
			}
		default:
			cl = p.mustNotOrUnspec(U, c)
		}
		out = append(out, variant{"upper", U, cl})
	}
	// upper-cased literals only: values must come back un-folded
	if UL := p.fill(vals, upperASCII); UL != P {
		var cl claim
		if !c.CS {
			cl = claim{kind: cMust, vals: vals}
		} else {
			cl = p.mustNotOrUnspec(UL, c)
		}
		out = append(out, variant{"upper-literals", UL, cl})
	}
	// trailing slash added ("a trailing slash": judged only when P has none yet)
	{
		S := P + "/"
		var cl claim
		switch {
		case strings.HasSuffix(P, "/"):
			cl = claim{kind: cUnspec}
		case !c.Strict:
			cl = claim{kind: cMust, vals: vals}
			if p.lastIsGreedy() {
				// "/a/x/" is the filling x of "/a/*" plus an ignored slash, or the filling "x/": either is accepted
				cl.altOK, cl.altLast = true, vals[len(vals)-1]+"/"
			}
		default:
			cl = p.mustNotOrUnspec(S, c)
		}
		out = append(out, variant{"slash-added", S, cl})
	}
	// trailing slash removed
	if len(P) > 1 && strings.HasSuffix(P, "/") {
		R := P[:len(P)-1]
		var cl claim
		switch {
		case !c.Strict:
			cl = claim{kind: cMust, vals: vals}
			if len(vals) > 0 && p.toks[len(p.toks)-1].isParam() && strings.HasSuffix(vals[len(vals)-1], "/") {
				cl = claim{kind: cUnspec}
			}
		case p.toks[len(p.toks)-1].kind == kLit:
			cl = p.mustNotOrUnspec(R, c)
		default:
			cl = claim{kind: cUnspec}
		}
		out = append(out, variant{"slash-removed", R, cl})
	}
	// every byte of every value percent-encoded
	if hasVal {
		ev := mapAll(vals, encAll)
		E := p.fill(ev, nil)
		var cl claim
		if c.Unesc {
			cl = claim{kind: cMust, vals: vals}
		} else if p.admissible(ev, !c.CS) {
			cl = claim{kind: cMust, vals: ev} // no decoding: the raw text is the value
		}
		out = append(out, variant{"enc-values", E, cl})
	}
	// letters of the literals (and the values) percent-encoded
	if p.litAlph {
		ev := mapAll(vals, encAll)
		E := p.fill(ev, encLetters)
		var cl claim
		if c.Unesc {
			cl = claim{kind: cMust, vals: vals}
		} else {
			cl = p.mustNotOrUnspec(E, c)
		}
		out = append(out, variant{"enc-all", E, cl})
	}
	// all three at once: judged only where all three equivalences are promised
	if !strings.HasSuffix(P, "/") {
		uv := mapAll(vals, upperASCII)
		E := p.fill(mapAll(uv, encAll), func(s string) string { return encLetters(upperASCII(s)) }) + "/"
		var cl claim
		if !c.CS && !c.Strict && c.Unesc {
			cl = claim{kind: cMust, vals: uv}
			if p.lastIsGreedy() {
				cl.altOK, cl.altLast = true, uv[len(uv)-1]+"/"
			}
		}
		out = append(out, variant{"upper+enc+slash", E, cl})
	}
	return out
}

// ---------------------------------------------------------------------------
// driving the real router

type runner struct {
	h    fasthttp.RequestHandler
	fctx fasthttp.RequestCtx
	req  fasthttp.Request
	hit  bool
	got  []string
	rt   string
}

func newRunner(p *pat, c rcfg) *runner {
	rn := &runner{got: make([]string, len(p.keys))}
	app := fiber.New(fiber.Config{CaseSensitive: c.CS, StrictRouting: c.Strict, UnescapePath: c.Unesc})
	keys := p.keys
	app.Get(p.text, func(ctx fiber.Ctx) error {
		rn.hit = true
		for i, k := range keys {
			rn.got[i] = strings.Clone(ctx.Params(k))
		}
		rn.rt = ctx.Route().Path
		return nil
	})
	rn.h = app.Handler()
	return rn
}

func (rn *runner) call(path string) bool {
	rn.hit = false
	for i := range rn.got {
		rn.got[i] = "<unset>"
	}
	rn.req.Reset()
	rn.req.Header.SetMethod("GET")
	rn.req.Header.SetHost("h.test")
	rn.req.SetRequestURI(path)
	fx.CallInto(&rn.fctx, rn.h, &rn.req, nil, false)
	if po := rn.fctx.URI().PathOriginal(); string(po) != path {
		core.Fatal("driver: request path %q arrived as %q", path, po)
	}
	st := rn.fctx.Response.StatusCode()
	if rn.hit != (st == 200) || (!rn.hit && st != 404) {
		core.Fatal("driver: handler ran=%v but status=%d for %q", rn.hit, st, path)
	}
	return rn.hit
}

// wireOK: the path can be written on a request line and is a path (no raw space, starts with '/').
func wireOK(path string) bool {
	return len(path) > 0 && path[0] == '/' && strings.IndexByte(path, ' ') < 0
}

// normalised is the path as the configuration sentence reads it (used for classification only).
func normalised(path string, c rcfg) string {
	if c.Unesc {
		path = pctDecode(path)
	}
	if !c.CS {
		path = strings.ToLower(path)
	}
	if !c.Strict && len(path) > 1 {
		path = strings.TrimRight(path, "/")
	}
	return path
}

var neighbourSyms = []string{"/", "-", ".", "x", "a"}

func addNeighbours(set map[string]struct{}, path string) {
	for i := 1; i < len(path); i++ { // never drop the leading slash
		set[path[:i]+path[i+1:]] = struct{}{}
	}
	for i := 1; i <= len(path); i++ {
		for _, s := range neighbourSyms {
			set[path[:i]+s+path[i:]] = struct{}{}
		}
	}
}

// ---------------------------------------------------------------------------

func fiberCfg(c rcfg) fiber.Config {
	return fiber.Config{CaseSensitive: c.CS, StrictRouting: c.Strict, UnescapePath: c.Unesc}
}

func main() {
	r := core.Start("C03")
	maxTok := 4
	values := []string{"", "x", "xy", "X", "x y", "x-y", "x.y", "x/y"}
	neighbourTok := 4 // neighbours are generated for patterns up to this many tokens
	if !r.Quick() {
		maxTok = 5
		values = append(values, "a")
		neighbourTok = 5
	}
	if s := os.Getenv("C03_MAXTOK"); s != "" {
		fmt.Sscan(s, &maxTok)
	}
	pats := enumPatterns(maxTok)
	var cfgs []rcfg
	for i := 0; i < 8; i++ {
		cfgs = append(cfgs, rcfg{i&1 != 0, i&2 != 0, i&4 != 0})
	}

	r.Parallel(len(pats), func(pi int, l *core.Local) {
		p := pats[pi]
		l.Add("patterns", 1)
		np := len(p.keys)
		// all assignments over the alphabet
		var assigns [][]string
		cur := make([]string, np)
		var rec func(i int)
		rec = func(i int) {
			if i == np {
				assigns = append(assigns, append([]string(nil), cur...))
				return
			}
			for _, v := range values {
				cur[i] = v
				rec(i + 1)
			}
		}
		rec(0)

		// the path set of oracle (b)
		pathSet := map[string]struct{}{}
		for _, a := range assigns {
			P := p.fill(a, nil)
			pathSet[P] = struct{}{}
			if p.typeValid(a) && len(p.toks) <= neighbourTok {
				addNeighbours(pathSet, P)
			}
		}

		var vbuf []variant
		for _, c := range cfgs {
			rn := newRunner(p, c)
			fc := fiberCfg(c)
			for _, a := range assigns {
				if !p.typeValid(a) {
					continue
				}
				if !p.admissible(a, !c.CS) {
					l.Add("fillings_outside_side_conditions", 1)
					continue
				}
				l.Add("fillings_admissible", 1)
				vbuf = p.variants(a, c, vbuf)
				for _, v := range vbuf {
					pathSet[v.path] = struct{}{}
					if !wireOK(v.path) {
						l.Add("skipped_not_wire_expressible", 1)
						continue
					}
					l.Add("evaluations", 1)
					if v.cl.kind == cUnspec {
						l.Add("unspecified_skipped", 1)
						l.Outcome("a " + v.name + " unspecified")
						continue
					}
					hit := rn.call(v.path)
					if np > 0 {
						l.Add("nontrivial", 1)
					}
					cs := map[string]any{"pattern": p.text, "values": a, "variant": v.name, "path": v.path, "config": c.String()}
					if np == 2 && pi%211 == 0 && v.name != "as-is" && c.Unesc && !c.CS {
						l.Sample(map[string]any{"case": cs, "claim": v.cl.kind, "handler_ran": hit, "params": append([]string(nil), rn.got...)})
					}
					switch v.cl.kind {
					case cMust:
						if !hit {
							l.Outcome("a " + v.name + " must: NOT MATCHED")
							l.Violate(sigA(p, v, c, "no-match", rn.got), "a path filled according to the statement does not reach the lone route", cs, "404", "handler runs")
							continue
						}
						ok := true
						for i := range v.cl.vals {
							if rn.got[i] == v.cl.vals[i] {
								continue
							}
							if i == len(v.cl.vals)-1 && v.cl.altOK && rn.got[i] == v.cl.altLast {
								continue
							}
							ok = false
						}
						if rn.rt != p.text {
							ok = false
						}
						if !ok {
							l.Outcome("a " + v.name + " must: matched, WRONG VALUES")
							l.Violate(sigA(p, v, c, "wrong-values", rn.got), "Params does not return the values the path was filled with", cs,
								map[string]any{"params": append([]string(nil), rn.got...), "route": rn.rt}, v.cl.vals)
							continue
						}
						l.Outcome("a " + v.name + " must: matched, values returned")
					case cMustNot:
						if hit {
							l.Outcome("a " + v.name + " must-not: MATCHED")
							l.Violate(sigA(p, v, c, "matched-although-config-says-different", rn.got), "the configuration makes this spelling a different path, no reading of the pattern describes it, yet the route answered", cs,
								map[string]any{"params": append([]string(nil), rn.got...)}, "404")
							continue
						}
						l.Outcome("a " + v.name + " must-not: not matched")
					}
				}
			}
			// oracle (b)
			paths := make([]string, 0, len(pathSet))
			for s := range pathSet {
				paths = append(paths, s)
			}
			sort.Strings(paths)
			for _, path := range paths {
				if !wireOK(path) {
					continue
				}
				hit := rn.call(path)
				rpm := fiber.RoutePatternMatch(path, p.text, fc)
				l.Add("evaluations", 1)
				l.Add("rpm_comparisons", 1)
				if np > 0 {
					l.Add("nontrivial", 1)
				}
				l.Outcome(fmt.Sprintf("b app=%v rpm=%v", hit, rpm))
				if hit == rpm {
					continue
				}
				cs := map[string]any{"pattern": p.text, "path": path, "config": c.String()}
				l.Violate(sigB(p, path, c, hit, rpm, fc), "RoutePatternMatch disagrees with dispatching the path to an app holding only that route", cs,
					map[string]any{"RoutePatternMatch": rpm, "handler_ran": hit}, "equal")
			}
		}
	})

	ev := core.Evidence{
		Level:      "exploration",
		Exhaustive: true,
		Coverage: map[string]any{
			"evaluations":         r.P.Counters["evaluations"],
			"distinct_nontrivial": r.P.Counters["nontrivial"],
			"rule": fmt.Sprintf("every delimited pattern of <=%d tokens (first token '/'+lit, then any of 12 literal tokens {/,-,.}x%q or a parameter {:p,:p?,*,+} never directly after a parameter) = %d patterns; x every assignment of %q to its parameters; (a) assignments meeting the side conditions x spelling variants {as-is, upper, upper-literals, slash-added, slash-removed, enc-values, enc-all, upper+enc+slash} x 8 configs judged must/must-not/unspecified; (b) every filled path (side conditions NOT required, type-invalid values included), every variant path and every one-symbol deletion/insertion (symbols %q) of the type-valid filled paths x 8 configs: RoutePatternMatch vs lone-route app. A case is non-trivial when the pattern has at least one parameter and the oracle gave a verdict (not unspecified)",
				maxTok, lits, len(pats), values, neighbourSyms),
			"bounds": map[string]any{"max_tokens": maxTok, "value_alphabet": values, "literal_alphabet": lits, "neighbour_symbols": neighbourSyms, "neighbours_for_patterns_up_to_tokens": neighbourTok, "patterns": len(pats), "configs": 8},
		},
		Assumptions: []string{
			"handler-level drive: app.Handler() through fx.CallInto with a Host header; fasthttp request-line parsing is not re-checked (paths with a raw space are not sent)",
			"'a literal that follows a parameter' is read as the single literal token after the parameter, overlapping occurrences, case-folded when the router folds case: fillings excluded by this reading are not judged",
			"slash-added is judged only for paths without a trailing slash; for a trailing greedy parameter both v and v+'/' are accepted; must-not is demanded only when a permissive reference matcher (incl. the documented optional slash before trailing optional parameters) cannot describe the path",
			"constraints, escapes and adjacent parameters are outside this check (C02 / not delimited); random larger patterns of the quantifier are not sampled",
		},
		MinOutcomes: 4,
	}
	r.Finish(ev)
}
