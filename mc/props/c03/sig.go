package main

import (
	"fmt"
	"sort"
	"strings"

	"github.com/gofiber/fiber/v3"

	"verifmc/core"
)

// Signatures name the failing input class. Classes are decided from the inputs
// (and, for oracle (b), from metamorphic re-queries of RoutePatternMatch), never
// from counters; whatever does not fall into a named class keeps the pattern
// parameter profile and configuration in its signature so that a new root cause is a new signature.

func allSlashes(s string) bool { return strings.Trim(s, "/") == "" }

// inputClass classifies (pattern, path, config) by features of the input.
func inputClass(p *pat, path string, c rcfg) string {
	norm := normalised(path, c)
	switch {
	case allSlashes(norm):
		return "path-of-slashes-only"
	case !c.Strict && optionalTailAfterSlashes(p):
		// decided from the pattern alone: a path that merely ends in several slashes (empty optional
		// parameters after '/' literals) is handled by the router and must not hide a new defect
		return "StrictRouting=0 2+-trailing-slashes (in the path, or in the pattern before its optional tail)"
	case len(norm) < 3 && len(p.runs) > 0 && len(p.runs[0]) >= 3 && p.toks[0].kind == kLit:
		return "path<3-bytes-after-normalisation,first-literal>=3-bytes"
	case paramBeforeSlashRun(p, c):
		return "parameter-followed-by-literal-of-2+-slashes-only"
	case c.Unesc && plusInLiteral(p):
		// last: a pattern that also falls into one of the classes above fails for that (known) reason whether or
		// not the '+' is decoded; the '+' class is for patterns that have nothing else special about them
		return plusClass
	}
	return ""
}

// plusClass: with UnescapePath a raw '+' of the request path is decoded like a form value.
const plusClass = "UnescapePath=1 raw-'+'-in-path (decoded to a space)"

func plusInLiteral(p *pat) bool {
	for _, t := range p.toks {
		if t.kind == kLit && strings.IndexByte(t.text, '+') >= 0 {
			return true
		}
	}
	return false
}

// onlyPlusBecameSpace: every value that differs from the expectation differs by '+' -> ' ' only.
func onlyPlusBecameSpace(got, want []string) bool {
	some := false
	for i := range want {
		if got[i] == want[i] {
			continue
		}
		if w := strings.ReplaceAll(want[i], "+", " "); got[i] != w && got[i] != w+"/" {
			return false
		}
		some = true
	}
	return some
}

// paramBeforeSlashRun: some parameter is followed by a literal run made only of two or
// more slashes (a final run does not count without StrictRouting: registration trims it).
func paramBeforeSlashRun(p *pat, c rcfg) bool {
	for _, ti := range p.ptok {
		j := ti + 1
		run := ""
		for j < len(p.toks) && p.toks[j].kind == kLit {
			run += p.toks[j].text
			j++
		}
		if len(run) >= 2 && allSlashes(run) && (c.Strict || j < len(p.toks)) {
			return true
		}
	}
	return false
}

// optionalTailAfterSlashes: the pattern is <...>"//" followed only by optional parameters (or nothing).
func optionalTailAfterSlashes(p *pat) bool {
	i := len(p.toks)
	// final slashes after a parameter are trimmed at registration (the class is used without StrictRouting only)
	j := i
	for j > 1 && p.toks[j-1].kind == kLit && p.toks[j-1].text == "/" {
		j--
	}
	if j < i && p.toks[j-1].isParam() {
		i = j
	}
	for i > 0 && (p.toks[i-1].kind == kNamedOpt || p.toks[i-1].kind == kStar) {
		i--
	}
	return i >= 2 && p.toks[i-1].kind == kLit && p.toks[i-1].text == "/" && p.toks[i-2].kind == kLit && p.toks[i-2].text == "/"
}

// starByTrimming: without StrictRouting the pattern is registered as "/*".
func starByTrimming(p *pat, c rcfg) bool {
	if c.Strict || len(p.toks) < 3 || p.toks[0].text != "/" || p.toks[1].kind != kStar {
		return false
	}
	for _, t := range p.toks[2:] {
		if t.kind != kLit || t.text != "/" {
			return false
		}
	}
	return true
}

// profile is the coarse structure used by fall-back signatures: each parameter with the delimiter
// that ends it ('$' = end of pattern); literal text is ignored.
func profile(p *pat) string {
	if len(p.keys) == 0 {
		s := "profile=[literal-only"
		if endsWithSlashLiteral(p) {
			s += ",ends-in-slash"
		}
		if p.esc {
			s += ",escaped-literal"
		}
		if p.noSlash {
			s += ",registered-without-leading-slash"
		}
		return s + "]"
	}
	var parts []string
	for i, ti := range p.ptok {
		k := [...]string{"", ":p", ":p?", "*", "+"}[p.toks[ti].kind]
		f := "$"
		if p.follow[i] != "" {
			f = p.follow[i][:1]
		}
		parts = append(parts, k+f)
	}
	if p.esc {
		parts = append(parts, "| escaped-literal")
	}
	if p.noSlash {
		parts = append(parts, "| registered-without-leading-slash")
	}
	return "profile=[" + strings.Join(parts, " ") + "]"
}

func endsWithSlashLiteral(p *pat) bool {
	t := p.toks[len(p.toks)-1]
	return t.kind == kLit && t.text == "/"
}

func relation(got, want string) string {
	switch {
	case got == want+"/":
		return "got=want+'/'"
	case got == "<unset>":
		return "unset"
	case strings.EqualFold(got, want):
		return "case-differs"
	case pctDecode(got) == want || got == pctDecode(want):
		return "encoding-differs"
	case strings.HasPrefix(want, got):
		return "got-is-proper-prefix"
	case strings.HasPrefix(got, want):
		return "got-is-longer"
	case strings.HasSuffix(want, got):
		return "got-is-proper-suffix"
	}
	return "unrelated"
}

func relevantCfg(variant string, c rcfg) string {
	b := func(v bool) string {
		if v {
			return "1"
		}
		return "0"
	}
	switch variant {
	case "upper", "upper-literals":
		return "CaseSensitive=" + b(c.CS)
	case "slash-added", "slash-removed":
		return "StrictRouting=" + b(c.Strict)
	case "enc-values", "enc-all":
		return "UnescapePath=" + b(c.Unesc)
	}
	return ""
}

func sigA(p *pat, v variant, c rcfg, failure string, got []string) string {
	head := "params " + v.name + " " + failure
	switch failure {
	case "no-match":
		if cl := inputClass(p, v.path, c); cl == plusClass {
			return "params no-match " + cl // one root cause whatever the spelling variant
		} else if cl != "" {
			return head + " " + cl
		}
	case "wrong-values":
		rel := "route-path"
		for i := range v.cl.vals {
			if got[i] != v.cl.vals[i] {
				rel = fmt.Sprintf("param#%d(%s) %s", i, p.keys[i], relation(got[i], v.cl.vals[i]))
				break
			}
		}
		if starByTrimming(p, c) {
			return head + " StrictRouting=0 pattern-'/*'+slashes: value keeps the request's trailing slashes"
		}
		if c.Unesc && onlyPlusBecameSpace(got[:len(v.cl.vals)], v.cl.vals) {
			return "params wrong-values " + plusClass
		}
		return head + " " + rel + " cfg=" + c.String() + " " + profile(p)
	case "matched-although-config-says-different":
		if v.name == "slash-removed" && len(p.keys) > 0 && endsWithSlashLiteral(p) {
			return head + " StrictRouting=1 parameterised-pattern-ending-in-'/'-literal"
		}
	}
	return head + " cfg=" + c.String() + " " + profile(p)
}

func sigB(p *pat, path string, c rcfg, hit, rpm bool, fc fiber.Config) string {
	dir := fmt.Sprintf("app=%v RoutePatternMatch=%v", hit, rpm)
	dec := path
	if c.Unesc {
		dec = pctDecode(path)
	}
	trim := func(s string) string {
		if !c.Strict && len(s) > 1 {
			return strings.TrimRight(s, "/")
		}
		return s
	}
	// metamorphic diagnosis: does RoutePatternMatch agree once the path is normalised by hand?
	if cl := inputClass(p, path, c); cl != "" {
		return "rpm " + dir + " " + cl
	}
	if dec != path && fiber.RoutePatternMatch(dec, p.reg, fc) == hit {
		return "rpm " + dir + " agrees-on-hand-decoded-path (UnescapePath ignored)"
	}
	if t := trim(path); t != path && fiber.RoutePatternMatch(t, p.reg, fc) == hit {
		return "rpm " + dir + " agrees-on-hand-trimmed-path (trailing slash of the path not ignored)"
	}
	if t := trim(dec); t != path && fiber.RoutePatternMatch(t, p.reg, fc) == hit {
		return "rpm " + dir + " agrees-on-hand-decoded-and-trimmed-path"
	}
	return "rpm " + dir + " cfg=" + c.String() + " " + profile(p)
}

// collapseConfigs rewrites fall-back signatures ("... cfg=CSx/Stricty/Unescz ...") that occur for a
// whole sub-cube of the 8 configurations into one signature naming only the bits that matter
// ("cfg=Strict1", or "cfg=any"). Computed from the complete, merged violation set: deterministic.
func collapseConfigs(in map[string]*core.Violation) map[string]*core.Violation {
	type member struct {
		cfg int
		sig string
	}
	groups := map[string][]member{}
	out := map[string]*core.Violation{}
	for sig := range in {
		i := strings.Index(sig, " cfg=CS")
		if i < 0 || len(sig) < i+len(" cfg=CS0/Strict0/Unesc0") {
			out[sig] = in[sig]
			continue
		}
		c := sig[i+5 : i+len(" cfg=CS0/Strict0/Unesc0")]
		var cs, st, un int
		if _, err := fmt.Sscanf(c, "CS%d/Strict%d/Unesc%d", &cs, &st, &un); err != nil {
			out[sig] = in[sig]
			continue
		}
		key := sig[:i] + " cfg=\x00" + sig[i+len(" cfg=CS0/Strict0/Unesc0"):]
		groups[key] = append(groups[key], member{cs | st<<1 | un<<2, sig})
	}
	names := []string{"CS", "Strict", "Unesc"}
	for key, ms := range groups {
		set := 0
		for _, m := range ms {
			set |= 1 << m.cfg
		}
		free := 0
		for b := 0; b < 3; b++ {
			indep := true
			for _, m := range ms {
				if set&(1<<(m.cfg^(1<<b))) == 0 {
					indep = false
				}
			}
			if indep {
				free++
			}
		}
		if free == 0 || len(ms) != 1<<free {
			for _, m := range ms {
				out[m.sig] = in[m.sig]
			}
			continue
		}
		sort.Slice(ms, func(i, j int) bool { return ms[i].cfg < ms[j].cfg })
		var fixed []string
		for b := 0; b < 3; b++ {
			if set&(1<<(ms[0].cfg^(1<<b))) == 0 {
				fixed = append(fixed, fmt.Sprintf("%s%d", names[b], ms[0].cfg>>b&1))
			}
		}
		label := "any"
		if len(fixed) > 0 {
			label = strings.Join(fixed, "/")
		}
		merged := *in[ms[0].sig]
		merged.Signature = strings.Replace(key, "\x00", label, 1)
		merged.Count = 0
		for _, m := range ms {
			merged.Count += in[m.sig].Count
		}
		out[merged.Signature] = &merged
	}
	return out
}
