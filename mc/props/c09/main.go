// C09 — content negotiation picks the offer the RFC 9110 preference order dictates.
//
// Bounded exhaustive enumeration of the real Accepts / AcceptsCharsets /
// AcceptsEncodings / AcceptsLanguages / Format / AutoFormat (driven through
// app.Handler() on a network-free connection) against the reference in ref.go:
//
//	media    all Accept headers of <= N ranges over a range alphabet (type x params x
//	         q-form) x separators x all ordered offer lists of <= 3 distinct offers
//	tokens   the same for Accept-Charset / -Encoding / -Language over a token alphabet
//	long     headers of 13..16 ranges (long.go): range i is the i-th of 16 fixed distinct
//	         types / tokens in one class of a small key-class alphabet (q classes, exact vs
//	         type wildcard, with / without a parameter), ALL class assignments x every single
//	         offer and ordered pair of offers, offer i being acceptable to range i only -
//	         the ordering of the statement over a whole long header, position tie-break included
//	repeat   two identical calls inside one handler (getOffer writes into the header
//	         buffer): the second answer is judged too
//	format   Format over handler lists incl. "default", AutoFormat
//	pool     every ordered pair of headers of a 40-header sub-alphabet back-to-back on
//	         one app, in a GOMAXPROCS=1 worker process (so that the parameter-map pool
//	         really recycles and can be flushed cheaply): the second answer must equal
//	         the answer the same request gets on a flushed pool
//	totality every byte string of <= L symbols of a hostile alphabet as header
//	near / weights / inner / wide (audit.go): near-miss names (ranges and offers one
//	         component away from a probe: prefix / extension / other value), the spellings
//	         of a weight and weights differing in the 2nd / 3rd decimal, the grammar inside
//	         one range (SP / HTAB around ';', quoted-strings with ',' ';' and quoted-pairs),
//	         offer / handler lists of 9..12 entries
//
// One request carries one header; the handler asks for every offer list in turn
// (the header bytes are restored before each call), so one evaluation is one call
// of the real function. A violating case is reported only when it is minimal (no
// single range / byte / offer can be removed without losing the disagreement); it
// is then simplified (parameters, q-form, separator, concrete type, offer spelling
// are replaced by canonical spellings as long as the disagreement stays) and the
// signature names what is left: the non-canonical syntax that is needed for the
// failure, or - if none is left - the abstract shape of the case. The signature is
// a pure function of the case, hence deterministic.
package main

import (
	"fmt"
	"hash/fnv"
	"os"
	"runtime"
	"runtime/pprof"
	"sort"
	"strings"
	"sync"
	"syscall"
	"time"

	"github.com/gofiber/fiber/v3"
	"github.com/valyala/fasthttp"

	"verifmc/core"
	"verifmc/fx"
)

const (
	mAccepts = iota
	mCharsets
	mEncodings
	mLanguages
	mFormat
	mAuto
)

// ---------------------------------------------------------------------------
// header cases

type elem struct{ T, P, Q string } // type / token, media parameters, q-form

func (e elem) String() string { return e.T + e.P + e.Q }

type hcase struct {
	el      []elem
	sep     string
	seps    []string // per gap, overrides sep (only used while simplifying a violation)
	raw     string   // used when el == nil
	present bool
}

func (h hcase) gap(i int) string { // separator before element i (i >= 1)
	if h.seps != nil {
		return h.seps[i-1]
	}
	return h.sep
}

func (h hcase) text() string {
	if h.el == nil {
		return h.raw
	}
	var b strings.Builder
	for i, e := range h.el {
		if i > 0 {
			b.WriteString(h.gap(i))
		}
		b.WriteString(e.T)
		b.WriteString(e.P)
		b.WriteString(e.Q)
	}
	return b.String()
}

// reductions are the cases with one range (or one byte) removed.
func (h hcase) reductions() []hcase {
	var out []hcase
	if !h.present {
		return nil
	}
	if h.el != nil {
		if len(h.el) < 2 {
			return nil
		}
		for k := range h.el {
			ne := append(append([]elem(nil), h.el[:k]...), h.el[k+1:]...)
			out = append(out, hcase{el: ne, sep: h.sep, present: true})
		}
		return out
	}
	for k := 0; k < len(h.raw); k++ {
		if len(h.raw) == 1 {
			break // the empty header is the "absent" case, a different thing
		}
		out = append(out, hcase{raw: h.raw[:k] + h.raw[k+1:], present: true})
	}
	return out
}

// ---------------------------------------------------------------------------
// families (one negotiated function + its offer alphabet and offer lists)

type family struct {
	name   string
	mode   int
	header string
	media  bool
	offers []string
	roff   []refOffer
	lists  [][]int
	slists [][]string
	rlists [][]int // what the reference sees (Format: without "default")
	sub    [][]int // lists with one entry removed
	repeat bool    // call twice inside the handler, judge the second answer

	long    bool   // long-header family (long.go): offer i belongs to range i, own violation handling
	oname   string // name used in outcome keys (default: name)
	classes string // long-header family: the key-class alphabet, for signatures
	literal bool   // signatures keep the type names as written (near-miss families: the relation between the names is the point)
}

func orderedLists(n, maxLen int) [][]int {
	var out [][]int
	var rec func(cur []int)
	rec = func(cur []int) {
		if len(cur) > 0 {
			out = append(out, append([]int(nil), cur...))
		}
		if len(cur) == maxLen {
			return
		}
	next:
		for i := 0; i < n; i++ {
			for _, c := range cur {
				if c == i {
					continue next
				}
			}
			rec(append(cur, i))
		}
	}
	rec(nil)
	return out
}

func mkFamily(name string, mode int, header string, media bool, offers []string, lists [][]int) *family {
	f := &family{name: name, mode: mode, header: header, media: media, offers: offers, lists: lists}
	for _, o := range offers {
		f.roff = append(f.roff, refParseOffer(o))
	}
	idx := map[string]int{}
	for li, l := range lists {
		idx[fmt.Sprint(l)] = li
		var s []string
		var rl []int
		for _, o := range l {
			s = append(s, offers[o])
			if !(mode == mFormat && offers[o] == "default") {
				rl = append(rl, o)
			}
		}
		f.slists = append(f.slists, s)
		f.rlists = append(f.rlists, rl)
	}
	for _, l := range lists {
		var subs []int
		if len(l) > 1 {
			for k := range l {
				nl := append(append([]int(nil), l[:k]...), l[k+1:]...)
				if j, ok := idx[fmt.Sprint(nl)]; ok {
					subs = append(subs, j)
				}
			}
		}
		f.sub = append(f.sub, subs)
	}
	return f
}

// ---------------------------------------------------------------------------
// worker: one app, one reusable request context

type worker struct {
	h    fasthttp.RequestHandler
	fctx fasthttp.RequestCtx
	req  fasthttp.Request

	mode     int
	hname    string
	hdr      string
	present  bool
	repeat   bool
	lists    [][]string
	res      []string
	pan      []string
	aux      []string
	fmtH     map[string]fiber.Handler
	chosen   string
	vary     int64
	fmtCalls int64

	bufRes, bufPan, bufAux []string
	bad                    []bool
	oneRes, onePan, oneAux []string

	longSink map[string]*core.Violation // long-header families: violations of the current work item
}

func (w *worker) acc(c fiber.Ctx, i int) {
	defer func() {
		if p := recover(); p != nil {
			w.pan[i] = fmt.Sprint(p)
		}
	}()
	l := w.lists[i]
	// getOffer lower-cases parameter names inside the request header buffer; put the
	// original bytes back so that every call of the batch sees the header as sent.
	if w.present {
		if b := c.Request().Header.Peek(w.hname); len(b) == len(w.hdr) {
			copy(b, w.hdr)
		}
	}
	if w.repeat {
		// two identical calls in one handler; the second is the observed answer, the
		// first is kept (in aux) when it differs
		var first, second string
		switch w.mode {
		case mAccepts:
			first = c.Accepts(l...)
			second = c.Accepts(l...)
		case mLanguages:
			first = c.AcceptsLanguages(l...)
			second = c.AcceptsLanguages(l...)
		}
		w.res[i] = second
		if first != second {
			w.aux[i] = "repeat-first:" + first
		}
		return
	}
	switch w.mode {
	case mAccepts:
		w.res[i] = c.Accepts(l...)
	case mCharsets:
		w.res[i] = c.AcceptsCharsets(l...)
	case mEncodings:
		w.res[i] = c.AcceptsEncodings(l...)
	case mLanguages:
		w.res[i] = c.AcceptsLanguages(l...)
	}
}

func newWorker() *worker {
	w := &worker{fmtH: map[string]fiber.Handler{}}
	app := fiber.New()
	app.Get("/", func(c fiber.Ctx) (err error) {
		switch w.mode {
		case mFormat:
			defer func() {
				if p := recover(); p != nil {
					w.pan[0] = fmt.Sprint(p)
					err = nil
				}
			}()
			hs := make([]fiber.ResFmt, 0, 4)
			for _, mt := range w.lists[0] {
				hs = append(hs, fiber.ResFmt{MediaType: mt, Handler: w.fmtH[mt]})
			}
			return c.Format(hs...)
		case mAuto:
			defer func() {
				if p := recover(); p != nil {
					w.pan[0] = fmt.Sprint(p)
					err = nil
				}
			}()
			return c.AutoFormat("x")
		default:
			for i := range w.lists {
				w.acc(c, i)
			}
		}
		return nil
	})
	w.h = app.Handler()
	return w
}

func (w *worker) formatHandler(mt string) fiber.Handler {
	if h, ok := w.fmtH[mt]; ok {
		return h
	}
	h := func(c fiber.Ctx) error { w.chosen = mt; return c.SendString("body:" + mt) }
	w.fmtH[mt] = h
	return h
}

var autoCT = []struct{ ct, offer string }{{"text/html", "html"}, {"application/json", "json"}, {"text/plain", "txt"}, {"application/xml", "xml"}}

// call runs the implementation on one header for all given offer lists; results go to res/pan/aux.
func (w *worker) call(f *family, hdr string, present bool, slists [][]string, res, pan, aux []string) {
	for i := range slists {
		res[i], pan[i], aux[i] = "", "", ""
	}
	w.req.Reset()
	w.req.Header.SetMethod("GET")
	w.req.SetRequestURI("http://example.com/")
	if present {
		w.req.Header.Set(f.header, hdr)
	}
	w.mode, w.res, w.pan, w.aux = f.mode, res, pan, aux
	w.hname, w.hdr, w.present, w.repeat = f.header, hdr, present, f.repeat
	switch f.mode {
	case mFormat:
		for i, l := range slists {
			hasDefault := false
			for _, mt := range l {
				w.formatHandler(mt)
				hasDefault = hasDefault || mt == "default"
			}
			w.lists = slists[i : i+1]
			w.res, w.pan, w.aux = res[i:i+1], pan[i:i+1], aux[i:i+1]
			w.chosen = ""
			fx.CallInto(&w.fctx, w.h, &w.req, nil, false)
			status := w.fctx.Response.StatusCode()
			ct := string(w.fctx.Response.Header.ContentType())
			w.fmtCalls++
			if string(w.fctx.Response.Header.Peek("Vary")) == "Accept" {
				w.vary++
			}
			switch {
			case pan[i] != "":
			case w.chosen != "" && w.chosen != "default":
				res[i] = w.chosen
				if status != 200 {
					aux[i] = fmt.Sprintf("format-status: handler %q ran, status %d", w.chosen, status)
				} else if ct != w.chosen {
					aux[i] = "format-content-type: differs from the media type of the handler that ran"
				}
			case w.chosen == "default":
				if status != 200 {
					aux[i] = fmt.Sprintf("format-status: default handler ran, status %d", status)
				}
			default: // no handler ran
				if hasDefault {
					aux[i] = fmt.Sprintf("format-none-handling: default handler present but no handler ran (status %d)", status)
				} else if status != fiber.StatusNotAcceptable {
					aux[i] = fmt.Sprintf("format-none-handling: no handler ran, status %d instead of 406", status)
				}
			}
		}
	case mAuto:
		w.lists = slists[:1]
		fx.CallInto(&w.fctx, w.h, &w.req, nil, false)
		ct := string(w.fctx.Response.Header.ContentType())
		res[0] = "ct:" + ct
		for _, a := range autoCT {
			if strings.HasPrefix(ct, a.ct) {
				res[0] = a.offer
			}
		}
	default:
		w.lists = slists
		fx.CallInto(&w.fctx, w.h, &w.req, nil, false)
	}
}

// classify compares one observed answer with the admissible set; "" = fine.
func classify(got string, refList []string, mask uint8, judged bool, pan, aux string) (kind string, pos int) {
	if pan != "" {
		return "panic", -1
	}
	pos = -1
	if got != "" {
		for k, o := range refList {
			if o == got {
				pos = k
				break
			}
		}
		if pos < 0 {
			return "result-not-an-offer", -1
		}
	}
	if aux != "" {
		return aux[:strings.IndexByte(aux, ':')], pos
	}
	if !judged {
		return "", pos
	}
	if pos < 0 {
		if mask&maskNone == 0 {
			return "got-none-want-offer", pos
		}
		return "", pos
	}
	if mask&(1<<uint(pos)) != 0 {
		return "", pos
	}
	if mask == maskNone {
		return "got-offer-want-none", pos
	}
	return "got-wrong-offer", pos
}

// verdict is classify, except for the "second call in one handler" families: those
// report only a second answer that is wrong although the first answer was right
// (everything else is the business of the plain family and would only be a duplicate).
func verdict(f *family, got string, refList []string, mask uint8, judged bool, pan, aux string) (string, int) {
	if !f.repeat {
		return classify(got, refList, mask, judged, pan, aux)
	}
	if pan != "" {
		return "panic", -1
	}
	first, differs := strings.CutPrefix(aux, "repeat-first:")
	k2, pos := classify(got, refList, mask, judged, "", "")
	if !differs || k2 == "" || k2 == "result-not-an-offer" {
		return "", pos
	}
	if k1, _ := classify(first, refList, mask, judged, "", ""); k1 != "" {
		return "", pos
	}
	return k2, pos
}

func maskText(mask uint8, refList []string) []string {
	var out []string
	for k, o := range refList {
		if mask&(1<<uint(k)) != 0 {
			out = append(out, o)
		}
	}
	if mask&maskNone != 0 {
		out = append(out, "<nothing>")
	}
	return out
}

// single evaluates one (header, offers) case outside the batch.
func (w *worker) single(f *family, hc hcase, offers []string) (kind, got string, want []string) {
	if w.oneRes == nil {
		w.oneRes, w.onePan, w.oneAux = make([]string, 1), make([]string, 1), make([]string, 1)
	}
	hdr := hc.text()
	w.call(f, hdr, hc.present, [][]string{offers}, w.oneRes, w.onePan, w.oneAux)
	var refList []string
	var roff []refOffer
	var list []int
	for _, o := range offers {
		if f.mode == mFormat && o == "default" {
			continue
		}
		list = append(list, len(refList))
		refList = append(refList, o)
		roff = append(roff, refParseOffer(o))
	}
	v := refJudge(hdr, hc.present, f.media, roff, refList)
	var mask uint8 = 0xff
	judged := v.valid
	if judged {
		mask, _ = v.mask(list)
		if f.mode == mAuto && mask&maskNone != 0 {
			judged = false
		}
	}
	kind, _ = verdict(f, w.oneRes[0], refList, mask, judged, w.onePan[0], w.oneAux[0])
	got = w.oneRes[0]
	if w.onePan[0] != "" {
		got = "panic: " + w.onePan[0]
	} else if w.oneAux[0] != "" {
		got += " [" + w.oneAux[0] + "]"
	}
	if judged {
		want = maskText(mask, refList)
	}
	return kind, got, want
}

// ---------------------------------------------------------------------------
// statistics of one work item (flushed into the Local at its end)

type stats struct {
	f                                                          *family
	tag                                                        string
	headers, evals, nontrivial, exact, partial, unjudged, viol int64
	nonminimal, attributed                                     int64
	out                                                        [4][6][2]int64
}

var resNames = [4]string{"nothing", "first-offer", "later-offer", "abnormal"}
var byNames = [6]string{"n/a", "wildcard", "type-wildcard", "exact", "exact+params", "absent-header"}

func (s *stats) flush(l *core.Local) {
	l.Add("evaluations", s.evals)
	l.Add("evaluations_"+s.tag, s.evals)
	l.Add("headers_"+s.tag, s.headers)
	l.Add("nontrivial", s.nontrivial)
	l.Add("judged_exact", s.exact)
	l.Add("unspecified_skipped", s.partial+s.unjudged)
	l.Add("unspecified_partially_judged_membership_only", s.partial)
	l.Add("not_judged_totality_only", s.unjudged)
	l.Add("violating_cases_total", s.viol)
	l.Add("violating_cases_nonminimal_suppressed", s.nonminimal)
	if s.attributed > 0 {
		l.Add("violations_of_"+s.f.name+"_attributed_to_Accepts", s.attributed)
	}
	oname := s.f.name
	if s.f.oname != "" {
		oname = s.f.oname
	}
	for a := range s.out {
		for b := range s.out[a] {
			for c := range s.out[a][b] {
				if n := s.out[a][b][c]; n > 0 {
					l.P.Outcomes[fmt.Sprintf("%s result=%s decided-by=%s preference-order-differs-from-position=%v", oname, resNames[a], byNames[b], c == 1)] += n
				}
			}
		}
	}
	*s = stats{f: s.f, tag: s.tag}
}

// ---------------------------------------------------------------------------
// judging one header against all offer lists of the family

func (w *worker) judge(l *core.Local, f *family, hc hcase, st *stats) {
	n := len(f.slists)
	if len(w.bufRes) < n {
		w.bufRes, w.bufPan, w.bufAux, w.bad = make([]string, n), make([]string, n), make([]string, n), make([]bool, n)
	}
	hdr := hc.text()
	res, pan, aux := w.bufRes[:n], w.bufPan[:n], w.bufAux[:n]
	w.call(f, hdr, hc.present, f.slists, res, pan, aux)
	v := refJudge(hdr, hc.present, f.media, f.roff, f.offers)
	st.headers++
	reordered := 0
	for i := 1; i < len(v.ranges); i++ {
		if v.ranges[i].pos < v.ranges[i-1].pos {
			reordered = 1
		}
	}
	anyBad := false
	var refList [4]string
	sampleAt := -1 // a few non-trivial cases are kept as samples, picked by a hash of the header
	if len(l.P.Samples) < 3 {
		hh := fnv.New32a()
		hh.Write([]byte(hdr))
		if hv := hh.Sum32(); hv%61 == 0 {
			sampleAt = int(hv/61) % n
		}
	}
	for li := 0; li < n; li++ {
		rl := f.rlists[li]
		for k, o := range rl {
			refList[k] = f.offers[o]
		}
		var mask uint8 = 0xff
		winner := -1
		judged := v.valid
		if judged {
			mask, winner = v.mask(rl)
			if f.mode == mAuto && mask&maskNone != 0 {
				judged = false // the statement does not say what AutoFormat sends when nothing is acceptable
			}
		}
		kind, pos := verdict(f, res[li], refList[:len(rl)], mask, judged, pan[li], aux[li])
		st.evals++
		switch {
		case !judged:
			st.unjudged++
		case mask&(mask-1) == 0:
			st.exact++
		default:
			st.partial++
		}
		if judged && mask != 1 && hc.present {
			st.nontrivial++
			if li == sampleAt && kind == "" {
				l.Sample(map[string]any{"function": f.name, "header": hdr, "offers": f.slists[li], "observed": res[li], "admissible": maskText(mask, refList[:len(rl)])})
			}
		}
		a, b := 0, 0
		switch {
		case kind == "panic" || kind == "result-not-an-offer":
			a = 3
		case pos == 0:
			a = 1
		case pos > 0:
			a = 2
		}
		switch {
		case v.absent:
			b = 5
		case winner >= 0:
			r := v.ranges[winner]
			switch {
			case r.spec == 1:
				b = 1
			case f.media && r.spec == 2:
				b = 2
			case len(r.params) > 0:
				b = 4
			default:
				b = 3
			}
		}
		st.out[a][b][reordered]++
		w.bad[li] = kind != ""
		anyBad = anyBad || kind != ""
	}
	if anyBad {
		if f.long {
			w.handleBadLong(f, hc, st, &v, res, pan, aux)
		} else {
			w.handleBad(l, f, hc, st)
		}
	}
}

func (w *worker) handleBad(l *core.Local, f *family, hc hcase, st *stats) {
	n := len(f.slists)
	// candidates: violating lists none of whose one-offer-shorter sublists violates
	var cand []int
	for li := 0; li < n; li++ {
		if !w.bad[li] {
			continue
		}
		st.viol++
		minimal := true
		for _, s := range f.sub[li] {
			if w.bad[s] {
				minimal = false
				break
			}
		}
		if minimal {
			cand = append(cand, li)
		} else {
			st.nonminimal++
		}
	}
	// ... and that stop violating when any one range (byte) is removed
	var refList [4]string
	for _, red := range hc.reductions() {
		if len(cand) == 0 {
			break
		}
		sl := make([][]string, len(cand))
		for i, li := range cand {
			sl[i] = f.slists[li]
		}
		res, pan, aux := make([]string, len(cand)), make([]string, len(cand)), make([]string, len(cand))
		hdr := red.text()
		w.call(f, hdr, red.present, sl, res, pan, aux)
		v := refJudge(hdr, red.present, f.media, f.roff, f.offers)
		keep := cand[:0]
		for i, li := range cand {
			rl := f.rlists[li]
			for k, o := range rl {
				refList[k] = f.offers[o]
			}
			var mask uint8 = 0xff
			judged := v.valid
			if judged {
				mask, _ = v.mask(rl)
				if f.mode == mAuto && mask&maskNone != 0 {
					judged = false
				}
			}
			if kind, _ := verdict(f, res[i], refList[:len(rl)], mask, judged, pan[i], aux[i]); kind != "" {
				st.nonminimal++
			} else {
				keep = append(keep, li)
			}
		}
		cand = keep
	}
	for _, li := range cand {
		w.report(l, f, hc, f.slists[li])
	}
}

// ---------------------------------------------------------------------------
// simplification + signature of a minimal violating case

func offerMime(o string) (mime, params string, ext bool) {
	if i := strings.IndexByte(o, ';'); i >= 0 {
		o, params = o[:i], o[i:]
	}
	if !strings.Contains(o, "/") {
		if m, ok := refExt[o]; ok {
			return m, params, true
		}
		return o, params, true
	}
	return o, params, false
}

// elemCost orders the spellings of one range from canonical (cheap) to exotic.
func elemCost(e elem, firstOfferType string) int {
	c := 0
	switch {
	case strings.HasPrefix(e.T, "x-none"):
	case e.T == firstOfferType:
		c += 100
	default:
		c += 200
	}
	switch {
	case e.P == "":
	case e.P == strings.ToLower(e.P) && !strings.Contains(e.P, `"`):
		c += 10
	case e.P == strings.ToLower(e.P) || !strings.Contains(e.P, `"`):
		c += 20
	default:
		c += 30
	}
	if sp := stripOWS(e.P); sp != e.P {
		c += 3 + len(e.P) - len(sp) // optional whitespace around the ';' of a parameter
	}
	if strings.Contains(e.P, `\`) {
		c += 4 // quoted-pair inside a quoted value
	}
	switch {
	case e.Q == "":
	case strings.HasPrefix(e.Q, ";q=") && strings.Count(e.Q, ";") == 1:
		c++
	default:
		// 2 for the forms with one deviation from ";q=<v>" (one blank, upper-case Q, an accept-ext), more for more
		c += 1 + strings.Count(e.Q, " ") + strings.Count(e.Q, "\t") + strings.Count(e.Q, "Q=") + strings.Count(e.Q, ";") - 1
	}
	return c
}

// lessOWS lists spellings of a parameter / weight text with less optional whitespace:
// none before the ';'s, none after them, runs of blanks shortened (quoted-strings untouched).
func lessOWS(p string) []string {
	if stripOWS(p) == p {
		return nil
	}
	var before, after, short strings.Builder
	inq := false
	for i := 0; i < len(p); i++ {
		c := p[i]
		if inq && c == '\\' && i+1 < len(p) {
			for _, b := range []*strings.Builder{&before, &after, &short} {
				b.WriteByte(c)
				b.WriteByte(p[i+1])
			}
			i++
			continue
		}
		if c == '"' {
			inq = !inq
		}
		if (c == ' ' || c == '\t') && !inq {
			// which side of a ';' is this blank on?
			j := i
			for j < len(p) && (p[j] == ' ' || p[j] == '\t') {
				j++
			}
			pre := j < len(p) && p[j] == ';'
			if !pre {
				before.WriteByte(c)
			} else {
				after.WriteByte(c)
			}
			if !(i+1 < len(p) && (p[i+1] == ' ' || p[i+1] == '\t')) {
				short.WriteByte(c)
			}
			continue
		}
		before.WriteByte(c)
		after.WriteByte(c)
		short.WriteByte(c)
	}
	return []string{before.String(), after.String(), short.String()}
}

// stripOWS removes the optional whitespace (SP / HTAB) outside quoted-strings.
func stripOWS(p string) string {
	if !strings.ContainsAny(p, " \t") {
		return p
	}
	var b strings.Builder
	inq := false
	for i := 0; i < len(p); i++ {
		c := p[i]
		switch {
		case inq && c == '\\' && i+1 < len(p):
			b.WriteByte(c)
			i++
			c = p[i]
		case c == '"':
			inq = !inq
		case (c == ' ' || c == '\t') && !inq:
			continue
		}
		b.WriteByte(c)
	}
	return b.String()
}

// dropQuotedPairs removes the backslash escapes (and the escaped characters) of the quoted values.
func dropQuotedPairs(p string) string {
	var b strings.Builder
	for i := 0; i < len(p); i++ {
		if p[i] == '\\' && i+1 < len(p) {
			i++
			continue
		}
		b.WriteByte(p[i])
	}
	return b.String()
}

var famAcceptsPlain = &family{name: "Accepts", mode: mAccepts, header: "Accept", media: true}

func (w *worker) report(l *core.Local, f *family, hc hcase, offers []string) {
	if f.mode == mFormat || f.mode == mAuto {
		// Format / AutoFormat dispatch on Accepts(types...): when Accepts itself gives the
		// same wrong answer for the same header and types, the case belongs to Accepts
		// (whose enumeration contains it) and is not reported a second time.
		var types []string
		for _, o := range offers {
			if o != "default" {
				types = append(types, o)
			}
		}
		_, gotF, _ := w.single(f, hc, offers)
		if len(types) > 0 {
			if kindA, gotA, _ := w.single(famAcceptsPlain, hc, types); kindA != "" && (gotA == gotF || f.mode == mAuto) {
				l.Add("violations_of_"+f.name+"_attributed_to_Accepts", 1)
				return
			}
		}
	}
	orig := map[string]any{"function": f.name, "header": hc.text(), "header_present": hc.present, "offers": offers}
	historyDependent := func(got string, want []string) {
		// the batch saw a wrong answer, the same request issued again is answered
		// correctly: the answer depends on what was served before (shared state)
		l.Violate(f.name+" answers the same request differently depending on earlier requests",
			"a wrong answer was observed that is not reproduced when the identical request is issued again (state shared between requests)",
			orig, got, want)
	}
	if k0, got0, want0 := w.single(f, hc, offers); k0 == "" {
		historyDependent("(wrong in the batch) then "+got0, want0)
		return
	}
	offers = append([]string(nil), offers...)
	if hc.el != nil {
		hc.el = append([]elem(nil), hc.el...)
		hc.seps = make([]string, len(hc.el)-1)
		for g := range hc.seps {
			hc.seps[g] = hc.sep
		}
	}
	still := func(h hcase, o []string) bool { k, _, _ := w.single(f, h, o); return k != "" }
	for changed := true; changed; {
		changed = false
		firstType := ""
		for _, o := range offers {
			if o != "default" {
				firstType = o
				if f.media {
					firstType, _, _ = offerMime(o)
				}
				break
			}
		}
		// a step is taken only if it lowers the spelling cost of the range, so the loop terminates
		try := func(k int, ne elem) {
			if ne == hc.el[k] || elemCost(ne, firstType) >= elemCost(hc.el[k], firstType) {
				return
			}
			old := hc.el[k]
			hc.el[k] = ne
			if still(hc, offers) {
				changed = true
			} else {
				hc.el[k] = old
			}
		}
		for k := range hc.el {
			e := hc.el[k]
			try(k, elem{e.T, "", e.Q})
			e = hc.el[k]
			try(k, elem{e.T, e.P, ""})
			// canonical spelling of the same meaning: ";q=<value>", lower-case names, unquoted tokens
			e = hc.el[k]
			if eq := strings.IndexByte(e.Q, '='); eq >= 0 {
				v := e.Q[eq+1:]
				if i := strings.IndexByte(v, ';'); i >= 0 {
					v = v[:i]
				}
				try(k, elem{e.T, e.P, ";q=" + v})
			}
			// a range that only has to be there: one that accepts nothing
			if len(hc.el) > 1 {
				if f.media {
					try(k, elem{"x-none/x-none", "", ""})
				} else {
					try(k, elem{"x-none", "", ""})
				}
			}
			e = hc.el[k]
			try(k, elem{e.T, stripOWS(e.P), e.Q})
			for _, np := range lessOWS(hc.el[k].P) {
				try(k, elem{hc.el[k].T, np, hc.el[k].Q})
			}
			for _, nq := range lessOWS(hc.el[k].Q) {
				try(k, elem{hc.el[k].T, hc.el[k].P, nq})
			}
			e = hc.el[k]
			try(k, elem{e.T, e.P, strings.Replace(e.Q, "Q=", "q=", 1)})
			e = hc.el[k]
			try(k, elem{e.T, strings.ToLower(e.P), e.Q})
			e = hc.el[k]
			if strings.Contains(e.P, `"`) && !strings.ContainsAny(e.P, ", \\") {
				try(k, elem{e.T, strings.ReplaceAll(e.P, `"`, ""), e.Q})
			}
		}
		// a quoted value with quoted-pairs: the same value without them, in the range and in
		// every offer that carries it
		for k := range hc.el {
			e := hc.el[k]
			if !strings.Contains(e.P, `\`) {
				continue
			}
			np := dropQuotedPairs(e.P)
			no := append([]string(nil), offers...)
			for j := range no {
				no[j] = strings.ReplaceAll(no[j], e.P, np)
			}
			hc.el[k] = elem{e.T, np, e.Q}
			if still(hc, no) {
				changed = true
				offers = no
			} else {
				hc.el[k] = e
			}
		}
		// a quoted value that cannot be written as a token: rename the parameter to p=1 in
		// the range and in every offer that carries it
		for k := range hc.el {
			e := hc.el[k]
			if !strings.Contains(e.P, `"`) {
				continue
			}
			no := append([]string(nil), offers...)
			for j := range no {
				no[j] = strings.ReplaceAll(no[j], e.P, ";p=1")
			}
			hc.el[k] = elem{e.T, ";p=1", e.Q}
			if still(hc, no) {
				changed = true
				offers = no
			} else {
				hc.el[k] = e
			}
		}
		// ranges that the earlier steps made superfluous
		for k := 0; k < len(hc.el) && len(hc.el) > 1; k++ {
			ne := append(append([]elem(nil), hc.el[:k]...), hc.el[k+1:]...)
			g := k
			if g == len(hc.seps) {
				g--
			}
			ns := append(append([]string(nil), hc.seps[:g]...), hc.seps[g+1:]...)
			cand := hcase{el: ne, seps: ns, sep: hc.sep, present: true}
			if still(cand, offers) {
				hc = cand
				changed = true
				k--
			}
		}
		for g := range hc.seps {
			if hc.seps[g] == "," {
				continue
			}
			old := hc.seps[g]
			hc.seps[g] = ","
			if still(hc, offers) {
				changed = true
			} else {
				hc.seps[g] = old
			}
		}
		if f.media {
			for _, o := range offers {
				if o == "default" {
					continue
				}
				m, _, _ := offerMime(o)
				for k := range hc.el {
					try(k, elem{m, hc.el[k].P, hc.el[k].Q})
				}
				break
			}
			for j, o := range offers {
				if o == "default" {
					continue
				}
				m, p, ext := offerMime(o)
				if f.mode == mAuto {
					break // AutoFormat's offers are fixed
				}
				for _, cand := range []string{m, m + p} {
					if cand == o || (!ext && cand == m+p) {
						continue
					}
					old := offers[j]
					offers[j] = cand
					if still(hc, offers) {
						changed = true
						break
					}
					offers[j] = old
				}
			}
		} else {
			for k := range hc.el {
				try(k, elem{offers[0], hc.el[k].P, hc.el[k].Q})
			}
		}
	}
	kind, got, want := w.single(f, hc, offers)
	if kind == "" { // every accepted step kept the disagreement, so the implementation changed its mind
		historyDependent(got, want)
		return
	}
	sig := signature(f, kind, hc, offers, w.onePan[0])
	cs := map[string]any{"function": f.name, "header": hc.text(), "header_present": hc.present, "offers": offers, "found_as": orig}
	l.Violate(sig, describe(kind, f), cs, got, want)
}

func describe(kind string, f *family) string {
	switch kind {
	case "panic":
		return f.name + " panicked"
	case "result-not-an-offer":
		return f.name + " returned something that is neither one of the offers nor empty"
	case "got-none-want-offer":
		return f.name + " selected nothing although the preference order designates an offer"
	case "got-offer-want-none":
		return f.name + " selected an offer although no live (q>0) range accepts any offer"
	case "got-wrong-offer":
		return f.name + " selected an offer other than the first offer acceptable to the most preferred range"
	}
	return f.name + ": " + kind
}

// signature names the shape of the simplified case. Media types are renamed in
// order of first appearance (T1/s1 ...), parameters, q-forms and separator are literal.
func signature(f *family, kind string, hc hcase, offers []string, pan string) string {
	if kind == "panic" {
		msg := strings.Map(func(r rune) rune {
			if r >= '0' && r <= '9' {
				return '#'
			}
			return r
		}, pan)
		if len(msg) > 60 {
			msg = msg[:60]
		}
		kind = "panic(" + msg + ")"
	}
	if hc.present && hc.el != nil && kind != "result-not-an-offer" && !strings.HasPrefix(kind, "panic") {
		if feat := syntaxFeatures(hc); len(feat) > 0 {
			return fmt.Sprintf("%s misjudges a header with {%s}", f.name, strings.Join(feat, "; "))
		}
	}
	tn, sn := map[string]string{}, map[string]string{}
	// near-miss families: a name that is a proper prefix / suffix of another name of the
	// case (or has one) keeps its spelling - that relation is what the case is about
	keepT, keepS := map[string]bool{}, map[string]bool{}
	if f.literal && f.media {
		var ts, ss []string
		note := func(m string) {
			if sl := strings.IndexByte(m, '/'); sl >= 0 {
				ts, ss = append(ts, m[:sl]), append(ss, m[sl+1:])
			}
		}
		for _, e := range hc.el {
			note(e.T)
		}
		for _, o := range offers {
			if o != "default" {
				m, _, _ := offerMime(o)
				note(m)
			}
		}
		mark := func(names []string, keep map[string]bool) {
			for _, a := range names {
				for _, b := range names {
					if a != b && a != "*" && b != "*" && (strings.HasPrefix(a, b) || strings.HasSuffix(a, b)) {
						keep[a], keep[b] = true, true
					}
				}
			}
		}
		mark(ts, keepT)
		mark(ss, keepS)
	}
	ren := func(m string) string {
		if !f.media {
			return m
		}
		sl := strings.IndexByte(m, '/')
		if sl < 0 {
			return m
		}
		t, s := m[:sl], m[sl+1:]
		if t != "*" && !keepT[t] {
			if _, ok := tn[t]; !ok {
				tn[t] = fmt.Sprintf("T%d", len(tn)+1)
			}
			t = tn[t]
		}
		if s != "*" && !keepS[s] {
			if _, ok := sn[s]; !ok {
				sn[s] = fmt.Sprintf("s%d", len(sn)+1)
			}
			s = sn[s]
		}
		return t + "/" + s
	}
	var hs string
	switch {
	case !hc.present:
		hs = "header=absent"
	case hc.el == nil:
		hs = fmt.Sprintf("raw-header=%q", hc.raw)
	default:
		var rs []string
		for _, e := range hc.el {
			rs = append(rs, ren(e.T)+e.P+e.Q)
		}
		hs = "ranges=[" + strings.Join(rs, " | ") + "]"
		if len(hc.el) > 1 {
			hs += " sep=\",\""
		}
	}
	var ofs []string
	for _, o := range offers {
		if o == "default" || !f.media {
			ofs = append(ofs, o)
			continue
		}
		m, p, ext := offerMime(o)
		if ext {
			ofs = append(ofs, "ext("+ren(m)+")"+p)
		} else {
			ofs = append(ofs, ren(m)+p)
		}
	}
	return fmt.Sprintf("%s %s %s offers=[%s]", f.name, kind, hs, strings.Join(ofs, " | "))
}

// qCategory abstracts the value of a q-form: ";q=0", ";q=<v>", "; q=<v>", ";q=<v>;ext=1", ";Q=<v>".
func qCategory(q string) string {
	if q == "" {
		return ""
	}
	eq := strings.IndexByte(q, '=')
	rest := q[eq+1:]
	tail := ""
	if i := strings.IndexByte(rest, ';'); i >= 0 {
		rest, tail = rest[:i], rest[i:]
	}
	head := strings.ReplaceAll(q[:eq+1], "\t", `\t`)
	if v, ok := parseQ(rest); ok && v == 0 {
		return head + "0" + tail
	}
	return head + "<v>" + tail
}

// syntaxFeatures lists the non-canonical spellings left in a simplified minimal case
// (everything the simplification could not replace by the canonical spelling without
// losing the disagreement): separators other than ",", together with what they follow,
// q-forms other than ";q=<v>", quoted parameter values, upper-case parameter names.
func syntaxFeatures(hc hcase) []string {
	set := map[string]bool{}
	for i, e := range hc.el {
		if i+1 < len(hc.el) {
			if sp := hc.gap(i + 1); sp != "," {
				tail := "a bare range"
				switch {
				case e.Q != "":
					tail = "q-form " + qCategory(e.Q)
				case e.P != "":
					tail = "a parameter"
				}
				set[fmt.Sprintf("separator %q after %s", sp, tail)] = true
			}
		}
		if c := qCategory(e.Q); c != "" && c != ";q=0" && c != ";q=<v>" {
			set["q-form "+c] = true
		}
		if strings.Contains(e.P, `"`) {
			set["quoted parameter value"] = true
		}
		if strings.Contains(e.P, `\`) {
			set["quoted-pair (backslash escape) in a quoted parameter value"] = true
		}
		if stripOWS(e.P) != e.P {
			// the whitespace around the first ';' that has any, e.g. " ;" or ";\t"
			for i := 0; i < len(e.P); i++ {
				if e.P[i] != ';' {
					continue
				}
				a, b := i, i+1
				for a > 0 && (e.P[a-1] == ' ' || e.P[a-1] == '\t') {
					a--
				}
				for b < len(e.P) && (e.P[b] == ' ' || e.P[b] == '\t') {
					b++
				}
				if b-a > 1 {
					set[fmt.Sprintf("media parameter introduced by %q", e.P[a:b])] = true
					break
				}
			}
		}
		if e.P != strings.ToLower(e.P) {
			set["upper-case parameter name"] = true
		}
	}
	var out []string
	for k := range set {
		out = append(out, k)
	}
	sort.Strings(out)
	return out
}

// ---------------------------------------------------------------------------
// worker pool for r.Parallel

type wpool struct {
	mu   sync.Mutex
	free []*worker
}

func (p *wpool) get() *worker {
	p.mu.Lock()
	defer p.mu.Unlock()
	if n := len(p.free); n > 0 {
		w := p.free[n-1]
		p.free = p.free[:n-1]
		return w
	}
	return newWorker()
}
func (p *wpool) put(w *worker) { p.mu.Lock(); p.free = append(p.free, w); p.mu.Unlock() }

var workers wpool

var stopProfile = func() {}

// skip is a debugging aid only (VERIF_ONLY=media,tokens runs just those phases; a run
// restricted this way reports a cap and is never exhaustive).
func skip(tag string) bool {
	only := os.Getenv("VERIF_ONLY")
	if only == "" {
		return false
	}
	for _, o := range strings.Split(only, ",") {
		if o == tag {
			return false
		}
	}
	return true
}

func cpuSeconds() float64 {
	var ru syscall.Rusage
	_ = syscall.Getrusage(syscall.RUSAGE_SELF, &ru)
	return float64(ru.Utime.Sec+ru.Stime.Sec) + float64(ru.Utime.Usec+ru.Stime.Usec)/1e6
}

// enumerate: all headers of 1..maxN ranges over alpha, joined by each separator.
// Work items: every single range and every ordered pair of first two ranges.
func enumerate(r *core.Run, tag string, f *family, alpha []elem, minN, maxN int, seps []string) {
	if skip(tag) {
		return
	}
	N := len(alpha)
	items := N
	if maxN >= 2 {
		items += N * N
	}
	// one accumulator per work item, merged in item order: the case kept per violation
	// signature and the samples do not depend on the scheduling of the goroutines
	locals := make([]*core.Local, items)
	defer func() {
		for _, l := range locals {
			if l != nil {
				r.Merge(l.P)
			}
		}
	}()
	r.Parallel(items, func(it int, _ *core.Local) {
		if r.Expired() {
			r.Cap("wall-clock budget exhausted in phase " + tag)
			return
		}
		w := workers.get()
		defer workers.put(w)
		l := core.NewLocal()
		locals[it] = l
		st := &stats{f: f, tag: tag}
		defer st.flush(l)
		if it < N {
			if minN <= 1 {
				w.judge(l, f, hcase{el: []elem{alpha[it]}, sep: ",", present: true}, st)
			}
			return
		}
		it -= N
		el := make([]elem, 2, maxN)
		el[0], el[1] = alpha[it/N], alpha[it%N]
		var rec func(el []elem)
		rec = func(el []elem) {
			if len(el) >= minN {
				for _, sep := range seps {
					w.judge(l, f, hcase{el: el, sep: sep, present: true}, st)
				}
			}
			if len(el) == maxN {
				return
			}
			for _, e := range alpha {
				rec(append(el, e))
			}
		}
		rec(el)
	})
}

// ---------------------------------------------------------------------------
// alphabets

var mediaTypes = []string{"*/*", "text/*", "text/html", "text/plain", "application/json", "a/b"}
var mediaParams = []string{"", ";level=1", ";a=1;b=2", `;charset="utf-8"`, `;t="x,y"`}
var qForms = []string{"", ";q=1", ";q=0.5", ";q=0.123", ";q=0", "; q=0.5", ";q=0.5;ext=1", ";Q=0.5"}
var separators = []string{",", ", ", " , "}

// further list syntax of RFC 9110 5.6.1 (OWS = SP / HTAB; empty elements are ignored), used for 2 ranges only
var rareSeparators = []string{",\t", ",,"}

var mediaOffers = []string{"html", "json", "txt", "png", "text/html", "text/html;level=1", "text/plain;charset=utf-8",
	"application/json", "a/b;a=1;b=2", `a/b;t="x,y"`, "text/plain"}

var tokens = []string{"*", "utf-8", "gzip", "br", "en", "en-US", "iso-8859-1"}
var tokenQ = []string{"", ";q=1", ";q=0.5", ";q=0.123", ";q=0", "; q=0.5", ";Q=0.5"}

var formatTypes = []string{"text/html", "application/json", "text/plain", "text/html;level=1", "default"}

func product(ts, ps, qs []string) []elem {
	var out []elem
	for _, t := range ts {
		for _, p := range ps {
			for _, q := range qs {
				out = append(out, elem{t, p, q})
			}
		}
	}
	return out
}

// the 60 most distinguishing media ranges (quick tier; closed under nothing but
// chosen so that every type meets every parameter count and the three q levels)
func mediaAlphabet60() []elem {
	out := product(mediaTypes, []string{"", ";level=1", ";a=1;b=2"}, []string{"", ";q=0.5", ";q=0"})
	out = append(out,
		elem{"text/plain", `;charset="utf-8"`, ""},
		elem{"a/b", `;t="x,y"`, ""},
		elem{"text/html", "", "; q=0.5"},
		elem{"text/html", "", ";q=0.5;ext=1"},
		elem{"text/html", "", ";Q=0.5"},
		elem{"*/*", "", ";q=0.123"})
	return out
}

// hostile alphabet for totality
var hostile = []string{"a", "/", "*", ";", "=", ",", `"`, `\`, " ", "q", "0", "."}

// ---------------------------------------------------------------------------
// reference self-test on hand-evaluated examples of the statement (no implementation involved)

func selfTest() {
	type tc struct {
		media   bool
		h       string
		present bool
		offers  []string
		want    []string
	}
	cases := []tc{
		{true, "text/html;q=0.5, application/json", true, []string{"html", "json"}, []string{"json"}},
		{true, "*/*, text/html", true, []string{"json", "html"}, []string{"html"}},
		{true, "text/*, text/plain", true, []string{"html", "txt"}, []string{"txt"}},
		{true, "text/html, text/html;level=1", true, []string{"text/html", "text/html;level=1"}, []string{"text/html;level=1"}},
		{true, "text/plain, text/html", true, []string{"html", "txt"}, []string{"txt"}},
		{true, "text/html;q=0", true, []string{"html"}, []string{"<nothing>"}},
		{true, "text/html;q=0 , */*;q=0.1", true, []string{"html", "json"}, []string{"html"}},
		{true, "", false, []string{"png", "html"}, []string{"png"}},
		{true, "text/html;level=1", true, []string{"text/html"}, []string{"<nothing>"}},
		{true, `a/b;t="x,y", text/html;q=0.9`, true, []string{"html", `a/b;t="x,y"`}, []string{`a/b;t="x,y"`}},
		{true, `text/plain;charset="utf-8"`, true, []string{"text/plain", "text/plain;charset=utf-8"}, []string{"text/plain;charset=utf-8"}},
		{true, "text/html;Q=0.5, text/plain", true, []string{"html", "txt"}, []string{"txt"}},
		{true, "text/html;q=0.5;ext=1, text/plain;q=0.4", true, []string{"txt", "html"}, []string{"html"}},
		{true, "text/html; q=0.2, text/*;q=0.3", true, []string{"txt", "html"}, []string{"txt"}},
		{false, "gzip;q=0.5, br", true, []string{"gzip", "br"}, []string{"br"}},
		{false, "*, br", true, []string{"gzip", "br"}, []string{"br"}},
		{false, "en-US", true, []string{"en", "br"}, []string{"en", "<nothing>"}},
		{false, "en;q=0, *;q=0.1", true, []string{"en"}, []string{"en"}},
		{false, "utf-8;q=0", true, []string{"utf-8"}, []string{"<nothing>"}},
	}
	for _, c := range cases {
		var ro []refOffer
		var list []int
		for i, o := range c.offers {
			ro = append(ro, refParseOffer(o))
			list = append(list, i)
		}
		v := refJudge(c.h, c.present, c.media, ro, c.offers)
		if !v.valid {
			core.Fatal("C09 reference self-test: %q not judged", c.h)
		}
		m, _ := v.mask(list)
		if got := maskText(m, c.offers); fmt.Sprint(got) != fmt.Sprint(c.want) {
			core.Fatal("C09 reference self-test: header %q offers %v: reference says %v, hand evaluation %v", c.h, c.offers, got, c.want)
		}
	}
	for _, bad := range []string{"", "text", "text/html;q=2", "text/html;q=0.1234", `a/b;t="x`, "a/b;a=1;a=2", "*/html", "text/html;level"} {
		if _, ok := refParseHeader(bad, true); ok {
			core.Fatal("C09 reference self-test: %q must not be judged", bad)
		}
	}
}

// ---------------------------------------------------------------------------
// pool recycling: ordered pairs back-to-back on one app, sequentially

func poolPhase(r *core.Run, fam, lang *family) {
	if skip("pool") {
		return
	}
	l := core.NewLocal()
	w := newWorker()
	var sub []hcase
	one := func(es ...elem) { sub = append(sub, hcase{el: es, sep: ",", present: true}) }
	for _, t := range []string{"*/*", "text/*", "text/html", "a/b"} {
		for _, p := range []string{"", ";level=1", ";a=1;b=2"} {
			for _, q := range []string{"", "; q=0.5"} {
				one(elem{t, p, q})
			}
		}
	}
	one(elem{"text/plain", `;charset="utf-8"`, ""})
	one(elem{"a/b", `;t="x,y"`, ""})
	one(elem{"text/html", ";level=1", ";q=0"})
	one(elem{"a/b", ";a=1;b=2", ";q=0"})
	one(elem{"text/html", "", ";q=0.5;ext=1"})
	one(elem{"text/html", "", ";Q=0.5"})
	one(elem{"text/html", ";level=1", ";q=0.5"}, elem{"text/plain", "", "; q=0.5"})
	one(elem{"text/plain", "", "; q=0.5"}, elem{"text/html", ";level=1", ";q=0.5"})
	one(elem{"a/b", ";a=1;b=2", ""}, elem{"*/*", "", "; q=0.1"})
	one(elem{"*/*", "", "; q=0.5"}, elem{"text/*", "", "; q=0.5"})
	one(elem{"text/html", ";level=1", ";q=0"}, elem{"text/html", "", "; q=0.5"})
	one(elem{"text/html", "", ""}, elem{"application/json", "", ";q=0.5"})
	one(elem{"text/html", ";level=1", ";q=0.5"})
	one(elem{"text/html", ";Level=1", ""})
	one(elem{"text/*", ";a=1;b=2", ";q=0.5"}, elem{"text/html", "", ""})
	one(elem{"a/b", `;t="x,y"`, ";q=0.5"}, elem{"a/b", ";a=1;b=2", ""})
	var lsub []hcase
	for _, es := range [][]elem{
		{{"en", "", "; q=0.5"}, {"gzip", "", "; q=0.5"}}, {{"gzip", "", "; q=0.5"}, {"en", "", "; q=0.5"}},
		{{"*", "", "; q=0.5"}, {"br", "", "; q=0.5"}}, {{"br", "", "; q=0.5"}, {"*", "", "; q=0.5"}},
		{{"en", "", "; q=0.2"}, {"br", "", "; q=0.3"}, {"gzip", "", "; q=0.3"}}, {{"utf-8", "", "; q=0.5"}},
		{{"en", "", ""}, {"br", "", "; q=1"}}, {{"br", "", "; q=1"}, {"en", "", ""}},
		{{"gzip", "", ";q=0.5"}, {"br", "", "; q=0.5"}}, {{"br", "", "; q=0.5"}, {"gzip", "", ";q=0.5"}},
	} {
		lsub = append(lsub, hcase{el: es, sep: ", ", present: true})
	}
	res1, pan1, aux1 := make([]string, 1), make([]string, 1), make([]string, 1)
	flush := func() { runtime.GC(); runtime.GC() }
	run := func(f *family, h hcase, li int) string {
		w.call(f, h.text(), true, f.slists[li:li+1], res1, pan1, aux1)
		if pan1[0] != "" {
			return "panic: " + pan1[0]
		}
		return res1[0]
	}
	// answers on a flushed pool
	fresh := func(f *family, hs []hcase) [][]string {
		out := make([][]string, len(hs))
		for bi, b := range hs {
			out[bi] = make([]string, len(f.slists))
			for li := range f.slists {
				flush()
				out[bi][li] = run(f, b, li)
			}
		}
		return out
	}
	pairs := func(fa *family, as []hcase, fb *family, bs []hcase, tag string) {
		fr := fresh(fb, bs)
		for _, a := range as {
			for bi, b := range bs {
				for li := range fb.slists {
					run(fa, a, li%len(fa.slists))
					got := run(fb, b, li)
					l.Add("evaluations", 1)
					l.Add("pool_pairs_"+tag, 1)
					if a.text() != b.text() {
						l.Add("nontrivial", 1)
					}
					l.Outcome(fmt.Sprintf("pool-pair %s second-equals-flushed-pool-answer=%v", tag, got == fr[bi][li]))
					if got != fr[bi][li] {
						np := 0
						for _, e := range a.el {
							if c := strings.Count(e.P, "="); c > np {
								np = c
							}
						}
						sig := fmt.Sprintf("pool-recycling %s: answer differs from the flushed-pool answer after a request whose ranges carried up to %d parameter(s)", tag, np)
						l.Violate(sig, "the answer to a request depends on the request served before it (recycled parameter map)",
							map[string]any{"first_function": fa.name, "first_header": a.text(), "second_function": fb.name, "second_header": b.text(), "offers": fb.slists[li]},
							got, fr[bi][li])
					}
				}
			}
		}
	}
	pairs(fam, sub, fam, sub, "Accepts->Accepts")
	pairs(fam, sub, lang, lsub, "Accepts->AcceptsLanguages")
	l.Add("pool_subalphabet_headers", int64(len(sub)))
	r.Merge(l.P)
}

// capShapes keeps the report readable when the implementation is wrong wholesale (a
// semantic mutant produces hundreds of minimal shapes): per function and kind the
// first maxShapes full-shape signatures in lexical order are kept (a deterministic
// choice, the set of minimal shapes being a function of the implementation), the
// others are folded into one overflow signature. Syntax-class signatures are never folded.
const maxShapes = 12

func capShapes(r *core.Run) {
	groups := map[string][]string{}
	for sig := range r.P.Violations {
		for _, mark := range []string{" ranges=[", " raw-header="} {
			if i := strings.Index(sig, mark); i >= 0 {
				groups[sig[:i]] = append(groups[sig[:i]], sig)
				break
			}
		}
	}
	for g, sigs := range groups {
		if len(sigs) <= maxShapes {
			continue
		}
		sort.Strings(sigs)
		over := &core.Violation{Signature: g + " (further minimal shapes beyond the first " + fmt.Sprint(maxShapes) + ")",
			What: "more distinct minimal violating shapes of the same function and kind than are listed individually"}
		for _, sig := range sigs[maxShapes:] {
			v := r.P.Violations[sig]
			if over.Case == nil {
				over.Case, over.Observed, over.Expected = v.Case, v.Observed, v.Expected
			}
			over.Count += v.Count
			delete(r.P.Violations, sig)
		}
		r.P.Violations[over.Signature] = over
		r.Add("minimal_shapes_folded_into_overflow_signatures", int64(len(sigs)-maxShapes))
	}
}

// ---------------------------------------------------------------------------
// totality: every string of <= maxLen symbols of the hostile alphabet

func totality(r *core.Run, fams []*family, maxLen int) {
	if skip("totality") {
		return
	}
	S := len(hostile)
	// work items: first two symbols (S*S), plus the strings shorter than 2
	r.Parallel(S*S+S+1, func(it int, l *core.Local) {
		if r.Expired() {
			r.Cap("wall-clock budget exhausted in phase totality")
			return
		}
		w := workers.get()
		defer workers.put(w)
		for _, f := range fams {
			st := &stats{f: f, tag: "totality_" + f.name}
			switch {
			case it == S*S+S:
				w.judge(l, f, hcase{raw: "", present: true}, st) // present but empty
				w.judge(l, f, hcase{present: false}, st)         // absent
			case it >= S*S:
				w.judge(l, f, hcase{raw: hostile[it-S*S], present: true}, st)
			default:
				var rec func(s string, n int)
				rec = func(s string, n int) {
					w.judge(l, f, hcase{raw: s, present: true}, st)
					if n == maxLen {
						return
					}
					for _, c := range hostile {
						rec(s+c, n+1)
					}
				}
				rec(hostile[it/S]+hostile[it%S], 2)
			}
			st.flush(l)
		}
	})
}

// ---------------------------------------------------------------------------

func main() {
	core.SuperviseSelf("C09") // a runtime fatal error inside the code under test is a finding, not a harness error
	r := core.Start("C09")
	selfTest()
	quick := r.Quick()
	t0 := time.Now()
	if pf := os.Getenv("VERIF_CPUPROFILE"); pf != "" && !r.IsWorker() {
		if fh, err := os.Create(pf); err == nil {
			_ = pprof.StartCPUProfile(fh)
			stopProfile = pprof.StopCPUProfile
		}
	}
	if os.Getenv("VERIF_ONLY") != "" {
		r.Cap("debug run restricted by VERIF_ONLY=" + os.Getenv("VERIF_ONLY"))
	}
	phase := func(name string) {
		if os.Getenv("VERIF_DEBUG") != "" {
			fmt.Fprintf(os.Stderr, "[c09] %-12s done at wall %6.1fs cpu %7.1fs evaluations=%d\n", name, time.Since(t0).Seconds(), cpuSeconds(), r.P.Counters["evaluations"])
		}
	}

	all3 := orderedLists(len(mediaOffers), 3)
	all2 := orderedLists(len(mediaOffers), 2)
	famA := mkFamily("Accepts", mAccepts, "Accept", true, mediaOffers, all3)
	famA2 := mkFamily("Accepts", mAccepts, "Accept", true, mediaOffers, all2)
	tok3 := orderedLists(len(tokens), 3)
	tok2 := orderedLists(len(tokens), 2)
	famL := mkFamily("AcceptsLanguages", mLanguages, "Accept-Language", false, tokens, tok3)
	famC := mkFamily("AcceptsCharsets", mCharsets, "Accept-Charset", false, tokens, tok3)
	famE := mkFamily("AcceptsEncodings", mEncodings, "Accept-Encoding", false, tokens, tok3)
	famL2 := mkFamily("AcceptsLanguages", mLanguages, "Accept-Language", false, tokens, tok2)
	famC2 := mkFamily("AcceptsCharsets", mCharsets, "Accept-Charset", false, tokens, tok2)
	famE2 := mkFamily("AcceptsEncodings", mEncodings, "Accept-Encoding", false, tokens, tok2)
	famF := mkFamily("Format", mFormat, "Accept", true, formatTypes, orderedLists(len(formatTypes), 3))
	famAuto := mkFamily("AutoFormat", mAuto, "Accept", true, []string{"html", "json", "txt", "xml"}, [][]int{{0, 1, 2, 3}})

	a60 := mediaAlphabet60()
	a240 := product(mediaTypes, mediaParams, qForms)
	tokAlpha := product(tokens, []string{""}, tokenQ)
	bounds := map[string]any{}

	// Default wall-clock budgets keep the tier limits on a busy machine (sized for about
	// 10 s / 5 min on 16 idle cores); phases run cheapest first, so a cap (exhaustive:false)
	// cuts the tail of the biggest product only. -budget overrides.
	if r.Deadline.IsZero() {
		if quick {
			r.Deadline = r.Start.Add(58 * time.Second)
		} else {
			r.Deadline = r.Start.Add(14*time.Minute + 30*time.Second)
		}
	}

	// 1. pool recycling: alone in a GOMAXPROCS=1 worker process (sequential, so that the
	// sync.Pool hands the recycled map straight back and GC flushes are cheap); it runs
	// concurrently with the parallel phases of this process.
	if r.IsWorker() {
		if quick {
			poolPhase(r, famA2, famL2)
		} else {
			poolPhase(r, famA, famL)
		}
		r.Finish(core.Evidence{})
	}
	poolDone := make(chan []string, 1)
	go func() {
		if skip("pool") {
			poolDone <- nil
			return
		}
		poolDone <- r.SpawnWorkers(1, []string{"GOMAXPROCS=1"})
	}()
	bounds["pool"] = "all ordered pairs of a 40-header sub-alphabet (Accepts->Accepts) and 40x10 (Accepts->AcceptsLanguages), back-to-back on one app, per offer list (quick: lists of <=2 offers)"

	// 2. absent header for every function; Format / AutoFormat
	fn := 2
	if !quick {
		fn = 3
	}
	if !skip("format") {
		w := workers.get()
		l := core.NewLocal()
		for _, f := range []*family{famA, famL, famC, famE, famF, famAuto} {
			st := &stats{f: f, tag: "absent"}
			w.judge(l, f, hcase{present: false}, st)
			st.flush(l)
		}
		r.Merge(l.P)
		workers.put(w)
	}
	enumerate(r, "format", famF, a60, 1, fn, separators)
	enumerate(r, "autoformat", famAuto, a60, 1, fn, separators)
	bounds["format"] = fmt.Sprintf("Format: <=%d ranges over the 60-range alphabet x 3 separators x ordered handler lists of <=3 of %v; AutoFormat over the same headers; absent header for every function", fn, formatTypes)
	phase("format")

	// 2a. the families of the clause-coverage audit (audit.go): near-miss names, weight
	// spellings, the grammar inside one range, wide offer / handler lists - small products, early
	nearPhase(r, quick, bounds)
	weightsPhase(r, quick, bounds)
	innerPhase(r, quick, bounds)
	widePhase(r, quick, bounds)
	phase("audit")

	// 2b. long headers (13 and more ranges, see long.go), cheapest product
	longPhase(r, quick, 0, bounds)
	phase("long-0")

	// 3. totality
	tl := 4
	if !quick {
		tl = 5
	}
	totality(r, []*family{famA2, famL2, famC2, famE2, famF, famAuto}, tl)
	bounds["totality"] = fmt.Sprintf("all strings of <=%d symbols over %q as header value, x ordered lists of <=2 offers (Format: <=3 handlers)", tl, hostile)
	phase("totality")

	// 4. rare list syntax
	enumerate(r, "media_rare_sep", famA, a60, 2, 2, rareSeparators)
	enumerate(r, "tokens_rare_sep", famL, tokAlpha, 2, 2, rareSeparators)
	bounds["rare_separators"] = "Accept (60-range alphabet) and Accept-Language (49-range alphabet): 2 ranges joined by ',<HTAB>' and ',,' x ordered lists of <=3 offers"

	// 5. second call inside the same handler (getOffer writes into the header buffer)
	famA2r := mkFamily("Accepts(2nd call in one handler)", mAccepts, "Accept", true, mediaOffers, all2)
	famA2r.repeat = true
	famL2r := mkFamily("AcceptsLanguages(2nd call in one handler)", mLanguages, "Accept-Language", false, tokens, tok2)
	famL2r.repeat = true
	aRep := append(append([]elem(nil), a60...), elem{"text/html", ";Level=1", ""}, elem{"a/b", ";A=1;b=2", ";q=0.5"})
	rn := 2
	if !quick {
		rn = 3
	}
	enumerate(r, "repeat", famA2r, aRep, 1, rn, separators)
	enumerate(r, "repeat", famL2r, tokAlpha, 1, rn, separators)
	bounds["repeat"] = fmt.Sprintf("second of two identical calls in one handler: Accept <=%d ranges over the 60-range alphabet + 2 ranges with upper-case parameter names, Accept-Language <=%d ranges; x lists of <=2 offers", rn, rn)
	phase("repeat")

	// 6. token headers
	otherSeps := separators[1:]
	t14 := product(tokens, []string{""}, []string{"", ";q=0.5"})
	t4 := product(tokens, []string{""}, []string{"", ";q=0.5", ";q=0", "; q=0.5"})
	if quick {
		enumerate(r, "tokens", famL, tokAlpha, 1, 2, separators)
		enumerate(r, "tokens", famC2, tokAlpha, 1, 2, separators)
		enumerate(r, "tokens", famE2, tokAlpha, 1, 2, separators)
		enumerate(r, "tokens", famL2, tokAlpha, 3, 3, separators[:1])
		enumerate(r, "tokens_sep", famL2, t14, 3, 3, otherSeps)
		bounds["tokens"] = "Accept-Language: <=2 ranges over 7 tokens x 7 q-forms x 3 separators x ordered lists of <=3 of 7 tokens, 3 ranges joined by ',' (and over 7 tokens x 2 q-forms joined by ', ' and ' , ') x lists of <=2; Accept-Charset/-Encoding: <=2 ranges x 3 separators x lists of <=2"
	} else {
		for _, f := range []*family{famL, famC, famE} {
			enumerate(r, "tokens", f, tokAlpha, 1, 3, separators)
		}
		enumerate(r, "tokens4", famL, t4, 4, 4, separators[:1])
		bounds["tokens"] = "Accept-Language/-Charset/-Encoding: <=3 ranges over 7 tokens x 7 q-forms x 3 separators x ordered lists of <=3 of 7 tokens; Accept-Language additionally exactly 4 ranges over 7 tokens x 4 q-forms"
	}
	phase("tokens")

	// 6b. long headers, the other products of the tier
	longPhase(r, quick, 1, bounds)
	phase("long-1")

	// 7. media ranges (the biggest products last)
	a16 := product([]string{"*/*", "text/*", "text/html", "text/plain"}, []string{""}, []string{"", ";q=0.5", ";q=0"})
	a16 = append(a16, elem{"text/html", ";level=1", ""}, elem{"text/html", ";level=1", ";q=0.5"}, elem{"text/html", "", "; q=0.5"}, elem{"text/html", "", ";Q=0.5"})
	if quick {
		enumerate(r, "media", famA, a60, 1, 2, separators)
		enumerate(r, "media_sep", famA2, a16, 3, 3, otherSeps)
		enumerate(r, "media", famA2, a60, 3, 3, separators[:1])
		bounds["media"] = fmt.Sprintf("Accept: <=2 ranges over the 60-range alphabet x 3 separators x all ordered lists of <=3 of 11 offers; 3 ranges over the same alphabet joined by ',' "+
			"(and over a %d-range sub-alphabet joined by ', ' and ' , ') x ordered lists of <=2 offers", len(a16))
	} else {
		a4 := product([]string{"*/*", "text/*", "text/html", "text/plain", "a/b"}, []string{"", ";level=1"}, []string{"", ";q=0.5", ";q=0"})
		a4 = append(a4, elem{"a/b", ";a=1;b=2", ""}, elem{"a/b", ";a=1;b=2", ";q=0.5"}, elem{"text/html", "", "; q=0.5"}, elem{"*/*", "", ";q=0.123"},
			elem{"text/html", "", ";Q=0.5"}, elem{"application/json", "", ""})
		a144 := product(mediaTypes, []string{"", ";level=1", ";a=1;b=2", `;t="x,y"`}, []string{"", ";q=0.5", ";q=0.123", ";q=0", "; q=0.5", ";Q=0.5"})
		enumerate(r, "media240", famA, a240, 1, 2, separators)
		enumerate(r, "media", famA, a60, 1, 3, separators[:1])
		enumerate(r, "media4", famA2, a4, 4, 4, separators[:1])
		enumerate(r, "media144", famA2, a144, 3, 3, separators[:1])
		enumerate(r, "media_sep", famA, a60, 2, 3, otherSeps)
		bounds["media"] = fmt.Sprintf("Accept: <=3 ranges over the 60-range alphabet x 3 separators x all ordered lists of <=3 of 11 offers; <=2 ranges over the full 240-range alphabet "+
			"(6 types x 5 parameter forms x 8 q-forms) x 3 separators x the same lists; exactly 3 ranges over a %d-range alphabet (6 types x 4 parameter forms x 6 q-forms) and exactly 4 ranges "+
			"over a %d-range alphabet, joined by ',', x ordered lists of <=2 offers", len(a144), len(a4))
	}
	phase("media")
	longPhase(r, quick, 2, bounds)
	phase("long-2")

	if crashed := <-poolDone; len(crashed) > 0 {
		core.Fatal("C09 pool worker failed: %v", crashed)
	}
	phase("pool-join")
	stopProfile()

	capShapes(r)

	// Vary: Accept is not part of the statement; it is counted, not judged
	var vary, fmtCalls int64
	for _, w := range workers.free {
		vary += w.vary
		fmtCalls += w.fmtCalls
	}
	r.Add("format_responses_with_vary_accept", vary)
	r.Add("format_responses_total", fmtCalls)

	r.Finish(core.Evidence{
		Level:      "exploration",
		Exhaustive: true,
		Coverage: map[string]any{
			"evaluations":         r.P.Counters["evaluations"],
			"distinct_nontrivial": r.P.Counters["nontrivial"],
			"unspecified_skipped": r.P.Counters["unspecified_skipped"],
			"rule": "every header of the bounded product (range alphabet^n x separator; token alphabet^n; hostile-symbol strings) is sent once per offer list " +
				"(all ordered lists of distinct offers up to the bound) through app.Handler(); one evaluation = one call of Accepts*/Format/AutoFormat compared with the " +
				"reference: drop q=0 ranges, order the rest by (q desc, specificity desc, #media-params desc, position asc) - a total order, no ties - and walk ranges in that " +
				"order and offers in caller order; the first acceptable (range, offer) pair is the answer, none => \"\"/default handler/406; absent header => first offer; " +
				"range params must all occur in the offer (name case-insensitive, quotes stripped); first q (any case) is the weight, what follows is accept-ext and ignored. " +
				"Case-only differences and token prefix relations are unspecified (both answers admitted, counted in unspecified_skipped); headers outside the grammar are " +
				"checked for totality only (no panic, result in offers or empty). An evaluation is non-trivial when the header is present and the admissible answer is not " +
				"simply 'the first offer' (or, for pool pairs, when the two headers differ). Long headers (13 and more ranges): every assignment of the classes of a small key-class " +
				"alphabet to a fixed list of distinct types/tokens, offer i acceptable to range i only, x all single offers and ordered offer pairs; judged by the same reference " +
				"(long_evaluations_decided_by_position_alone counts the pairs whose two ranges tie on quality, specificity and parameter count). " +
				"Audit families (bounds near / weights / inner / wide): explicit products around a probe - names one component away from it, every spelling of a weight, " +
				"optional whitespace and quoted-strings inside one range, lists of 9..12 offers / handlers (judged by the same reference, generalised to lists of any length).",
			"bounds": bounds,
		},
		Assumptions: []string{
			"reference model ref.go (RFC 9110 list/parameter grammar + the ordering of the statement) is correct; it is self-tested on hand-evaluated examples at start-up",
			"fasthttp request/response objects behave as on a real connection for header storage (handler-level drive through app.Handler(), no wire parsing)",
			"extension offers html/json/txt/png/xml stand for text/html, application/json, text/plain, image/png, application/xml (documentation)",
			"the pool phase runs alone in a GOMAXPROCS=1 worker process so that sync.Pool hands the recycled map back; its oracle (equality with the flushed-pool answer) does not depend on that",
		},
		MinOutcomes: 6,
	})
}
