// Long headers: 13..16 ranges.
//
// The short families explore every header of <= 3-4 ranges over a rich range alphabet.
// The ordering of the statement (quality, specificity, number of parameters, position)
// is an argmax over the WHOLE header, though, and an implementation may order long
// headers by another code path than short ones (a sort with a small-slice special
// case, a fixed-size buffer that spills, ...). This family is the bounded exhaustive
// product for long headers:
//
//	header   n ranges (n in minN..maxN), range i being the i-th entry of a fixed list of
//	         16 distinct concrete types / tokens, written in one of the key classes of a
//	         small class alphabet (q classes, exact type vs type wildcard, with / without a
//	         media parameter): ALL |classes|^n assignments, canonical spelling, sep ", "
//	offers   offer i is acceptable to range i and to no other range; every single offer
//	         and every ordered pair of distinct offers among the n
//
// The expected answer is the one of the reference in ref.go (nothing new is demanded);
// because offer i belongs to range i only, the answer to the pair (j, i) is decided by
// the relative preference of the ranges i and j alone - in particular, for two ranges
// that tie on quality, specificity and parameter count, by their position.
//
// Violations are not shape-minimised like those of the short families (a long header
// has thousands of minimal shapes); the signature names the function, the kind, the
// class alphabet and a diagnosis: which ordering key the implementation got wrong for
// the two ranges involved, and whether the failure needs the other ranges to be there.
package main

import (
	"fmt"
	"os"
	"sort"
	"strings"
	"time"

	"verifmc/core"
)

// kclass is one way of writing range i: the concrete type or its type wildcard, media
// parameters, q-form.
type kclass struct {
	wild bool
	P, Q string
}

func (k kclass) String() string {
	t := "T/s"
	if k.wild {
		t = "T/*"
	}
	return t + k.P + k.Q
}

func (k kclass) elem(t string, media bool) elem {
	if k.wild && media {
		t = t[:strings.IndexByte(t, '/')] + "/*"
	}
	return elem{t, k.P, k.Q}
}

type classSet struct {
	tag     string
	classes []kclass
	offerP  string // parameters every offer carries (so that parameterised ranges accept their offer)
}

func (c classSet) label(media bool) string {
	var s []string
	for _, k := range c.classes {
		x := k.String()
		if !media {
			x = "tok" + k.Q
		}
		s = append(s, x)
	}
	return "{" + strings.Join(s, " | ") + "}"
}

var (
	csQ2 = classSet{tag: "q2", classes: []kclass{{}, {Q: ";q=0.5"}}}
	csQ3 = classSet{tag: "q3", classes: []kclass{{Q: ";q=0.8"}, {}, {Q: ";q=0.9"}}}
	csS2 = classSet{tag: "spec2", classes: []kclass{{}, {wild: true}}}
	csP2 = classSet{tag: "params2", classes: []kclass{{}, {P: ";level=1"}}, offerP: ";level=1"}
)

// 16 media types with pairwise different top-level types and subtypes, no name a prefix of another.
var longMedia = []string{"text/html", "application/json", "image/png", "audio/mpeg", "video/mp4", "font/woff2", "model/obj", "multipart/mixed",
	"message/rfc822", "example/sample", "haptics/ivs", "chemical/x-pdb", "x-world/x-vrml", "x-conference/x-cooltalk", "x-shader/x-vertex", "x-epoc/x-sisx-app"}

// 16 tokens per token family, none a prefix of another (prefix relations are not pinned down by the statement).
var longLanguages = []string{"en", "fr", "de", "es", "it", "pt", "nl", "sv", "da", "fi", "pl", "cs", "hu", "ro", "tr", "el"}
var longCharsets = []string{"utf-8", "utf-16", "iso-8859-1", "iso-8859-2", "us-ascii", "windows-1252", "windows-1251", "koi8-r",
	"shift_jis", "euc-jp", "euc-kr", "gb2312", "gbk", "big5", "tis-620", "macintosh"}
var longEncodings = []string{"gzip", "br", "deflate", "zstd", "compress", "identity", "x-gzip", "bzip2", "lzma", "xz", "snappy", "lz4", "exi", "pack200-gzip", "dcb", "aes128gcm"}

type longBase struct {
	name   string
	mode   int
	header string
	media  bool
	types  []string
}

var (
	longAccepts   = longBase{"Accepts", mAccepts, "Accept", true, longMedia}
	longFormat    = longBase{"Format", mFormat, "Accept", true, longMedia}
	longLangs     = longBase{"AcceptsLanguages", mLanguages, "Accept-Language", false, longLanguages}
	longChars     = longBase{"AcceptsCharsets", mCharsets, "Accept-Charset", false, longCharsets}
	longEncs      = longBase{"AcceptsEncodings", mEncodings, "Accept-Encoding", false, longEncodings}
	longSelfCheck = false
)

// checkLongAlphabets: the construction relies on "offer i is acceptable to range i only"
// for every class; verified with the reference (not the implementation) at start-up.
func checkLongAlphabets() {
	if longSelfCheck {
		return
	}
	longSelfCheck = true
	for _, b := range []longBase{longAccepts, longLangs, longChars, longEncs} {
		for _, cs := range []classSet{csQ2, csQ3, csS2, csP2} {
			if !b.media && (cs.tag != "q2" && cs.tag != "q3") {
				continue
			}
			for _, k := range cs.classes {
				var els []string
				var offers []string
				var roff []refOffer
				for _, t := range b.types {
					els = append(els, k.elem(t, b.media).String())
					offers = append(offers, t+cs.offerP)
					roff = append(roff, refParseOffer(t+cs.offerP))
				}
				v := refJudge(strings.Join(els, ", "), true, b.media, roff, offers)
				if !v.valid || len(v.ranges) != len(b.types) {
					core.Fatal("C09 long alphabet %s/%s: header not judged by the reference", b.name, cs.tag)
				}
				for ri, r := range v.ranges {
					for j := range offers {
						want := triNo
						if j == r.pos {
							want = triYes
						}
						if v.acc[ri][j] != want {
							core.Fatal("C09 long alphabet %s/%s: range %d vs offer %q is not the identity relation", b.name, cs.tag, r.pos, offers[j])
						}
					}
				}
			}
		}
	}
}

func indexOfPos(rs []refRange, pos int) int {
	for i, r := range rs {
		if r.pos == pos {
			return i
		}
	}
	return -1
}

func ipow(b, e int) int {
	r := 1
	for ; e > 0; e-- {
		r *= b
	}
	return r
}

// enumerateLong: all assignments of the classes of cs to the first n types of b, for
// n in minN..maxN, x all single offers and ordered pairs of distinct offers.
func enumerateLong(r *core.Run, b longBase, cs classSet, minN, maxN int) {
	tag := "long_" + b.name + "_" + cs.tag
	if skip("long") {
		return
	}
	checkLongAlphabets()
	C := len(cs.classes)
	const split = 6 // the classes of the first `split` ranges select the work item (items stay small: the wall-clock cap is checked per item)
	per := ipow(C, split)
	type item struct {
		f *family
		n int
	}
	var fams []item
	for n := minN; n <= maxN; n++ {
		offers := make([]string, n)
		for i := range offers {
			offers[i] = b.types[i] + cs.offerP
		}
		f := mkFamily(b.name, b.mode, b.header, b.media, offers, orderedLists(n, 2))
		f.long = true
		f.oname = b.name + "(13+ ranges)"
		f.classes = cs.label(b.media)
		fams = append(fams, item{f, n})
	}
	items := len(fams) * per
	found := make([]map[string]*core.Violation, items)
	r.Parallel(items, func(it int, l *core.Local) {
		if r.Expired() {
			r.Cap("wall-clock budget exhausted in phase " + tag)
			return
		}
		w := workers.get()
		defer workers.put(w)
		f, n := fams[it/per].f, fams[it/per].n
		st := &stats{f: f, tag: tag}
		defer st.flush(l)
		found[it] = map[string]*core.Violation{}
		w.longSink = found[it]
		defer func() { w.longSink = nil }()
		el := make([]elem, n)
		cls := make([]int, n)
		x := it % per
		for i := 0; i < split; i++ {
			cls[i] = x % C
			x /= C
		}
		rest := ipow(C, n-split)
		var ties, longHeaders, reordered int64
		for a := 0; a < rest; a++ {
			x := a
			for i := split; i < n; i++ {
				cls[i] = x % C
				x /= C
			}
			nlive := 0
			for i := 0; i < n; i++ {
				el[i] = cs.classes[cls[i]].elem(b.types[i], b.media)
				if cs.classes[cls[i]].Q != ";q=0" {
					nlive++
				}
			}
			// measured on the class assignment: ordered pairs (j, i), i < j, whose ranges tie
			// on every key but position (same class, live) - the answer to offers [j, i] is
			// decided by position alone
			for i := 0; i < n; i++ {
				if cs.classes[cls[i]].Q == ";q=0" {
					continue
				}
				for j := i + 1; j < n; j++ {
					if cls[j] == cls[i] {
						ties++
					}
				}
			}
			if nlive > 12 {
				longHeaders++
			}
			for i := 1; i < n; i++ {
				if cls[i] != cls[i-1] {
					reordered++
					break
				}
			}
			w.judge(l, f, hcase{el: el, sep: ", ", present: true}, st)
		}
		l.Add("long_headers", int64(rest))
		l.Add("long_headers_with_more_than_12_live_ranges", longHeaders)
		l.Add("long_headers_with_mixed_key_classes", reordered)
		l.Add("long_evaluations_decided_by_position_alone", ties)
	})
	// violations: merged in work-item order, so that the case kept per signature does not
	// depend on the scheduling of the goroutines
	p := &core.Partial{Violations: map[string]*core.Violation{}}
	for _, m := range found {
		sigs := make([]string, 0, len(m))
		for s := range m {
			sigs = append(sigs, s)
		}
		sort.Strings(sigs)
		for _, s := range sigs {
			if o, ok := p.Violations[s]; ok {
				o.Count += m[s].Count
			} else {
				p.Violations[s] = m[s]
			}
		}
	}
	r.Merge(p)
}

// keyDiff names the first ordering key of the statement on which two ranges differ.
func keyDiff(a, b *refRange) string {
	switch {
	case a.q != b.q:
		return "quality"
	case a.spec != b.spec:
		return "specificity"
	case len(a.params) != len(b.params):
		return "number of parameters"
	}
	return ""
}

// longDiagnosis says what went wrong in terms of the ordering keys of the statement.
// rl are the offers of the call (indices = header positions), mask the admissible answers.
func longDiagnosis(v *refVerdict, rl []int, mask uint8, kind, got string, offers []string) string {
	rangeAt := func(pos int) *refRange {
		if i := indexOfPos(v.ranges, pos); i >= 0 {
			return &v.ranges[i]
		}
		return nil
	}
	switch kind {
	case "got-wrong-offer":
		e, g := -1, -1
		for k, o := range rl {
			if mask == 1<<uint(k) {
				e = o
			}
			if offers[o] == got {
				g = o
			}
		}
		if e < 0 || g < 0 {
			return "an offer other than the designated one was selected"
		}
		re, rg := rangeAt(e), rangeAt(g)
		if re == nil {
			return "an offer other than the designated one was selected"
		}
		if rg == nil {
			return "the offer of a q=0 range was selected instead of the offer of a live range"
		}
		if k := keyDiff(re, rg); k != "" {
			return "the offer of the range that ranks lower by " + k + " was selected"
		}
		return "two ranges tie on quality, specificity and number of parameters and the offer of the LATER one was selected (position does not break the tie)"
	case "got-offer-want-none":
		return "an offer was selected although every range that matches an offer has q=0"
	case "got-none-want-offer":
		return "nothing was selected although a live range matches an offer"
	}
	return kind
}

// handleBadLong reports the violating evaluations of one long header.
func (w *worker) handleBadLong(f *family, hc hcase, st *stats, v *refVerdict, res, pan, aux []string) {
	var refList [4]string
	hdr := hc.text()
	for li := range f.slists {
		if !w.bad[li] {
			continue
		}
		st.viol++
		rl := f.rlists[li]
		for k, o := range rl {
			refList[k] = f.offers[o]
		}
		var mask uint8 = 0xff
		if v.valid {
			mask, _ = v.mask(rl)
		}
		kind, _ := verdict(f, res[li], refList[:len(rl)], mask, v.valid, pan[li], aux[li])
		if kind == "" {
			continue
		}
		offers := f.slists[li]
		got := res[li]
		if pan[li] != "" {
			got = "panic: " + pan[li]
		} else if aux[li] != "" {
			got += " [" + aux[li] + "]"
		}
		var sig string
		if kind == "panic" || kind == "result-not-an-offer" || !v.valid {
			sig = signature(f, kind, hcase{raw: "<" + f.classes + " x 13..16 ranges>", present: true}, nil, pan[li])
		} else {
			if f.mode == mFormat {
				// Format dispatches on Accepts: the same wrong answer of Accepts is reported there
				if kindA, gotA, _ := w.single(famAcceptsPlain, hc, offers); kindA != "" && gotA == res[li] {
					st.attributed++
					continue
				}
			}
			// the header cut down to the ranges that match the offers (header order kept)
			pos := append([]int(nil), rl...)
			sort.Ints(pos)
			core2 := hcase{sep: hc.sep, present: true}
			for _, p := range pos {
				core2.el = append(core2.el, hc.el[p])
			}
			where := "only with the other ranges present"
			if k2, _, _ := w.single(f, core2, offers); k2 != "" {
				where = "also with nothing but the ranges matching the offers in the header"
			}
			what := "types"
			if !f.media {
				what = "tokens"
			}
			sig = fmt.Sprintf("%s %s in a header of 13 or more ranges (distinct %s, key classes %s): %s; %s",
				f.name, kind, what, f.classes, longDiagnosis(v, rl, mask, kind, res[li], f.offers), where)
		}
		if o, ok := w.longSink[sig]; ok {
			o.Count++
			continue
		}
		// first case of this signature in the work item: shrink the header for the report
		// (ranges are removed one at a time as long as the same call still disagrees)
		min := hcase{el: append([]elem(nil), hc.el...), sep: hc.sep, present: true}
		for changed := true; changed; {
			changed = false
			for k := len(min.el) - 1; k >= 0 && len(min.el) > 1; k-- {
				cand := hcase{el: append(append([]elem(nil), min.el[:k]...), min.el[k+1:]...), sep: hc.sep, present: true}
				if kk, _, _ := w.single(f, cand, offers); kk != "" {
					min, changed = cand, true
				}
			}
		}
		cs := map[string]any{"function": f.name, "header": hdr, "header_ranges": len(hc.el), "key_classes": f.classes, "offers": offers,
			"smallest_sub_header_still_misjudged": min.text(), "smallest_sub_header_ranges": len(min.el)}
		w.longSink[sig] = &core.Violation{Signature: sig, What: describe(kind, f) + " (long header)", Case: cs,
			Observed: got, Expected: maskText(mask, refList[:len(rl)]), Count: 1}
	}
}

// longPhase runs one part of the long-header families of the tier (the parts sit at
// different places of the cheapest-first phase order of main):
//
//	part 0  Accepts, q classes, exactly 13 ranges (the cheapest product; early, so that a
//	        wall-clock cap on a busy machine does not cut it)
//	part 1  the other products of the tier, before the big short-header media products
//	part 2  thorough only: three q classes, at the very end
func longPhase(r *core.Run, quick bool, part int, bounds map[string]any) {
	if skip("long") {
		return
	}
	t0 := time.Now()
	run := func(b longBase, cs classSet, minN, maxN int) {
		enumerateLong(r, b, cs, minN, maxN)
		if os.Getenv("VERIF_DEBUG") != "" {
			fmt.Fprintf(os.Stderr, "[c09]   long %-16s %-8s n=%d..%d  +%5.1fs wall, cpu %7.1fs evaluations=%d\n", b.name, cs.tag, minN, maxN, time.Since(t0).Seconds(), cpuSeconds(), r.P.Counters["evaluations"])
		}
	}
	tokenFams := []longBase{longLangs, longChars, longEncs}
	switch {
	case part == 0:
		run(longAccepts, csQ2, 13, 13)
	case part == 1 && quick:
		run(longAccepts, csS2, 13, 13)
		run(longAccepts, csP2, 13, 13)
		for _, b := range tokenFams {
			run(b, csQ2, 13, 13)
		}
		bounds["long"] = "headers of exactly 13 ranges, range i = the i-th of 16 fixed distinct types (tokens) written in one class of a 2-class alphabet, ALL 2^13 class assignments, joined by ', ', " +
			"x every single offer and every ordered pair of distinct offers among the 13 (offer i is acceptable to range i only): Accepts with classes " + csQ2.label(true) + ", " + csS2.label(true) + ", " + csP2.label(true) +
			" (offers T/s;level=1); AcceptsLanguages / AcceptsCharsets / AcceptsEncodings with classes " + csQ2.label(false)
	case part == 1:
		run(longAccepts, csQ2, 14, 16)
		run(longAccepts, csS2, 13, 16)
		run(longAccepts, csP2, 13, 16)
		for _, b := range tokenFams {
			run(b, csQ2, 13, 16)
		}
		run(longFormat, csQ2, 13, 14)
		bounds["long"] = "headers of 13..16 ranges, range i = the i-th of 16 fixed distinct types (tokens) written in one class of a small class alphabet, ALL |classes|^n class assignments, joined by ', ', " +
			"x every single offer and every ordered pair of distinct offers among the n (offer i is acceptable to range i only): Accepts with classes " + csQ2.label(true) + ", " + csS2.label(true) + ", " + csP2.label(true) +
			" (offers T/s;level=1), n = 13..16, and with the three classes " + csQ3.label(true) + ", n = 13; AcceptsLanguages / AcceptsCharsets / AcceptsEncodings with classes " + csQ2.label(false) +
			", n = 13..16; Format (handler singles and ordered pairs) with classes " + csQ2.label(true) + ", n = 13..14"
	case part == 2 && !quick:
		run(longAccepts, csQ3, 13, 13)
	}
}
