// Families added by the clause-coverage audit (see AUDIT.md). Each one varies a
// dimension of the quantifier the older families kept fixed; all of them are judged
// by the reference of ref.go (nothing new is demanded).
//
//	near      near-miss names: ranges and offers that differ from a probe (text/html;level=1,
//	          token en) in ONE component by a proper prefix / an extension / a prefixed letter /
//	          another value - the acceptability predicates so far only ever saw names that
//	          were equal or unrelated, and never a parameter with the same name and another value
//	weights   the spellings of a weight (0 = 0. = 0.0 = 0.000, 1 = 1. = 1.000, 0.5 = 0.50 =
//	          0.500) and weights that differ in the second or third decimal only, on the fast
//	          path (";q=v" alone), behind a media parameter, behind "; " and for the token functions
//	inner     the grammar inside one range: optional whitespace (SP / HTAB) before and after
//	          the ';' of a weight and of a media parameter, quoted-string values with ',' ';'
//	          SP, the empty string and quoted-pairs (\" and \\), offers spelled "type; name=value"
//	wide      offer / handler lists of 9..12 entries (Format collects the types in a slice
//	          pre-sized for 8), "default" at every position class; AutoFormat reaching its last offer
package main

import (
	"fmt"
	"strings"

	"verifmc/core"
)

// enumerateHeaders judges an explicit list of headers (work items of 32 headers, merged in order).
func enumerateHeaders(r *core.Run, tag string, f *family, hs []hcase) {
	if skip(tag) {
		return
	}
	const chunk = 32
	items := (len(hs) + chunk - 1) / chunk
	locals := make([]*core.Local, items)
	r.Parallel(items, func(it int, _ *core.Local) {
		if r.Expired() {
			r.Cap("wall-clock budget exhausted in phase " + tag)
			return
		}
		w := workers.get()
		defer workers.put(w)
		l := core.NewLocal()
		locals[it] = l
		st := &stats{f: f, tag: tag}
		for _, h := range hs[it*chunk : min(len(hs), (it+1)*chunk)] {
			w.judge(l, f, h, st)
		}
		st.flush(l)
	})
	for _, l := range locals {
		if l != nil {
			r.Merge(l.P)
		}
	}
}

func indexOf(xs []string, x string) int {
	for i, y := range xs {
		if y == x {
			return i
		}
	}
	core.Fatal("C09 audit families: %q is not in the offer alphabet", x)
	return -1
}

// singlesAndPairs: every single offer of the alphabet, and the ordered pairs of a sub-alphabet.
func singlesAndPairs(offers, pairOf []string) [][]int {
	var lists [][]int
	for i := range offers {
		lists = append(lists, []int{i})
	}
	for _, a := range pairOf {
		for _, b := range pairOf {
			if a != b {
				lists = append(lists, []int{indexOf(offers, a), indexOf(offers, b)})
			}
		}
	}
	return lists
}

// ---------------------------------------------------------------------------
// near-miss names

func nearPhase(r *core.Run, quick bool, bounds map[string]any) {
	types := []string{"text", "tex", "textx", "xtext"}
	subs := []string{"html", "htm", "htmlx", "xhtml"}
	// ";level=1;level=1": an offer that REPEATS a parameter (round 10: a matcher counting hits instead of checking each
	// range parameter accepts it for the range ;level=1;b=2 and refuses it for ;level=1)
	offerParams := []string{"", ";level=1", ";leve=1", ";levelx=1", ";xlevel=1", ";level=10", ";level=01", ";level=2", ";level=1;b=2", ";level=1;level=1"}
	rangeParams := append(append([]string(nil), offerParams...), `;level="1"`, `;level="10"`)
	var mimes, offers []string
	for _, t := range types {
		for _, s := range subs {
			mimes = append(mimes, t+"/"+s)
		}
	}
	for _, m := range mimes {
		for _, p := range offerParams {
			offers = append(offers, m+p)
		}
	}
	// the offers one step away from the probe: the ordered pairs come from these
	probeOffers := []string{"text/html;level=1", "text/html", "text/htm;level=1", "text/htmlx;level=1", "text/xhtml;level=1", "tex/html;level=1", "textx/html;level=1",
		"xtext/html;level=1", "text/html;leve=1", "text/html;levelx=1", "text/html;level=10", "text/html;level=2", "text/html;level=1;b=2", "text/html;level=1;level=1"}
	fam := mkFamily("Accepts", mAccepts, "Accept", true, offers, singlesAndPairs(offers, probeOffers))
	fam.oname, fam.literal = "Accepts(near-miss names)", true

	var rangeTypes []string
	rangeTypes = append(rangeTypes, mimes...)
	for _, t := range types {
		rangeTypes = append(rangeTypes, t+"/*")
	}
	rangeTypes = append(rangeTypes, "*/*")
	one := product(rangeTypes, rangeParams, []string{""})
	enumerate(r, "near", fam, one, 1, 1, separators[:1])

	// two ranges, both one step away from the probe range text/html;level=1
	var step []elem
	step = append(step, elem{"text/html", ";level=1", ""})
	for _, t := range types[1:] {
		step = append(step, elem{t + "/html", ";level=1", ""})
	}
	for _, s := range subs[1:] {
		step = append(step, elem{"text/" + s, ";level=1", ""})
	}
	step = append(step, elem{"text/*", ";level=1", ""}, elem{"*/*", ";level=1", ""})
	for _, p := range rangeParams {
		if p != ";level=1" {
			step = append(step, elem{"text/html", p, ""})
		}
	}
	var two []elem
	for _, e := range step {
		two = append(two, e, elem{e.T, e.P, ";q=0.5"})
		if !quick {
			two = append(two, elem{e.T, e.P, ";q=0"})
		}
	}
	enumerate(r, "near", fam, two, 2, 2, separators[:1])

	// tokens: en and its neighbours; prefix relations are not pinned down by the statement
	// (both answers admitted), everything else is ("xen" does not accept "en")
	toks := []string{"en", "e", "enx", "xen", "en-US", "xen-US"}
	talpha := product(append([]string{"*"}, toks...), []string{""}, []string{"", ";q=0.5", ";q=0"})
	tl := orderedLists(len(toks), 2)
	for _, b := range []longBase{longLangs, longChars, longEncs} {
		f := mkFamily(b.name, b.mode, b.header, false, toks, tl)
		f.oname = b.name + "(near-miss names)"
		enumerate(r, "near_tokens", f, talpha, 1, 2, separators[:1])
	}
	bounds["near"] = fmt.Sprintf("Accept: one range of %d (16 types {text,tex,textx,xtext}/{html,htm,htmlx,xhtml}, their 4 type wildcards, */*, x %d parameter forms %q) and two ranges of the %d "+
		"ranges one component away from text/html;level=1 (x weight none / 0.5), x every single offer of %d (16 types x %d parameter forms) and the ordered pairs of the %d offers one component "+
		"away from the probe; Accept-Language/-Charset/-Encoding: <=2 ranges over {*, en, e, enx, xen, en-US, xen-US} x {none, q=0.5, q=0} x ordered lists of <=2 of the 6 tokens",
		len(one), len(rangeParams), rangeParams, len(step), len(offers), len(offerParams), len(probeOffers))
}

// ---------------------------------------------------------------------------
// weights

var weightValues = []string{"0", "0.", "0.0", "0.00", "0.000", "0.001", "0.005", "0.01", "0.05", "0.1", "0.5", "0.50", "0.500",
	"0.89", "0.899", "0.9", "0.90", "0.901", "0.999", "1", "1.", "1.0", "1.00", "1.000"}

func weightsPhase(r *core.Run, quick bool, bounds map[string]any) {
	forms := func(prefix string) []string {
		out := []string{""}
		for _, v := range weightValues {
			out = append(out, prefix+v)
		}
		return out
	}
	l2 := orderedLists(2, 2)
	type variant struct {
		b      longBase
		types  []string
		offers []string
		P, pre string
	}
	vs := []variant{
		{longAccepts, []string{"text/html", "text/plain"}, []string{"text/html", "text/plain"}, "", ";q="},
		{longAccepts, []string{"text/html", "text/plain"}, []string{"text/html;level=1", "text/plain;level=1"}, ";level=1", ";q="},
		{longAccepts, []string{"text/html", "text/plain"}, []string{"text/html", "text/plain"}, "", "; q="},
		{longLangs, []string{"en", "fr"}, []string{"en", "fr"}, "", ";q="},
		{longChars, []string{"utf-8", "koi8-r"}, []string{"utf-8", "koi8-r"}, "", ";q="},
		{longEncs, []string{"gzip", "br"}, []string{"gzip", "br"}, "", ";q="},
		{longLangs, []string{"en", "fr"}, []string{"en", "fr"}, "", "; q="},
	}
	for i, v := range vs {
		f := mkFamily(v.b.name, v.b.mode, v.b.header, v.b.media, v.offers, l2)
		f.oname = v.b.name + "(weight spellings)"
		alpha := product(v.types, []string{v.P}, forms(v.pre))
		n := 2
		if !quick && i == 0 {
			n = 3
		}
		enumerate(r, "weights", f, alpha, 1, n, separators[:1])
	}
	bounds["weights"] = fmt.Sprintf("<=2 ranges over 2 types (tokens) x %d weight forms (none and q=%v): Accept with the weight alone, behind ;level=1 and written '; q=', "+
		"Accept-Language with ';q=' and '; q=', Accept-Charset / -Encoding with ';q='; x ordered lists of <=2 of the 2 matching offers", len(weightValues)+1, weightValues)
}

// ---------------------------------------------------------------------------
// the grammar inside one range

func innerPhase(r *core.Run, quick bool, bounds map[string]any) {
	pres := []string{"", " ", "\t"}
	posts := []string{"", " ", "\t", "  "}
	var qf, pf []string // weight forms, media parameter forms
	for _, a := range pres {
		for _, b := range posts {
			for _, name := range []string{"q", "Q"} {
				for _, v := range []string{"0", "0.5"} {
					qf = append(qf, a+";"+b+name+"="+v)
				}
			}
			pf = append(pf, a+";"+b+"level=1", a+";"+b+`level="1"`)
		}
	}
	// headers: X alone, X before / after a companion, joined by "," and " , "
	build := func(xs []elem, comps []elem, triples bool) []hcase {
		var hs []hcase
		for _, x := range xs {
			hs = append(hs, hcase{el: []elem{x}, sep: ",", present: true})
			for _, sep := range []string{",", " , "} {
				for i, c := range comps {
					hs = append(hs, hcase{el: []elem{x, c}, sep: sep, present: true}, hcase{el: []elem{c, x}, sep: sep, present: true})
					if triples {
						for j, d := range comps {
							if i != j {
								hs = append(hs, hcase{el: []elem{x, c, d}, sep: sep, present: true})
							}
						}
					}
				}
			}
		}
		return hs
	}
	// media: text/html with every combination of a parameter form and a weight form
	var xs []elem
	for _, p := range append([]string{""}, pf...) {
		for _, q := range append([]string{""}, qf...) {
			if p != "" || q != "" {
				xs = append(xs, elem{"text/html", p, q})
			}
		}
	}
	comps := []elem{{"text/plain", "", ""}, {"text/plain", "", ";q=0.4"}, {"*/*", "", ";q=0.1"}}
	offers := []string{"text/html", "text/html;level=1", "text/html; level=1", "text/plain"}
	fam := mkFamily("Accepts", mAccepts, "Accept", true, offers, orderedLists(len(offers), 2))
	fam.oname = "Accepts(whitespace inside a range)"
	hs := build(xs, comps, false)
	enumerateHeaders(r, "inner_ows", fam, hs)
	nOWS := len(hs)

	// tokens: en with every weight form
	var tx []elem
	for _, q := range qf {
		tx = append(tx, elem{"en", "", q})
	}
	tcomps := []elem{{"fr", "", ""}, {"fr", "", ";q=0.4"}, {"*", "", ";q=0.1"}}
	ths := build(tx, tcomps, false)
	for _, b := range []longBase{longLangs, longChars, longEncs} {
		f := mkFamily(b.name, b.mode, b.header, false, []string{"en", "fr"}, orderedLists(2, 2))
		f.oname = b.name + "(whitespace inside a range)"
		enumerateHeaders(r, "inner_ows_tokens", f, ths)
	}

	// quoted-string values; the offer carries the value in the same spelling
	values := []string{`"x"`, `"x,y"`, `"x;y"`, `"x y"`, `""`, `"x\"y"`, `"x\\"`, `"x\",y"`, `"\\\""`, `"x\\\\y,z"`,
		// quoted-pairs on characters that need no escaping (RFC 9110 allows escaping any VCHAR / SP / HTAB)
		`"x\-y"`, `"x\yz,w"`, `"\a"`, `"x\ y"`}
	qcomps := []elem{{"text/html", "", ""}, {"text/html", "", ";q=0.4"}, {"text/plain", ";level=1", ""}}
	nQ := 0
	for _, v := range values {
		var qx []elem
		for _, p := range []string{";t=" + v, ";s=1;t=" + v, ";t=" + v + ";s=1"} {
			for _, q := range []string{"", ";q=0.5", ";q=0"} {
				qx = append(qx, elem{"a/b", p, q})
			}
		}
		qo := []string{"a/b;t=" + v, "a/b;s=1;t=" + v, "a/b", "text/html", "text/plain;level=1"}
		f := mkFamily("Accepts", mAccepts, "Accept", true, qo, orderedLists(len(qo), 2))
		f.oname = "Accepts(quoted-string values)"
		qhs := build(qx, qcomps, true)
		enumerateHeaders(r, "inner_quoted", f, qhs)
		nQ += len(qhs)
	}
	bounds["inner"] = fmt.Sprintf("optional whitespace: text/html (token en) x parameter forms {none, level=1, level=\"1\"} x weight forms {none, q|Q = 0|0.5}, every ';' written with %q before and %q after it, "+
		"alone and before / after each of 3 companion ranges, joined by ',' and ' , ' (%d Accept headers x ordered lists of <=2 of %q; %d headers per token function); "+
		"quoted-string values %q as a/b;t=V, a/b;s=1;t=V, a/b;t=V;s=1 x weight none / 0.5 / 0, alone, before / after 3 companions and before every ordered pair of them (%d headers x ordered lists of <=2 of 5 offers, "+
		"the offer spelling the value as the range does)", pres, posts, nOWS, offers, len(ths), values, nQ)
}

// ---------------------------------------------------------------------------
// wide lists: more offers / handlers than the pre-sized slices hold

// refPickWide is refVerdict.mask for lists of any length: the index (into the list) of the
// designated offer, -1 for nothing; ok=false when the answer is not pinned down.
func refPickWide(v *refVerdict, list []int) (pick int, ok bool) {
	if len(list) == 0 {
		return -1, true
	}
	if v.absent {
		return 0, true
	}
	for ri := range v.ranges {
		for k, o := range list {
			switch v.acc[ri][o] {
			case triYes:
				return k, true
			case triMaybe:
				return -1, false
			}
		}
	}
	return -1, true
}

func widePhase(r *core.Run, quick bool, bounds map[string]any) {
	if skip("wide") {
		return
	}
	types := longMedia[:12]
	roff := make([]refOffer, len(types))
	for i, t := range types {
		roff[i] = refParseOffer(t)
	}
	// headers
	var hs []hcase
	hs = append(hs, hcase{present: false})
	for _, t := range types {
		hs = append(hs, hcase{el: []elem{{t, "", ""}}, sep: ", ", present: true}, hcase{el: []elem{{t, "", ";q=0"}}, sep: ", ", present: true})
	}
	hs = append(hs, hcase{el: []elem{{"*/*", "", ""}}, sep: ", ", present: true}, hcase{el: []elem{{"x-none/x-none", "", ""}}, sep: ", ", present: true})
	for i, a := range types {
		for j, b := range types {
			if i != j {
				hs = append(hs, hcase{el: []elem{{a, "", ";q=0.5"}, {b, "", ""}}, sep: ", ", present: true})
			}
		}
		hs = append(hs, hcase{el: []elem{{a, "", ";q=0"}, {"*/*", "", ";q=0.1"}}, sep: ", ", present: true})
	}
	// lists: every rotation of the first n types, n = 9 and 12; Format additionally with
	// "default" nowhere / first / in the middle / last
	type wlist struct {
		idx  []int // into types, -1 = default
		defp string
	}
	var accLists, fmtLists []wlist
	for _, n := range []int{9, 12} {
		for rot := 0; rot < n; rot++ {
			var base []int
			for k := 0; k < n; k++ {
				base = append(base, (rot+k)%n)
			}
			accLists = append(accLists, wlist{base, "absent"})
			fmtLists = append(fmtLists, wlist{base, "absent"})
			fmtLists = append(fmtLists, wlist{append([]int{-1}, base...), "first"})
			mid := append(append(append([]int(nil), base[:n/2]...), -1), base[n/2:]...)
			fmtLists = append(fmtLists, wlist{mid, "in the middle"})
			fmtLists = append(fmtLists, wlist{append(append([]int(nil), base...), -1), "last"})
		}
	}
	famA := &family{name: "Accepts", mode: mAccepts, header: "Accept", media: true}
	famF := &family{name: "Format", mode: mFormat, header: "Accept", media: true}
	type job struct {
		f     *family
		lists []wlist
	}
	jobs := []job{{famA, accLists}, {famF, fmtLists}}
	items := len(jobs) * len(hs)
	locals := make([]*core.Local, items)
	r.Parallel(items, func(it int, _ *core.Local) {
		if r.Expired() {
			r.Cap("wall-clock budget exhausted in phase wide")
			return
		}
		w := workers.get()
		defer workers.put(w)
		l := core.NewLocal()
		locals[it] = l
		jb, hc := jobs[it/len(hs)], hs[it%len(hs)]
		f := jb.f
		hdr := hc.text()
		v := refJudge(hdr, hc.present, true, roff, types)
		res, pan, aux := make([]string, 1), make([]string, 1), make([]string, 1)
		for _, wl := range jb.lists {
			var sl []string
			var rl []int // reference view: without "default"
			for _, i := range wl.idx {
				if i < 0 {
					sl = append(sl, "default")
				} else {
					sl = append(sl, types[i])
					rl = append(rl, i)
				}
			}
			w.call(f, hdr, hc.present, [][]string{sl}, res, pan, aux)
			pick, ok := refPickWide(&v, rl)
			l.Add("evaluations", 1)
			l.Add("evaluations_wide", 1)
			if !ok || !v.valid {
				l.Add("unspecified_skipped", 1)
				continue
			}
			l.Add("judged_exact", 1)
			want, wantPos := "", "nothing"
			if pick >= 0 {
				want = types[rl[pick]]
				wantPos = "among the first 8"
				if pick >= 8 {
					wantPos = "after the first 8"
					l.Add("wide_evaluations_designating_an_entry_after_the_first_8", 1)
				}
			}
			if hc.present && pick != 0 {
				l.Add("nontrivial", 1)
			}
			kind := ""
			switch {
			case pan[0] != "":
				kind = "panic"
			case aux[0] != "":
				kind = aux[0][:strings.IndexByte(aux[0], ':')]
			case res[0] == want:
			case res[0] == "":
				kind = "got-none-want-offer"
			case want == "":
				kind = "got-offer-want-none"
			default:
				kind = "got-wrong-offer"
				if indexOfOrMinus(sl, res[0]) < 0 {
					kind = "result-not-an-offer"
				}
			}
			l.Outcome(fmt.Sprintf("%s(9..12 entries) designated=%s default=%s agrees=%v", f.name, wantPos, wl.defp, kind == ""))
			if kind == "" {
				continue
			}
			// the same call with only the first 7 entries, the designated one among them
			short := append([]string(nil), sl...)
			if len(short) > 7 {
				short = short[:7]
			}
			if want != "" && indexOfOrMinus(short, want) < 0 {
				short[len(short)-1] = want
			}
			where := "only with the long list"
			if k2, _, _ := w.single(f, hc, short); k2 != "" {
				where = "also with 7 entries"
			}
			what := "offers"
			if f.mode == mFormat {
				what = "handlers (default " + wl.defp + ")"
			}
			sig := fmt.Sprintf("%s %s with a list of more than 8 %s, designated entry %s; %s", f.name, kind, what, wantPos, where)
			if where != "only with the long list" {
				// not a matter of the length: one signature, the short families name the shape
				sig = fmt.Sprintf("%s %s with a list of more than 8 entries; %s", f.name, kind, where)
			}
			got := res[0]
			if pan[0] != "" {
				got = "panic: " + pan[0]
			} else if aux[0] != "" {
				got += " [" + aux[0] + "]"
			}
			l.Violate(sig, describe(kind, f)+" (list of more than 8 entries)",
				map[string]any{"function": f.name, "header": hdr, "header_present": hc.present, "offers": sl}, got, []string{orNothing(want)})
		}
	})
	for _, l := range locals {
		if l != nil {
			r.Merge(l.P)
		}
	}

	// AutoFormat reaching each of its four offers (the range alphabet of the other families has no xml type)
	famAuto := mkFamily("AutoFormat", mAuto, "Accept", true, []string{"html", "json", "txt", "xml"}, [][]int{{0, 1, 2, 3}})
	famAuto.oname = "AutoFormat(every offer)"
	ax := product([]string{"application/xml", "application/json", "text/plain", "text/html", "application/*", "*/*"}, []string{""}, []string{"", ";q=0.5", ";q=0"})
	n := 2
	if !quick {
		n = 3
	}
	enumerate(r, "autoformat_all", famAuto, ax, 1, n, separators[:1])
	bounds["wide"] = fmt.Sprintf("Accepts with every rotation of the first 9 and of the first 12 of 12 distinct types as offers, Format with the same lists as handlers and 'default' nowhere / first / in the middle / last, "+
		"x %d headers (absent, each type alone with weight none / 0, */*, an unknown type, every ordered pair [a;q=0.5, b], [a;q=0, */*;q=0.1]); AutoFormat: <=%d ranges over %d ranges incl. application/xml", len(hs), n, len(ax))
}

func indexOfOrMinus(xs []string, x string) int {
	for i, y := range xs {
		if y == x {
			return i
		}
	}
	return -1
}

func orNothing(s string) string {
	if s == "" {
		return "<nothing>"
	}
	return s
}
