// Reference model for C09, written from the property statement and the RFC 9110
// grammar only (it shares no code and no table with the implementation).
//
// Statement: "Accepts, AcceptsCharsets, AcceptsEncodings, AcceptsLanguages and Format
// return one of the offers (or nothing / 406): the first offer acceptable to the most
// preferred range of the request header, ranges ordered by descending quality, then
// specificity, then number of parameters, then position. Ranges with q=0 never select
// an offer, media-type parameters of a range must all be present in the offer, and an
// absent header selects the first offer."
//
// Interpretation used here (also written into the evidence `rule`):
//   - The header is parsed with the RFC 9110 list grammar (#rule: elements separated
//     by OWS "," OWS, empty elements ignored). A media range is `*/*`, `type/*` or
//     `type/subtype` followed by parameters `OWS ";" OWS name=value` (value token or
//     quoted-string); the first parameter whose name is `q` (ABNF literals are
//     case-insensitive, RFC 5234 §2.3) is the weight; whatever follows the weight is
//     an RFC 7231 accept-ext and takes no part in matching or in the parameter count.
//   - Ranges with q=0 are removed. The remaining ranges are ordered by the key
//     (q descending, specificity descending, number of media parameters descending,
//     position ascending). Position is unique, so the order is total: there are no
//     ties between ranges.
//   - "The first offer acceptable to the most preferred range": walk the ranges in
//     that order; for each range walk the offers in the order the caller listed
//     them; the answer is the first (range, offer) pair that is acceptable. I.e. the
//     range that decides is the most preferred range that accepts at least one offer,
//     and among the offers it accepts the caller's order decides. If no live range
//     accepts any offer the answer is nothing ("" / default handler / 406).
//   - Specificity: `*/*` (or `*`) < `type/*` < `type/subtype` (or a concrete token).
//   - A media offer is acceptable to a range when the type matches (`*/*` any,
//     `t/*` same type, `t/s` same type and subtype) and every parameter of the range
//     occurs in the offer with the same name (case-insensitive) and the same value
//     (quotes stripped). An offer without `/` is a file extension standing for its
//     registered media type.
//   - Three-valued: where the statement is silent the relation is `maybe` and both
//     answers are admitted: parameter values / type names that differ only in case,
//     and for charset / encoding / language tokens everything except "equal token or
//     `*`" (must accept) and "neither token is a prefix of the other" (must not).
//   - A header that is present but empty, that is not derivable from the grammar, or
//     that repeats a parameter name inside one range is not judged (totality only).
package main

import (
	"sort"
	"strings"
)

type tri uint8

const (
	triNo tri = iota
	triMaybe
	triYes
)

func triMin(a, b tri) tri {
	if a < b {
		return a
	}
	return b
}

type refParam struct{ name, val string }

type refRange struct {
	typ, sub string // media: type and subtype ("*" for wildcards); token families: typ = token
	params   []refParam
	q        int // thousandths
	spec     int
	pos      int
}

func isTchar(c byte) bool {
	switch {
	case c >= 'a' && c <= 'z', c >= 'A' && c <= 'Z', c >= '0' && c <= '9':
		return true
	}
	return strings.IndexByte("!#$%&'*+-.^_`|~", c) >= 0
}

func isToken(s string) bool {
	if s == "" {
		return false
	}
	for i := 0; i < len(s); i++ {
		if !isTchar(s[i]) {
			return false
		}
	}
	return true
}

func trimOWS(s string) string { return strings.Trim(s, " \t") }

// splitQuoted splits s at sep outside quoted-strings; ok=false if a quote is left open.
func splitQuoted(s string, sep byte) (parts []string, ok bool) {
	start, inq := 0, false
	for i := 0; i < len(s); i++ {
		c := s[i]
		switch {
		case inq && c == '\\':
			i++ // quoted-pair
		case c == '"':
			inq = !inq
		case c == sep && !inq:
			parts = append(parts, s[start:i])
			start = i + 1
		}
	}
	if inq {
		return nil, false
	}
	return append(parts, s[start:]), true
}

// paramValue decodes token / quoted-string.
func paramValue(v string) (string, bool) {
	if len(v) >= 2 && v[0] == '"' && v[len(v)-1] == '"' {
		var b strings.Builder
		in := v[1 : len(v)-1]
		for i := 0; i < len(in); i++ {
			c := in[i]
			if c == '\\' {
				i++
				if i >= len(in) {
					return "", false
				}
				b.WriteByte(in[i])
				continue
			}
			if c == '"' {
				return "", false
			}
			b.WriteByte(c)
		}
		return b.String(), true
	}
	if isToken(v) {
		return v, true
	}
	return "", false
}

// qvalue = ( "0" [ "." 0*3DIGIT ] ) / ( "1" [ "." 0*3("0") ] )
func parseQ(s string) (int, bool) {
	if s == "" || (s[0] != '0' && s[0] != '1') {
		return 0, false
	}
	if len(s) == 1 {
		return int(s[0]-'0') * 1000, true
	}
	if s[1] != '.' || len(s) > 5 {
		return 0, false
	}
	frac, mul := 0, 100
	for i := 2; i < len(s); i++ {
		if s[i] < '0' || s[i] > '9' {
			return 0, false
		}
		frac += int(s[i]-'0') * mul
		mul /= 10
	}
	if s[0] == '1' {
		if frac != 0 {
			return 0, false
		}
		return 1000, true
	}
	return frac, true
}

// parseParams parses ";"-separated pieces after the first one. media=false admits a weight only.
func parseParams(pieces []string, media bool) (params []refParam, q int, ok bool) {
	q = 1000
	seenQ := false
	for _, raw := range pieces {
		p := trimOWS(raw)
		if p == "" {
			if !media {
				return nil, 0, false
			}
			continue // RFC 9110: parameters = *( OWS ";" OWS [ parameter ] )
		}
		eq := strings.IndexByte(p, '=')
		if seenQ { // accept-ext = token [ "=" ( token / quoted-string ) ]
			if !media {
				return nil, 0, false
			}
			name, val := p, ""
			if eq >= 0 {
				name, val = p[:eq], p[eq+1:]
				if _, vok := paramValue(val); !vok {
					return nil, 0, false
				}
			}
			if !isToken(name) {
				return nil, 0, false
			}
			continue
		}
		if eq <= 0 {
			return nil, 0, false
		}
		name, val := p[:eq], p[eq+1:]
		if !isToken(name) {
			return nil, 0, false
		}
		if strings.EqualFold(name, "q") {
			v, vok := parseQ(val)
			if !vok {
				return nil, 0, false
			}
			q, seenQ = v, true
			continue
		}
		if !media {
			return nil, 0, false
		}
		v, vok := paramValue(val)
		if !vok {
			return nil, 0, false
		}
		name = strings.ToLower(name)
		for _, o := range params {
			if o.name == name {
				return nil, 0, false // repeated name: "number of parameters" is not defined by the statement
			}
		}
		params = append(params, refParam{name, v})
	}
	return params, q, true
}

// refParseHeader returns the live (q>0) ranges in preference order, or valid=false
// when the header is not judged.
func refParseHeader(h string, media bool) (out []refRange, valid bool) {
	if h == "" {
		return nil, false
	}
	elems, ok := splitQuoted(h, ',')
	if !ok {
		return nil, false
	}
	pos := 0
	for _, e := range elems {
		e = trimOWS(e)
		if e == "" {
			continue
		}
		pieces, ok := splitQuoted(e, ';')
		if !ok {
			return nil, false
		}
		head := trimOWS(pieces[0])
		var r refRange
		if media {
			sl := strings.IndexByte(head, '/')
			if sl < 0 {
				return nil, false
			}
			r.typ, r.sub = head[:sl], head[sl+1:]
			switch {
			case r.typ == "*" && r.sub == "*":
				r.spec = 1
			case isToken(r.typ) && !strings.Contains(r.typ, "*") && r.sub == "*":
				r.spec = 2
			case isToken(r.typ) && isToken(r.sub) && !strings.Contains(r.typ, "*") && !strings.Contains(r.sub, "*"):
				r.spec = 3
			default:
				return nil, false
			}
		} else {
			if !isToken(head) || (head != "*" && strings.Contains(head, "*")) {
				return nil, false
			}
			r.typ = head
			r.spec = 2
			if head == "*" {
				r.spec = 1
			}
		}
		r.params, r.q, ok = parseParams(pieces[1:], media)
		if !ok {
			return nil, false
		}
		r.pos = pos
		pos++
		if r.q > 0 {
			out = append(out, r)
		}
	}
	sort.SliceStable(out, func(i, j int) bool {
		a, b := out[i], out[j]
		if a.q != b.q {
			return a.q > b.q
		}
		if a.spec != b.spec {
			return a.spec > b.spec
		}
		if len(a.params) != len(b.params) {
			return len(a.params) > len(b.params)
		}
		return a.pos < b.pos
	})
	return out, true
}

// refOffer is an offer as the caller wrote it.
type refOffer struct {
	typ, sub string
	params   []refParam
	known    bool
}

// extension table from the documentation of the offers used by this harness.
var refExt = map[string]string{"html": "text/html", "json": "application/json", "txt": "text/plain", "png": "image/png", "xml": "application/xml"}

func refParseOffer(o string) refOffer {
	pieces, ok := splitQuoted(o, ';')
	if !ok {
		return refOffer{}
	}
	mime := trimOWS(pieces[0])
	if !strings.Contains(mime, "/") {
		m, ok := refExt[strings.TrimPrefix(mime, ".")]
		if !ok {
			return refOffer{}
		}
		mime = m
	}
	sl := strings.IndexByte(mime, '/')
	ro := refOffer{typ: mime[:sl], sub: mime[sl+1:], known: true}
	for _, p := range pieces[1:] {
		p = trimOWS(p)
		eq := strings.IndexByte(p, '=')
		if eq <= 0 {
			return refOffer{}
		}
		v, ok := paramValue(p[eq+1:])
		if !ok {
			return refOffer{}
		}
		ro.params = append(ro.params, refParam{strings.ToLower(p[:eq]), v})
	}
	return ro
}

func eqTri(a, b string) tri {
	if a == b {
		return triYes
	}
	if strings.EqualFold(a, b) {
		return triMaybe
	}
	return triNo
}

func refAcceptsMedia(r refRange, o refOffer) tri {
	if !o.known {
		return triMaybe
	}
	res := triYes
	if r.typ != "*" {
		res = triMin(res, eqTri(r.typ, o.typ))
		if r.sub != "*" {
			res = triMin(res, eqTri(r.sub, o.sub))
		}
	}
	for _, p := range r.params {
		found := triNo
		for _, op := range o.params {
			if op.name == p.name {
				found = eqTri(p.val, op.val)
				break
			}
		}
		res = triMin(res, found)
	}
	return res
}

func refAcceptsToken(rng, offer string) tri {
	if rng == "*" || rng == offer {
		return triYes
	}
	lr, lo := strings.ToLower(rng), strings.ToLower(offer)
	if strings.HasPrefix(lr, lo) || strings.HasPrefix(lo, lr) {
		return triMaybe // case variants and prefix relations: not pinned down by the statement
	}
	return triNo
}

const maskNone = 1 << 7

// refVerdict is the judgement of one header against an offer alphabet.
type refVerdict struct {
	valid  bool
	absent bool
	ranges []refRange
	acc    [][]tri // [range in preference order][offer index in alphabet]
}

func refJudge(h string, present, media bool, offers []refOffer, offerText []string) refVerdict {
	if !present {
		return refVerdict{valid: true, absent: true}
	}
	rs, ok := refParseHeader(h, media)
	if !ok {
		return refVerdict{}
	}
	v := refVerdict{valid: true, ranges: rs, acc: make([][]tri, len(rs))}
	for i, r := range rs {
		v.acc[i] = make([]tri, len(offerText))
		for j := range offerText {
			if media {
				v.acc[i][j] = refAcceptsMedia(r, offers[j])
			} else {
				v.acc[i][j] = refAcceptsToken(r.typ, offerText[j])
			}
		}
	}
	return v
}

// mask returns the admissible answers for an offer list (indices into the alphabet):
// bit k = list[k] may be returned, maskNone = nothing may be returned; winner is the
// index (in preference order) of the deciding range when the answer is exact, else -1.
func (v *refVerdict) mask(list []int) (m uint8, winner int) {
	if len(list) == 0 {
		return maskNone, -1
	}
	if v.absent {
		return 1, -1
	}
	exact := true
	for ri := range v.ranges {
		for k, o := range list {
			switch v.acc[ri][o] {
			case triYes:
				m |= 1 << uint(k)
				if !exact {
					return m, -1
				}
				return m, ri
			case triMaybe:
				m |= 1 << uint(k)
				exact = false
			}
		}
	}
	return m | maskNone, -1
}
