// Reference model and oracle shared by all families of the C10 harness.
package main

import (
	"fmt"
	"net/netip"
	"strconv"
	"strings"

	"verifmc/core"
)

// tri is a three-valued verdict of the reference: the statement (and the documentation it
// refers to) says yes, says no, or is silent.
type tri int

const (
	no tri = iota
	yes
	unspec
)

func (t tri) String() string { return [...]string{"no", "yes", "unspecified"}[t] }

// parseEntryPrefix parses a CIDR entry of TrustProxyConfig.Proxies the way the documentation
// describes it ("IP addresses or CIDR ranges"): address "/" decimal length.
func parseEntryPrefix(p string) (netip.Addr, int, bool) {
	i := strings.IndexByte(p, '/')
	if i < 0 {
		return netip.Addr{}, 0, false
	}
	a, err := netip.ParseAddr(p[:i])
	if err != nil || a.Zone() != "" {
		return netip.Addr{}, 0, false
	}
	bs := p[i+1:]
	if bs == "" || len(bs) > 3 || (len(bs) > 1 && bs[0] == '0') {
		return netip.Addr{}, 0, false
	}
	bits, err := strconv.Atoi(bs)
	if err != nil || bits < 0 || bits > a.BitLen() {
		return netip.Addr{}, 0, false
	}
	for _, ch := range bs {
		if ch < '0' || ch > '9' {
			return netip.Addr{}, 0, false
		}
	}
	return a, bits, true
}

// entryCovers says whether one Proxies entry puts the (unmapped, zone-less) peer address a inside
// the proxy set.  unspec: an IPv6 range that covers the IPv4-mapped form of an IPv4 peer without
// being a range of mapped addresses only (the documentation does not say whether "::/0" lists
// IPv4 peers).
func entryCovers(p string, a netip.Addr) tri {
	if strings.Contains(p, "/") {
		pa, bits, ok := parseEntryPrefix(p)
		if !ok {
			return no
		}
		if pa.Is4In6() {
			if bits >= 96 {
				if a.Is4() && netip.PrefixFrom(pa.Unmap(), bits-96).Masked().Contains(a) {
					return yes
				}
				return no
			}
			// shorter than /96: covers mapped and other v6 addresses alike
			pf := netip.PrefixFrom(pa, bits).Masked()
			if a.Is4() {
				if pf.Contains(netip.AddrFrom16(a.As16())) {
					return unspec
				}
				return no
			}
			if pf.Contains(a) {
				return yes
			}
			return no
		}
		pf := netip.PrefixFrom(pa, bits).Masked()
		if pa.Is6() && a.Is4() {
			if pf.Contains(netip.AddrFrom16(a.As16())) {
				return unspec
			}
			return no
		}
		if pf.Contains(a) {
			return yes
		}
		return no
	}
	pa, err := netip.ParseAddr(p)
	if err != nil || pa.Zone() != "" {
		return no
	}
	if pa.Unmap() == a {
		return yes
	}
	return no
}

// refTrust is the reference trust predicate written from the statement: listed addresses, CIDR
// ranges, enabled loopback/private/link-local classes.
func refTrust(c cfg, a netip.Addr) tri {
	if !c.Trust {
		return yes // documented: without TrustProxy every peer is believed
	}
	a = a.Unmap().WithZone("")
	if c.Loopback && a.IsLoopback() {
		return yes
	}
	if c.Private && a.IsPrivate() {
		return yes
	}
	if c.LinkLocal && a.IsLinkLocalUnicast() {
		return yes
	}
	res := no
	for _, p := range c.Proxies {
		switch entryCovers(p, a) {
		case yes:
			return yes
		case unspec:
			res = unspec
		}
	}
	return res
}

// refTrusted is the two-valued form used by the original product family (its alphabets contain no
// unspecified combination).
func refTrusted(c cfg, peer string) bool {
	a, err := netip.ParseAddr(peer)
	if err != nil {
		return false
	}
	return refTrust(c, a) == yes
}

// refWhy names the first configuration element that puts the peer inside the proxy set.
func refWhy(c cfg, peer string) string {
	one := c
	one.Proxies = nil
	if refTrusted(one, peer) {
		return "class-flag"
	}
	for _, p := range c.Proxies {
		one.Proxies = []string{p}
		if refTrusted(one, peer) {
			return "entry:" + p
		}
	}
	return "?"
}

func firstElem(v string) string {
	if i := strings.Index(v, ","); i != -1 {
		return v[:i]
	}
	return v
}

func hget(hs []hdr, name string) (string, bool) {
	for _, h := range hs {
		if h.K == name {
			return h.V, true
		}
	}
	return "", false
}

func hnames(hs []hdr) string {
	var n []string
	for _, h := range hs {
		n = append(n, h.K)
	}
	return strings.Join(n, "+")
}

func validIP(s string) bool { _, err := netip.ParseAddr(s); return err == nil }

// element kinds of a proxy-header list
const (
	elInvalid = iota
	elValid
	elAmbiguous // an address for some parsers only: zone, IPv6 with dotted quad, blanks other than SP around it
)

func classifyElem(e string) (int, string) {
	t := strings.Trim(e, " ")
	if a, err := netip.ParseAddr(t); err == nil {
		if a.Zone() != "" || (a.Is6() && strings.Contains(t, ".")) {
			return elAmbiguous, t
		}
		return elValid, t
	}
	if _, err := netip.ParseAddr(strings.TrimSpace(t)); err == nil {
		return elAmbiguous, t
	}
	return elInvalid, t
}

// expectedValidatedIP: "return the first valid IP address" of the comma separated proxy header,
// else the peer address.  exact=false: the list contains an element before the first plainly
// valid one whose validity depends on the parser, or an empty element (malformed list) - then
// only membership {valid-looking elements, peer} is demanded.
func expectedValidatedIP(v, peerIP string) (exp string, exact bool, members []string) {
	exact = true
	members = []string{peerIP}
	found := false
	for _, e := range strings.Split(v, ",") {
		k, t := classifyElem(e)
		if t == "" && v != "" {
			if !found {
				exact = false // empty list element before the answer: malformed list
			}
			continue
		}
		switch k {
		case elValid:
			members = append(members, t)
			if !found {
				exp, found = t, true
			}
		case elAmbiguous:
			members = append(members, t, strings.TrimSpace(t))
			if !found {
				exact = false
			}
		}
	}
	if !found {
		exp = peerIP
	}
	return exp, exact, members
}

func member(s string, set []string) bool {
	for _, m := range set {
		if s == m {
			return true
		}
	}
	return false
}

// jopt tunes the signatures of one family; the oracle itself is the same everywhere.
type jopt struct {
	// Qual is appended to the signatures of trust-decision violations (family T: peer role, form, entry kind).
	Qual string
	// HdrName is the name under which the ProxyHeader value was sent (canonical spelling of c.Header).
	HdrName string
	// HdrLabel replaces the configured ProxyHeader name in signatures (family V: class of the name).
	HdrLabel string
	// Shape is appended to value-dependent signatures (family V: class of the header value).
	Shape string
}

func (j jopt) hdr(c cfg) string {
	if j.HdrLabel != "" {
		return j.HdrLabel
	}
	return c.Header
}

func (j jopt) shape() string {
	if j.Shape == "" {
		return ""
	}
	return " shape=" + j.Shape
}

// judge applies the statement to one observation o of a request with forwarding headers hs,
// paired with the observation plain of the same request without them.
func judge(l *core.Local, c cfg, tls bool, hs []hdr, o, plain obs, want tri, cs map[string]any, j jopt) {
	// (d) secure flag <=> scheme https
	if o.Secure != (o.Scheme == "https") {
		l.Violate(fmt.Sprintf("secure-flag!=scheme-https tls=%v scheme=%s secure=%v", tls, o.Scheme, o.Secure),
			"Secure() disagrees with Scheme()==\"https\"", cs, o, nil)
	}
	// (c) validation => syntactically valid address
	if c.Validation && !validIP(o.IP) {
		l.Violate("validation-on-invalid-ip header="+j.hdr(c)+j.shape(), "EnableIPValidation but IP() is not an address", cs, o, nil)
	}
	switch want {
	case unspec:
		l.Add("unspecified_skipped", 1)
		return
	case no:
		// (a) non-interference
		if o.Trusted && j.Qual != "" {
			l.Violate("untrusted-peer-recognised "+j.Qual,
				"peer is outside the configured proxy set but IsProxyTrusted() is true", cs, o, plain)
			return
		}
		if o != plain {
			field := diffField(o, plain)
			l.Violate(fmt.Sprintf("untrusted-peer-influenced field=%s headers=%s", field, hnames(hs))+j.shape(),
				"forwarding header changed an accessor although the peer is outside the proxy set", cs, o, plain)
		}
		return
	}
	// (b) trusted => documented forwarded values
	if !o.Trusted {
		q := j.Qual
		if q == "" {
			peer, _ := cs["peer"].(string)
			q = fmt.Sprintf("peer=%s via=%s", peer, refWhy(c, peer))
		}
		l.Violate("trusted-peer-not-recognised "+q,
			"peer is inside the configured proxy set but IsProxyTrusted() is false", cs, o, nil)
		return
	}
	if v, ok := hget(hs, "X-Forwarded-Host"); ok && v != "" {
		fe := firstElem(v)
		switch {
		case o.Host == fe:
		case strings.TrimSpace(fe) != fe && (o.Host == strings.TrimSpace(fe) || (strings.TrimSpace(fe) == "" && o.Host == plain.Host)):
			l.Add("unspecified_skipped", 1) // blanks around the element: the docs do not say whether they are kept
		case fe == "" && o.Host == plain.Host:
			l.Add("unspecified_skipped", 1) // empty first element
		default:
			l.Violate("trusted-host-not-forwarded"+j.shape(), "trusted peer: Host() is not the first X-Forwarded-Host element", cs, o, fe)
		}
	} else if o.Host != plain.Host {
		l.Violate("trusted-host-changed-without-header"+j.shape(), "Host() changed without X-Forwarded-Host", cs, o, plain)
	}
	// Hostname is documented as derived from Host(); judged where "host[:port]" is unambiguous
	if !strings.ContainsAny(o.Host, "[]") && strings.Count(o.Host, ":") <= 1 {
		wantHN := o.Host
		if i := strings.IndexByte(o.Host, ':'); i >= 0 {
			wantHN = o.Host[:i]
		}
		if o.Hostname != wantHN {
			l.Violate("trusted-hostname-not-from-host"+j.shape(), "trusted peer: Hostname() is not the name part of Host()", cs, o, wantHN)
		}
	}
	if c.Header != "" {
		name := j.HdrName
		if name == "" {
			name = c.Header
		}
		v, _ := hget(hs, name)
		if !c.Validation {
			if o.IP != v {
				l.Violate("trusted-ip-not-header-value header="+j.hdr(c)+j.shape(), "trusted peer, no validation: IP() must be the proxy header value", cs, o, v)
			}
		} else {
			exp, exact, members := expectedValidatedIP(v, plain.IP)
			switch {
			case exact && o.IP != exp:
				l.Violate("trusted-ip-not-first-valid header="+j.hdr(c)+j.shape(), "trusted peer, validation: IP() must be the first valid address of the proxy header, else the peer", cs, o, exp)
			case !exact:
				l.Add("unspecified_skipped", 1)
				if !member(o.IP, members) {
					l.Violate("trusted-ip-from-nowhere header="+j.hdr(c)+j.shape(), "trusted peer, validation: IP() is neither an address of the proxy header nor the peer", cs, o, members)
				}
			}
		}
	} else if o.IP != plain.IP {
		l.Violate("ip-changed-without-proxyheader", "IP() changed although no ProxyHeader is configured", cs, o, plain)
	}
	// scheme: judged when at most one scheme header is present
	var cands []string
	loose := false // a value whose reading the docs leave open (empty, blanks, other spelling of on/off)
	addScheme := func(v string) {
		cands = append(cands, v)
		if t := strings.ToLower(strings.TrimSpace(v)); t != v {
			cands = append(cands, t, strings.TrimSpace(v))
			loose = true
		}
		if strings.TrimSpace(v) == "" {
			cands = append(cands, "http")
			loose = true
		}
	}
	nsch := 0
	if v, ok := hget(hs, "X-Forwarded-Proto"); ok {
		addScheme(firstElem(v))
		nsch++
	}
	if v, ok := hget(hs, "X-Forwarded-Protocol"); ok {
		addScheme(firstElem(v))
		nsch++
	}
	if v, ok := hget(hs, "X-Forwarded-Ssl"); ok {
		nsch++
		switch v {
		case "on":
			cands = append(cands, "https")
		case "off":
			cands = append(cands, "http")
		default:
			cands = append(cands, "http", "https")
			loose = true
		}
	}
	if v, ok := hget(hs, "X-Url-Scheme"); ok {
		addScheme(v)
		nsch++
	}
	switch {
	case tls:
		if o.Scheme != "https" {
			l.Violate("tls-scheme-not-https", "TLS connection must report https", cs, o, "https")
		}
	case nsch == 0:
		if o.Scheme != "http" {
			l.Violate("scheme-changed-without-header", "scheme changed without a scheme header", cs, o, "http")
		}
	case nsch == 1 && !loose:
		if o.Scheme != cands[0] {
			l.Violate("trusted-scheme-not-forwarded headers="+hnames(hs)+j.shape(), "trusted peer: Scheme() is not the forwarded scheme", cs, o, cands[0])
		}
	default:
		ok := o.Scheme == "http" && nsch > 1
		for _, cnd := range cands {
			ok = ok || o.Scheme == cnd
		}
		if !ok {
			l.Violate("trusted-scheme-from-nowhere"+j.shape(), "Scheme() is none of the forwarded candidates", cs, o, cands)
		}
		l.Add("unspecified_skipped", 1)
	}
	if o.BaseURL != o.Scheme+"://"+o.Host {
		l.Violate("baseurl-inconsistent", "BaseURL() != Scheme()://Host()", cs, o, nil)
	}
}

func diffField(a, b obs) string {
	switch {
	case a.IP != b.IP:
		return "IP"
	case a.Host != b.Host:
		return "Host"
	case a.Hostname != b.Hostname:
		return "Hostname"
	case a.Scheme != b.Scheme:
		return "Scheme"
	case a.BaseURL != b.BaseURL:
		return "BaseURL"
	case a.Secure != b.Secure:
		return "Secure"
	case a.Subdomains != b.Subdomains:
		return "Subdomains"
	case a.Trusted != b.Trusted:
		return "IsProxyTrusted"
	}
	return "?"
}
