// C10 — forwarding headers affect IP/host/scheme only when the peer is a trusted proxy.
// Exhaustive product: peers x TLS x proxy configurations x forwarding-header subsets.
package main

import (
	"fmt"
	"net"
	"net/netip"
	"sort"
	"strings"

	"github.com/gofiber/fiber/v3"
	"github.com/valyala/fasthttp"

	"verifmc/core"
	"verifmc/fx"
)

type cfg struct {
	Trust      bool
	Proxies    []string
	Loopback   bool
	Private    bool
	LinkLocal  bool
	Header     string
	Validation bool
}

type hdr struct{ K, V string }

type obs struct {
	IP, Host, Hostname, Scheme, BaseURL string
	Secure, Trusted                     bool
	Subdomains                          string
}

var peers = []string{"127.0.0.1", "10.0.0.1", "172.16.0.1", "192.168.1.1", "169.254.1.1", "8.8.8.8",
	"::1", "fe80::1", "fc00::1", "2001:db8::1", "::ffff:10.0.0.1",
	// neighbours of listed single addresses: same /8, /24, /32 or /64 but not listed themselves
	"10.0.0.2", "8.8.8.9", "2001:db8::2", "2001:db8:ffff::5", "::2"}

var proxyMenu = []string{"10.0.0.1", "10.0.0.0/8", "2001:db8::/32", "2001:DB8::1", "0:0:0:0:0:0:0:1", "garbage", "8.8.8.8"}

var headerMenu = map[string][]string{
	"X-Forwarded-For":      {"1.2.3.4", "1.2.3.4, 5.6.7.8", "garbage", "999.1.1.1, ::1", ""},
	"X-Real-Ip":            {"9.9.9.9", "nonsense", "2001:db8::99"},
	"X-Forwarded-Host":     {"evil.test", "evil.test:81, b.test", "a.b.evil.test"},
	"X-Forwarded-Proto":    {"https", "http", "https, http", "ftp"},
	"X-Forwarded-Protocol": {"https", "wss"},
	"X-Forwarded-Ssl":      {"on", "off"},
	"X-Url-Scheme":         {"https", "gopher"},
}
var headerNames []string

func init() {
	for k := range headerMenu {
		headerNames = append(headerNames, k)
	}
	sort.Strings(headerNames)
}

func subsets(n, max int) [][]int {
	var out [][]int
	var rec func(start int, cur []int)
	rec = func(start int, cur []int) {
		out = append(out, append([]int(nil), cur...))
		if len(cur) == max {
			return
		}
		for i := start; i < n; i++ {
			rec(i+1, append(cur, i))
		}
	}
	rec(0, nil)
	return out
}

func headerSets(max int) [][]hdr {
	var out [][]hdr
	for _, ss := range subsets(len(headerNames), max) {
		var rec func(i int, cur []hdr)
		rec = func(i int, cur []hdr) {
			if i == len(ss) {
				out = append(out, append([]hdr(nil), cur...))
				return
			}
			name := headerNames[ss[i]]
			for _, v := range headerMenu[name] {
				rec(i+1, append(cur, hdr{name, v}))
			}
		}
		rec(0, nil)
	}
	return out
}

// refTrusted is the reference trust predicate written from the statement.
func refTrusted(c cfg, peer string) bool {
	if !c.Trust {
		return true // documented: without TrustProxy every peer is believed
	}
	a, err := netip.ParseAddr(peer)
	if err != nil {
		return false
	}
	a = a.Unmap()
	if c.Loopback && a.IsLoopback() {
		return true
	}
	if c.Private && a.IsPrivate() {
		return true
	}
	if c.LinkLocal && a.IsLinkLocalUnicast() {
		return true
	}
	for _, p := range c.Proxies {
		if strings.Contains(p, "/") {
			if pf, err := netip.ParsePrefix(p); err == nil {
				if pf.Masked().Contains(a) || (pf.Addr().Is4In6() && pf.Contains(a)) {
					return true
				}
			}
			continue
		}
		if pa, err := netip.ParseAddr(p); err == nil && pa.Unmap() == a {
			return true
		}
	}
	return false
}

// refWhy names the first configuration element that puts the peer inside the proxy set.
func refWhy(c cfg, peer string) string {
	one := c
	one.Proxies = nil
	if refTrusted(one, peer) {
		return "class-flag"
	}
	for _, p := range c.Proxies {
		one.Proxies = []string{p}
		if refTrusted(one, peer) {
			return "entry:" + p
		}
	}
	return "?"
}

func observe(c fiber.Ctx) obs {
	return obs{
		IP: c.IP(), Host: c.Host(), Hostname: c.Hostname(), Scheme: c.Scheme(), BaseURL: c.BaseURL(),
		Secure: c.Secure(), Trusted: c.IsProxyTrusted(), Subdomains: strings.Join(c.Subdomains(), "|"),
	}
}

func firstElem(v string) string {
	if i := strings.Index(v, ","); i != -1 {
		return v[:i]
	}
	return v
}

func hget(hs []hdr, name string) (string, bool) {
	for _, h := range hs {
		if h.K == name {
			return h.V, true
		}
	}
	return "", false
}

func hnames(hs []hdr) string {
	var n []string
	for _, h := range hs {
		n = append(n, h.K)
	}
	return strings.Join(n, "+")
}

func validIP(s string) bool { _, err := netip.ParseAddr(s); return err == nil }

func main() {
	r := core.Start("C10")
	maxHdr, maxProxies := 2, 2
	if !r.Quick() {
		maxHdr = 3
	}
	hsets := headerSets(maxHdr)
	var cfgs []cfg
	for _, trust := range []bool{true, false} {
		for _, ps := range subsets(len(proxyMenu), maxProxies) {
			var proxies []string
			for _, i := range ps {
				proxies = append(proxies, proxyMenu[i])
			}
			for flags := 0; flags < 8; flags++ {
				for _, ph := range []string{"", "X-Forwarded-For", "X-Real-Ip"} {
					for _, val := range []bool{false, true} {
						if !trust && (len(ps) > 0 || flags != 0) {
							continue // proxy set is irrelevant without TrustProxy
						}
						cfgs = append(cfgs, cfg{trust, proxies, flags&1 != 0, flags&2 != 0, flags&4 != 0, ph, val})
					}
				}
			}
		}
	}
	r.Parallel(len(cfgs), func(ci int, l *core.Local) {
		c := cfgs[ci]
		var got obs
		app := fiber.New(fiber.Config{
			TrustProxy:         c.Trust,
			TrustProxyConfig:   fiber.TrustProxyConfig{Proxies: c.Proxies, Loopback: c.Loopback, Private: c.Private, LinkLocal: c.LinkLocal},
			ProxyHeader:        c.Header,
			EnableIPValidation: c.Validation,
		})
		app.Get("/", func(ctx fiber.Ctx) error { got = observe(ctx); return nil })
		h := app.Handler()
		var fctx fasthttp.RequestCtx
		for _, peer := range peers {
			want := refTrusted(c, peer)
			peerIP := net.ParseIP(peer)
			addr := &net.TCPAddr{IP: peerIP, Port: 5555}
			for _, tls := range []bool{false, true} {
				base := fx.Req("GET", "http://app.example.com:8080/")
				fx.CallInto(&fctx, h, base, addr, tls)
				plain := got
				for _, hs := range hsets {
					req := fx.Req("GET", "http://app.example.com:8080/")
					for _, hh := range hs {
						req.Header.Set(hh.K, hh.V)
					}
					got = obs{}
					fx.CallInto(&fctx, h, req, addr, tls)
					o := got
					l.Add("evaluations", 1)
					if len(hs) > 0 {
						l.Add("nontrivial", 1)
					}
					cs := map[string]any{"config": c, "peer": peer, "tls": tls, "headers": hs}
					if len(hs) > 0 && ci%97 == 0 && peer == "10.0.0.1" && !tls && len(hs) == maxHdr {
						l.Sample(map[string]any{"case": cs, "observed": o})
					}
					l.Outcome(fmt.Sprintf("trusted=%v ipFromHdr=%v hostFromHdr=%v scheme=%s secure=%v", o.Trusted, o.IP != plain.IP, o.Host != plain.Host, o.Scheme, o.Secure))
					// (d) secure flag <=> scheme https
					if o.Secure != (o.Scheme == "https") {
						l.Violate(fmt.Sprintf("secure-flag!=scheme-https tls=%v scheme=%s secure=%v", tls, o.Scheme, o.Secure),
							"Secure() disagrees with Scheme()==\"https\"", cs, o, nil)
					}
					// (c) validation => syntactically valid address
					if c.Validation && !validIP(o.IP) {
						l.Violate("validation-on-invalid-ip header="+c.Header, "EnableIPValidation but IP() is not an address", cs, o, nil)
					}
					if !want {
						// (a) non-interference
						if o != plain {
							field := diffField(o, plain)
							l.Violate(fmt.Sprintf("untrusted-peer-influenced field=%s headers=%s", field, hnames(hs)),
								"forwarding header changed an accessor although the peer is outside the proxy set", cs, o, plain)
						}
						continue
					}
					// (b) trusted => documented forwarded values
					if !o.Trusted {
						l.Violate(fmt.Sprintf("trusted-peer-not-recognised peer=%s via=%s", peer, refWhy(c, peer)),
							"peer is inside the configured proxy set but IsProxyTrusted() is false", cs, o, nil)
						continue
					}
					if v, ok := hget(hs, "X-Forwarded-Host"); ok && v != "" {
						if o.Host != firstElem(v) {
							l.Violate("trusted-host-not-forwarded", "trusted peer: Host() is not the first X-Forwarded-Host element", cs, o, firstElem(v))
						}
					} else if o.Host != plain.Host {
						l.Violate("trusted-host-changed-without-header", "Host() changed without X-Forwarded-Host", cs, o, plain)
					}
					if c.Header != "" {
						v, _ := hget(hs, c.Header)
						if !c.Validation {
							if o.IP != v {
								l.Violate("trusted-ip-not-header-value header="+c.Header, "trusted peer, no validation: IP() must be the proxy header value", cs, o, v)
							}
						} else {
							exp := plain.IP
							for _, e := range strings.Split(v, ",") {
								e = strings.TrimSpace(e)
								if validIP(e) && !strings.Contains(e, "%") {
									exp = e
									break
								}
							}
							if o.IP != exp {
								l.Violate("trusted-ip-not-first-valid header="+c.Header, "trusted peer, validation: IP() must be the first valid address of the proxy header, else the peer", cs, o, exp)
							}
						}
					} else if o.IP != plain.IP {
						l.Violate("ip-changed-without-proxyheader", "IP() changed although no ProxyHeader is configured", cs, o, plain)
					}
					// scheme: judged when at most one scheme header is present
					var cands []string
					if v, ok := hget(hs, "X-Forwarded-Proto"); ok {
						cands = append(cands, firstElem(v))
					}
					if v, ok := hget(hs, "X-Forwarded-Protocol"); ok {
						cands = append(cands, firstElem(v))
					}
					if v, ok := hget(hs, "X-Forwarded-Ssl"); ok {
						if v == "on" {
							cands = append(cands, "https")
						} else {
							cands = append(cands, "http")
						}
					}
					if v, ok := hget(hs, "X-Url-Scheme"); ok {
						cands = append(cands, v)
					}
					switch {
					case tls:
						if o.Scheme != "https" {
							l.Violate("tls-scheme-not-https", "TLS connection must report https", cs, o, "https")
						}
					case len(cands) == 0:
						if o.Scheme != "http" {
							l.Violate("scheme-changed-without-header", "scheme changed without a scheme header", cs, o, "http")
						}
					case len(cands) == 1:
						if o.Scheme != cands[0] {
							l.Violate("trusted-scheme-not-forwarded headers="+hnames(hs), "trusted peer: Scheme() is not the forwarded scheme", cs, o, cands[0])
						}
					default:
						ok := o.Scheme == "http"
						for _, cnd := range cands {
							ok = ok || o.Scheme == cnd
						}
						if !ok {
							l.Violate("trusted-scheme-from-nowhere", "Scheme() is none of the forwarded candidates", cs, o, cands)
						}
						l.Add("unspecified_skipped", 1)
					}
					if o.BaseURL != o.Scheme+"://"+o.Host {
						l.Violate("baseurl-inconsistent", "BaseURL() != Scheme()://Host()", cs, o, nil)
					}
				}
			}
		}
	})
	ev := core.Evidence{
		Level:      "exploration",
		Exhaustive: true,
		Coverage: map[string]any{
			"evaluations":         r.P.Counters["evaluations"],
			"distinct_nontrivial": r.P.Counters["nontrivial"],
			"rule": fmt.Sprintf("full product: %d configs (TrustProxy x subsets<=%d of %v x Loopback/Private/LinkLocal x ProxyHeader{'',XFF,X-Real-Ip} x EnableIPValidation) x %d peers x TLS{0,1} x %d forwarding-header sets (subsets<=%d of 7 headers x per-header value menus); a case is non-trivial when at least one forwarding header is present; each is compared with the header-less request (paired) and with a netip-based reference trust predicate",
				len(cfgs), maxProxies, proxyMenu, len(peers), len(hsets), maxHdr),
			"bounds": map[string]any{"max_headers": maxHdr, "max_proxy_entries": maxProxies, "configs": len(cfgs), "header_sets": len(hsets)},
		},
		Assumptions: []string{"handler-level drive (app.Handler() on a fake conn carrying peer address and TLS flag); fasthttp header parsing is not re-checked here",
			"when several scheme headers are present the winner is unspecified by the docs and only membership is checked"},
	}
	r.Finish(ev)
}

func diffField(a, b obs) string {
	switch {
	case a.IP != b.IP:
		return "IP"
	case a.Host != b.Host:
		return "Host"
	case a.Hostname != b.Hostname:
		return "Hostname"
	case a.Scheme != b.Scheme:
		return "Scheme"
	case a.BaseURL != b.BaseURL:
		return "BaseURL"
	case a.Secure != b.Secure:
		return "Secure"
	case a.Subdomains != b.Subdomains:
		return "Subdomains"
	case a.Trusted != b.Trusted:
		return "IsProxyTrusted"
	}
	return "?"
}
