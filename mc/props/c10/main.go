// C10 — forwarding headers affect IP/host/scheme only when the peer is a trusted proxy.
// Exhaustive product: peers x TLS x proxy configurations x forwarding-header subsets.
package main

import (
	"flag"
	"fmt"
	"io"
	"net"
	"sort"
	"strings"

	"github.com/gofiber/fiber/v3"
	"github.com/gofiber/fiber/v3/log"
	"github.com/valyala/fasthttp"

	"verifmc/core"
	"verifmc/fx"
)

type cfg struct {
	Trust      bool
	Proxies    []string
	Loopback   bool
	Private    bool
	LinkLocal  bool
	Header     string
	Validation bool
}

type hdr struct{ K, V string }

type obs struct {
	IP, Host, Hostname, Scheme, BaseURL string
	Secure, Trusted                     bool
	Subdomains                          string
}

var peers = []string{"127.0.0.1", "10.0.0.1", "172.16.0.1", "192.168.1.1", "169.254.1.1", "8.8.8.8",
	"::1", "fe80::1", "fc00::1", "2001:db8::1", "::ffff:10.0.0.1",
	// neighbours of listed single addresses: same /8, /24, /32 or /64 but not listed themselves
	"10.0.0.2", "8.8.8.9", "2001:db8::2", "2001:db8:ffff::5", "::2"}

var proxyMenu = []string{"10.0.0.1", "10.0.0.0/8", "2001:db8::/32", "2001:DB8::1", "0:0:0:0:0:0:0:1", "garbage", "8.8.8.8"}

var headerMenu = map[string][]string{
	"X-Forwarded-For":      {"1.2.3.4", "1.2.3.4, 5.6.7.8", "garbage", "999.1.1.1, ::1", ""},
	"X-Real-Ip":            {"9.9.9.9", "nonsense", "2001:db8::99"},
	"X-Forwarded-Host":     {"evil.test", "evil.test:81, b.test", "a.b.evil.test"},
	"X-Forwarded-Proto":    {"https", "http", "https, http", "ftp"},
	"X-Forwarded-Protocol": {"https", "wss"},
	"X-Forwarded-Ssl":      {"on", "off"},
	"X-Url-Scheme":         {"https", "gopher"},
}
var headerNames []string

func init() {
	for k := range headerMenu {
		headerNames = append(headerNames, k)
	}
	sort.Strings(headerNames)
}

func subsets(n, max int) [][]int {
	var out [][]int
	var rec func(start int, cur []int)
	rec = func(start int, cur []int) {
		out = append(out, append([]int(nil), cur...))
		if len(cur) == max {
			return
		}
		for i := start; i < n; i++ {
			rec(i+1, append(cur, i))
		}
	}
	rec(0, nil)
	return out
}

func headerSets(max int) [][]hdr {
	var out [][]hdr
	for _, ss := range subsets(len(headerNames), max) {
		var rec func(i int, cur []hdr)
		rec = func(i int, cur []hdr) {
			if i == len(ss) {
				out = append(out, append([]hdr(nil), cur...))
				return
			}
			name := headerNames[ss[i]]
			for _, v := range headerMenu[name] {
				rec(i+1, append(cur, hdr{name, v}))
			}
		}
		rec(0, nil)
	}
	return out
}

func observe(c fiber.Ctx) obs {
	return obs{
		IP: c.IP(), Host: c.Host(), Hostname: c.Hostname(), Scheme: c.Scheme(), BaseURL: c.BaseURL(),
		Secure: c.Secure(), Trusted: c.IsProxyTrusted(), Subdomains: strings.Join(c.Subdomains(), "|"),
	}
}

// sut is one app built from a cfg plus a reusable RequestCtx; call() serves one request and
// returns what the handler observed.  A panic inside an accessor is reported, not fatal.
type sut struct {
	c    cfg
	h    fasthttp.RequestHandler
	got  obs
	fctx fasthttp.RequestCtx
}

func newSUT(c cfg) *sut { return newSUTFrom(fiberConfig(c), c) }

func newSUTFrom(fc fiber.Config, c cfg) *sut {
	s := &sut{c: c}
	app := fiber.New(fc)
	app.Get("/", func(ctx fiber.Ctx) error { s.got = observe(ctx); return nil })
	s.h = app.Handler()
	return s
}

func (s *sut) call(req *fasthttp.Request, addr net.Addr, tls bool) (o obs, panicked any) {
	s.got = obs{}
	defer func() {
		if p := recover(); p != nil {
			panicked = p
		}
		o = s.got
	}()
	fx.CallInto(&s.fctx, s.h, req, addr, tls)
	return
}

const target = "http://app.example.com:8080/"

func main() {
	core.SuperviseSelf("C10") // a runtime fatal error inside the code under test is a finding, not a harness error
	only := flag.String("family", "", "debug: run only these families (comma separated subset of P,T,D,V)")
	r := core.Start("C10")
	log.SetOutput(io.Discard) // fiber warns about every unparsable Proxies entry
	want := func(f string) bool { return *only == "" || strings.Contains(","+*only+",", ","+f+",") }
	bounds := map[string]any{}
	var rules []string
	if want("P") {
		rules = append(rules, familyProduct(r, bounds))
	}
	if want("T") {
		rules = append(rules, familyTrust(r, bounds))
	}
	if want("D") {
		rules = append(rules, familyDerived(r, bounds))
	}
	if want("V") {
		rules = append(rules, familyValues(r, bounds))
	}
	foldHeaderLabels(r)
	foldManySignatures(r, 12)
	cov := map[string]any{
		"evaluations":         r.P.Counters["evaluations"],
		"distinct_nontrivial": r.P.Counters["nontrivial"],
		"rule":                strings.Join(rules, " || "),
		"bounds":              bounds,
	}
	for _, k := range []string{"evaluations_P", "evaluations_T", "evaluations_V", "evaluations_D", "peers_listed_by_previous_app_only_D", "trust_decisions_T", "trusted_T", "untrusted_T",
		"distinct_values_V", "unspecified_skipped"} {
		cov[k] = r.P.Counters[k]
	}
	ev := core.Evidence{
		Level:      "exploration",
		Exhaustive: true,
		Coverage:   cov,
		Assumptions: []string{"handler-level drive (app.Handler() on a fake conn carrying peer address and TLS flag); fasthttp header parsing is not re-checked here",
			"when several scheme headers are present the winner is unspecified by the docs and only membership is checked",
			"unspecified (counted, judged only for validity and Secure<=>https): peers that are not TCP addresses, IPv4 peers against IPv6 ranges that cover the mapped form without being mapped-only (::/0), proxy-header lists with an empty element or a parser-dependent element (zone, dotted quad in IPv6, tab) before the first plainly valid address, scheme/host values with blanks, other letter case or empty"},
	}
	r.Finish(ev)
}

// familyProduct (P): peers x TLS x proxy configurations x forwarding-header subsets.
func familyProduct(r *core.Run, bounds map[string]any) string {
	maxHdr, maxProxies := 2, 2
	if !r.Quick() {
		maxHdr = 3
	}
	hsets := headerSets(maxHdr)
	var cfgs []cfg
	for _, trust := range []bool{true, false} {
		for _, ps := range subsets(len(proxyMenu), maxProxies) {
			var proxies []string
			for _, i := range ps {
				proxies = append(proxies, proxyMenu[i])
			}
			for flags := 0; flags < 8; flags++ {
				for _, ph := range []string{"", "X-Forwarded-For", "X-Real-Ip"} {
					for _, val := range []bool{false, true} {
						if !trust && (len(ps) > 0 || flags != 0) {
							continue // proxy set is irrelevant without TrustProxy
						}
						cfgs = append(cfgs, cfg{trust, proxies, flags&1 != 0, flags&2 != 0, flags&4 != 0, ph, val})
					}
				}
			}
		}
	}
	r.Parallel(len(cfgs), func(ci int, l *core.Local) {
		c := cfgs[ci]
		s := newSUT(c)
		for _, peer := range peers {
			w := no
			if refTrusted(c, peer) {
				w = yes
			}
			addr := &net.TCPAddr{IP: net.ParseIP(peer), Port: 5555}
			for _, tls := range []bool{false, true} {
				plain, pp := s.call(fx.Req("GET", target), addr, tls)
				for _, hs := range hsets {
					req := fx.Req("GET", target)
					for _, hh := range hs {
						req.Header.Set(hh.K, hh.V)
					}
					o, p := s.call(req, addr, tls)
					l.Add("evaluations", 1)
					l.Add("evaluations_P", 1)
					if len(hs) > 0 {
						l.Add("nontrivial", 1)
					}
					cs := map[string]any{"family": "P", "config": c, "peer": peer, "tls": tls, "headers": hs}
					if p != nil || pp != nil {
						l.Violate("accessor-panicked family=P", "an accessor panicked", cs, fmt.Sprint(p, pp), nil)
						continue
					}
					if len(hs) > 0 && ci%97 == 0 && peer == "10.0.0.1" && !tls && len(hs) == maxHdr {
						l.Sample(map[string]any{"case": cs, "observed": o})
					}
					l.Outcome(fmt.Sprintf("trusted=%v ipFromHdr=%v hostFromHdr=%v scheme=%s secure=%v", o.Trusted, o.IP != plain.IP, o.Host != plain.Host, o.Scheme, o.Secure))
					judge(l, c, tls, hs, o, plain, w, cs, jopt{})
				}
			}
		}
	})
	bounds["P"] = map[string]any{"max_headers": maxHdr, "max_proxy_entries": maxProxies, "configs": len(cfgs), "header_sets": len(hsets), "peers": len(peers)}
	return fmt.Sprintf("P: full product: %d configs (TrustProxy x subsets<=%d of %v x Loopback/Private/LinkLocal x ProxyHeader{'',XFF,X-Real-Ip} x EnableIPValidation) x %d peers x TLS{0,1} x %d forwarding-header sets (subsets<=%d of 7 headers x per-header value menus); a case is non-trivial when at least one forwarding header is present; each is compared with the header-less request (paired) and with a netip-based reference trust predicate",
		len(cfgs), maxProxies, proxyMenu, len(peers), len(hsets), maxHdr)
}

// foldHeaderLabels: a family-V violation reported under every ProxyHeader name class is one root
// cause that does not depend on the name; keep one signature "header=any-name" for it.
func foldHeaderLabels(r *core.Run) {
	labels := map[string]bool{}
	for _, hn := range proxyHeaderNames {
		labels[hn[2]] = true
	}
	stems := map[string][]string{}
	for sig := range r.P.Violations {
		i := strings.Index(sig, " header=")
		j := strings.Index(sig, " shape=")
		if i < 0 || j < i {
			continue
		}
		if !labels[sig[i+len(" header="):j]] {
			continue
		}
		stem := sig[:i] + " header=any-name" + sig[j:]
		stems[stem] = append(stems[stem], sig)
	}
	for stem, sigs := range stems {
		if len(sigs) != len(labels) {
			continue
		}
		sort.Strings(sigs)
		keep := r.P.Violations[sigs[0]]
		for _, s := range sigs[1:] {
			keep.Count += r.P.Violations[s].Count
		}
		for _, s := range sigs {
			delete(r.P.Violations, s)
		}
		keep.Signature = stem
		r.P.Violations[stem] = keep
	}
}

// foldManySignatures keeps the number of distinct signatures per violation kind (first token)
// small: the signatures of this harness are "kind k1=v1 k2=v2 ..." with the qualifiers ordered from
// the root cause outwards, so when one kind is reported under more than max signatures (one cause
// showing through many peers / value shapes) the trailing qualifiers are dropped, for all
// signatures of the kind alike, until at most max remain.  Depends only on the SET of signatures.
func foldManySignatures(r *core.Run, max int) {
	groups := map[string][]string{}
	for sig := range r.P.Violations {
		groups[strings.SplitN(sig, " ", 2)[0]] = append(groups[strings.SplitN(sig, " ", 2)[0]], sig)
	}
	for _, sigs := range groups {
		if len(sigs) <= max {
			continue
		}
		sort.Strings(sigs)
		longest := 0
		for _, s := range sigs {
			if n := len(strings.Split(s, " ")); n > longest {
				longest = n
			}
		}
		for cut := longest - 1; cut >= 1; cut-- {
			trunc := map[string][]string{}
			for _, s := range sigs {
				t := strings.Split(s, " ")
				if len(t) > cut {
					t = append(t[:cut:cut], "(more-qualifiers-folded)")
				}
				k := strings.Join(t, " ")
				trunc[k] = append(trunc[k], s)
			}
			if len(trunc) > max && cut > 1 {
				continue
			}
			for k, members := range trunc {
				if len(members) == 1 && members[0] == k {
					continue
				}
				keep := r.P.Violations[members[0]]
				for _, s := range members[1:] {
					keep.Count += r.P.Violations[s].Count
				}
				for _, s := range members {
					delete(r.P.Violations, s)
				}
				keep.Signature = k
				r.P.Violations[k] = keep
			}
			break
		}
	}
}
