// Family T — the trust decision itself: boundary peers of every class and listed range, in every
// representation a connection can carry them, against ordered Proxies lists built from all entry
// spellings (plain, upper case, expanded, IPv4-mapped, CIDR with host bits, single-host CIDR,
// mapped CIDR, /0, unparsable address, unparsable range).
package main

import (
	"fmt"
	"net"
	"net/netip"
	"sort"
	"strings"

	"github.com/valyala/fasthttp"

	"verifmc/core"
	"verifmc/fx"
)

// entry is one spelling of a Proxies element together with its kind (used in signatures).
type entry struct{ S, Kind string }

var entryAlphabet = []entry{
	{"10.0.0.1", "single-v4"},
	{"8.8.8.8", "single-v4"},
	{"::ffff:10.0.0.1", "single-v4-mapped-spelling"},
	{"::ffff:a00:1", "single-v4-mapped-hex-spelling"},
	{"2001:db8::1", "single-v6"},
	{"2001:DB8::1", "single-v6-upper"},
	{"2001:0db8:0000:0000:0000:0000:0000:0001", "single-v6-expanded"},
	{"0:0:0:0:0:0:0:1", "single-v6-expanded"},
	{"fe80::1", "single-v6"},
	{"10.0.0.0/8", "cidr-v4"},
	{"10.0.0.1/8", "cidr-v4-host-bits"},
	{"10.0.0.1/32", "cidr-v4-single-host"},
	{"172.16.0.0/12", "cidr-v4"},
	{"192.168.1.0/24", "cidr-v4"},
	{"192.168.1.77/25", "cidr-v4-host-bits"},
	{"0.0.0.0/0", "cidr-v4-all"},
	{"2001:db8::/32", "cidr-v6"},
	{"2001:db8::1/64", "cidr-v6-host-bits"},
	{"2001:db8::1/128", "cidr-v6-single-host"},
	{"::ffff:10.0.0.0/104", "cidr-v4-mapped-spelling"},
	{"::/0", "cidr-v6-all"},
	{"garbage", "bad-address"},
	{"10.0.0.256", "bad-address"},
	{"10.0.0.0/33", "bad-range"},
	{"10.0.0.1/", "bad-range"},
	{"2001:db8::/129", "bad-range"},
}

// classPrefixes are the documented ranges of the three class flags.
var classPrefixes = []string{"127.0.0.0/8", "10.0.0.0/8", "172.16.0.0/12", "192.168.0.0/16", "169.254.0.0/16", "::1/128", "fc00::/7", "fe80::/10"}

var extraPeers = []string{"0.0.0.0", "255.255.255.255", "100.64.0.1", "224.0.0.1", "ff02::1", "::", "8.8.4.4", "2001:4860::8888",
	"64:ff9b::a00:1", "::a00:1", "2002:a00:1::"}

// tpeer is one peer of family T: an address, the reason it is in the alphabet and how the
// connection presents it.
type tpeer struct {
	Addr netip.Addr // unmapped; invalid for the non-TCP peer
	Role string
	Form string
	NA   net.Addr
}

func lastOf(p netip.Prefix) netip.Addr {
	b := p.Masked().Addr().AsSlice()
	for i := p.Bits(); i < len(b)*8; i++ {
		b[i/8] |= 1 << (7 - uint(i%8))
	}
	a, _ := netip.AddrFromSlice(b)
	return a
}

func buildPeers() []tpeer {
	type ra struct {
		a    netip.Addr
		role string
	}
	var list []ra
	seen := map[netip.Addr]bool{}
	add := func(a netip.Addr, role string) {
		if !a.IsValid() {
			return
		}
		a = a.Unmap()
		if seen[a] {
			return
		}
		seen[a] = true
		list = append(list, ra{a, role})
	}
	addPrefix := func(s, what string) {
		pa, bits, ok := parseEntryPrefix(s)
		if !ok {
			return
		}
		if pa.Is4In6() && bits >= 96 {
			pa, bits = pa.Unmap(), bits-96
		}
		p := netip.PrefixFrom(pa, bits).Masked()
		first, last := p.Addr(), lastOf(p)
		add(first, "first-of-"+what)
		add(last, "last-of-"+what)
		add(first.Prev(), "before-"+what)
		add(last.Next(), "after-"+what)
		if pa != first {
			add(pa, "written-address-of-"+what)
		}
	}
	for _, c := range classPrefixes {
		addPrefix(c, "class:"+c)
	}
	for _, e := range entryAlphabet {
		if strings.Contains(e.S, "/") {
			addPrefix(e.S, "entry:"+e.S)
			continue
		}
		if a, err := netip.ParseAddr(e.S); err == nil {
			a = a.Unmap()
			add(a, "listed:"+a.String())
			add(a.Prev(), "before-listed:"+a.String())
			add(a.Next(), "after-listed:"+a.String())
		}
	}
	for _, s := range extraPeers {
		add(netip.MustParseAddr(s), "other:"+s)
	}
	var out []tpeer
	for _, x := range list {
		if x.a.Is4() {
			b4 := x.a.As4()
			b16 := x.a.As16()
			out = append(out, tpeer{x.a, x.role, "ip4-in-4-bytes", &net.TCPAddr{IP: net.IP(b4[:]), Port: 5555}})
			out = append(out, tpeer{x.a, x.role, "ip4-in-16-bytes", &net.TCPAddr{IP: net.IP(b16[:]), Port: 5555}})
			continue
		}
		b16 := x.a.As16()
		out = append(out, tpeer{x.a, x.role, "ip6", &net.TCPAddr{IP: net.IP(b16[:]), Port: 5555}})
		if x.a.IsLinkLocalUnicast() && strings.HasPrefix(x.role, "first-of-class") {
			out = append(out, tpeer{x.a, x.role, "ip6-with-zone", &net.TCPAddr{IP: net.IP(b16[:]), Port: 5555, Zone: "eth0"}})
		}
	}
	out = append(out, tpeer{netip.Addr{}, "other:unix-socket", "not-tcp", &net.UnixAddr{Name: "/run/app.sock", Net: "unix"}})
	return out
}

// attack is the header set sent by every family-T request: one value for every forwarding header.
var attack = []hdr{
	{"X-Forwarded-For", "1.2.3.4"}, {"X-Real-Ip", "9.9.9.9"}, {"X-Forwarded-Host", "evil.test:81"},
	{"X-Forwarded-Proto", "https"},
}

// attackSingles: every forwarding header alone (a peer must not be believed for one accessor only).
var attackSingles = [][]hdr{
	{{"X-Forwarded-For", "1.2.3.4"}}, {{"X-Real-Ip", "2001:db8::99"}}, {{"X-Forwarded-Host", "a.b.evil.test"}},
	{{"X-Forwarded-Proto", "wss"}}, {{"X-Forwarded-Protocol", "https"}}, {{"X-Forwarded-Ssl", "on"}}, {{"X-Url-Scheme", "https"}},
}

func kindsOf(c cfg) string {
	var ks []string
	for _, p := range c.Proxies {
		k := "?"
		for _, e := range entryAlphabet {
			if e.S == p {
				k = e.Kind
			}
		}
		ks = append(ks, k)
	}
	fl := ""
	if c.Loopback {
		fl += "L"
	}
	if c.Private {
		fl += "P"
	}
	if c.LinkLocal {
		fl += "K"
	}
	return fmt.Sprintf("flags=%s entries=[%s]", fl, strings.Join(ks, ","))
}

// whyKind names the kind of the first configuration element that lists the peer.
func whyKind(c cfg, a netip.Addr) string {
	one := c
	one.Proxies = nil
	if refTrust(one, a) == yes {
		return "class-flag"
	}
	for i, p := range c.Proxies {
		if entryCovers(p, a.Unmap().WithZone("")) == yes {
			k := "?"
			for _, e := range entryAlphabet {
				if e.S == p {
					k = e.Kind
				}
			}
			pos := "first"
			if i > 0 {
				pos = "later"
			}
			return "entry-kind:" + k + " position:" + pos
		}
	}
	return "?"
}

func familyTrust(r *core.Run, bounds map[string]any) string {
	tpeers := buildPeers()
	// ordered lists of entries: every list of length <= 2 (both orders, repeats), and every rotation
	// window of length 3 and 4 over the alphabet (longer lists, each entry in every position)
	var lists [][]string
	lists = append(lists, nil)
	n := len(entryAlphabet)
	for i := 0; i < n; i++ {
		lists = append(lists, []string{entryAlphabet[i].S})
	}
	for i := 0; i < n; i++ {
		for j := 0; j < n; j++ {
			lists = append(lists, []string{entryAlphabet[i].S, entryAlphabet[j].S})
		}
	}
	strides := []int{1, 5}
	if !r.Quick() {
		strides = []int{1, 3, 5, 7, 11}
	}
	for _, st := range strides {
		for i := 0; i < n; i++ {
			for _, ln := range []int{3, 4} {
				var l []string
				for k := 0; k < ln; k++ {
					l = append(l, entryAlphabet[(i+k*st)%n].S)
				}
				lists = append(lists, l)
			}
		}
	}
	type hv struct {
		h string
		v bool
	}
	variants := []hv{{"X-Forwarded-For", false}, {"X-Real-Ip", true}}
	var cfgs []cfg
	for li, ps := range lists {
		for flags := 0; flags < 8; flags++ {
			v := variants[(li+(flags&1)+(flags>>1&1)+(flags>>2&1))%2]
			cfgs = append(cfgs, cfg{true, ps, flags&1 != 0, flags&2 != 0, flags&4 != 0, v.h, v.v})
		}
	}
	hsets := append([][]hdr{attack}, attackSingles...)
	r.Parallel(len(cfgs), func(ci int, l *core.Local) {
		c := cfgs[ci]
		reqs := make([]*fasthttp.Request, len(hsets))
		for i, hs := range hsets {
			reqs[i] = fx.Req("GET", target)
			for _, hh := range hs {
				reqs[i].Header.Set(hh.K, hh.V)
			}
		}
		plainReq := fx.Req("GET", target)
		s := newSUT(c)
		ck := kindsOf(c)
		for _, tp := range tpeers {
			w := unspec
			if tp.Addr.IsValid() {
				w = refTrust(c, tp.Addr)
			}
			l.Add("trust_decisions_T", 1)
			switch w {
			case yes:
				l.Add("trusted_T", 1)
			case no:
				l.Add("untrusted_T", 1)
			}
			plain, pp := s.call(plainReq, tp.NA, false)
			cs0 := map[string]any{"family": "T", "config": c, "peer": tp.NA.String(), "peer_role": tp.Role, "peer_form": tp.Form, "reference_trust": w.String()}
			if pp != nil {
				l.Violate("accessor-panicked family=T peer-form="+tp.Form+" "+ck, "an accessor panicked", cs0, fmt.Sprint(pp), nil)
				continue
			}
			if w != unspec && plain.Trusted != (w == yes) {
				// decided on the header-less request already: narrow signature, one per peer role/form and entry kind
				if w == yes {
					l.Violate(fmt.Sprintf("trusted-peer-not-recognised via=%s form=%s peer=%s", whyKind(c, tp.Addr), tp.Form, tp.Role),
						"peer is inside the configured proxy set but IsProxyTrusted() is false", cs0, plain, nil)
				} else {
					l.Violate(fmt.Sprintf("untrusted-peer-recognised form=%s peer=%s", tp.Form, tp.Role),
						"peer is outside the configured proxy set but IsProxyTrusted() is true", cs0, plain, nil)
				}
				continue
			}
			for hi, hs := range hsets {
				tls := hi == 0 && ci%2 == 1
				pl := plain
				if tls {
					pl, _ = s.call(plainReq, tp.NA, true)
				}
				o, p := s.call(reqs[hi], tp.NA, tls)
				l.Add("evaluations", 1)
				l.Add("evaluations_T", 1)
				l.Add("nontrivial", 1)
				cs := map[string]any{"family": "T", "config": c, "peer": tp.NA.String(), "peer_role": tp.Role, "peer_form": tp.Form, "tls": tls, "headers": hs, "reference_trust": w.String()}
				if p != nil {
					l.Violate("accessor-panicked family=T peer-form="+tp.Form+" "+ck, "an accessor panicked", cs, fmt.Sprint(p), nil)
					continue
				}
				if hi == 0 && ci%997 == 0 && tp.Form == "ip4-in-4-bytes" && strings.HasPrefix(tp.Role, "last-of-class") {
					l.Sample(map[string]any{"case": cs, "observed": o})
				}
				l.Outcome(fmt.Sprintf("T ref=%s trusted=%v form=%s ipFromHdr=%v hostFromHdr=%v scheme=%s", w, o.Trusted, tp.Form, o.IP != pl.IP, o.Host != pl.Host, o.Scheme))
				q := fmt.Sprintf("form=%s peer=%s", tp.Form, tp.Role)
				if w == yes {
					q = "via=" + whyKind(c, tp.Addr) + " " + q
				}
				judge(l, c, tls, hs, o, pl, w, cs, jopt{Qual: q})
			}
		}
	})
	var roles []string
	for _, tp := range tpeers {
		roles = append(roles, tp.Role+"/"+tp.Form)
	}
	sort.Strings(roles)
	bounds["T"] = map[string]any{"configs": len(cfgs), "proxy_lists": len(lists), "entry_spellings": len(entryAlphabet), "peers": len(tpeers), "header_sets": len(hsets)}
	return fmt.Sprintf("T: trust decision: %d configs (TrustProxy on x %d ordered Proxies lists [all lists of <=2 of %d entry spellings in both orders incl. repeats, plus rotation windows of length 3 and 4] x Loopback/Private/LinkLocal; ProxyHeader/validation alternate) x %d peers (first/last/before/after address of every class range and of every listed range, listed single addresses and their neighbours, others; IPv4 peers as 4-byte and as 16-byte net.IP, link-local IPv6 also with a zone, one non-TCP peer) x %d header sets (all forwarding headers at once, each alone); the reference is three-valued",
		len(cfgs), len(lists), len(entryAlphabet), len(tpeers), len(hsets))
}
