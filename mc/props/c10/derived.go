// Family D — configuration provenance: the Config handed to fiber.New is not written from scratch
// but taken from another app (app.Config()) and given another proxy set.  The configured proxy set
// of the new app is what its Config says; nothing of the app the Config was copied from may be
// believed.
package main

import (
	"fmt"
	"net/netip"
	"strings"

	"github.com/gofiber/fiber/v3"

	"verifmc/core"
	"verifmc/fx"
)

func fiberConfig(c cfg) fiber.Config {
	return fiber.Config{
		TrustProxy:         c.Trust,
		TrustProxyConfig:   fiber.TrustProxyConfig{Proxies: c.Proxies, Loopback: c.Loopback, Private: c.Private, LinkLocal: c.LinkLocal},
		ProxyHeader:        c.Header,
		EnableIPValidation: c.Validation,
	}
}

// deriveConfig builds the Config of an app for c out of the Config() of an app built for prev.
func deriveConfig(prev, c cfg) fiber.Config {
	fc := fiber.New(fiberConfig(prev)).Config()
	fc.TrustProxy = c.Trust
	fc.TrustProxyConfig.Proxies = c.Proxies
	fc.TrustProxyConfig.Loopback = c.Loopback
	fc.TrustProxyConfig.Private = c.Private
	fc.TrustProxyConfig.LinkLocal = c.LinkLocal
	fc.ProxyHeader = c.Header
	fc.EnableIPValidation = c.Validation
	return fc
}

// staleKind names what of the previous app's configuration lists the peer: a range if any range
// does, else a single address, else a class flag.
func staleKind(prev cfg, a netip.Addr) string {
	a = a.Unmap().WithZone("")
	single := false
	for _, p := range prev.Proxies {
		if entryCovers(p, a) == yes {
			if strings.Contains(p, "/") {
				return "range"
			}
			single = true
		}
	}
	if single {
		return "single-address"
	}
	one := prev
	one.Proxies = nil
	if refTrust(one, a) == yes {
		return "class-flag"
	}
	return "nothing"
}

func familyDerived(r *core.Run, bounds map[string]any) string {
	tpeers := buildPeers()
	var lists [][]string
	lists = append(lists, nil)
	for _, e := range entryAlphabet {
		lists = append(lists, []string{e.S})
	}
	prevLists := lists
	{
		for _, a := range entryAlphabet {
			for _, b := range entryAlphabet {
				prevLists = append(prevLists, []string{a.S, b.S})
			}
		}
	}
	type pair struct{ prev, c cfg }
	var pairs []pair
	for pi, pl := range prevLists {
		for li, l := range lists {
			// the previous app trusts more (all classes) or other things than the new one
			prev := cfg{Trust: true, Proxies: pl, Loopback: true, Private: true, LinkLocal: true, Header: "X-Real-Ip", Validation: true}
			c := cfg{Trust: true, Proxies: l, Header: "X-Forwarded-For", Validation: (pi+li)%2 == 0}
			pairs = append(pairs, pair{prev, c})
		}
	}
	r.Parallel(len(pairs), func(ci int, l *core.Local) {
		p := pairs[ci]
		c := p.c
		// the app the configuration is taken from stays in service: building the second app must not change it
		first := &sut{c: p.prev}
		firstApp := fiber.New(fiberConfig(p.prev))
		firstApp.Get("/", func(ctx fiber.Ctx) error { first.got = observe(ctx); return nil })
		first.h = firstApp.Handler()
		fc := firstApp.Config()
		fc.TrustProxy = c.Trust
		fc.TrustProxyConfig.Proxies = c.Proxies
		fc.TrustProxyConfig.Loopback = c.Loopback
		fc.TrustProxyConfig.Private = c.Private
		fc.TrustProxyConfig.LinkLocal = c.LinkLocal
		fc.ProxyHeader = c.Header
		fc.EnableIPValidation = c.Validation
		s := newSUTFrom(fc, c)
		defer func() {
			// ... judged AFTER the second app was built and used
			req := fx.Req("GET", target)
			for _, hh := range attack {
				req.Header.Set(hh.K, hh.V)
			}
			for _, tp := range tpeers {
				if !tp.Addr.IsValid() {
					continue
				}
				w := refTrust(p.prev, tp.Addr)
				o, po := first.call(req, tp.NA, false)
				l.Add("evaluations", 1)
				l.Add("evaluations_D_first_app", 1)
				cs := map[string]any{"family": "D", "judged": "the app the Config was taken FROM, after the second app was built", "config": p.prev, "second_app_config": c,
					"peer": tp.NA.String(), "peer_role": tp.Role, "headers": attack, "reference_trust": w.String()}
				switch {
				case po != nil:
					l.Violate("accessor-panicked family=D app=config-donor", "an accessor panicked", cs, fmt.Sprint(po), nil)
				case w == no && o.Trusted:
					l.Violate("untrusted-peer-recognised app=config-donor-after-second-app-was-built listed-by-second-app="+fmt.Sprint(refTrust(c, tp.Addr) == yes),
						"building a second app from this app's Config() changed THIS app: a peer outside its proxy set is trusted now", cs, o, nil)
				case w == yes && !o.Trusted:
					l.Violate("trusted-peer-not-recognised app=config-donor-after-second-app-was-built via="+whyKind(p.prev, tp.Addr),
						"building a second app from this app's Config() changed THIS app: a peer inside its proxy set is no longer trusted", cs, o, nil)
				}
			}
		}()
		plainReq := fx.Req("GET", target)
		req := fx.Req("GET", target)
		for _, hh := range attack {
			req.Header.Set(hh.K, hh.V)
		}
		for _, tp := range tpeers {
			w := unspec
			if tp.Addr.IsValid() {
				w = refTrust(c, tp.Addr)
			}
			plain, pp := s.call(plainReq, tp.NA, false)
			o, po := s.call(req, tp.NA, false)
			l.Add("evaluations", 1)
			l.Add("evaluations_D", 1)
			l.Add("nontrivial", 1)
			cs := map[string]any{"family": "D", "config": c, "config_taken_from_app_with": p.prev, "peer": tp.NA.String(), "peer_role": tp.Role, "peer_form": tp.Form,
				"tls": false, "headers": attack, "reference_trust": w.String()}
			if pp != nil || po != nil {
				l.Violate("accessor-panicked family=D", "an accessor panicked", cs, fmt.Sprint(pp, po), nil)
				continue
			}
			if w == no && tp.Addr.IsValid() && refTrust(p.prev, tp.Addr) == yes {
				l.Add("peers_listed_by_previous_app_only_D", 1)
			}
			l.Outcome(fmt.Sprintf("D ref=%s trusted=%v hostFromHdr=%v", w, o.Trusted, o.Host != plain.Host))
			switch {
			case w == no && o.Trusted:
				l.Violate("untrusted-peer-recognised config=taken-from-another-app listed-there-by="+staleKind(p.prev, tp.Addr),
					"the Config was copied from another app and given another proxy set; the peer is outside the proxy set of this Config but IsProxyTrusted() is true", cs, o, plain)
			case w == yes && !o.Trusted:
				l.Violate("trusted-peer-not-recognised config=taken-from-another-app via="+whyKind(c, tp.Addr),
					"peer is inside the configured proxy set but IsProxyTrusted() is false", cs, o, nil)
			default:
				judge(l, c, false, attack, o, plain, w, cs, jopt{Qual: "config=taken-from-another-app peer=" + tp.Role + " form=" + tp.Form})
			}
		}
	})
	bounds["D"] = map[string]any{"config_pairs": len(pairs), "previous_lists": len(prevLists), "lists": len(lists), "peers": len(tpeers)}
	return fmt.Sprintf("D: configuration provenance: %d (previous app, new app) pairs - the new app's Config is previousApp.Config() with TrustProxyConfig/ProxyHeader/validation replaced (previous: all class flags + every Proxies list of <=%d entries; new: no class flag + every list of <=1 of %d entry spellings) x %d peers x {no header, all forwarding headers}; reference = proxy set of the NEW configuration only",
		len(pairs), 2, len(entryAlphabet), len(tpeers))
}
