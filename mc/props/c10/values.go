// Family V — value shapes: what a forwarding header may CONTAIN.  Proxy-header lists of up to three
// elements over an element alphabet (valid v4/v6, look-alikes of the other family, ports, brackets,
// zones, mapped, non-ASCII digits, empty) in several separator styles, under standard, custom and
// differently spelled ProxyHeader names; and host/scheme header values with other letter case,
// blanks, lists, empty elements, IPv6 literals.
package main

import (
	"fmt"
	"net"
	"sort"
	"strings"

	"github.com/valyala/fasthttp"

	"verifmc/core"
	"verifmc/fx"
)

var elemAlphabet = []string{
	"1.2.3.4", "5.6.7.8", "2001:db8::99", "::1", "2001:DB8:0:0:0:0:0:AB",
	"999.1.1.1", "1.2.3", "1.2.3.4.5", "01.2.3.4", "1.2.3.4:80", "a.b", "1:2", "[2001:db8::99]", "[2001:db8::99]:443",
	"garbage", "unknown", "",
	"::ffff:1.2.3.4", "fe80::1%eth0", "\t5.6.7.8", "١.٢.٣.٤",
}

// sepStyle: how elements are joined and padded.
type sepStyle struct{ Name, Lead, Sep, Trail string }

var sepStyles = []sepStyle{
	{"comma-space", "", ", ", ""},
	{"comma", "", ",", ""},
	{"space-comma-space", "", " , ", ""},
	{"comma-two-spaces", "", ",  ", ""},
	{"padded", " ", ", ", " "},
	{"two-spaces-before-comma", "", "  ,", ""},
}

type pvalue struct {
	V     string
	Shape string
}

func kindLetter(e string) string {
	k, t := classifyElem(e)
	switch {
	case t == "":
		return "empty"
	case k == elValid:
		return "valid"
	case k == elAmbiguous:
		return "ambiguous"
	}
	return "invalid"
}

// shapeOf: the set of element kinds in front of the first valid element, whether the list is long,
// and the separator style.
func shapeOf(els []string, st sepStyle) string {
	set := map[string]bool{}
	found := false
	for _, e := range els {
		k := kindLetter(e)
		if k == "valid" {
			found = true
			break
		}
		set[k] = true
	}
	var ks []string
	for k := range set {
		ks = append(ks, k)
	}
	sort.Strings(ks)
	before := strings.Join(ks, "+")
	switch {
	case !found:
		before = "no-valid-element"
	case before == "":
		before = "valid-first"
	default:
		before = "valid-after-" + before
	}
	if len(els) > 4 {
		before += "/long-list"
	}
	return before + "/" + st.Name
}

func proxyValues(quick bool) []pvalue {
	seen := map[string]bool{}
	var out []pvalue
	add := func(els []string, st sepStyle) {
		v := st.Lead + strings.Join(els, st.Sep) + st.Trail
		if seen[v] {
			return
		}
		seen[v] = true
		out = append(out, pvalue{v, shapeOf(els, st)})
	}
	A := elemAlphabet
	for _, st := range sepStyles {
		for _, a := range A {
			add([]string{a}, st)
			for _, b := range A {
				add([]string{a, b}, st)
				for _, c := range A {
					add([]string{a, b, c}, st)
				}
			}
		}
		// longer lists: the first valid address at position n, and n valid addresses
		for _, n := range []int{5, 9, 17, 33} {
			var bad, good []string
			for i := 0; i < n-1; i++ {
				bad = append(bad, []string{"garbage", "999.1.1.1", "1:2"}[i%3])
				good = append(good, fmt.Sprintf("10.1.%d.%d", i, n))
			}
			add(append(bad, "5.6.7.8"), st)
			add(append(bad, "2001:db8::99"), st)
			add(append(good, "5.6.7.8"), st)
		}
	}
	_ = quick
	return out
}

// header names: how ProxyHeader is spelled in the configuration -> the canonical name on the request
var proxyHeaderNames = [][3]string{
	{"X-Forwarded-For", "X-Forwarded-For", "X-Forwarded-For"},
	{"X-Real-Ip", "X-Real-Ip", "X-Real-Ip"},
	{"X-Client-Ip", "X-Client-Ip", "custom-name"},
	{"x-forwarded-for", "X-Forwarded-For", "non-canonical-spelling"},
	{"CF-Connecting-IP", "Cf-Connecting-Ip", "non-canonical-spelling"},
}

var shapeMenu = map[string][]string{
	"X-Forwarded-Host":     {"evil.test", "evil.test:81", "EVIL.Test", "evil.test, b.test", "evil.test,b.test", " evil.test", "evil.test ", ",evil.test", "[2001:db8::1]:81", "[::1]", "a.b.c.evil.test", "", "evil.test:81:82", "ëvil.test"},
	"X-Forwarded-Proto":    {"https", "http", "HTTPS", "Https", " https", "https ", "https,http", "http, https", ",https", "", "wss", "on"},
	"X-Forwarded-Protocol": {"https", "HTTPS", "http", "", "https, wss", "ftp"},
	"X-Forwarded-Ssl":      {"on", "off", "ON", "On", "1", "true", "", " on"},
	"X-Url-Scheme":         {"https", "HTTPS", "http", "", "gopher", "https,http"},
}

func valueClass(v string) string {
	switch {
	case v == "":
		return "empty"
	case strings.HasPrefix(v, ","):
		return "empty-first-element"
	case strings.TrimSpace(v) != v:
		return "blank-padded"
	case strings.Contains(v, ","):
		return "list"
	case strings.Contains(v, "["):
		return "ipv6-literal"
	case strings.ToLower(v) != v:
		return "upper-case"
	}
	return "plain"
}

func familyValues(r *core.Run, bounds map[string]any) string {
	pvals := proxyValues(r.Quick())
	type item struct {
		c    cfg
		name  string // canonical request header name of c.Header
		label string // class of the name, for signatures
		peer string
		w    tri
	}
	var items []item
	for _, trust := range []bool{true, false} {
		for _, hn := range proxyHeaderNames {
			for _, val := range []bool{false, true} {
				c := cfg{Trust: trust, Loopback: trust, Header: hn[0], Validation: val}
				if trust {
					items = append(items, item{c, hn[1], hn[2], "127.0.0.1", yes}, item{c, hn[1], hn[2], "8.8.8.8", no}, item{c, hn[1], hn[2], "::1", yes})
				} else {
					items = append(items, item{c, hn[1], hn[2], "8.8.8.8", yes})
				}
			}
		}
	}
	// V1: proxy-header values.  Work is split into (item, stripe) so that 16 cores stay busy.
	const stripes = 4
	r.Parallel(len(items)*stripes, func(wi int, l *core.Local) {
		it := items[wi/stripes]
		s := newSUT(it.c)
		addr := &net.TCPAddr{IP: net.ParseIP(it.peer), Port: 5555}
		plain, pp := s.call(fx.Req("GET", target), addr, false)
		var req fasthttp.Request
		for vi := wi % stripes; vi < len(pvals); vi += stripes {
			pv := pvals[vi]
			req.Reset()
			req.Header.SetMethod("GET")
			req.SetRequestURI(target)
			req.Header.Set(it.name, pv.V)
			hs := []hdr{{it.name, pv.V}}
			o, p := s.call(&req, addr, false)
			l.Add("evaluations", 1)
			l.Add("evaluations_V", 1)
			l.Add("nontrivial", 1)
			if wi/stripes == 0 {
				l.Add("distinct_values_V", 1)
			}
			cs := map[string]any{"family": "V", "config": it.c, "peer": it.peer, "tls": false, "headers": hs}
			if p != nil || pp != nil {
				l.Violate("accessor-panicked family=V shape="+pv.Shape, "an accessor panicked", cs, fmt.Sprint(p, pp), nil)
				continue
			}
			if vi%9973 == 0 && it.w == yes && it.c.Validation {
				l.Sample(map[string]any{"case": cs, "observed": o})
			}
			l.Outcome(fmt.Sprintf("V trusted=%v ip=%s", o.Trusted, ipOutcome(o.IP, plain.IP, pv.V)))
			judge(l, it.c, false, hs, o, plain, it.w, cs, jopt{HdrName: it.name, HdrLabel: it.label, Shape: pv.Shape})
		}
	})
	// V2: host / scheme value shapes, singles and pairs, with and without a proxy header value
	var names []string
	for k := range shapeMenu {
		names = append(names, k)
	}
	sort.Strings(names)
	type hset struct {
		hs    []hdr
		shape string
	}
	var hsets []hset
	for i, a := range names {
		for _, va := range shapeMenu[a] {
			hsets = append(hsets, hset{[]hdr{{a, va}}, valueClass(va)})
			for _, b := range names[i+1:] {
				for _, vb := range shapeMenu[b] {
					hsets = append(hsets, hset{[]hdr{{a, va}, {b, vb}}, valueClass(va) + "+" + valueClass(vb)})
				}
			}
		}
	}
	type item2 struct {
		c    cfg
		peer string
		w    tri
	}
	var items2 []item2
	for _, ph := range []string{"", "X-Forwarded-For"} {
		for _, val := range []bool{false, true} {
			c := cfg{Trust: true, Private: true, Header: ph, Validation: val}
			items2 = append(items2, item2{c, "10.0.0.1", yes}, item2{c, "8.8.8.8", no}, item2{c, "fc00::1", yes}, item2{c, "2001:db8::1", no})
			items2 = append(items2, item2{cfg{Trust: false, Header: ph, Validation: val}, "8.8.8.8", yes})
		}
	}
	r.Parallel(len(items2), func(wi int, l *core.Local) {
		it := items2[wi]
		s := newSUT(it.c)
		addr := &net.TCPAddr{IP: net.ParseIP(it.peer), Port: 5555}
		var req fasthttp.Request
		for _, tls := range []bool{false, true} {
			for _, withIP := range []bool{false, true} {
				mk := func(hs []hdr) {
					req.Reset()
					req.Header.SetMethod("GET")
					req.SetRequestURI(target)
					if withIP {
						req.Header.Set("X-Forwarded-For", "1.2.3.4")
					}
					for _, hh := range hs {
						req.Header.Set(hh.K, hh.V)
					}
				}
				// the paired request carries no forwarding header at all
				plainReq := fx.Req("GET", target)
				plain, pp := s.call(plainReq, addr, tls)
				for _, h := range hsets {
					mk(h.hs)
					hs := h.hs
					if withIP {
						hs = append([]hdr{{"X-Forwarded-For", "1.2.3.4"}}, h.hs...)
					}
					o, p := s.call(&req, addr, tls)
					l.Add("evaluations", 1)
					l.Add("evaluations_V", 1)
					l.Add("nontrivial", 1)
					cs := map[string]any{"family": "V", "config": it.c, "peer": it.peer, "tls": tls, "headers": hs}
					if p != nil || pp != nil {
						l.Violate("accessor-panicked family=V shape="+h.shape, "an accessor panicked", cs, fmt.Sprint(p, pp), nil)
						continue
					}
					l.Outcome(fmt.Sprintf("V trusted=%v hostFromHdr=%v scheme=%q secure=%v", o.Trusted, o.Host != plain.Host, o.Scheme, o.Secure))
					judge(l, it.c, tls, hs, o, plain, it.w, cs, jopt{Shape: h.shape})
				}
			}
		}
	})
	bounds["V"] = map[string]any{"proxy_header_values": len(pvals), "elements": len(elemAlphabet), "separator_styles": len(sepStyles), "max_list": 3,
		"proxy_header_names": len(proxyHeaderNames), "items": len(items), "host_scheme_header_sets": len(hsets), "items2": len(items2)}
	return fmt.Sprintf("V: value shapes: %d proxy-header values (all lists of <=3 of %d elements x %d separator styles, plus lists of 5..33 elements) x %d (config, peer) items (TrustProxy on+Loopback with a listed v4, a listed v6 and an unlisted peer / TrustProxy off; ProxyHeader spelled %d ways incl. custom and non-canonical names; validation off/on); and %d host/scheme header sets (singles and pairs over extended value menus: other case, blanks, lists, empty first element, IPv6 literals, empty) x %d items x TLS x with/without X-Forwarded-For",
		len(pvals), len(elemAlphabet), len(sepStyles), len(items), len(proxyHeaderNames), len(hsets), len(items2))
}

func ipOutcome(ip, peer, hv string) string {
	switch {
	case ip == peer:
		return "peer"
	case ip == hv:
		return "header-value"
	case validIP(ip):
		return "element"
	}
	return "other"
}
