package main

// Capture sites: WHERE in the handler chain a value is obtained, and what the chain did before.
//
// The main application has one kind of handler: the last handler of a route that matched below a
// root-level middleware, with a catch-all behind it (every request reaches it). Real applications
// obtain values in other places too, and other code runs there: the context may have no route at
// all, the router has gone through its not-found / method-not-allowed scan, the request may have
// been refused by fasthttp before any routing, the path may have been rewritten, the parameters
// may come from a middleware, group or mount prefix. The "bare" application below has no
// root-level middleware and no catch-all, a capturing ErrorHandler and these chain shapes:
//
//	Use("/mw/:id") + All("/mw/:id/*")   values obtained in a middleware before c.Next(), after it
//	                                    returned (the downstream handler has written its response),
//	                                    and in the route handler
//	Use("/mx/:id") without a route      the middleware's c.Next() ends in the router's 404: sites
//	                                    before/after Next and the error handler (the context's route
//	                                    is the middleware's)
//	All("/mh/:id/:name?", h1, h2)       first of two handlers of one route, then the second
//	Group("/grp/:a").All("/item/:id")   parameters from a group prefix
//	Use("/mnt", subApp)                 route of a mounted sub-application
//	All("/err/:id/:name?")              a handler that obtains values and returns an error: the
//	                                    error handler runs after it
//	Get("/onlyget/:id") + POST          method-not-allowed scan, then the error handler
//	no route at all                     the error handler on a context without a route (every
//	                                    general letter ends here too: all body / header / cookie
//	                                    forms of the general alphabet are read by an error handler)
//	Use("/rr") rewriting + restart      c.Path(override) + c.RestartRouting(): the values are those
//	                                    of the rewritten request
//	body larger than BodyLimit          fasthttp refuses the request before routing: the error
//	                                    handler runs from the server's error hook on a context that
//	                                    never saw the router (the connection is closed afterwards)
//
// Every site calls every accessor (capture) and keeps the results; oracle 1 applies to all of
// them (and to values of an earlier site of the SAME request), oracle 2 to a site's values for as
// long as its function is on the stack (a middleware's values across c.Next()), oracle 3 compares
// all sites' values with the same request served alone on the bare application. Signatures carry
// " site=<name>", folded away when the accessor is reported without it.

import (
	"strings"

	"github.com/gofiber/fiber/v3"
	"github.com/valyala/fasthttp"

	"verifmc/core"
)

const bareBodyLimit = 16 * 1024

var (
	siteBase int // alphabet index of the first site letter; its twin is at +nSites
	nSites   int
)

func siteLetters(v int) []*letter {
	sh := &shaper{v: v}
	fl, add := sh.fl, sh.add
	get := func(name, class, path string, want map[string]string) {
		add(&letter{Name: name, Shape: class, Method: "GET", Path: path, Query: "q=" + fl("sq-"+name) + "&tag=" + fl("st"), Hdr: sh.base(name, "Referer", fl("http://ref."+name+".example/")), Want: want})
	}
	form := func(tag string) []byte {
		return []byte("name=" + fl("site-form-"+tag) + "&tags=" + fl("sa") + "&tags=" + fl("sb,sc") + "&note=" + fl("site+note%21"))
	}
	get("site-mw", "site=middleware+route", "/mw/"+fl("mw-id")+"/"+fl("rest/of/it"), map[string]string{
		"middleware-before-next@Params|id": fl("mw-id"), "middleware-after-next@Params|id": fl("mw-id"), "route-handler@Params|id": fl("mw-id"),
		"route-handler@Params|*": fl("rest/of/it"), "middleware-before-next@Path|": "/mw/" + fl("mw-id") + "/" + fl("rest/of/it"), "middleware-after-next@Query|q": fl("sq-site-mw")})
	add(&letter{Name: "site-mw-post", Shape: "site=middleware+route body=form", Method: "POST", Path: "/mw/" + fl("mwp-id") + "/" + fl("posted"), Query: "src=" + fl("mwp"),
		Hdr: sh.base("site-mw-post", "Content-Type", "application/x-www-form-urlencoded"), Body: form("mwp"),
		Want: map[string]string{"middleware-before-next@FormValue|name": fl("site-form-mwp"), "middleware-after-next@Bind.Form|Name": fl("site-form-mwp"), "route-handler@Body|": string(form("mwp"))}})
	get("site-mw-404", "site=middleware-then-not-found", "/mx/"+fl("mx-id")+"/"+fl("missing"), map[string]string{
		"middleware-before-next@Params|id": fl("mx-id"), "error-handler@Params|id": fl("mx-id"), "error-handler@Path|": "/mx/" + fl("mx-id") + "/" + fl("missing")})
	get("site-two-handlers", "site=two-handlers-on-one-route", "/mh/"+fl("mh-id")+"/"+fl("mh-name"), map[string]string{
		"first-of-two-handlers@Params|name": fl("mh-name"), "route-handler@Params|id": fl("mh-id")})
	get("site-group", "site=group-prefix-parameter", "/grp/"+fl("grp-id")+"/item/"+fl("item-id"), map[string]string{
		"route-handler@Params|a": fl("grp-id"), "route-handler@Params|id": fl("item-id"), "route-handler@Route.Path|": "/grp/:a/item/:id"})
	get("site-mount", "site=mounted-sub-app", "/mnt/x/"+fl("mounted-id"), map[string]string{"route-handler@Params|id": fl("mounted-id")})
	get("site-fail", "site=failing-handler", "/err/"+fl("err-id")+"/"+fl("err-name"), map[string]string{
		"failing-handler@Params|id": fl("err-id"), "error-handler@Params|name": fl("err-name"), "error-handler@OriginalURL|": "/err/" + fl("err-id") + "/" + fl("err-name") + "?q=" + fl("sq-site-fail") + "&tag=" + fl("st")})
	add(&letter{Name: "site-fail-post", Shape: "site=failing-handler body=json", Method: "POST", Path: "/err/" + fl("errp-id"), Query: "q=" + fl("ep"),
		Hdr: sh.base("site-fail-post", "Content-Type", "application/json"), Body: []byte(sh.jsonDoc("site-fail-json")),
		Want: map[string]string{"failing-handler@Bind.JSON|Name": fl("site-fail-json"), "error-handler@Body|": sh.jsonDoc("site-fail-json")}})
	get("site-404", "site=no-route", "/"+fl("nowhere")+"/"+fl("at/all.html"), map[string]string{
		"error-handler@Path|": "/" + fl("nowhere") + "/" + fl("at/all.html"), "error-handler@Route.Path|": "/" + fl("nowhere") + "/" + fl("at/all.html"), "error-handler@Get|X-Custom": fl("custom-site-404")})
	add(&letter{Name: "site-404-post", Shape: "site=no-route body=form", Method: "POST", Path: "/" + fl("none") + "/" + fl("posted"), Query: "src=" + fl("np"),
		Hdr: sh.base("site-404-post", "Content-Type", "application/x-www-form-urlencoded"), Body: form("np"),
		Want: map[string]string{"error-handler@FormValue|name": fl("site-form-np"), "error-handler@Route.Path|": "/" + fl("none") + "/" + fl("posted")}})
	add(&letter{Name: "site-405", Shape: "site=method-not-allowed", Method: "POST", Path: "/onlyget/" + fl("og-id"), Query: "q=" + fl("og"),
		Hdr: sh.base("site-405", "Content-Type", "application/json"), Body: []byte(sh.jsonDoc("site-405-json")),
		Want: map[string]string{"error-handler@Path|": "/onlyget/" + fl("og-id"), "error-handler@Method|": "POST", "error-handler@Bind.JSON|Name": fl("site-405-json")}})
	get("site-restart", "site=path-rewritten-and-routing-restarted", "/rr/"+fl("rr-id")+"/"+fl("rr-name"), map[string]string{
		"route-handler@Path|": "/mh/" + fl("rr-id") + "/" + fl("rr-name"), "route-handler@Params|id": fl("rr-id"), "first-of-two-handlers@Params|name": fl("rr-name"),
		"route-handler@OriginalURL|": "/rr/" + fl("rr-id") + "/" + fl("rr-name") + "?q=" + fl("sq-site-restart") + "&tag=" + fl("st")})
	big := strings.Repeat(fl("0123456789abcdefghijklmnopqrstuvwxyz-too-large-line\n"), 400) // 20 kB > BodyLimit of the bare application
	add(&letter{Name: "site-too-large", Shape: "site=refused-before-routing", Method: "POST", Path: "/mh/" + fl("big-id") + "/" + fl("big-name"), Query: "q=" + fl("bg"),
		Hdr: sh.base("site-too-large", "Content-Type", "text/plain"), Body: []byte(big), Closes: true,
		Want: map[string]string{"error-handler@Path|": "/mh/" + fl("big-id") + "/" + fl("big-name"), "error-handler@Route.Path|": "/mh/" + fl("big-id") + "/" + fl("big-name"),
			"error-handler@Get|X-Custom": fl("custom-site-too-large"), "error-handler@Cookies|sid": fl("sid-site-too-large")}})
	return sh.out
}

func addSites() {
	a, b := siteLetters(0), siteLetters(1)
	siteBase, nSites = len(alphabet), len(a)
	for i, l := range a {
		l.Twin = siteBase + nSites + i
		alphabet = append(alphabet, l)
	}
	for i, l := range b {
		l.Twin = siteBase + i
		l.Shape = a[i].Shape
		alphabet = append(alphabet, l)
	}
}

// ---------------------------------------------------------------------------
// the bare application

func (s *session) buildBare(fc fiber.Config) {
	fc.BodyLimit = bareBodyLimit
	fc.ErrorHandler = s.onError
	app := fiber.New(fc)
	if s.cfg.Ctx == "custom" {
		app.NewCtxFunc(func(app *fiber.App) fiber.CustomCtx {
			return &customCtx{DefaultCtx: *fiber.NewDefaultCtx(app)}
		})
	}
	app.Use("/rr", s.rewriteAndRestart)
	app.Get("/named/:id/:name?", func(c fiber.Ctx) error { return nil }).Name("named")
	app.Use("/mw/:id", s.middleware)
	app.All("/mw/:id/*", s.routeHandler)
	app.Use("/mx/:id", s.middleware)
	app.All("/mh/:id/:name?", s.firstOfTwo, s.routeHandler)
	app.Group("/grp/:a").All("/item/:id", s.routeHandler)
	sub := fiber.New(fiber.Config{Immutable: fc.Immutable})
	sub.All("/x/:id", s.routeHandler)
	app.Use("/mnt", sub)
	app.All("/err/:id/:name?", s.failing)
	app.Get("/onlyget/:id", s.routeHandler)
	_ = app.Handler() // startup processing
	s.bareApp, s.bareSrv = app, app.Server()
	inner := s.bareSrv.Handler
	s.bareSrv.Handler = func(fctx *fasthttp.RequestCtx) {
		inner(fctx)
		s.leave()
	}
}

// enter: the first site a request reaches opens the request (step accounting, oracle 1 at entry).
func (s *session) enter(c fiber.Ctx) int {
	if s.open {
		return s.step - 1
	}
	t := s.step
	s.step++
	if t >= len(s.hist) {
		core.Fatal("bare application: a site was entered %d times for a history of %d requests", t+1, len(s.hist))
	}
	s.open = true
	s.fctxPtr = append(s.fctxPtr, ptrOf(c.RequestCtx()))
	s.ctxPtr = append(s.ctxPtr, ptrOf(c))
	s.digestCur = nil
	s.checkRetained(t, "request-entry")
	return t
}

// leave closes the request (after the application's handler returned, or after the connection was
// closed when fasthttp refused the request).
func (s *session) leave() {
	if !s.open {
		return
	}
	s.open = false
	s.checkRetained(s.step-1, "request-exit")
	s.digests = append(s.digests, s.digestCur)
	s.digestCur = nil
}

// at: a capture site. Every accessor is called; the values are kept (Immutable: from now on, so
// that later sites of the same request check them too).
func (s *session) at(c fiber.Ctx, site string) (int, []*entry) {
	t := s.enter(c)
	s.checkRetained(t, site)
	cur := s.capture(c, t, true)
	for _, e := range cur {
		e.Site = site
	}
	s.digestCur = append(s.digestCur, s.encodeDigest(cur, alphabet[s.hist[t]])...)
	s.ncapt += len(cur)
	s.l.Add("site/"+site, 1)
	if s.cfg.Immutable {
		s.retained = append(s.retained, cur...)
	}
	return t, cur
}

func (s *session) middleware(c fiber.Ctx) error {
	t, before := s.at(c, "middleware-before-next")
	err := c.Next()
	s.checkCur(before, t, "downstream-handlers")
	_, after := s.at(c, "middleware-after-next")
	s.readOnly(c, t)
	s.checkCur(before, t, "read-accessors")
	s.checkCur(after, t, "read-accessors")
	return err
}

func (s *session) firstOfTwo(c fiber.Ctx) error {
	t, cur := s.at(c, "first-of-two-handlers")
	err := c.Next()
	s.checkCur(cur, t, "downstream-handlers")
	return err
}

func (s *session) routeHandler(c fiber.Ctx) error {
	t, cur := s.at(c, "route-handler")
	s.readOnly(c, t)
	s.checkCur(cur, t, "read-accessors")
	s.respond(c)
	s.checkCur(cur, t, "response-helpers")
	return nil
}

func (s *session) failing(c fiber.Ctx) error {
	t, cur := s.at(c, "failing-handler")
	s.readOnly(c, t)
	s.checkCur(cur, t, "read-accessors")
	return fiber.NewError(fiber.StatusTeapot, "the handler failed")
}

func (s *session) onError(c fiber.Ctx, err error) error {
	t, cur := s.at(c, "error-handler")
	s.readOnly(c, t)
	s.checkCur(cur, t, "read-accessors")
	code := fiber.StatusInternalServerError
	if e, ok := err.(*fiber.Error); ok {
		code = e.Code
	}
	s.respond(c)
	s.checkCur(cur, t, "response-helpers")
	c.Status(code)
	return nil
}

// rewriteAndRestart: /rr/<rest> is served as /mh/<rest>.
func (s *session) rewriteAndRestart(c fiber.Ctx) error {
	p := c.Path()
	c.Path("/mh" + p[len("/rr"):])
	return c.RestartRouting()
}

// closerOK: a request after which fasthttp closes the connection can only be the last one on its connection.
func closerOK(hist []int, split int) bool {
	for i, li := range hist {
		if alphabet[li].Closes && i != split-1 && i != len(hist)-1 {
			return false
		}
	}
	return true
}

// bareFollowers: what follows a site letter. lvl 0 = its twin, the requests that outgrow every
// buffer and three sites of another kind; lvl 1 = its twin, every site letter, every general letter.
var bareFollowerNames = []string{"get-long-wildcard", "post-multipart", "site-mw-post", "site-404", "site-fail"}

func bareFollowers(si, lvl int) []int {
	w := []int{alphabet[si].Twin}
	if lvl == 0 {
		for _, n := range bareFollowerNames {
			for i, l := range alphabet {
				if l.Name == n {
					w = append(w, i)
				}
			}
		}
		return w
	}
	for i := siteBase; i < siteBase+nSites; i++ {
		w = append(w, i)
	}
	for i := 0; i < nGeneral; i++ {
		w = append(w, i)
	}
	return w
}
