package main

// Request-shape letters: requests that steer an accessor (or fasthttp's parser underneath it)
// onto another code path than the general alphabet does. Every class of shape below is taken by
// the FIRST request of a "shape history"; the further requests are its twin (same shape, same
// component lengths, other content: in-place overwrite) and letters of the general alphabet
// (shorter and longer content).
//
// The classes are enumerated per accessor family from the branches that the REQUEST selects in
// ctx.go / bind.go / binder/*.go / fasthttp:
//
//	body accessors      Content-Encoding {absent, each supported coding with a really encoded body,
//	                    one unsupported token, supported+unsupported, unsupported+supported, two and
//	                    three codings, empty value, mixed case, supported but undecodable};
//	                    framing {Content-Length, chunked, Expect: 100-continue, empty, body on GET,
//	                    larger than the read buffer}; media type {json, vendor +json, parameters,
//	                    upper case, text/xml, cbor, urlencoded (plain, bracket keys, key also in the
//	                    query), multipart (quoted boundary, several files), none}
//	header accessors    header {absent, empty, duplicated, lower/upper-case name, padded value, many,
//	                    long}; cookie {quoted, without value, duplicated key, many, empty header, two
//	                    Cookie headers}
//	host / proxy        Host {plain, port, IPv6 literal, single label, upper case, absolute-form
//	                    request target, HTTP/1.0}; X-Forwarded-Host {list, empty};
//	                    X-Forwarded-For {single, IPv6, padded, all invalid, empty, two headers};
//	                    scheme {X-Forwarded-Proto list, X-Forwarded-Protocol, X-Forwarded-Ssl off,
//	                    X-Url-Scheme after Proto}
//	query accessors     {key without value, empty value, duplicated key, percent-encoded key and
//	                    value, '+', malformed escape, empty query, fragment, bracket keys}
//	path / params       {percent-encoded slash and UTF-8, upper case, trailing slash, doubled slash,
//	                    dot segments, root}; route {catch-all, constraint, '-' and '.' separated
//	                    parameters, two wildcards, optional parameter absent}; method {HEAD, PUT,
//	                    PATCH, DELETE, OPTIONS}
//	Range / negotiation {several ranges, suffix, open end, malformed, unsatisfiable, other unit};
//	                    Accept with quoted parameters, conditional headers
//	flash cookie        {well-formed (general alphabet), truncated}

import (
	"encoding/base64"
	"fmt"
	"strconv"
	"strings"

	"github.com/valyala/fasthttp"
)

// flip keeps the length and the syntax of a value and changes its content: ASCII letters change
// case, digits stay (so numbers, IP literals and percent escapes remain what they are).
func flip(s string) string {
	b := []byte(s)
	for i, c := range b {
		switch {
		case c >= 'a' && c <= 'z':
			b[i] = c - 'a' + 'A'
		case c >= 'A' && c <= 'Z':
			b[i] = c - 'A' + 'a'
		}
	}
	return string(b)
}

func encodeBody(coding string, plain []byte) []byte {
	switch coding {
	case "gzip":
		return fasthttp.AppendGzipBytes(nil, plain)
	case "deflate":
		return fasthttp.AppendDeflateBytes(nil, plain)
	case "br":
		return fasthttp.AppendBrotliBytes(nil, plain)
	case "zstd":
		return fasthttp.AppendZstdBytes(nil, plain)
	}
	panic("encodeBody: " + coding)
}

// shapeRoutes are registered in addition to the general routes; the catch-all comes last, so
// that every request of the alphabet reaches the handler.
var shapeRoutes = []string{"/c/:n<int>/:s<minLen(2)>", "/d/:from-:to", "/f/:file.:ext", "/g/*/mid/*", "/*"}

type shaper struct {
	v   int // 0 = the shape letter, 1 = its twin
	out []*letter
}

// fl: free-text content (changes in the twin); ab: explicit pair of equal length.
func (sh *shaper) fl(s string) string {
	if sh.v == 0 {
		return s
	}
	return flip(s)
}

func (sh *shaper) ab(a, b string) string {
	if len(a) != len(b) {
		panic(fmt.Sprintf("shapes: %q and %q differ in length", a, b))
	}
	if sh.v == 0 {
		return a
	}
	return b
}

func (sh *shaper) add(l *letter) {
	if l.Proto == "" {
		l.Proto = "HTTP/1.1"
	}
	if sh.v == 1 {
		l.Name += "~twin"
	}
	sh.out = append(sh.out, l)
}

// hdr builds the header list from name/value pairs.
func hdr(kv ...string) [][2]string {
	if len(kv)%2 != 0 {
		panic("hdr: odd")
	}
	h := make([][2]string, 0, len(kv)/2)
	for i := 0; i < len(kv); i += 2 {
		h = append(h, [2]string{kv[i], kv[i+1]})
	}
	return h
}

// base: the three headers every general letter has, with content derived from the tag.
func (sh *shaper) base(tag string, more ...string) [][2]string {
	return append(hdr("Host", tag+sh.ab(".shape-a", ".shape-b")+".example.com", "X-Custom", sh.fl("custom-"+tag), "Cookie", "sid="+sh.fl("sid-"+tag)), hdr(more...)...)
}

func (sh *shaper) jsonDoc(name string) string {
	return `{"name":"` + sh.fl(name) + `","tags":["` + sh.fl("ja") + `","` + sh.fl("jb") + `"],"bytes":"` +
		base64.StdEncoding.EncodeToString([]byte(sh.fl(name+"-bytes"))) + `"}`
}

// encDoc is the JSON document that is sent compressed; the filler makes its compressed length adjustable.
func (sh *shaper) encDoc(name, filler string) string {
	return `{"name":"` + sh.fl(name+"-"+name) + `","tags":["` + sh.fl("ea") + `","` + sh.fl("eb") + `","` + sh.fl("ea") + `","` + sh.fl("eb") + `"],"bytes":"` +
		base64.StdEncoding.EncodeToString([]byte(sh.fl(name+"-bytes"))) + `","f":"` + filler + `"}`
}

// encoded returns a document run through the codings (the first coding of the Content-Encoding
// list is the outermost one: Body() decodes in list order). The twin's compressed body must have
// the length of the shape letter's: its plain text carries a filler of fixed length that is
// varied until it has.
func (sh *shaper) encoded(name string, codings ...string) (body []byte, plain string) {
	enc := func(p string) []byte {
		b := []byte(p)
		for i := len(codings) - 1; i >= 0; i-- {
			b = encodeBody(codings[i], b)
		}
		return b
	}
	const filler0 = "q7x2m9k400000000" // half compressible: the twin can go either way
	if sh.v == 0 {
		p := sh.encDoc(name, filler0)
		return enc(p), p
	}
	want := len(enc((&shaper{v: 0}).encDoc(name, filler0)))
	// fillers from very compressible (one mixed character) to not compressible at all
	for i := uint64(1); i < 4000; i++ {
		rnd := strconv.FormatUint(i*0x9E3779B97F4A7C15, 36) + strconv.FormatUint(i*0xC2B2AE3D27D4EB4F, 36)
		for j := 0; j <= len(filler0); j++ {
			f := rnd[:j] + "0000000000000000"[j:]
			p := sh.encDoc(name, f)
			if b := enc(p); len(b) == want {
				return b, p
			}
		}
	}
	panic("shapes: no equal-length twin body for " + name + " " + strings.Join(codings, ","))
}

func (sh *shaper) multipart(bnd string, files int) []byte {
	var b strings.Builder
	part := func(disp, ctype, val string) {
		b.WriteString("--" + bnd + "\r\nContent-Disposition: form-data; " + disp + "\r\n")
		if ctype != "" {
			b.WriteString("Content-Type: " + ctype + "\r\n")
		}
		b.WriteString("\r\n" + val + "\r\n")
	}
	part(`name="name"`, "", sh.fl("shape-multipart-name"))
	part(`name="tags"`, "", sh.fl("smp-1,smp-2"))
	part(`name="note"`, "", sh.fl("a note in a part"))
	for i := 0; i < files; i++ {
		part(`name="doc"; filename="`+sh.fl("shape-upload-"+strconv.Itoa(i)+".txt")+`"`, "text/plain", sh.fl("content of shape upload "+strconv.Itoa(i)))
	}
	b.WriteString("--" + bnd + "--\r\n")
	return []byte(b.String())
}

func shapeLetters(v int) []*letter {
	sh := &shaper{v: v}
	fl, ab, add := sh.fl, sh.ab, sh.add

	// ---- body accessors: Content-Encoding classes ---------------------------------------
	ce := func(name, class, value string, body []byte, want map[string]string, chunked bool) {
		h := sh.base(name, "Content-Type", "application/json")
		if value != "-" {
			h = append(h, [2]string{"Content-Encoding", value})
		}
		add(&letter{Name: name, Shape: class, Method: "POST", Path: "/u/" + fl(name) + "/" + fl("enc"), Query: "q=" + fl("ceq"), Hdr: h, Body: body, Chunked: chunked, Want: want})
	}
	plainDoc := sh.jsonDoc("ce-plain-json-name")
	ce("ce-absent", "content-encoding=absent", "-", []byte(plainDoc), map[string]string{"Body|": plainDoc, "BodyRaw|": plainDoc, "Bind.JSON|Name": fl("ce-plain-json-name")}, false)
	for _, coding := range []string{"gzip", "deflate", "br", "zstd"} {
		b, p := sh.encoded("ce-"+coding, coding)
		ce("ce-"+coding, "content-encoding=supported", coding, b, map[string]string{"Body|": p, "BodyRaw|": string(b), "Bind.JSON|Name": fl("ce-" + coding + "-ce-" + coding)}, false)
	}
	{
		b, p := sh.encoded("ce-brotli-name", "br")
		ce("ce-brotli-name", "content-encoding=supported", "brotli", b, map[string]string{"Body|": p}, false)
	}
	for _, tok := range []string{"identity", "x-snappy-framed"} {
		ce("ce-"+tok, "content-encoding=unsupported-token", tok, []byte(plainDoc), map[string]string{"Body|": plainDoc, "BodyRaw|": plainDoc, "Bind.JSON|Name": fl("ce-plain-json-name")}, false)
	}
	{
		b, p := sh.encoded("ce-gz-unk", "gzip")
		ce("ce-gzip+unknown", "content-encoding=supported,unsupported", "gzip, x-unknown", b, map[string]string{"Body|": p, "BodyRaw|": string(b)}, false)
		ce("ce-unknown+gzip", "content-encoding=unsupported,supported", "x-unknown, gzip", b, map[string]string{"BodyRaw|": string(b)}, false)
		ce("ce-mixed-case", "content-encoding=mixed-case", "GZip", b, map[string]string{"BodyRaw|": string(b)}, false)
		ce("ce-upper-case", "content-encoding=mixed-case", "GZIP", b, map[string]string{"BodyRaw|": string(b)}, false)
		ce("ce-gzip-chunked", "content-encoding=supported body=chunked", "gzip", b, map[string]string{"Body|": p, "BodyRaw|": string(b)}, true)
	}
	{
		b, p := sh.encoded("ce-two", "gzip", "deflate")
		ce("ce-gzip+deflate", "content-encoding=supported,supported", "gzip, deflate", b, map[string]string{"Body|": p, "BodyRaw|": string(b)}, false)
		b3, p3 := sh.encoded("ce-three", "deflate", "gzip")
		ce("ce-deflate+gzip+unknown", "content-encoding=supported,supported,unsupported", "deflate,gzip, x-unknown", b3, map[string]string{"Body|": p3, "BodyRaw|": string(b3)}, false)
		b4, p4 := sh.encoded("ce-four", "zstd", "br", "deflate", "gzip")
		ce("ce-four-codings", "content-encoding=four-supported", "zstd, br, deflate, gzip", b4, map[string]string{"Body|": p4, "BodyRaw|": string(b4)}, false)
	}
	ce("ce-empty-value", "content-encoding=empty", "", []byte(plainDoc), map[string]string{"Body|": plainDoc, "BodyRaw|": plainDoc}, false)
	ce("ce-blank-list", "content-encoding=blank-list", " , ", []byte(plainDoc), map[string]string{"BodyRaw|": plainDoc}, false)
	ce("ce-undecodable", "content-encoding=supported-undecodable", "gzip", []byte(plainDoc), map[string]string{"BodyRaw|": plainDoc}, false)
	ce("ce-identity-chunked", "content-encoding=unsupported-token body=chunked", "identity", []byte(plainDoc), map[string]string{"Body|": plainDoc, "BodyRaw|": plainDoc}, true)

	// ---- body accessors: framing --------------------------------------------------------
	add(&letter{Name: "body-chunked", Shape: "body=chunked", Method: "POST", Path: "/u/" + fl("chunked"), Hdr: sh.base("chunked", "Content-Type", "application/json"),
		Body: []byte(sh.jsonDoc("chunked-json-name")), Chunked: true, Want: map[string]string{"Body|": sh.jsonDoc("chunked-json-name"), "Bind.JSON|Name": fl("chunked-json-name")}})
	add(&letter{Name: "body-expect-continue", Shape: "body=expect-100-continue", Method: "POST", Path: "/u/" + fl("expect"), Hdr: sh.base("expect", "Content-Type", "application/json", "Expect", "100-continue"),
		Body: []byte(sh.jsonDoc("expect-json-name")), Want: map[string]string{"Body|": sh.jsonDoc("expect-json-name")}})
	add(&letter{Name: "body-empty-post", Shape: "body=empty", Method: "POST", Path: "/u/" + fl("emptybody"), Hdr: sh.base("emptybody", "Content-Type", "application/json"), Body: []byte{},
		Want: map[string]string{"Body|": "", "BodyRaw|": ""}})
	add(&letter{Name: "body-on-get", Shape: "body=on-GET", Method: "GET", Path: "/u/" + fl("getbody"), Query: "q=" + fl("gb"), Hdr: sh.base("getbody", "Content-Type", "text/plain"),
		Body: []byte(fl("a body that came with a GET request")), Want: map[string]string{"Body|": fl("a body that came with a GET request")}})
	add(&letter{Name: "body-no-content-type", Shape: "body=no-content-type", Method: "POST", Path: "/u/" + fl("noctype"), Hdr: sh.base("noctype"),
		Body: []byte(fl("opaque bytes without a media type")), Want: map[string]string{"Body|": fl("opaque bytes without a media type")}})
	large := strings.Repeat(fl("0123456789abcdefghijklmnopqrstuvwxyz-large-body-line\n"), 240) // 12.7 kB: more than the read buffer holds
	add(&letter{Name: "body-large", Shape: "body=larger-than-read-buffer", Method: "POST", Path: "/u/" + fl("large"), Hdr: sh.base("large", "Content-Type", "text/plain"),
		Body: []byte(large), Want: map[string]string{"Body|": large, "BodyRaw|": large}})

	// ---- body accessors: media types ----------------------------------------------------
	mt := func(name, ctype string, body string, want map[string]string) {
		add(&letter{Name: name, Shape: "media-type=" + strings.TrimPrefix(name, "mt-"), Method: "POST", Path: "/p/" + fl(name), Query: "src=" + fl("mt"), Hdr: sh.base(name, "Content-Type", ctype), Body: []byte(body), Want: want})
	}
	mt("mt-json-charset", "application/json; charset=utf-8", sh.jsonDoc("json-charset-name"), map[string]string{"Bind.Body|Name": fl("json-charset-name"), "Bind.JSON|Name": fl("json-charset-name")})
	mt("mt-json-vendor", "application/vnd.api+json", sh.jsonDoc("json-vendor-name"), map[string]string{"Bind.Body|Name": fl("json-vendor-name")})
	mt("mt-json-upper", " APPLICATION/JSON", sh.jsonDoc("json-upper-name"), map[string]string{"Bind.Body|Name": fl("json-upper-name")})
	mt("mt-text-xml", "text/xml; charset=utf-8", "<bodyDoc><name>"+fl("text-xml-name")+"</name><tags>"+fl("xa")+"</tags></bodyDoc>", map[string]string{"Bind.Body|Name": fl("text-xml-name"), "Bind.XML|Name": fl("text-xml-name")})
	mt("mt-cbor", "application/cbor", string(mustCBOR(bodyDoc{Name: fl("shape-cbor-name"), Tags: []string{fl("ca")}, Bytes: []byte(fl("shape-cbor-bytes"))})), map[string]string{"Bind.Body|Name": fl("shape-cbor-name")})
	mt("mt-form-charset", "application/x-www-form-urlencoded; charset=UTF-8", "name="+fl("form-charset-name")+"&tags="+fl("fa")+"&tags="+fl("fb,fc")+"&note="+fl("hi+there%21"),
		map[string]string{"FormValue|name": fl("form-charset-name"), "Bind.Form|Name": fl("form-charset-name"), "Bind.Body|Name": fl("form-charset-name")})
	mt("mt-form-brackets", "application/x-www-form-urlencoded", "name="+fl("form-bracket-name")+"&tags[]="+fl("ba")+"&tags[]="+fl("bb")+"&user[name]="+fl("nested")+"&b=65&b=66",
		map[string]string{"FormValue|name": fl("form-bracket-name"), "FormValue|tags[]": fl("ba")})
	mt("mt-form-encoded-keys", "application/x-www-form-urlencoded", "%6eame="+fl("form%2Dkey%2Dname")+"&n%6Fte="+fl("x%20y")+"&empty=&novalue",
		map[string]string{"FormValue|name": fl("form-key-name"), "FormValue|note": fl("x y")})
	add(&letter{Name: "mt-form-key-in-query", Shape: "media-type=form-key-also-in-query", Method: "POST", Path: "/p/" + fl("fq"), Query: "name=" + fl("name-from-query") + "&q=" + fl("fqq"),
		Hdr: sh.base("fq", "Content-Type", "application/x-www-form-urlencoded"), Body: []byte("name=" + fl("name-from-body") + "&q=" + fl("q-from-body") + "&note=" + fl("only-body")),
		Want: map[string]string{"FormValue|name": fl("name-from-query"), "FormValue|note": fl("only-body"), "Query|q": fl("fqq")}})
	add(&letter{Name: "mt-multipart-quoted-boundary", Shape: "media-type=multipart-quoted-boundary", Method: "POST", Path: "/w/" + fl("mpq/dir"), Hdr: sh.base("mpq", "Content-Type", `multipart/form-data; charset=utf-8; boundary="`+boundary+`"`),
		Body: sh.multipart(boundary, 1), Want: map[string]string{"FormValue|name": fl("shape-multipart-name"), "FormFile.Filename|doc": fl("shape-upload-0.txt")}})
	add(&letter{Name: "mt-multipart-files", Shape: "media-type=multipart-several-files", Method: "PUT", Path: "/w/" + fl("mpf/dir"), Query: "name=" + fl("mp-query-name"), Hdr: sh.base("mpf", "Content-Type", "multipart/form-data; boundary="+boundary),
		Body: sh.multipart(boundary, 3), Want: map[string]string{"FormValue|name": fl("mp-query-name"), "FormValue|note": fl("a note in a part")}})
	add(&letter{Name: "mt-multipart-chunked", Shape: "media-type=multipart body=chunked", Method: "POST", Path: "/w/" + fl("mpc/dir"), Hdr: sh.base("mpc", "Content-Type", "multipart/form-data; boundary="+boundary),
		Body: sh.multipart(boundary, 1), Chunked: true, Want: map[string]string{"FormValue|name": fl("shape-multipart-name")}})

	// ---- header accessors ---------------------------------------------------------------
	get := func(name, class, path, query string, h [][2]string, want map[string]string) {
		add(&letter{Name: name, Shape: class, Method: "GET", Path: path, Query: query, Hdr: h, Want: want})
	}
	get("hdr-only-host", "header=absent", "/u/"+fl("onlyhost"), "", hdr("Host", "onlyhost.shape.example.com"),
		map[string]string{"Get|X-Custom": "", "Cookies|sid": "", "Get|Referer": "", "IPs|": "[]", "Scheme|": "http"})
	get("hdr-empty-values", "header=empty-value", "/u/"+fl("emptyhdr"), "q="+fl("eh"),
		hdr("Host", "emptyhdr.shape.example.com", "X-Custom", "", "Cookie", "", "Referer", "", "Accept", "", "Range", "", "X-Forwarded-For", "", "X-Forwarded-Host", "", "X-Forwarded-Proto", "", "Accept-Language", fl("en")),
		map[string]string{"Get|X-Custom": "", "Host|": "emptyhdr.shape.example.com", "Get|Accept-Language": fl("en")})
	get("hdr-duplicated", "header=duplicated", "/u/"+fl("duphdr"), "q="+fl("dh"),
		hdr("Host", "duphdr.shape.example.com", "X-Custom", fl("first-of-two"), "Accept", "text/html", "X-Custom", fl("second-of-two"), "Accept", "application/json", "Referer", fl("http://r1.example/"), "Referer", fl("http://r2.example/"), "Cookie", "sid="+fl("dup-sid")),
		map[string]string{"Get|X-Custom": fl("first-of-two"), "Cookies|sid": fl("dup-sid")})
	get("hdr-lower-names", "header=lower-case-name", "/u/"+fl("lowerhdr"), "q="+fl("lh"),
		hdr("host", "lowerhdr.shape.example.com", "x-custom", fl("lower-custom"), "cookie", "sid="+fl("lower-sid")+"; theme="+fl("lt"), "referer", fl("http://lower.example/"), "x-forwarded-for", "10.9.8.7", "x-forwarded-proto", "https", "accept-language", fl("de")),
		nil)
	get("hdr-upper-names", "header=upper-case-name", "/u/"+fl("upperhdr"), "q="+fl("uh"),
		hdr("HOST", "upperhdr.shape.example.com", "X-CUSTOM", fl("upper-custom"), "COOKIE", "sid="+fl("upper-sid")+"; theme="+fl("ut"), "REFERER", fl("http://upper.example/"), "X-FORWARDED-FOR", "10.9.8.6", "X-FORWARDED-HOST", "upper.fwd.example.org", "ACCEPT-LANGUAGE", fl("fr")),
		nil)
	get("hdr-padded-values", "header=padded-value", "/u/"+fl("padhdr"), "q="+fl("ph"),
		hdr("Host", "  padhdr.shape.example.com  ", "X-Custom", " \t "+fl("padded custom value")+" \t ", "Cookie", "  sid="+fl("pad-sid")+" ;  theme = "+fl("pt")+"  ", "Referer", "   "+fl("http://pad.example/")+"   ", "Range", "  bytes=1-2  "),
		map[string]string{"Get|X-Custom": fl("padded custom value")})
	{
		var kv []string
		kv = append(kv, "Host", "manyhdr.shape.example.com")
		for i := 0; i < 40; i++ {
			kv = append(kv, "X-Filler-"+strconv.Itoa(i), fl("filler-value-"+strconv.Itoa(i)))
		}
		kv = append(kv, "X-Custom", fl("custom-after-forty-headers"), "Cookie", "sid="+fl("many-sid"), "Referer", fl("http://many.example/"))
		get("hdr-many", "header=many", "/u/"+fl("manyhdr"), "q="+fl("mh"), hdr(kv...), map[string]string{"Get|X-Custom": fl("custom-after-forty-headers")})
	}
	long := strings.Repeat(fl("long-header-value."), 140) // 2.5 kB in one value
	get("hdr-long-value", "header=long-value", "/u/"+fl("longhdr"), "q="+fl("lv"), sh.base("longhdr", "Referer", long), map[string]string{"Get|Referer": long})

	// cookies
	ck := func(name, class, cookie string, want map[string]string, more ...string) {
		get(name, class, "/u/"+fl(name), "q="+fl("ck"), append(hdr("Host", name+".shape.example.com", "X-Custom", fl("custom-"+name), "Cookie", cookie), hdr(more...)...), want)
	}
	ck("ck-quoted", "cookie=quoted-value", `sid="`+fl("quoted sid value")+`"; theme="`+fl("qt")+`"`, nil)
	ck("ck-no-value", "cookie=without-value", fl("flagonly")+"; sid="+fl("nv-sid")+"; theme=; l", map[string]string{"Cookies|sid": fl("nv-sid"), "Cookies|theme": ""})
	ck("ck-duplicated-key", "cookie=duplicated-key", "sid="+fl("first-sid")+"; theme="+fl("dk")+"; sid="+fl("secnd-sid"), nil)
	{
		var parts []string
		for i := 0; i < 24; i++ {
			parts = append(parts, "c"+strconv.Itoa(i)+"="+fl("cookie-value-"+strconv.Itoa(i)))
		}
		parts = append(parts, "sid="+fl("sid-after-many"), "other="+fl("oth"))
		ck("ck-many", "cookie=many", strings.Join(parts, "; "), map[string]string{"Cookies|sid": fl("sid-after-many"), "Cookies|other": fl("oth")})
	}
	ck("ck-two-headers", "cookie=two-cookie-headers", "sid="+fl("sid-in-first-header"), nil, "Cookie", "theme="+fl("theme-in-second-header"))
	ck("ck-encoded", "cookie=percent-and-symbols", "sid="+fl("a%20b%3Dc")+"; theme="+fl("x=y=z")+"; l="+fl("p,q"), map[string]string{"Cookies|sid": fl("a%20b%3Dc")})
	ck("ck-flash-truncated", "cookie=flash-truncated", "fiber_flash="+flashCookie([4]string{fl("status"), fl("saved-ok"), "!", "msg"}, [4]string{fl("email"), fl("old@example.com"), "#", "old"})[:30]+"; sid="+fl("flt-sid"), nil)

	// not more messages than the flash letter of the general alphabet has: the decoder then re-slices the same array
	ck("ck-flash-fewer-fields", "cookie=flash-with-fewer-fields", "fiber_flash="+flashCookieMin(map[string]string{"key": fl("email"), "value": fl("an-old-input"), "old": ""},
		map[string]string{"key": fl("status"), "value": fl("second-message")}, map[string]string{"value": fl("value-only")})+"; sid="+fl("ffw-sid"),
		map[string]string{"Redirect.Messages|0.Key": fl("status"), "Redirect.Messages|0.Value": fl("second-message"), "Redirect.Messages|1.Value": fl("value-only"), "Redirect.Messages|1.Key": "", "Redirect.OldInputs|0.Value": fl("an-old-input")})

	// ---- host / proxy headers -----------------------------------------------------------
	hostL := func(name, class, host string, want map[string]string, more ...string) {
		get(name, class, "/u/"+fl(name), "q="+fl("ho"), append(hdr("Host", host, "X-Custom", fl("custom-"+name)), hdr(more...)...), want)
	}
	hostL("host-ipv6", "host=ipv6-literal", ab("[2001:db8::a1]:8081", "[2001:db8::b2]:9092"), map[string]string{"Host|": ab("[2001:db8::a1]:8081", "[2001:db8::b2]:9092"), "Hostname|": ab("[2001:db8::a1]", "[2001:db8::b2]")})
	hostL("host-single-label", "host=single-label", ab("localhost", "intranets"), map[string]string{"Host|": ab("localhost", "intranets"), "Subdomains|": ab("[9:localhost,]", "[9:intranets,]")})
	hostL("host-ipv4-port", "host=ipv4-with-port", ab("192.0.2.10:8443", "192.0.2.77:9443"), map[string]string{"Hostname|": ab("192.0.2.10", "192.0.2.77")})
	hostL("host-upper", "host=upper-case", ab("UPPER.Shape.EXAMPLE.com:80", "LOWER.sHAPE.example.COM:80"), nil)
	add(&letter{Name: "host-absolute-target", Shape: "host=absolute-form-target", Method: "GET", Path: "/u/" + fl("abs"), Query: "q=" + fl("at"),
		Target: "http://" + ab("abs.target.example.net", "ABS.TARGET.EXAMPLE.NET") + "/u/" + fl("abs") + "?q=" + fl("at"), Hdr: hdr("Host", "header.shape.example.com", "X-Custom", fl("custom-abs")),
		Want: map[string]string{"Params|id": fl("abs"), "Query|q": fl("at")}})
	add(&letter{Name: "host-http10", Shape: "host=http/1.0", Method: "GET", Path: "/u/" + fl("http10"), Query: "q=" + fl("h1"), Proto: "HTTP/1.0",
		Hdr: hdr("Host", "http10.shape.example.com", "Connection", "keep-alive", "X-Custom", fl("custom-http10")), Want: map[string]string{"Protocol|": "HTTP/1.0"}})
	hostL("xfh-list", "x-forwarded-host=list", "direct.shape.example.com", map[string]string{"Host|": fl("first.fwd.example.org")}, "X-Forwarded-Host", fl("first.fwd.example.org")+", "+fl("second.fwd.example.org"))
	hostL("xfh-port", "x-forwarded-host=with-port", "direct.shape.example.com", map[string]string{"Host|": fl("ported.fwd.example.org") + ":8080", "Hostname|": fl("ported.fwd.example.org")}, "X-Forwarded-Host", fl("ported.fwd.example.org")+":8080")

	xff := func(name, class, value string, want map[string]string, more ...string) {
		hostL(name, class, name+".shape.example.com", want, append([]string{"X-Forwarded-For", value}, more...)...)
	}
	xff("xff-single", "x-forwarded-for=single", ab("203.0.113.7", "203.0.113.9"), map[string]string{"IP|": ab("203.0.113.7", "203.0.113.9"), "IPs|": ab("[11:203.0.113.7,]", "[11:203.0.113.9,]")})
	xff("xff-ipv6", "x-forwarded-for=ipv6-first", ab("2001:db8::17, 198.51.100.1", "2001:db8::71, 198.51.100.9"), nil)
	xff("xff-padded", "x-forwarded-for=padded", ab("  198.51.100.20 ,198.51.100.21  ,  , 198.51.100.22", "  198.51.100.30 ,198.51.100.31  ,  , 198.51.100.32"), nil)
	xff("xff-all-invalid", "x-forwarded-for=all-invalid", fl("unknown, not-an-ip, 999.1.1.1, ::gg"), nil)
	xff("xff-invalid-first", "x-forwarded-for=invalid-then-valid", fl("_hidden, unknown")+ab(", 192.0.2.33, 192.0.2.34", ", 192.0.2.43, 192.0.2.44"), nil)
	xff("xff-two-headers", "x-forwarded-for=two-headers", ab("192.0.2.51", "192.0.2.61"), nil, "X-Forwarded-For", ab("192.0.2.52", "192.0.2.62"))

	schemeL := func(name, class string, want map[string]string, more ...string) {
		hostL(name, class, name+".shape.example.com", want, more...)
	}
	schemeL("xfp-list", "scheme=x-forwarded-proto-list", map[string]string{"Scheme|": ab("https", "wssxy")}, "X-Forwarded-Proto", ab("https", "wssxy")+", "+fl("http"))
	schemeL("xf-protocol", "scheme=x-forwarded-protocol", map[string]string{"Scheme|": ab("gopher-a", "gopher-b")}, "X-Forwarded-Protocol", ab("gopher-a", "gopher-b"))
	schemeL("xf-ssl-off", "scheme=x-forwarded-ssl-off", map[string]string{"Scheme|": "http"}, "X-Forwarded-Ssl", ab("off", "OFF"))
	schemeL("xfp-then-url-scheme", "scheme=proto-then-x-url-scheme", map[string]string{"Scheme|": ab("scheme-one", "scheme-two")}, "X-Forwarded-Proto", fl("https"), "X-Url-Scheme", ab("scheme-one", "scheme-two"))
	schemeL("xfp-lower-name", "scheme=lower-case-header-name", nil, "x-forwarded-proto", ab("ftps", "sftp"), "x-forwarded-host", fl("lower.fwd.example.org"))

	// ---- query accessors ----------------------------------------------------------------
	qy := func(name, class, query string, want map[string]string) {
		get(name, class, "/u/"+fl(name), query, sh.base(name), want)
	}
	qy("q-no-value", "query=key-without-value", "q&tag&"+fl("flag")+"&n", map[string]string{"Query|q": "", "Query|tag": ""})
	qy("q-empty-value", "query=empty-value", "q=&tag=&src="+fl("ev")+"&n=", map[string]string{"Query|q": "", "Query|src": fl("ev")})
	qy("q-duplicated", "query=duplicated-key", "q="+fl("first-q")+"&q="+fl("secnd-q")+"&tag="+fl("ta")+"&tag="+fl("tb")+"&tag="+fl("tc"), map[string]string{"Query|q": fl("first-q")})
	qy("q-encoded", "query=percent-encoded-key-and-value", "%71="+fl("enc%20value%2Fwith%3Dsymbols")+"&t%61g="+fl("%C3%A4%C3%B6")+"&src="+fl("a+b+c"), map[string]string{"Query|q": fl("enc value/with=symbols"), "Query|src": fl("a b c")})
	qy("q-malformed-escape", "query=malformed-escape", "q="+fl("bad%zzescape%4")+"&tag=%&src="+fl("ok"), map[string]string{"Query|src": fl("ok")})
	qy("q-empty", "query=empty", "", nil)
	add(&letter{Name: "q-only-mark", Shape: "query=only-question-mark", Method: "GET", Path: "/u/" + fl("qmark"), Target: "/u/" + fl("qmark") + "?", Hdr: sh.base("qmark"), Want: map[string]string{"Params|id": fl("qmark"), "Query|q": ""}})
	add(&letter{Name: "q-fragment", Shape: "query=with-fragment", Method: "GET", Path: "/u/" + fl("frag"), Query: "q=" + fl("fr"), Target: "/u/" + fl("frag") + "?q=" + fl("fr") + "#" + fl("fragment"), Hdr: sh.base("frag"),
		Want: map[string]string{"Params|id": fl("frag"), "Query|q": fl("fr")}})
	qy("q-brackets", "query=bracket-keys", "q="+fl("bq")+"&tag[]="+fl("b1")+"&tag[]="+fl("b2")+"&f[name]="+fl("nested-q")+"&n=7", map[string]string{"Query|q": fl("bq")})
	qy("q-separators", "query=semicolon-and-doubled-ampersand", "q="+fl("s1;x=y")+"&&tag="+fl("s2")+"&=novalue-key&src="+fl("s3"), nil)

	// ---- path / params / routes / methods -------------------------------------------------
	pa := func(name, class, method, path string, want map[string]string) {
		add(&letter{Name: name, Shape: class, Method: method, Path: path, Query: "q=" + fl("pq"), Hdr: sh.base(name), Want: want})
	}
	pa("path-encoded-slash", "path=percent-encoded-slash-and-utf8", "GET", "/u/"+fl("a%2Fb%C3%A9")+"/"+fl("n%20m"), map[string]string{"Params|id": fl("a%2Fb%C3%A9"), "Params|name": fl("n%20m")})
	pa("path-upper-case", "path=upper-case-prefix", "GET", "/U/"+fl("Mixed-Case-Id")+"/"+fl("Name"), nil)
	pa("path-trailing-slash", "path=trailing-slash", "GET", "/u/"+fl("trail")+"/"+fl("slash")+"/", nil)
	pa("path-doubled-slash", "path=doubled-slash", "GET", "/u//"+fl("dbl")+"//"+fl("slash"), nil)
	pa("path-dot-segments", "path=dot-segments", "GET", "/u/"+fl("dots")+"/../"+fl("up")+"/./"+fl("here"), nil)
	pa("path-root", "path=root", "GET", "/", map[string]string{"Path|": "/"})
	pa("route-catch-all", "route=catch-all", "GET", "/"+fl("nowhere")+"/"+fl("in/particular.html"), map[string]string{"Params|*": fl("nowhere") + "/" + fl("in/particular.html")})
	pa("route-constraint", "route=constraint", "GET", "/c/"+ab("12345", "67890")+"/"+fl("constrained"), map[string]string{"Params|n": ab("12345", "67890"), "Params|s": fl("constrained")})
	pa("route-constraint-miss", "route=constraint-not-met", "GET", "/c/"+fl("nan")+"/"+fl("x"), map[string]string{"Params|n": ""})
	pa("route-dash-params", "route=dash-separated-params", "GET", "/d/"+fl("berlin")+"-"+fl("prague"), map[string]string{"Params|from": fl("berlin"), "Params|to": fl("prague")})
	pa("route-dot-params", "route=dot-separated-params", "GET", "/f/"+fl("report.final")+"."+fl("pdf"), nil)
	pa("route-two-wildcards", "route=two-wildcards", "GET", "/g/"+fl("left/part")+"/mid/"+fl("right/part/tail"), map[string]string{"Params|*1": fl("left/part"), "Params|*2": fl("right/part/tail")})
	pa("route-optional-absent", "route=optional-param-absent", "GET", "/u/"+fl("solo"), map[string]string{"Params|id": fl("solo"), "Params|name": ""})
	pa("route-wildcard-empty", "route=wildcard-empty", "GET", "/w/", map[string]string{"Params|*": ""})
	for _, m := range []string{"HEAD", "OPTIONS", "DELETE"} {
		pa("method-"+strings.ToLower(m), "method="+m, m, "/u/"+fl("m-"+strings.ToLower(m))+"/"+fl("x"), map[string]string{"Method|": m})
	}
	for _, m := range []string{"PUT", "PATCH"} {
		add(&letter{Name: "method-" + strings.ToLower(m), Shape: "method=" + m, Method: m, Path: "/u/" + fl("m-"+strings.ToLower(m)), Query: "q=" + fl("mq"), Hdr: sh.base("m"+strings.ToLower(m), "Content-Type", "application/json"),
			Body: []byte(sh.jsonDoc(strings.ToLower(m) + "-json-name")), Want: map[string]string{"Method|": m, "Bind.JSON|Name": fl(strings.ToLower(m) + "-json-name")}})
	}

	// ---- Range, negotiation, conditional headers -------------------------------------------
	rg := func(name, class, value string, want map[string]string) {
		get(name, class, "/u/"+fl(name), "q="+fl("rq"), sh.base(name, "Range", value), want)
	}
	rg("range-several", "range=several-ranges", ab("bytes=0-10, 20-30, -5, 990-", "bytes=1-11, 21-31, -6, 991-"), map[string]string{"Range.Type|": "bytes"})
	rg("range-suffix", "range=suffix", ab("bytes=-500", "bytes=-400"), map[string]string{"Range.Type|": "bytes"})
	rg("range-open-end", "range=open-end", ab("bytes=500-", "bytes=400-"), map[string]string{"Range.Type|": "bytes"})
	rg("range-malformed", "range=malformed", fl("bytes 0-10"), nil)
	rg("range-two-equals", "range=malformed-two-equal-signs", fl("bytes=0-1=2"), nil)
	rg("range-unsatisfiable", "range=unsatisfiable", ab("bytes=5000-6000", "bytes=7000-8000"), nil)
	rg("range-other-unit", "range=other-unit", ab("pages=1-2", "lines=3-4"), map[string]string{"Range.Type|": ab("pages", "lines")})
	get("neg-quoted-params", "negotiation=quoted-parameters", "/u/"+fl("neg"), "q="+fl("nq"),
		sh.base("neg", "Accept", `text/html;title="`+fl("a, b")+`";q=0.5, application/json;profile="`+fl(`x\"y`)+`", */*;q=0.1`, "Accept-Charset", "utf-8;q=0.9, iso-8859-1", "Accept-Encoding", "br;q=1.0, gzip;q=0.8, *;q=0.1", "Accept-Language", fl("en-gb")+";q=0.8, "+fl("de")),
		nil)
	get("cond-headers", "conditional=if-none-match-and-modified-since", "/u/"+fl("cond"), "q="+fl("cq"),
		sh.base("cond", "If-None-Match", `W/"`+fl("etag-one")+`", "`+fl("etag-two")+`"`, "If-Modified-Since", ab("Wed, 21 Oct 2015 07:28:00 GMT", "Thu, 22 Oct 2015 08:29:01 GMT"), "Cache-Control", fl("max-age=0")),
		nil)
	get("cond-no-cache", "conditional=cache-control-no-cache", "/u/"+fl("nocache"), "q="+fl("nc"), sh.base("nocache", "If-None-Match", "*", "Cache-Control", "no-cache", "X-Requested-With", ab("XMLHttpRequest", "xmlhttprequest")), nil)

	return sh.out
}

// addShapes appends the shape letters and their twins to the alphabet.
func addShapes() {
	for _, l := range alphabet {
		l.Twin = -1
	}
	a, b := shapeLetters(0), shapeLetters(1)
	if len(a) != len(b) {
		panic("shapes: variants differ in number")
	}
	base := len(alphabet)
	for i, l := range a {
		l.Twin = base + len(a) + i
		alphabet = append(alphabet, l)
	}
	for i, l := range b {
		l.Twin = base + i
		l.Shape = a[i].Shape
		alphabet = append(alphabet, l)
	}
	nShapes = len(a)
}

var nShapes int

// checkTwins: a twin has the byte lengths of its letter in every component, and other bytes.
func checkTwins() {
	seen := map[string]bool{}
	for i := nGeneral; i < siteBase+nSites; i++ {
		if i >= nGeneral+nShapes && i < siteBase {
			continue // the shape twins
		}
		a, b := alphabet[i], alphabet[a2b(i)]
		if seen[a.Name] {
			panic("shapes: duplicate name " + a.Name)
		}
		seen[a.Name] = true
		for _, k := range []string{"path", "query", "uri", "proto", "header", "cookie", "host", "body"} {
			if a.comp[k] != b.comp[k] {
				panic(fmt.Sprintf("shapes: %s and its twin differ in %s length (%d vs %d)", a.Name, k, a.comp[k], b.comp[k]))
			}
		}
		if len(a.raw) != len(b.raw) {
			panic(fmt.Sprintf("shapes: %s and its twin differ in wire length", a.Name))
		}
		if string(a.raw) == string(b.raw) {
			panic(fmt.Sprintf("shapes: %s and its twin are the same request", a.Name))
		}
	}
}

func a2b(i int) int { return alphabet[i].Twin }
