package main

import (
	"bytes"
	"compress/gzip"
	"fmt"
	"strings"

	"github.com/fxamacker/cbor/v2"
)

// letter is one request of the alphabet, kept as the exact bytes a client puts on the wire.
type letter struct {
	Name   string
	Method string
	Path   string // as sent (may be percent-encoded)
	Query  string
	Proto  string
	Hdr    [][2]string
	Body   []byte
	// Want anchors the differential oracle: hand-written values some accessors must return
	// for this letter under the "plain" option set (key = accessor|key).
	Want map[string]string

	// Request-shape letters (shapes.go): Shape names the class of request shape — the branch of an
	// accessor (or of fasthttp's parser underneath it) the request steers onto; "" for the general
	// alphabet. Target overrides the request-target (absolute-form URI), Chunked sends the body
	// with Transfer-Encoding: chunked in two chunks, Twin is the alphabet index of the letter with
	// the same shape and the same component lengths but other content (-1: none).
	Shape   string
	Target  string
	Chunked bool
	Twin    int
	// Closes: fasthttp closes the connection after this request (site letters, sites.go): it can only
	// be the last request on its connection.
	Closes bool

	raw  []byte
	comp map[string]int // byte length of each request component (for the clobber classification)
}

func (l *letter) build() {
	var b bytes.Buffer
	uri := l.Path
	if l.Query != "" {
		uri += "?" + l.Query
	}
	if l.Target != "" {
		uri = l.Target
	}
	fmt.Fprintf(&b, "%s %s %s\r\n", l.Method, uri, l.Proto)
	hlen, cookie, host := 0, 0, 0
	for _, h := range l.Hdr {
		fmt.Fprintf(&b, "%s: %s\r\n", h[0], h[1])
		hlen += len(h[0]) + len(h[1]) + 4
		switch h[0] {
		case "Cookie":
			cookie = len(h[1])
		case "Host":
			host = len(h[1])
		}
	}
	switch {
	case l.Chunked:
		b.WriteString("Transfer-Encoding: chunked\r\n\r\n")
		cut := len(l.Body) / 3
		for _, part := range [][]byte{l.Body[:cut], l.Body[cut:]} {
			if len(part) > 0 {
				fmt.Fprintf(&b, "%x\r\n%s\r\n", len(part), part)
			}
		}
		b.WriteString("0\r\n\r\n")
	case l.Body != nil:
		fmt.Fprintf(&b, "Content-Length: %d\r\n\r\n", len(l.Body))
		b.Write(l.Body)
	default:
		b.WriteString("\r\n")
	}
	l.raw = b.Bytes()
	l.comp = map[string]int{
		"path": len(l.Path), "query": len(l.Query), "uri": len(uri), "proto": len(l.Proto),
		"header": hlen, "cookie": cookie, "host": host, "body": len(l.Body),
	}
}

func gz(s string) []byte {
	var b bytes.Buffer
	w, _ := gzip.NewWriterLevel(&b, gzip.BestCompression)
	_, _ = w.Write([]byte(s))
	_ = w.Close()
	return b.Bytes()
}

// msgpack encoding of fiber's flash messages without control bytes (levels >= 0x21), so that
// fasthttp accepts the Cookie header (what fiber itself emits contains NUL bytes: C12's finding).
func flashCookie(msgs ...[4]string) string {
	str := func(s string) string {
		if len(s) > 31 {
			panic("flashCookie: fixstr only")
		}
		return string([]byte{0xa0 | byte(len(s))}) + s
	}
	var b strings.Builder
	b.WriteByte(0x90 | byte(len(msgs)))
	for _, m := range msgs {
		b.WriteByte(0x84)
		b.WriteString(str("key") + str(m[0]))
		b.WriteString(str("value") + str(m[1]))
		b.WriteString(str("level"))
		b.WriteByte(m[2][0]) // positive fixint: the character's code (>= 0x21, a legal header byte)
		b.WriteString(str("isOldInput"))
		if m[3] == "old" {
			b.WriteByte(0xc3)
		} else {
			b.WriteByte(0xc2)
		}
	}
	return b.String()
}

// flashCookieMin: messages that carry only some of the four fields (the decoder assigns what is
// present; the rest must read as zero: level 0, not an old input). fields: "key", "value", "old".
func flashCookieMin(msgs ...map[string]string) string {
	str := func(s string) string { return string([]byte{0xa0 | byte(len(s))}) + s }
	var b strings.Builder
	b.WriteByte(0x90 | byte(len(msgs)))
	for _, m := range msgs {
		b.WriteByte(0x80 | byte(len(m)))
		for _, f := range []string{"key", "value", "old"} {
			v, ok := m[f]
			switch {
			case !ok:
			case f == "old":
				b.WriteString(str("isOldInput"))
				b.WriteByte(0xc3)
			default:
				b.WriteString(str(f) + str(v))
			}
		}
	}
	return b.String()
}

type bodyDoc struct {
	Name  string   `json:"name" xml:"name" cbor:"name"`
	Tags  []string `json:"tags" xml:"tags" cbor:"tags"`
	Bytes []byte   `json:"bytes" xml:"bytes" cbor:"bytes"`
}

func mustCBOR(v any) []byte {
	b, err := cbor.Marshal(v)
	if err != nil {
		panic(err)
	}
	return b
}

const boundary = "----c06boundary7MA4YWxk"

func multipartBody() []byte {
	var b bytes.Buffer
	part := func(disp, ctype, val string) {
		b.WriteString("--" + boundary + "\r\nContent-Disposition: form-data; " + disp + "\r\n")
		if ctype != "" {
			b.WriteString("Content-Type: " + ctype + "\r\n")
		}
		b.WriteString("\r\n" + val + "\r\n")
	}
	part(`name="name"`, "", "multipart-name-value")
	part(`name="tags"`, "", "mp-tag-1")
	part(`name="tags"`, "", "mp-tag-2,mp-tag-3")
	part(`name="b"`, "", "77")
	part(`name="doc"; filename="upload-file-name.txt"`, "text/plain", "file-content-of-the-upload")
	b.WriteString("--" + boundary + "--\r\n")
	return b.Bytes()
}

// alphabet = the general letters (every one may stand at every position of a history), then the
// request-shape letters (first request of a shape history), then their twins (followers only).
var alphabet []*letter

var nGeneral int // number of general letters

func init() {
	common := func(host, custom, cookie string, more ...[2]string) [][2]string {
		h := [][2]string{{"Host", host}, {"X-Custom", custom}}
		if cookie != "" {
			h = append(h, [2]string{"Cookie", cookie})
		}
		return append(h, more...)
	}
	alphabet = []*letter{
		{Name: "get-short", Method: "GET", Path: "/u/ab", Query: "q=1", Proto: "HTTP/1.1",
			Hdr: common("a.io", "s", "sid=1"),
			Want: map[string]string{"Params|id": "ab", "Params|name": "", "Path|": "/u/ab", "OriginalURL|": "/u/ab?q=1", "Protocol|": "HTTP/1.1",
				"Query|q": "1", "Get|X-Custom": "s", "Cookies|sid": "1", "Host|": "a.io", "Route.Path|": "/u/:id/:name?", "Body|": "", "Scheme|": "http", "Method|": "GET"}},

		{Name: "get-first", Method: "GET", Path: "/u/first-value/alice", Query: "q=first-query&tag=t1&tag=t2,t3&n=17&b=70&b=71", Proto: "HTTP/1.1",
			Hdr: common("api.first.example.com:8080", "first-custom-value", "sid=cookie-first; theme=dark; l=c1,c2",
				[2]string{"X-Forwarded-For", "10.1.1.1, 10.1.1.2"}, [2]string{"X-Forwarded-Host", "fwd.first.example.org"},
				[2]string{"X-Forwarded-Proto", "https"}, [2]string{"Referer", "http://ref.first.example.com/page"},
				[2]string{"Range", "bytes=0-99"}, [2]string{"Accept", "text/html,application/json"},
				[2]string{"X-Requested-With", "XMLHttpRequest"}, [2]string{"If-None-Match", `"etag-first"`}),
			Want: map[string]string{"Params|id": "first-value", "Params|name": "alice", "Path|": "/u/first-value/alice", "Protocol|": "HTTP/1.1",
				"Query|q": "first-query", "Get|X-Custom": "first-custom-value", "Cookies|sid": "cookie-first", "Cookies|theme": "dark",
				"Host|": "fwd.first.example.org", "Hostname|": "fwd.first.example.org", "Scheme|": "https", "BaseURL|": "https://fwd.first.example.org",
				"IP|": "10.1.1.1, 10.1.1.2", "IPs|": "[8:10.1.1.1,8:10.1.1.2,]", "Range.Type|": "bytes", "Subdomains|": "[3:fwd,5:first,]",
				"Bind.Query|Q": "first-query", "Bind.Query|Tag": "[2:t1,5:t2,t3,]", "Bind.Header|XCustom": "first-custom-value", "Bind.Cookie|Sid": "cookie-first", "Bind.URI|ID": "first-value"}},

		// same component lengths as get-first, other content, HTTP/1.0 with keep-alive
		{Name: "get-second-http10", Method: "GET", Path: "/u/SECOND_VALU/ALICE", Query: "q=SECND-QUERY&tag=T1&tag=T2,T3&n=42&b=80&b=81", Proto: "HTTP/1.0",
			Hdr: common("API.SECND.EXAMPLE.COM:9090", "SECND-CUSTOM-VALUE", "sid=COOKIE-SECND; theme=LITE; l=C1,C2",
				[2]string{"X-Forwarded-For", "10.2.2.2, 10.2.2.3"}, [2]string{"X-Forwarded-Host", "FWD.SECND.EXAMPLE.ORG"},
				[2]string{"X-Forwarded-Proto", "wsss_"}, [2]string{"Referer", "http://REF.SECND.EXAMPLE.COM/PAGE"},
				[2]string{"Range", "items=5-9 "}, [2]string{"Accept", "text/yaml,application/json"},
				[2]string{"X-Requested-With", "xmlhttprequest"}, [2]string{"If-None-Match", `"ETAG-SECND"`},
				[2]string{"Connection", "keep-alive"}),
			Want: map[string]string{"Params|id": "SECOND_VALU", "Params|name": "ALICE", "Protocol|": "HTTP/1.0", "Query|q": "SECND-QUERY",
				"Host|": "FWD.SECND.EXAMPLE.ORG", "Scheme|": "wsss_", "Cookies|sid": "COOKIE-SECND", "Range.Type|": "items"}},

		{Name: "get-long-wildcard", Method: "GET", Path: "/w/a/very/long/wildcard/tail/that/outgrows/every/other/path/of/the/alphabet/by/far.txt",
			Query: "q=a-much-longer-query-value-than-all-the-others-have&tag=long-tag-1&tag=long-tag-2&tag=long-tag-3&extra=zzzzzzzzzzzzzzzzzzzzzzzzzzzzzzzzzzzz&n=123456789",
			Proto: "HTTP/1.1",
			Hdr: common("very.long.host.name.with.many.labels.example.co.uk:18080", "a-very-long-custom-header-value-that-needs-a-larger-buffer-than-the-rest",
				"sid=a-long-session-identifier-0123456789abcdef0123456789abcdef; theme=high-contrast-dark; l=lc1,lc2,lc3; other=thing",
				[2]string{"X-Forwarded-For", "192.168.100.100, 192.168.100.101, 2001:db8::1234:5678"},
				[2]string{"Referer", "https://referrer.long.example.com/a/long/referrer/path?with=query"},
				[2]string{"Accept", "text/html,application/xhtml+xml,application/xml;q=0.9,*/*;q=0.8"},
				[2]string{"Accept-Language", "en-GB,en;q=0.9,de;q=0.8"}, [2]string{"Accept-Encoding", "gzip, deflate, br"},
				[2]string{"X-Url-Scheme", "long-scheme-name"}),
			Want: map[string]string{"Params|*": "a/very/long/wildcard/tail/that/outgrows/every/other/path/of/the/alphabet/by/far.txt",
				"Route.Path|": "/w/*", "Scheme|": "long-scheme-name", "Host|": "very.long.host.name.with.many.labels.example.co.uk:18080",
				"Hostname|": "very.long.host.name.with.many.labels.example.co.uk"}},

		{Name: "get-plus", Method: "GET", Path: "/p/plus-part/two", Query: "q=pq&tag=p", Proto: "HTTP/1.1",
			Hdr: common("plus.example.net", "plus-custom", "sid=plus-sid",
				[2]string{"X-Forwarded-Ssl", "on"}, [2]string{"X-Forwarded-For", "garbage, 172.16.5.5"}),
			Want: map[string]string{"Params|+": "plus-part/two", "Route.Path|": "/p/+", "Scheme|": "https", "Query|q": "pq"}},

		{Name: "get-multi", Method: "GET", Path: "/m/alpha/rest/of/it", Query: "tag=m1&q=multi-q", Proto: "HTTP/1.1",
			Hdr:  common("m.example.com:81", "multi-custom", "theme=m; sid=multi"),
			Want: map[string]string{"Params|a": "alpha", "Params|*": "rest/of/it", "Route.Path|": "/m/:a/*"}},

		{Name: "post-form", Method: "POST", Path: "/u/form-user/bob", Query: "src=form", Proto: "HTTP/1.1",
			Hdr:  common("form.example.com", "form-custom", "sid=form-sid", [2]string{"Content-Type", "application/x-www-form-urlencoded"}),
			Body: []byte("name=form-name-one&tags=f1&tags=f2,f3&b=65&b=66&note=hello+world%21"),
			Want: map[string]string{"Params|id": "form-user", "Params|name": "bob", "FormValue|name": "form-name-one", "FormValue|note": "hello world!",
				"Body|": "name=form-name-one&tags=f1&tags=f2,f3&b=65&b=66&note=hello+world%21", "Bind.Form|Name": "form-name-one", "Bind.Form|Tags": "[2:f1,5:f2,f3,]", "Bind.Form|B": "AB", "Method|": "POST"}},

		// same lengths as post-form, other content, other route
		{Name: "post-form-b", Method: "POST", Path: "/p/FORM-USER/BOB", Query: "src=FORM", Proto: "HTTP/1.1",
			Hdr:  common("FORM.EXAMPLE.COM", "FORM-CUSTOM", "sid=FORM-SID", [2]string{"Content-Type", "application/x-www-form-urlencoded"}),
			Body: []byte("name=FORM-NAME-TWO&tags=F1&tags=F2,F3&b=75&b=76&note=HELLO+WORLD%3F"),
			Want: map[string]string{"Params|+": "FORM-USER/BOB", "FormValue|name": "FORM-NAME-TWO", "FormValue|note": "HELLO WORLD?", "Bind.Form|Name": "FORM-NAME-TWO"}},

		{Name: "post-multipart", Method: "POST", Path: "/w/upload/dir", Query: "", Proto: "HTTP/1.1",
			Hdr:  common("upload.example.com", "mp-custom", "", [2]string{"Content-Type", "multipart/form-data; boundary=" + boundary}),
			Body: multipartBody(),
			Want: map[string]string{"Params|*": "upload/dir", "FormValue|name": "multipart-name-value", "MultipartForm.Value|name": "[20:multipart-name-value,]",
				"FormFile.Filename|doc": "upload-file-name.txt", "Bind.Form|Name": "multipart-name-value"}},

		{Name: "post-json", Method: "POST", Path: "/u/json-user", Query: "q=jq", Proto: "HTTP/1.1",
			Hdr:  common("json.example.com", "json-custom", "sid=json-sid", [2]string{"Content-Type", "application/json"}),
			Body: []byte(`{"name":"json-name","tags":["j1","j2"],"bytes":"anNvbi1ieXRlcw=="}`),
			Want: map[string]string{"Params|id": "json-user", "Bind.JSON|Name": "json-name", "Bind.JSON|Bytes": "json-bytes", "Bind.JSON|Tags": "[2:j1,2:j2,]", "Bind.Body|Name": "json-name"}},

		{Name: "post-xml", Method: "POST", Path: "/m/xml/doc/1", Query: "", Proto: "HTTP/1.1",
			Hdr:  common("xml.example.com", "xml-custom", "sid=xml-sid", [2]string{"Content-Type", "application/xml"}),
			Body: []byte(`<bodyDoc><name>xml-name</name><tags>x1</tags><tags>x2</tags></bodyDoc>`),
			Want: map[string]string{"Params|a": "xml", "Params|*": "doc/1", "Bind.XML|Name": "xml-name", "Bind.Body|Name": "xml-name"}},

		{Name: "post-cbor", Method: "POST", Path: "/p/cbor", Query: "q=cq", Proto: "HTTP/1.1",
			Hdr:  common("cbor.example.com", "cbor-custom", "sid=cbor-sid", [2]string{"Content-Type", "application/cbor"}),
			Body: mustCBOR(bodyDoc{Name: "cbor-name", Tags: []string{"c1", "c2"}, Bytes: []byte("cbor-bytes")}),
			Want: map[string]string{"Params|+": "cbor", "Bind.CBOR|Name": "cbor-name", "Bind.CBOR|Bytes": "cbor-bytes", "Bind.Body|Name": "cbor-name"}},

		{Name: "post-gzip-json", Method: "POST", Path: "/u/gz/zed", Query: "", Proto: "HTTP/1.1",
			Hdr:  common("gz.example.com", "gz-custom", "sid=gz-sid", [2]string{"Content-Type", "application/json"}, [2]string{"Content-Encoding", "gzip"}),
			Body: gz(`{"name":"gzip-json-name-gzip-json-name","tags":["g1","g2","g1","g2","g1","g2"],"bytes":"Z3ppcC1ieXRlcw=="}`),
			Want: map[string]string{"Params|id": "gz", "Params|name": "zed",
				"Body|":          `{"name":"gzip-json-name-gzip-json-name","tags":["g1","g2","g1","g2","g1","g2"],"bytes":"Z3ppcC1ieXRlcw=="}`,
				"Bind.JSON|Name": "gzip-json-name-gzip-json-name", "Bind.JSON|Bytes": "gzip-bytes"}},

		{Name: "get-flash", Method: "GET", Path: "/s", Query: "q=flash", Proto: "HTTP/1.1",
			Hdr: common("flash.example.com", "flash-custom",
				"fiber_flash="+flashCookie([4]string{"status", "saved-ok", "!", "msg"}, [4]string{"email", "old@example.com", "#", "old"}, [4]string{"warn", "be-careful", "$", "msg"})+"; sid=flash-sid"),
			Want: map[string]string{"Route.Path|": "/s", "Redirect.Messages|0.Key": "status", "Redirect.Messages|0.Value": "saved-ok", "Redirect.Messages|1.Value": "be-careful",
				"Redirect.OldInputs|0.Key": "email", "Redirect.OldInputs|0.Value": "old@example.com", "Cookies|sid": "flash-sid"}},

		{Name: "get-escaped", Method: "GET", Path: "/u/%41%20b/c%2Bd", Query: "q=a%20b+c&tag=%C3%BC", Proto: "HTTP/1.1",
			Hdr:  common("esc.example.com", "esc custom", "sid=esc%20sid"),
			Want: map[string]string{"Params|id": "%41%20b", "Params|name": "c%2Bd", "Path|": "/u/%41%20b/c%2Bd", "Query|q": "a b c", "Query|tag": "ü", "Cookies|sid": "esc%20sid"}},
	}
	nGeneral = len(alphabet)
	addShapes()
	addSites()
	for _, l := range alphabet {
		l.build()
	}
	checkTwins()
	// the equal-length pairs must really be equal-length
	for _, p := range [][2]string{{"get-first", "get-second-http10"}, {"post-form", "post-form-b"}} {
		a, b := letterByName(p[0]), letterByName(p[1])
		for _, k := range []string{"path", "query", "uri", "proto", "cookie", "host", "body"} {
			if a.comp[k] != b.comp[k] {
				panic(fmt.Sprintf("alphabet: %s and %s differ in %s length (%d vs %d)", p[0], p[1], k, a.comp[k], b.comp[k]))
			}
		}
	}
}

func letterByName(n string) *letter {
	for _, l := range alphabet {
		if l.Name == n {
			return l
		}
	}
	panic("no letter " + n)
}
